//go:build verif

// C09 — Reclaimed (batch/mid) capacity is never over-promised (controller part).
// Clause under test: "stale node metrics withdraw the resource instead of freezing an old value", observed where it
// matters — on the Node object — by driving the real NodeResourceReconciler.Reconcile against a controller-runtime fake
// client over a short generated history: NodeMetric absent from the start / never reported / fresh / stale / deleted /
// re-created, pods coming and going, controller clock advancing. The model only tracks the state of the NodeMetric.
//
// The batch and mid plugins read the wall clock for the degrade decision (midresource's clock cannot be injected from
// this package), so update times are placed relative to time.Now(): fresh = at most 2 minutes old with a degrade
// window of >= 30 minutes, stale = at least one hour beyond the window. No verdict depends on scheduling jitter.
package noderesource

import (
	"context"
	"fmt"
	"io"
	"testing"
	"time"

	corev1 "k8s.io/api/core/v1"
	"k8s.io/apimachinery/pkg/api/resource"
	metav1 "k8s.io/apimachinery/pkg/apis/meta/v1"
	"k8s.io/apimachinery/pkg/runtime"
	"k8s.io/apimachinery/pkg/types"
	clientgoscheme "k8s.io/client-go/kubernetes/scheme"
	"k8s.io/client-go/tools/record"
	"k8s.io/client-go/util/workqueue"
	"k8s.io/klog/v2"
	fakeclock "k8s.io/utils/clock/testing"
	"pgregory.net/rapid"
	ctrl "sigs.k8s.io/controller-runtime"
	"sigs.k8s.io/controller-runtime/pkg/builder"
	ctrlclient "sigs.k8s.io/controller-runtime/pkg/client"
	"sigs.k8s.io/controller-runtime/pkg/client/fake"
	"sigs.k8s.io/controller-runtime/pkg/event"
	"sigs.k8s.io/controller-runtime/pkg/reconcile"

	"github.com/koordinator-sh/koordinator/apis/configuration"
	"github.com/koordinator-sh/koordinator/apis/extension"
	schedulingv1alpha1 "github.com/koordinator-sh/koordinator/apis/scheduling/v1alpha1"
	slov1alpha1 "github.com/koordinator-sh/koordinator/apis/slo/v1alpha1"
	"github.com/koordinator-sh/koordinator/pkg/slo-controller/noderesource/framework"
	"github.com/koordinator-sh/koordinator/pkg/util/testutil"
	"github.com/koordinator-sh/koordinator/pkg/verifkit/vk"
)

const c09rNode = "c09-node"

var c09rAmounts = []corev1.ResourceName{extension.BatchCPU, extension.BatchMemory, extension.MidCPU, extension.MidMemory}

var c09rScheme = func() *runtime.Scheme {
	s := runtime.NewScheme()
	_ = clientgoscheme.AddToScheme(s)
	_ = slov1alpha1.AddToScheme(s)
	_ = schedulingv1alpha1.AddToScheme(s)
	return s
}()

func c09rRL(cpuMilli, memBytes int64) corev1.ResourceList {
	return corev1.ResourceList{
		corev1.ResourceCPU:    *resource.NewMilliQuantity(cpuMilli, resource.DecimalSI),
		corev1.ResourceMemory: *resource.NewQuantity(memBytes, resource.BinarySI),
	}
}

// amounts advertised by the node (allocatable or capacity), rendered deterministically
func c09rPublished(node *corev1.Node) []string {
	var out []string
	for _, rn := range c09rAmounts {
		if q, ok := node.Status.Allocatable[rn]; ok {
			out = append(out, fmt.Sprintf("allocatable[%s]=%s", rn, q.String()))
		}
		if q, ok := node.Status.Capacity[rn]; ok {
			out = append(out, fmt.Sprintf("capacity[%s]=%s", rn, q.String()))
		}
	}
	return out
}

func TestVerifC09ReconcileHistory(t *testing.T) {
	klog.LogToStderr(false)
	klog.SetOutput(io.Discard)
	rec := vk.New(t, "C09", "reconcileHistory")
	queue := workqueue.NewTypedRateLimitingQueue[reconcile.Request](workqueue.DefaultTypedControllerRateLimiter[reconcile.Request]())
	defer queue.ShutDown()
	drain := func() int {
		n := 0
		for queue.Len() > 0 {
			it, _ := queue.Get()
			queue.Forget(it)
			queue.Done(it)
			n++
		}
		return n
	}
	rapid.Check(t, func(t *rapid.T) {
		c := rec.Begin()
		defer c.End()
		ctx := context.Background()
		drain()

		// ---- static part of the case
		capCPU := 1000 * rapid.SampledFrom([]int64{16, 8, 32, 64, 4, 96, 128}).Draw(t, "capCores")
		capMem := (int64(1) << 30) * rapid.Int64Range(8, 1024).Draw(t, "capGiB")
		degradeMin := rapid.Int64Range(30, 240).Draw(t, "degradeMin")
		st := configuration.ColocationStrategy{}
		enable := true
		st.Enable = &enable
		thrCPU, thrMem := rapid.Int64Range(50, 100).Draw(t, "thrCPU"), rapid.Int64Range(50, 100).Draw(t, "thrMem")
		upd := rapid.SampledFrom([]int64{300, 1, 3600}).Draw(t, "updateTimeThresholdSeconds")
		diff := rapid.SampledFrom([]float64{0.1, 0.001, 0.5, 1}).Draw(t, "resourceDiffThreshold")
		st.CPUReclaimThresholdPercent, st.MemoryReclaimThresholdPercent = &thrCPU, &thrMem
		st.DegradeTimeMinutes, st.UpdateTimeThresholdSeconds, st.ResourceDiffThreshold = &degradeMin, &upd, &diff
		if pol := rapid.SampledFrom([]string{"", "usage", "maxUsageRequest"}).Draw(t, "cpuPolicy"); pol != "" {
			p := configuration.CalculatePolicy(pol)
			st.CPUCalculatePolicy = &p
		}
		if pol := rapid.SampledFrom([]string{"", "usage", "request", "maxUsageRequest"}).Draw(t, "memPolicy"); pol != "" {
			p := configuration.CalculatePolicy(pol)
			st.MemoryCalculatePolicy = &p
		}
		midStatic := rapid.Bool().Draw(t, "midStatic")
		if midStatic { // a static mid share makes mid amounts non-zero without a prod-reclaimable prediction
			m := configuration.MidReclaimModeStatic
			st.MidReclaimMode = &m
			pc, pm := rapid.Int64Range(0, 40).Draw(t, "midStaticCPU"), rapid.Int64Range(0, 40).Draw(t, "midStaticMem")
			st.MidStaticCPUReservedPercent, st.MidStaticMemoryReservedPercent = &pc, &pm
		} else if rapid.Bool().Draw(t, "midUnallocated") {
			u := rapid.Int64Range(0, 100).Draw(t, "midUnallocatedPercent")
			st.MidUnallocatedPercent = &u
		}

		cl := fake.NewClientBuilder().WithScheme(c09rScheme).
			WithIndex(&corev1.Pod{}, "spec.nodeName", func(obj ctrlclient.Object) []string {
				return []string{obj.(*corev1.Pod).Spec.NodeName}
			}).Build()
		ctlClock := fakeclock.NewFakeClock(time.Date(2024, 5, 17, 12, 0, 0, 0, time.UTC)) // only used for the sync-interval bookkeeping
		r := &NodeResourceReconciler{
			Client:          cl,
			cfgCache:        &FakeCfgCache{available: true, cfg: configuration.ColocationCfg{ColocationStrategy: st}},
			Recorder:        &record.FakeRecorder{},
			NodeSyncContext: framework.NewSyncContext(),
			Clock:           ctlClock,
		}
		opt := framework.NewOption().WithClient(cl).WithScheme(c09rScheme).WithControllerBuilder(builder.ControllerManagedBy(&testutil.FakeManager{}))
		framework.RunSetupExtenders(opt) // hands the client to the batch plugin, as SetupWithManager does
		handler := &EnqueueRequestForNodeMetric{syncContext: r.NodeSyncContext}

		var hist []string
		node := &corev1.Node{ObjectMeta: metav1.ObjectMeta{Name: c09rNode}}
		node.Status.Capacity = c09rRL(capCPU, capMem)
		node.Status.Allocatable = c09rRL(capCPU, capMem)
		// the node may still carry amounts published by an earlier controller incarnation
		preexisting := rapid.Bool().Draw(t, "preexistingAmounts")
		if preexisting {
			old := corev1.ResourceList{
				extension.BatchCPU:    *resource.NewQuantity(rapid.Int64Range(1, capCPU).Draw(t, "oldBatchCPU"), resource.DecimalSI),
				extension.BatchMemory: *resource.NewQuantity(rapid.Int64Range(1, capMem).Draw(t, "oldBatchMem"), resource.BinarySI),
			}
			if rapid.Bool().Draw(t, "oldMid") {
				old[extension.MidCPU] = *resource.NewQuantity(rapid.Int64Range(1, capCPU).Draw(t, "oldMidCPU"), resource.DecimalSI)
				old[extension.MidMemory] = *resource.NewQuantity(rapid.Int64Range(1, capMem).Draw(t, "oldMidMem"), resource.BinarySI)
			}
			for _, rn := range c09rAmounts {
				if q, ok := old[rn]; ok {
					node.Status.Capacity[rn], node.Status.Allocatable[rn] = q.DeepCopy(), q.DeepCopy()
				}
			}
			hist = append(hist, fmt.Sprintf("node starts with %v", c09rPublished(node)))
		}
		if err := cl.Create(ctx, node); err != nil {
			t.Fatalf("harness: create node: %v", err)
		}

		// ---- model: state of the NodeMetric object
		state := "absent" // absent | never-reported | stale | fresh
		everDeleted, recreated := false, false
		sawPublished, sawWithdrawal := false, false
		shapes := map[string]bool{}
		pods := 0

		metricStatus := func(kind string) slov1alpha1.NodeMetricStatus {
			if kind == "never-reported" {
				return slov1alpha1.NodeMetricStatus{}
			}
			age := time.Duration(rapid.Int64Range(0, 120).Draw(t, "ageSeconds")) * time.Second
			if kind == "stale" {
				age = time.Duration(degradeMin)*time.Minute + time.Duration(rapid.Int64Range(3600, 72*3600).Draw(t, "beyondSeconds"))*time.Second
			}
			s := slov1alpha1.NodeMetricStatus{UpdateTime: &metav1.Time{Time: time.Now().Add(-age).Truncate(time.Second)}}
			sys := c09rRL(rapid.Int64Range(0, capCPU/4).Draw(t, "sysCPU"), rapid.Int64Range(0, capMem/4).Draw(t, "sysMem"))
			use := c09rRL(rapid.Int64Range(0, capCPU/2).Draw(t, "nodeUseCPU"), rapid.Int64Range(0, capMem/2).Draw(t, "nodeUseMem"))
			s.NodeMetric = &slov1alpha1.NodeMetricInfo{SystemUsage: slov1alpha1.ResourceMap{ResourceList: sys}, NodeUsage: slov1alpha1.ResourceMap{ResourceList: use}}
			if rapid.Bool().Draw(t, "prodReclaimable") {
				s.ProdReclaimableMetric = &slov1alpha1.ReclaimableMetric{Resource: slov1alpha1.ResourceMap{
					ResourceList: c09rRL(rapid.Int64Range(0, capCPU/4).Draw(t, "reclaimCPU"), rapid.Int64Range(0, capMem/4).Draw(t, "reclaimMem"))}}
			}
			return s
		}
		setMetric := func(kind string) {
			nm := &slov1alpha1.NodeMetric{}
			err := cl.Get(ctx, types.NamespacedName{Name: c09rNode}, nm)
			if err != nil { // absent: create
				nm = &slov1alpha1.NodeMetric{ObjectMeta: metav1.ObjectMeta{Name: c09rNode}, Status: metricStatus(kind)}
				if err := cl.Create(ctx, nm); err != nil {
					t.Fatalf("harness: create NodeMetric: %v", err)
				}
				if everDeleted {
					recreated = true
				}
				hist = append(hist, "NodeMetric created: "+kind)
			} else {
				nm.Status = metricStatus(kind)
				if err := cl.Update(ctx, nm); err != nil {
					t.Fatalf("harness: update NodeMetric: %v", err)
				}
				hist = append(hist, "NodeMetric updated: "+kind)
			}
			state = kind
		}

		reconcileAndCheck := func() bool {
			before := &corev1.Node{}
			if err := cl.Get(ctx, types.NamespacedName{Name: c09rNode}, before); err != nil {
				t.Fatalf("harness: get node: %v", err)
			}
			had := c09rPublished(before)
			res, err := r.Reconcile(ctx, ctrl.Request{NamespacedName: types.NamespacedName{Name: c09rNode}})
			after := &corev1.Node{}
			if e := cl.Get(ctx, types.NamespacedName{Name: c09rNode}, after); e != nil {
				t.Fatalf("harness: get node: %v", e)
			}
			got := c09rPublished(after)
			hist = append(hist, fmt.Sprintf("reconcile (NodeMetric %s) -> err=%v requeue=%v node advertises %v", state, err, res.Requeue, got))
			if err != nil || res.Requeue {
				c.Class("reconcile-error-or-requeue(not asserted)")
				return false
			}
			if state == "fresh" {
				if len(got) > 0 {
					sawPublished = true
				}
				return false
			}
			// no usable node metrics: nothing may stay advertised
			if len(got) > 0 {
				return c.Violation(t, "reconcile:published-amount-not-withdrawn:node-metric-"+state,
					"NodeMetric is %s, the node was reconciled without error, but it still advertises %v (before this reconcile: %v)\nstrategy: degradeMinutes=%d updateTimeThresholdSeconds=%d resourceDiffThreshold=%v midStatic=%v\nhistory:\n  %s",
					state, got, had, degradeMin, upd, diff, midStatic, c09rJoin(hist))
			}
			if len(had) > 0 {
				sawWithdrawal = true
				shape := "withdrawn:node-metric-" + state
				if state == "absent" {
					if everDeleted {
						shape = "withdrawn:node-metric-deleted-after-publish"
					} else {
						shape = "withdrawn:node-metric-absent-from-start"
					}
				}
				shapes[shape] = true
			}
			return false
		}

		// ---- initial NodeMetric
		switch init := rapid.SampledFrom([]string{"fresh", "fresh", "absent", "absent", "stale", "never-reported"}).Draw(t, "initialNodeMetric"); init {
		case "absent":
			hist = append(hist, "no NodeMetric")
		default:
			setMetric(init)
		}
		if reconcileAndCheck() {
			return
		}

		// ---- history
		steps := rapid.IntRange(1, 6).Draw(t, "steps")
		for i := 0; i < steps; i++ {
			ops := []string{"metric-fresh", "metric-fresh", "metric-delete", "metric-delete", "metric-stale", "node-heartbeat", "advance-clock", "pod-add"}
			if pods > 0 {
				ops = append(ops, "pod-remove")
			}
			if state == "absent" {
				ops = append(ops, "metric-never-reported")
			}
			switch op := rapid.SampledFrom(ops).Draw(t, "op"); op {
			case "metric-fresh":
				setMetric("fresh")
			case "metric-stale":
				setMetric("stale")
			case "metric-never-reported":
				setMetric("never-reported")
			case "metric-delete":
				nm := &slov1alpha1.NodeMetric{}
				if err := cl.Get(ctx, types.NamespacedName{Name: c09rNode}, nm); err != nil {
					hist = append(hist, "NodeMetric delete: already absent")
					break
				}
				if err := cl.Delete(ctx, nm); err != nil {
					t.Fatalf("harness: delete NodeMetric: %v", err)
				}
				// the controller's own delete handler: cleans the sync context and enqueues the node
				handler.Delete(ctx, event.DeleteEvent{Object: nm}, queue)
				c.ClassIf(drain() > 0, "delete-event-enqueued-node")
				state, everDeleted = "absent", true
				hist = append(hist, "NodeMetric deleted")
			case "node-heartbeat":
				hist = append(hist, "node heartbeat")
			case "advance-clock":
				d := time.Duration(rapid.SampledFrom([]int64{1, 30, 301, 3601, 86400}).Draw(t, "advanceSeconds")) * time.Second
				ctlClock.Step(d)
				hist = append(hist, fmt.Sprintf("controller clock +%s", d))
			case "pod-add":
				pod := &corev1.Pod{ObjectMeta: metav1.ObjectMeta{Name: fmt.Sprintf("p%d", i), Namespace: "ns",
					Labels: map[string]string{extension.LabelPodQoS: string(extension.QoSLS), extension.LabelPodPriorityClass: string(extension.PriorityProd)}}}
				pod.Spec.NodeName = c09rNode
				pod.Spec.Containers = []corev1.Container{{Name: "c", Resources: corev1.ResourceRequirements{
					Requests: c09rRL(rapid.Int64Range(0, capCPU/4).Draw(t, "podCPU"), rapid.Int64Range(0, capMem/4).Draw(t, "podMem"))}}}
				pod.Status.Phase = corev1.PodRunning
				if err := cl.Create(ctx, pod); err != nil {
					t.Fatalf("harness: create pod: %v", err)
				}
				pods++
				hist = append(hist, "pod added: "+pod.Name)
			case "pod-remove":
				pl := &corev1.PodList{}
				if err := cl.List(ctx, pl); err != nil || len(pl.Items) == 0 {
					t.Fatalf("harness: list pods: %v (%d)", err, len(pl.Items))
				}
				victim := pl.Items[0]
				for _, p := range pl.Items {
					if p.Name < victim.Name {
						victim = p
					}
				}
				if err := cl.Delete(ctx, &victim); err != nil {
					t.Fatalf("harness: delete pod: %v", err)
				}
				pods--
				hist = append(hist, "pod removed: "+victim.Name)
			}
			if reconcileAndCheck() {
				return
			}
		}

		c.ClassIf(preexisting, "node-started-with-old-amounts")
		c.ClassIf(sawPublished, "amounts-published-with-fresh-metrics")
		c.ClassIf(everDeleted, "node-metric-deleted")
		c.ClassIf(recreated, "node-metric-recreated-after-delete")
		c.ClassIf(pods > 0, "with-pods")
		for _, k := range vk.SortedKeys(shapes) {
			c.Class(k)
		}
		if sawWithdrawal {
			c.NonTrivial(hist)
		}
		if c.WantSample() {
			c.Sample(map[string]any{"history": hist, "degradeMinutes": degradeMin, "updateTimeThresholdSeconds": upd, "resourceDiffThreshold": diff})
		}
	})
}

func c09rJoin(h []string) string {
	s := ""
	for i, l := range h {
		if i > 0 {
			s += "\n  "
		}
		s += l
	}
	return s
}
