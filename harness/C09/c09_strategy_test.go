//go:build verif

// C09 — strategy layers. The safety margin, the percentage cap and the policy in the statement are the ones configured
// for the node. The controller resolves them with sloconfig.GetNodeColocationStrategy (an anchor file of the property):
// cluster strategy < first node-pool config whose selector matches the node < node annotation
// node.koordinator.sh/colocation-strategy < ratio labels. This test combines the layers on the same node and checks the
// published amounts against the bound computed from an independent fold of the layers.
package batchresource

import (
	"fmt"
	"strings"
	"testing"
	"time"

	corev1 "k8s.io/api/core/v1"
	metav1 "k8s.io/apimachinery/pkg/apis/meta/v1"
	"pgregory.net/rapid"

	"github.com/koordinator-sh/koordinator/apis/configuration"
	"github.com/koordinator-sh/koordinator/apis/extension"
	"github.com/koordinator-sh/koordinator/pkg/verifkit/vk"
)

// c09Layer is a partial strategy: only the set fields override the layer below (documented merge: a field that is
// absent in the override keeps the value of the base).
type c09Layer struct {
	Name     string
	Selector map[string]string // node-pool config: matchLabels (empty = matches every node); unused for the annotation
	Thr      [2]int64          // cpu/memory reclaim threshold percent, -1 = not set
	PctCap   [2]int64          // batch cpu/memory threshold percent, -1 = not set
	Policy   [2]string         // "" = not set
	Junk     bool              // annotation only: not JSON, documented to be ignored
}

func (l *c09Layer) empty() bool {
	return l.Thr[0] < 0 && l.Thr[1] < 0 && l.PctCap[0] < 0 && l.PctCap[1] < 0 && l.Policy[0] == "" && l.Policy[1] == ""
}

func (l *c09Layer) matches(nodeLabels map[string]string) bool {
	for k, v := range l.Selector {
		if nodeLabels[k] != v {
			return false
		}
	}
	return true
}

// json renders the partial strategy as it is written into the annotation
func (l *c09Layer) json() string {
	if l.Junk {
		return "{cpuReclaimThresholdPercent: 10"
	}
	var f []string
	names := [2][3]string{{"cpuReclaimThresholdPercent", "batchCPUThresholdPercent", "cpuCalculatePolicy"},
		{"memoryReclaimThresholdPercent", "batchMemoryThresholdPercent", "memoryCalculatePolicy"}}
	for r := 0; r < 2; r++ {
		if l.Thr[r] >= 0 {
			f = append(f, fmt.Sprintf("%q:%d", names[r][0], l.Thr[r]))
		}
		if l.PctCap[r] >= 0 {
			f = append(f, fmt.Sprintf("%q:%d", names[r][1], l.PctCap[r]))
		}
		if l.Policy[r] != "" {
			f = append(f, fmt.Sprintf("%q:%q", names[r][2], l.Policy[r]))
		}
	}
	return "{" + strings.Join(f, ",") + "}"
}

func (l *c09Layer) strategy() configuration.ColocationStrategy {
	st := configuration.ColocationStrategy{}
	if l.Thr[0] >= 0 {
		v := l.Thr[0]
		st.CPUReclaimThresholdPercent = &v
	}
	if l.Thr[1] >= 0 {
		v := l.Thr[1]
		st.MemoryReclaimThresholdPercent = &v
	}
	if l.PctCap[0] >= 0 {
		v := l.PctCap[0]
		st.BatchCPUThresholdPercent = &v
	}
	if l.PctCap[1] >= 0 {
		v := l.PctCap[1]
		st.BatchMemoryThresholdPercent = &v
	}
	if l.Policy[0] != "" {
		p := configuration.CalculatePolicy(l.Policy[0])
		st.CPUCalculatePolicy = &p
	}
	if l.Policy[1] != "" {
		p := configuration.CalculatePolicy(l.Policy[1])
		st.MemoryCalculatePolicy = &p
	}
	return st
}

// addLayers puts the node-pool configs into the cluster configuration and the pool labels / annotation onto the node.
func (cs *c09Case) addLayers(cfg *configuration.ColocationCfg, node *corev1.Node) {
	for _, k := range vk.SortedKeys(cs.PoolLabels) {
		if node.Labels == nil {
			node.Labels = map[string]string{}
		}
		node.Labels[k] = cs.PoolLabels[k]
	}
	for i := range cs.NodeCfgs {
		l := &cs.NodeCfgs[i]
		sel := map[string]string{}
		for k, v := range l.Selector {
			sel[k] = v
		}
		cfg.NodeConfigs = append(cfg.NodeConfigs, configuration.NodeColocationCfg{
			NodeCfgProfile:     configuration.NodeCfgProfile{Name: l.Name, NodeSelector: &metav1.LabelSelector{MatchLabels: sel}},
			ColocationStrategy: l.strategy(),
		})
	}
	if cs.Anno != nil {
		if node.Annotations == nil {
			node.Annotations = map[string]string{}
		}
		node.Annotations[extension.AnnotationNodeColocationStrategy] = cs.Anno.json()
	}
}

// matching returns the index of the node-pool config that applies (the first one whose selector matches), or -1.
func (cs *c09Case) matching() int {
	for i := range cs.NodeCfgs {
		if cs.NodeCfgs[i].matches(cs.PoolLabels) {
			return i
		}
	}
	return -1
}

// effective folds the layers into a plain case (the ratio labels stay and are applied by thr()).
func (cs *c09Case) effective() *c09Case {
	e := cs.clone()
	apply := func(l *c09Layer) {
		for r := 0; r < 2; r++ {
			if l.Thr[r] >= 0 {
				e.Thr[r] = l.Thr[r]
			}
			if l.PctCap[r] >= 0 {
				e.PctCap[r] = l.PctCap[r]
			}
			if l.Policy[r] != "" {
				e.Policy[r] = l.Policy[r]
			}
		}
	}
	if i := cs.matching(); i >= 0 {
		apply(&cs.NodeCfgs[i])
	}
	if cs.Anno != nil && !cs.Anno.Junk {
		apply(cs.Anno)
	}
	e.NodeCfgs, e.Anno, e.PoolLabels = nil, nil, nil
	return e
}

func c09GenLayer(t *rapid.T, label string) c09Layer {
	l := c09Layer{Thr: [2]int64{-1, -1}, PctCap: [2]int64{-1, -1}}
	for r := 0; r < 2; r++ {
		if rapid.IntRange(0, 2).Draw(t, label+"HasThr") > 0 {
			l.Thr[r] = c09GenThr(t, label+"Thr"+c09ResName[r])
		}
		if rapid.IntRange(0, 3).Draw(t, label+"HasPctCap") == 0 {
			l.PctCap[r] = c09GenPct(t, label+"PctCap"+c09ResName[r])
		}
		if rapid.IntRange(0, 3).Draw(t, label+"HasPolicy") == 0 {
			l.Policy[r] = rapid.SampledFrom(c09Policies[r][1:]).Draw(t, label+"Policy"+c09ResName[r])
		}
	}
	if l.empty() { // an empty node config is invalid (IsNodeColocationCfgValid); an empty annotation is pointless
		l.Thr[0] = c09GenThr(t, label+"ThrForced")
	}
	return l
}

func TestVerifC09BatchStrategyLayers(t *testing.T) {
	c09Quiet()
	rec := vk.New(t, "C09", "batchStrategyLayers")
	rapid.Check(t, func(t *rapid.T) {
		c := rec.Begin()
		defer c.End()
		cs := c09GenCase(t)
		cs.ViaConfig = true
		for r := 0; r < 2; r++ {
			if !cs.Label[r].Set && rapid.Bool().Draw(t, "addLabel") {
				cs.Label[r] = c09GenLabel(t, "layerLabel"+c09ResName[r])
			}
		}
		// the node's pool labels and the node-pool configs of the cluster configuration
		cs.PoolLabels = map[string]string{"pool": rapid.SampledFrom([]string{"a", "b"}).Draw(t, "pool")}
		if rapid.Bool().Draw(t, "hasTier") {
			cs.PoolLabels["tier"] = rapid.SampledFrom([]string{"x", "y"}).Draw(t, "tier")
		}
		n := rapid.SampledFrom([]int{1, 1, 2, 0, 3}).Draw(t, "nodeConfigs")
		for i := 0; i < n; i++ {
			l := c09GenLayer(t, "nodeCfg")
			l.Name = fmt.Sprintf("cfg%d", i)
			switch rapid.IntRange(0, 5).Draw(t, "selector") {
			case 0, 1, 2:
				l.Selector = map[string]string{"pool": rapid.SampledFrom([]string{"a", "b"}).Draw(t, "selPool")}
			case 3:
				l.Selector = map[string]string{"pool": cs.PoolLabels["pool"]}
			case 4:
				l.Selector = map[string]string{"pool": cs.PoolLabels["pool"], "tier": rapid.SampledFrom([]string{"x", "y"}).Draw(t, "selTier")}
			default:
				l.Selector = map[string]string{} // matches every node
			}
			cs.NodeCfgs = append(cs.NodeCfgs, l)
		}
		switch rapid.IntRange(0, 9).Draw(t, "annotation") {
		case 0, 1, 2, 3:
		case 4:
			cs.Anno = &c09Layer{Junk: true, Thr: [2]int64{-1, -1}, PctCap: [2]int64{-1, -1}}
		default:
			l := c09GenLayer(t, "anno")
			cs.Anno = &l
		}

		o := cs.build(&metav1.Time{Time: c09Now.Add(-30 * time.Second)})
		restore := c09Env(o.nrt)
		defer restore()
		pub, err := c09Run(cs, o)
		if err != nil {
			c.Violation(t, "calculate:error-or-malformed", "%v\ncase=%s", err, cs)
			return
		}
		if pub.reset {
			c.Class("reset-on-fresh-metrics(not asserted)")
			return
		}
		e := cs.effective()
		m := cs.matching()
		validLabel := (cs.Label[0].Set && cs.Label[0].Valid) || (cs.Label[1].Set && cs.Label[1].Valid)
		anno := cs.Anno != nil && !cs.Anno.Junk
		nMatch := 0
		for i := range cs.NodeCfgs {
			if cs.NodeCfgs[i].matches(cs.PoolLabels) {
				nMatch++
			}
		}
		c.ClassIf(m >= 0, "node-config-matches")
		c.ClassIf(m < 0 && len(cs.NodeCfgs) > 0, "node-configs-none-matches")
		c.ClassIf(m > 0, "matching-config-is-not-the-first-entry")
		c.ClassIf(nMatch > 1, "several-node-configs-match(first-wins)")
		c.ClassIf(m >= 0 && validLabel, "node-config+ratio-label")
		c.ClassIf(m >= 0 && anno, "node-config+annotation")
		c.ClassIf(m >= 0 && anno && validLabel, "node-config+annotation+ratio-label")
		c.ClassIf(m < 0 && anno, "annotation-without-node-config")
		c.ClassIf(cs.Anno != nil && cs.Anno.Junk, "annotation-junk(ignored)")
		c.ClassIf(m < 0 && !anno && !validLabel, "cluster-strategy-only")
		// does a per-node override tighten what the node-pool config alone would allow?
		tightens := false
		if m >= 0 {
			pool := cs.clone()
			pool.Anno = nil
			pool.Label = [2]c09Label{}
			pe := pool.effective()
			for r := 0; r < 2; r++ {
				if e.thr(r).Cmp(pe.thr(r)) < 0 || (e.PctCap[r] >= 0 && (pe.PctCap[r] < 0 || e.PctCap[r] < pe.PctCap[r])) {
					tightens = true
				}
			}
		}
		c.ClassIf(tightens, "per-node-override-tightens-node-config")

		interior := false
		for r := 0; r < 2; r++ {
			b := e.bound(r, -1)
			if c09CheckAmount(t, c, cs, "layered-node", r, pub.node[r], b, pub.raw) {
				return
			}
			if pub.node[r].Sign() > 0 {
				interior = true
			}
		}
		for zi := range pub.zones {
			for r := 0; r < 2; r++ {
				if c09CheckAmount(t, c, cs, "layered-zone", r, pub.zones[zi][r], e.bound(r, zi), pub.raw) {
					return
				}
			}
		}
		if m >= 0 && (validLabel || anno) && interior {
			c.NonTrivial(cs.String())
		}
		if c.WantSample() {
			c.Sample(map[string]any{"case": cs, "effective_thr": []string{c09F(e.thr(0)), c09F(e.thr(1))}, "effective_pctcap": e.PctCap, "effective_policy": e.Policy, "published": pub.raw})
		}
	})
}
