//go:build verif

// C08 — Load-aware placement keeps nodes under threshold; load estimates never drift.
// See /verif/DESIGN.md §1 C08. In-package harness (injected with -overlay).
//
// This file: the reference model ("from scratch" computation of a node's estimate from its
// current metric report and the pods currently assigned to it), shared generators.
package loadaware

import (
	"encoding/json"
	"fmt"
	"reflect"
	"sort"
	"strconv"
	"strings"
	"time"

	corev1 "k8s.io/api/core/v1"
	"k8s.io/apimachinery/pkg/api/resource"
	metav1 "k8s.io/apimachinery/pkg/apis/meta/v1"
	"k8s.io/apimachinery/pkg/types"
	"k8s.io/utils/ptr"
	"pgregory.net/rapid"

	"github.com/koordinator-sh/koordinator/apis/extension"
	slov1alpha1 "github.com/koordinator-sh/koordinator/apis/slo/v1alpha1"
	"github.com/koordinator-sh/koordinator/pkg/scheduler/apis/config"
	"github.com/koordinator-sh/koordinator/pkg/scheduler/plugins/loadaware/estimator"
)

const c08NS = "ns"

var c08Extra corev1.ResourceName = "example.com/widget"

var c08AggTypes = []extension.AggregationType{extension.AVG, extension.P95, extension.P99}
var c08AggDurations = []time.Duration{5 * time.Minute, 10 * time.Minute, 30 * time.Minute}

// ---------------------------------------------------------------- reference model

// c08Env: the fixed inputs of one case. names = resources the plugin knows (output index of the
// vectors returned by the cache); est = the estimator, whose per-pod number is an INPUT here.
type c08Env struct {
	args     *config.LoadAwareSchedulingArgs
	names    []corev1.ResourceName
	est      estimator.Estimator
	estCache map[*corev1.Pod][]int64
}

func c08NewEnv(args *config.LoadAwareSchedulingArgs) *c08Env {
	est, err := estimator.NewEstimator(args, nil)
	if err != nil {
		panic(err)
	}
	return &c08Env{args: args, names: []corev1.ResourceName(NewResourceVectorizerFromArgs(args)), est: est, estCache: map[*corev1.Pod][]int64{}}
}

// c08Assigned: a pod currently assigned to a node, with the time of the assignment.
type c08Assigned struct {
	pod *corev1.Pod
	ts  time.Time
}

type c08NodeModel struct {
	metric *slov1alpha1.NodeMetric
	pods   map[types.UID]*c08Assigned
}

type c08Mode struct {
	prod bool
	typ  extension.AggregationType
	dur  time.Duration
}

func (m c08Mode) kind() string {
	switch {
	case m.prod:
		return "prod"
	case m.typ != "":
		return "agg"
	}
	return "node"
}

func c08Val(name corev1.ResourceName, rl corev1.ResourceList) int64 {
	q, ok := rl[name]
	if !ok {
		return 0
	}
	if name == corev1.ResourceCPU {
		return q.MilliValue()
	}
	return q.Value()
}

func (e *c08Env) vec(rl corev1.ResourceList) []int64 {
	v := make([]int64, len(e.names))
	for i, n := range e.names {
		v[i] = c08Val(n, rl)
	}
	return v
}

// estimate of one pod: given (taken from the estimator).
func (e *c08Env) estimate(pod *corev1.Pod) []int64 {
	if v, ok := e.estCache[pod]; ok {
		return v
	}
	m, err := e.est.EstimatePod(pod)
	v := make([]int64, len(e.names))
	if err == nil {
		for i, n := range e.names {
			v[i] = m[n]
		}
	}
	e.estCache[pod] = v
	return v
}

func c08Cond(pod *corev1.Pod, typ corev1.PodConditionType) *corev1.PodCondition {
	for i := range pod.Status.Conditions {
		if pod.Status.Conditions[i].Type == typ {
			return &pod.Status.Conditions[i]
		}
	}
	return nil
}

// time of assignment: the PodScheduled=True transition if the pod carries one, else "now".
func c08AssignTime(pod *corev1.Pod, now time.Time) time.Time {
	if c := c08Cond(pod, corev1.PodScheduled); c != nil && c.Status == corev1.ConditionTrue && !c.LastTransitionTime.IsZero() {
		return c.LastTransitionTime.Time
	}
	return now
}

func c08Terminated(pod *corev1.Pod) bool {
	return pod.Status.Phase == corev1.PodSucceeded || pod.Status.Phase == corev1.PodFailed
}

func c08AnnSeconds(pod *corev1.Pod, key string) int64 {
	s := pod.Annotations[key]
	if s == "" {
		return -1
	}
	i, err := strconv.ParseInt(s, 10, 64)
	if err != nil {
		return -1
	}
	return i
}

// end of the pod's forced-estimation window (zero = no window).
func (e *c08Env) deadline(a *c08Assigned) time.Time {
	afterSched, afterInit := int64(-1), int64(-1)
	if e.args.AllowCustomizeEstimation {
		afterSched = c08AnnSeconds(a.pod, extension.AnnotationCustomEstimatedSecondsAfterPodScheduled)
		afterInit = c08AnnSeconds(a.pod, extension.AnnotationCustomEstimatedSecondsAfterInitialized)
	}
	if afterSched < 0 && e.args.EstimatedSecondsAfterPodScheduled != nil {
		afterSched = *e.args.EstimatedSecondsAfterPodScheduled
	}
	if afterInit < 0 && e.args.EstimatedSecondsAfterInitialized != nil {
		afterInit = *e.args.EstimatedSecondsAfterInitialized
	}
	if afterInit > 0 {
		if c := c08Cond(a.pod, corev1.PodInitialized); c != nil && c.Status == corev1.ConditionTrue && !c.LastTransitionTime.IsZero() {
			return c.LastTransitionTime.Add(time.Duration(afterInit) * time.Second)
		}
	}
	if afterSched > 0 {
		return a.ts.Add(time.Duration(afterSched) * time.Second)
	}
	return time.Time{}
}

func c08Interval(m *slov1alpha1.NodeMetric) time.Duration {
	if p := m.Spec.CollectPolicy; p != nil && p.ReportIntervalSeconds != nil {
		return time.Duration(*p.ReportIntervalSeconds) * time.Second
	}
	return 60 * time.Second
}

func c08UpdateTime(m *slov1alpha1.NodeMetric) time.Time {
	if m.Status.UpdateTime != nil {
		return m.Status.UpdateTime.Time
	}
	return time.Time{}
}

type c08Key struct{ ns, name string }

func (nm *c08NodeModel) sortedUIDs() []types.UID {
	out := make([]types.UID, 0, len(nm.pods))
	for k := range nm.pods {
		out = append(out, k)
	}
	sort.Slice(out, func(i, j int) bool { return out[i] < out[j] })
	return out
}

// reported usage per pod key in the metric (entries without usage do not count).
func c08Reported(m *slov1alpha1.NodeMetric) (map[c08Key]corev1.ResourceList, map[c08Key]bool) {
	usage, prod := map[c08Key]corev1.ResourceList{}, map[c08Key]bool{}
	for _, pm := range m.Status.PodsMetric {
		if pm == nil || len(pm.PodUsage.ResourceList) == 0 {
			continue
		}
		k := c08Key{pm.Namespace, pm.Name}
		usage[k] = pm.PodUsage.ResourceList
		if pm.Priority == extension.PriorityProd {
			prod[k] = true
		}
	}
	return usage, prod
}

// the usage vector the report carries for the queried mode (nil = the report has none).
func (e *c08Env) reportedBase(m *slov1alpha1.NodeMetric, mode c08Mode) []int64 {
	info := m.Status.NodeMetric
	if info == nil {
		return nil
	}
	if mode.typ == "" {
		return e.vec(info.NodeUsage.ResourceList)
	}
	var best corev1.ResourceList
	bestDur := time.Duration(-1)
	for _, agg := range info.AggregatedNodeUsages {
		u, ok := agg.Usage[mode.typ]
		if !ok || len(u.ResourceList) == 0 {
			continue
		}
		d := agg.Duration.Duration
		if mode.dur != 0 {
			if d == mode.dur {
				return e.vec(u.ResourceList)
			}
			continue
		}
		if d > bestDur { // no period asked: the longest non-empty period recorded
			best, bestDur = u.ResourceList, d
		}
	}
	if mode.dur != 0 {
		return nil
	}
	if best == nil { // nothing aggregated at all: the plain node usage
		return e.vec(info.NodeUsage.ResourceList)
	}
	return e.vec(best)
}

type c08PodView struct {
	Name        string
	Est, Usage  []int64
	Reported    bool
	Unreflected bool
	Prod        bool
	ActiveProd  bool
	InWindow    bool
	HasWindow   bool
}

// scratch: the node's estimate computed from nothing but (metric, assigned pods) — the statement, literally:
// last reported usage + for every assigned pod the report does not yet reflect, max(estimate - reported, 0).
func (e *c08Env) scratch(nm *c08NodeModel, mode c08Mode) (out []int64, hasMetric bool, views []c08PodView) {
	if nm == nil || nm.metric == nil {
		return nil, false, nil
	}
	m := nm.metric
	usage, reportedProd := c08Reported(m)
	ut, interval := c08UpdateTime(m), c08Interval(m)
	out = make([]int64, len(e.names))
	var base []int64
	if !mode.prod {
		base = e.reportedBase(m, mode)
		if base != nil {
			copy(out, base)
		}
	} else if e.args.ProdUsageIncludeSys && m.Status.NodeMetric != nil {
		copy(out, e.vec(m.Status.NodeMetric.SystemUsage.ResourceList))
	}
	for _, uid := range nm.sortedUIDs() {
		a := nm.pods[uid]
		est := e.estimate(a.pod)
		rl, reported := usage[c08Key{a.pod.Namespace, a.pod.Name}]
		var u []int64
		if reported {
			u = e.vec(rl)
		}
		dl := e.deadline(a)
		inWindow := !dl.IsZero() && dl.After(ut)
		unreflected := !reported || a.ts.After(ut.Add(-interval)) || inWindow
		prod := extension.GetPodPriorityClassWithDefault(a.pod) == extension.PriorityProd
		active := prod && reported && reportedProd[c08Key{a.pod.Namespace, a.pod.Name}]
		views = append(views, c08PodView{Name: a.pod.Name, Est: est, Usage: u, Reported: reported, Unreflected: unreflected,
			Prod: prod, ActiveProd: active, InWindow: inWindow, HasWindow: !dl.IsZero()})
		for i := range out {
			switch {
			case mode.prod:
				if !prod {
					continue
				}
				if !active { // no prod usage reported for it: counts with its whole estimate
					out[i] += est[i]
					continue
				}
				out[i] += u[i]
				if unreflected && est[i] > u[i] {
					out[i] += est[i] - u[i]
				}
			case base == nil: // the report carries no usage for this mode: sum of the estimates
				out[i] += est[i]
			case unreflected:
				if !reported {
					out[i] += est[i]
				} else if est[i] > u[i] {
					out[i] += est[i] - u[i]
				}
			}
		}
	}
	return out, true, views
}

func c08Eq(a ResourceVector, b []int64) bool {
	if len(a) != len(b) {
		return false
	}
	for i := range a {
		if a[i] != b[i] {
			return false
		}
	}
	return true
}

// ---------------------------------------------------------------- rendering

func c08Off(t0, x time.Time) string {
	if x.IsZero() {
		return "zero"
	}
	d := x.Sub(t0)
	if d%time.Second == 0 {
		return fmt.Sprintf("%+ds", int64(d/time.Second))
	}
	return fmt.Sprintf("%+dns", int64(d))
}

func c08RLStr(rl corev1.ResourceList) string {
	keys := make([]string, 0, len(rl))
	for k := range rl {
		keys = append(keys, string(k))
	}
	sort.Strings(keys)
	var sb strings.Builder
	sb.WriteString("{")
	for i, k := range keys {
		if i > 0 {
			sb.WriteString(" ")
		}
		q := rl[corev1.ResourceName(k)]
		short := k
		if j := strings.LastIndex(k, "/"); j >= 0 {
			short = k[j+1:]
		}
		if k == string(corev1.ResourceCPU) {
			fmt.Fprintf(&sb, "%s:%dm", short, q.MilliValue())
		} else {
			fmt.Fprintf(&sb, "%s:%d", short, q.Value())
		}
	}
	sb.WriteString("}")
	return sb.String()
}

func (e *c08Env) podStr(t0 time.Time, p *corev1.Pod) string {
	var sb strings.Builder
	fmt.Fprintf(&sb, "%s/%s node=%q class=%s est=%v", p.Name, p.UID, p.Spec.NodeName, extension.GetPodPriorityClassWithDefault(p), e.estimate(p))
	if p.Status.Phase != "" {
		fmt.Fprintf(&sb, " phase=%s", p.Status.Phase)
	}
	for _, c := range p.Status.Conditions {
		fmt.Fprintf(&sb, " %s=%s@%s", c.Type, c.Status, c08Off(t0, c.LastTransitionTime.Time))
	}
	for _, k := range []string{extension.AnnotationCustomEstimatedScalingFactors, extension.AnnotationCustomEstimatedSecondsAfterPodScheduled, extension.AnnotationCustomEstimatedSecondsAfterInitialized} {
		if v, ok := p.Annotations[k]; ok {
			fmt.Fprintf(&sb, " %s=%s", k[strings.LastIndex(k, "/")+1:], v)
		}
	}
	return sb.String()
}

func c08MetricStr(t0 time.Time, m *slov1alpha1.NodeMetric) string {
	var sb strings.Builder
	fmt.Fprintf(&sb, "metric %s interval=%v", m.Name, c08Interval(m))
	if m.Status.UpdateTime == nil {
		sb.WriteString(" updateTime=nil")
	} else {
		fmt.Fprintf(&sb, " updateTime=%s", c08Off(t0, m.Status.UpdateTime.Time))
	}
	if info := m.Status.NodeMetric; info == nil {
		sb.WriteString(" nodeMetric=nil")
	} else {
		fmt.Fprintf(&sb, " node=%s sys=%s", c08RLStr(info.NodeUsage.ResourceList), c08RLStr(info.SystemUsage.ResourceList))
		for _, agg := range info.AggregatedNodeUsages {
			fmt.Fprintf(&sb, " agg[%v]=", agg.Duration.Duration)
			ks := make([]string, 0)
			for k := range agg.Usage {
				ks = append(ks, string(k))
			}
			sort.Strings(ks)
			for _, k := range ks {
				fmt.Fprintf(&sb, "%s%s", k, c08RLStr(agg.Usage[extension.AggregationType(k)].ResourceList))
			}
		}
	}
	sb.WriteString(" pods=[")
	for i, pm := range m.Status.PodsMetric {
		if i > 0 {
			sb.WriteString(" ")
		}
		if pm == nil {
			sb.WriteString("nil")
			continue
		}
		fmt.Fprintf(&sb, "%s(%s)%s", pm.Name, pm.Priority, c08RLStr(pm.PodUsage.ResourceList))
	}
	sb.WriteString("]")
	return sb.String()
}

func c08ArgsStr(a *config.LoadAwareSchedulingArgs) string {
	ps := func(p *int64) string {
		if p == nil {
			return "nil"
		}
		return fmt.Sprint(*p)
	}
	pb := func(p *bool) string {
		if p == nil {
			return "nil"
		}
		return fmt.Sprint(*p)
	}
	s := fmt.Sprintf("factors=%v afterScheduled=%s afterInitialized=%s allowCustom=%v prodIncludeSys=%v usageThr=%v prodThr=%v filterExpired=%s expireSec=%s scheduleWhenExpired=%s supported=%v",
		a.EstimatedScalingFactors, ps(a.EstimatedSecondsAfterPodScheduled), ps(a.EstimatedSecondsAfterInitialized), a.AllowCustomizeEstimation,
		a.ProdUsageIncludeSys, a.UsageThresholds, a.ProdUsageThresholds, pb(a.FilterExpiredNodeMetrics), ps(a.NodeMetricExpirationSeconds),
		pb(a.EnableScheduleWhenNodeMetricsExpired), a.SupportedResources)
	if g := a.Aggregated; g != nil {
		s += fmt.Sprintf(" agg={thr=%v type=%q dur=%v}", g.UsageThresholds, g.UsageAggregationType, g.UsageAggregatedDuration.Duration)
	}
	return s
}

// ---------------------------------------------------------------- generators

func c08GenThresholds(t *rapid.T, label string, withExtra bool, allowEmpty bool) map[corev1.ResourceName]int64 {
	m := map[corev1.ResourceName]int64{}
	names := []corev1.ResourceName{corev1.ResourceCPU, corev1.ResourceMemory}
	if withExtra {
		names = append(names, c08Extra)
	}
	for _, n := range names {
		switch rapid.IntRange(0, 5).Draw(t, label+"Kind") {
		case 0: // absent
		case 1:
			m[n] = 0
		default:
			m[n] = rapid.Int64Range(1, 100).Draw(t, label)
		}
	}
	if len(m) == 0 && !allowEmpty {
		return nil
	}
	return m
}

func c08GenSeconds(t *rapid.T, label string) *int64 {
	switch rapid.IntRange(0, 5).Draw(t, label+"Kind") {
	case 0:
		return nil
	case 1:
		return ptr.To[int64](0)
	case 2:
		return ptr.To[int64](-1)
	default:
		return ptr.To(rapid.SampledFrom([]int64{1, 30, 60, 120, 300, 3600}).Draw(t, label))
	}
}

// args in the shape they have after defaulting (v1.SetDefaults_LoadAwareSchedulingArgs) and validation.
func c08GenArgs(t *rapid.T) *config.LoadAwareSchedulingArgs {
	withExtra := rapid.IntRange(0, 3).Draw(t, "extraResource") == 0
	a := &config.LoadAwareSchedulingArgs{
		FilterExpiredNodeMetrics:             ptr.To(rapid.IntRange(0, 4).Draw(t, "filterExpired") > 0),
		EnableScheduleWhenNodeMetricsExpired: ptr.To(rapid.Bool().Draw(t, "scheduleWhenExpired")),
		NodeMetricExpirationSeconds:          ptr.To(rapid.SampledFrom([]int64{1, 60, 180, 180, 600, 7200, 36000, 100000}).Draw(t, "expireSec")),
		ResourceWeights:                      map[corev1.ResourceName]int64{corev1.ResourceCPU: 1, corev1.ResourceMemory: 1},
		EstimatedScalingFactors: map[corev1.ResourceName]int64{
			corev1.ResourceCPU:    rapid.SampledFrom([]int64{85, 85, 100, 50, 1, 33}).Draw(t, "cpuFactor"),
			corev1.ResourceMemory: rapid.SampledFrom([]int64{70, 70, 100, 50, 1, 99}).Draw(t, "memFactor"),
		},
		EstimatedSecondsAfterPodScheduled: c08GenSeconds(t, "afterScheduled"),
		EstimatedSecondsAfterInitialized:  c08GenSeconds(t, "afterInitialized"),
		AllowCustomizeEstimation:          rapid.Bool().Draw(t, "allowCustomize"),
		ProdUsageIncludeSys:               rapid.Bool().Draw(t, "prodIncludeSys"),
	}
	if withExtra {
		if rapid.Bool().Draw(t, "extraFactor") {
			a.EstimatedScalingFactors[c08Extra] = rapid.Int64Range(1, 100).Draw(t, "extraFactorV")
		} else {
			a.SupportedResources = []corev1.ResourceName{c08Extra}
		}
	}
	a.UsageThresholds = c08GenThresholds(t, "usageThr", withExtra, false)
	if len(a.UsageThresholds) == 0 { // defaulting
		a.UsageThresholds = map[corev1.ResourceName]int64{corev1.ResourceCPU: 65, corev1.ResourceMemory: 95}
	}
	if rapid.IntRange(0, 2).Draw(t, "hasProdThr") > 0 {
		a.ProdUsageThresholds = c08GenThresholds(t, "prodThr", withExtra, true)
	}
	if rapid.IntRange(0, 2).Draw(t, "hasAgg") == 0 {
		a.Aggregated = &config.LoadAwareSchedulingAggregatedArgs{
			UsageThresholds:         c08GenThresholds(t, "aggThr", withExtra, true),
			UsageAggregationType:    rapid.SampledFrom([]extension.AggregationType{"", extension.AVG, extension.P95, extension.P99, extension.P50}).Draw(t, "aggType"),
			UsageAggregatedDuration: metav1.Duration{Duration: rapid.SampledFrom([]time.Duration{0, 0, 5 * time.Minute, 10 * time.Minute, 30 * time.Minute, time.Hour}).Draw(t, "aggDur")},
		}
	}
	return a
}

func c08Q(name corev1.ResourceName, v int64) resource.Quantity {
	if name == corev1.ResourceCPU {
		return *resource.NewMilliQuantity(v, resource.DecimalSI)
	}
	return *resource.NewQuantity(v, resource.BinarySI)
}

var c08CPUGen = rapid.OneOf(rapid.Int64Range(1, 8000), rapid.SampledFrom([]int64{1, 100, 250, 1000, 4000, 64000}))
var c08MemGen = rapid.OneOf(rapid.Int64Range(1, 16<<30), rapid.SampledFrom([]int64{1, 1 << 20, 200 << 20, 1 << 30, 64 << 30}))

func c08GenConditions(t *rapid.T, genTime func(label string) time.Time) []corev1.PodCondition {
	var out []corev1.PodCondition
	switch rapid.IntRange(0, 3).Draw(t, "scheduledCond") {
	case 0:
	case 1:
		out = append(out, corev1.PodCondition{Type: corev1.PodScheduled, Status: corev1.ConditionFalse, Reason: "Unschedulable", LastTransitionTime: metav1.Time{Time: genTime("schedFalseAt")}})
	default:
		out = append(out, corev1.PodCondition{Type: corev1.PodScheduled, Status: corev1.ConditionTrue, LastTransitionTime: metav1.Time{Time: genTime("scheduledAt")}})
	}
	switch rapid.IntRange(0, 3).Draw(t, "initializedCond") {
	case 0, 1:
	case 2:
		out = append(out, corev1.PodCondition{Type: corev1.PodInitialized, Status: corev1.ConditionFalse})
	default:
		out = append(out, corev1.PodCondition{Type: corev1.PodInitialized, Status: corev1.ConditionTrue, LastTransitionTime: metav1.Time{Time: genTime("initializedAt")}})
	}
	if len(out) == 2 && rapid.Bool().Draw(t, "condOrder") {
		out[0], out[1] = out[1], out[0]
	}
	return out
}

// a pod as the API server could hold it; priority class comes from the label, spec.priority, the QoS label or the kube QoS.
func c08GenPod(t *rapid.T, name string, uid types.UID, genTime func(label string) time.Time) *corev1.Pod {
	p := &corev1.Pod{ObjectMeta: metav1.ObjectMeta{Namespace: c08NS, Name: name, UID: uid, Labels: map[string]string{}, Annotations: map[string]string{}}}
	class := rapid.SampledFrom([]extension.PriorityClass{extension.PriorityProd, extension.PriorityProd, extension.PriorityProd, extension.PriorityMid, extension.PriorityBatch, extension.PriorityBatch, extension.PriorityFree}).Draw(t, "class")
	switch rapid.IntRange(0, 3).Draw(t, "classSource") {
	case 0:
		p.Labels[extension.LabelPodPriorityClass] = string(class)
	case 1:
		p.Spec.Priority = ptr.To(c08PriorityValue(class))
	case 2:
		if class == extension.PriorityProd {
			p.Labels[extension.LabelPodQoS] = string(extension.QoSLS)
		} else {
			p.Labels[extension.LabelPodQoS] = string(extension.QoSBE)
			class = extension.PriorityBatch
		}
	default: // nothing: derived from the kube QoS of the spec
		class = extension.PriorityProd
	}
	cpuName, memName := corev1.ResourceCPU, corev1.ResourceMemory
	if rapid.IntRange(0, 6).Draw(t, "plainNames") != 0 {
		switch class {
		case extension.PriorityBatch:
			cpuName, memName = extension.BatchCPU, extension.BatchMemory
		case extension.PriorityMid:
			cpuName, memName = extension.MidCPU, extension.MidMemory
		}
	}
	nc := rapid.IntRange(1, 2).Draw(t, "containers")
	for i := 0; i < nc; i++ {
		ctr := corev1.Container{Name: fmt.Sprintf("c%d", i)}
		req, lim := corev1.ResourceList{}, corev1.ResourceList{}
		if rapid.IntRange(0, 4).Draw(t, "hasCPU") > 0 {
			v := c08CPUGen.Draw(t, "cpu")
			if cpuName == corev1.ResourceCPU {
				req[cpuName] = *resource.NewMilliQuantity(v, resource.DecimalSI)
			} else {
				req[cpuName] = *resource.NewQuantity(v, resource.DecimalSI)
			}
			switch rapid.IntRange(0, 2).Draw(t, "cpuLimit") {
			case 1:
				lim[cpuName] = req[cpuName]
			case 2:
				if cpuName == corev1.ResourceCPU {
					lim[cpuName] = *resource.NewMilliQuantity(v+rapid.Int64Range(1, 4000).Draw(t, "cpuLimExtra"), resource.DecimalSI)
				} else {
					lim[cpuName] = *resource.NewQuantity(v+rapid.Int64Range(1, 4000).Draw(t, "cpuLimExtra"), resource.DecimalSI)
				}
			}
		}
		if rapid.IntRange(0, 4).Draw(t, "hasMem") > 0 {
			v := c08MemGen.Draw(t, "mem")
			req[memName] = *resource.NewQuantity(v, resource.BinarySI)
			switch rapid.IntRange(0, 2).Draw(t, "memLimit") {
			case 1:
				lim[memName] = req[memName]
			case 2:
				lim[memName] = *resource.NewQuantity(v+rapid.Int64Range(1, 1<<30).Draw(t, "memLimExtra"), resource.BinarySI)
			}
		}
		if rapid.IntRange(0, 5).Draw(t, "hasExtra") == 0 {
			req[c08Extra] = *resource.NewQuantity(rapid.Int64Range(1, 100).Draw(t, "extra"), resource.DecimalSI)
			lim[c08Extra] = req[c08Extra]
		}
		if len(req) > 0 {
			ctr.Resources.Requests = req
		}
		if len(lim) > 0 {
			ctr.Resources.Limits = lim
		}
		p.Spec.Containers = append(p.Spec.Containers, ctr)
	}
	if rapid.IntRange(0, 2).Draw(t, "customAnnotations") == 0 {
		switch rapid.SampledFrom([]int{0, 1, 2, 2, 3, 3}).Draw(t, "customFactors") {
		case 0:
		case 1:
			p.Annotations[extension.AnnotationCustomEstimatedScalingFactors] = "{not json"
		case 3: // opt-out of estimation: factor 0 for every resource, on a pod that does request cpu and memory -> all-zero estimate
			p.Annotations[extension.AnnotationCustomEstimatedScalingFactors] = fmt.Sprintf(`{"cpu":0,"memory":0,%q:0}`, c08Extra)
			ctr := &p.Spec.Containers[0]
			if ctr.Resources.Requests == nil {
				ctr.Resources.Requests = corev1.ResourceList{}
			}
			if _, ok := ctr.Resources.Requests[cpuName]; !ok {
				if cpuName == corev1.ResourceCPU {
					ctr.Resources.Requests[cpuName] = *resource.NewMilliQuantity(1000, resource.DecimalSI)
				} else {
					ctr.Resources.Requests[cpuName] = *resource.NewQuantity(1000, resource.DecimalSI)
				}
			}
			if _, ok := ctr.Resources.Requests[memName]; !ok {
				ctr.Resources.Requests[memName] = *resource.NewQuantity(1<<30, resource.BinarySI)
			}
		default:
			f := map[corev1.ResourceName]int64{}
			if rapid.Bool().Draw(t, "customCPU") {
				f[corev1.ResourceCPU] = rapid.Int64Range(1, 100).Draw(t, "customCPUFactor")
			}
			if rapid.Bool().Draw(t, "customMem") {
				f[corev1.ResourceMemory] = rapid.Int64Range(1, 100).Draw(t, "customMemFactor")
			}
			b, _ := json.Marshal(f)
			p.Annotations[extension.AnnotationCustomEstimatedScalingFactors] = string(b)
		}
		secs := []string{"", "", "0", "-1", "1", "30", "120", "600", "x"}
		if s := rapid.SampledFrom(secs).Draw(t, "customAfterScheduled"); s != "" {
			p.Annotations[extension.AnnotationCustomEstimatedSecondsAfterPodScheduled] = s
		}
		if s := rapid.SampledFrom(secs).Draw(t, "customAfterInitialized"); s != "" {
			p.Annotations[extension.AnnotationCustomEstimatedSecondsAfterInitialized] = s
		}
	}
	p.Status.Phase = rapid.SampledFrom([]corev1.PodPhase{corev1.PodPending, corev1.PodRunning, corev1.PodRunning, ""}).Draw(t, "phase")
	p.Status.Conditions = c08GenConditions(t, genTime)
	return p
}

func c08PriorityValue(class extension.PriorityClass) int32 {
	switch class {
	case extension.PriorityProd:
		return extension.PriorityProdValueMin + 500
	case extension.PriorityMid:
		return extension.PriorityMidValueMin + 500
	case extension.PriorityBatch:
		return extension.PriorityBatchValueMin + 500
	case extension.PriorityFree:
		return extension.PriorityFreeValueMin + 500
	}
	return 0
}

// usage of one pod as koordlet could report it, aimed at the pod's estimate (equal, +-1, half, double, zero, anything).
func (e *c08Env) genUsageNear(t *rapid.T, est []int64, label string) corev1.ResourceList {
	rl := corev1.ResourceList{}
	for i, n := range e.names {
		var v int64
		kind := rapid.IntRange(0, 7).Draw(t, label+"Kind")
		if est[i] == 0 && kind >= 2 && kind != 4 {
			kind = 7 // nothing to aim at: a pod without estimate still uses something
		}
		switch kind {
		case 0:
			continue // resource not reported
		case 1:
			v = 0
		case 2:
			v = est[i]
		case 3:
			v = est[i] - 1
		case 4:
			v = est[i] + 1
		case 5:
			v = est[i] / 2
		case 6:
			v = est[i] * 2
		default:
			if n == corev1.ResourceCPU {
				v = rapid.Int64Range(0, 16000).Draw(t, label)
			} else {
				v = rapid.Int64Range(0, 32<<30).Draw(t, label)
			}
		}
		if v < 0 {
			v = 0
		}
		rl[n] = c08Q(n, v)
	}
	return rl
}

func (e *c08Env) genNodeUsage(t *rapid.T, label string) corev1.ResourceList {
	rl := corev1.ResourceList{}
	for _, n := range e.names {
		if rapid.IntRange(0, 9).Draw(t, label+"Has") == 0 {
			continue
		}
		if n == corev1.ResourceCPU {
			rl[n] = c08Q(n, rapid.Int64Range(0, 128000).Draw(t, label+"CPU"))
		} else if n == corev1.ResourceMemory {
			rl[n] = c08Q(n, rapid.Int64Range(0, 512<<30).Draw(t, label+"Mem"))
		} else {
			rl[n] = c08Q(n, rapid.Int64Range(0, 1000).Draw(t, label+"Extra"))
		}
	}
	return rl
}

// a NodeMetric as koord-manager creates it (empty status, ut == nil) or as koordlet reports it (status with update time).
func (e *c08Env) genMetric(t *rapid.T, node string, ut *time.Time, nm *c08NodeModel) *slov1alpha1.NodeMetric {
	m := &slov1alpha1.NodeMetric{ObjectMeta: metav1.ObjectMeta{Name: node}}
	switch rapid.IntRange(0, 4).Draw(t, "intervalKind") {
	case 0:
	case 1:
		m.Spec.CollectPolicy = &slov1alpha1.NodeMetricCollectPolicy{}
	default:
		m.Spec.CollectPolicy = &slov1alpha1.NodeMetricCollectPolicy{ReportIntervalSeconds: ptr.To(rapid.SampledFrom([]int64{0, 1, 20, 60, 60, 120, 300}).Draw(t, "interval"))}
	}
	if ut == nil {
		return m
	}
	m.Status.UpdateTime = &metav1.Time{Time: *ut}
	if rapid.IntRange(0, 14).Draw(t, "hasNodeMetric") != 0 {
		info := &slov1alpha1.NodeMetricInfo{}
		info.NodeUsage.ResourceList = e.genNodeUsage(t, "nodeUsage")
		if rapid.IntRange(0, 3).Draw(t, "hasSys") > 0 {
			info.SystemUsage.ResourceList = e.genNodeUsage(t, "sysUsage")
		}
		nAgg := rapid.IntRange(0, 3).Draw(t, "aggEntries")
		if rapid.Bool().Draw(t, "noAgg") {
			nAgg = 0
		}
		durs := append([]time.Duration{}, c08AggDurations...)
		for i := 0; i < nAgg; i++ {
			j := rapid.IntRange(0, len(durs)-1).Draw(t, "aggDurIdx")
			d := durs[j]
			durs = append(durs[:j], durs[j+1:]...)
			au := slov1alpha1.AggregatedUsage{Duration: metav1.Duration{Duration: d}, Usage: map[extension.AggregationType]slov1alpha1.ResourceMap{}}
			for _, ty := range c08AggTypes {
				switch rapid.IntRange(0, 4).Draw(t, "aggTypeKind") {
				case 0:
				case 1:
					au.Usage[ty] = slov1alpha1.ResourceMap{}
				default:
					au.Usage[ty] = slov1alpha1.ResourceMap{ResourceList: e.genNodeUsage(t, "aggUsage")}
				}
			}
			info.AggregatedNodeUsages = append(info.AggregatedNodeUsages, au)
		}
		m.Status.NodeMetric = info
	}
	if nm != nil {
		for _, uid := range nm.sortedUIDs() {
			a := nm.pods[uid]
			kind := rapid.IntRange(0, 9).Draw(t, "podMetricKind")
			if kind <= 1 {
				continue // the report misses this pod
			}
			pm := &slov1alpha1.PodMetricInfo{Namespace: a.pod.Namespace, Name: a.pod.Name}
			pm.Priority = extension.GetPodPriorityClassWithDefault(a.pod)
			if rapid.IntRange(0, 4).Draw(t, "podMetricWrongClass") == 0 {
				pm.Priority = rapid.SampledFrom([]extension.PriorityClass{extension.PriorityProd, extension.PriorityBatch, extension.PriorityNone}).Draw(t, "podMetricClass")
			}
			if kind != 2 { // kind 2: entry without usage
				pm.PodUsage.ResourceList = e.genUsageNear(t, e.estimate(a.pod), "podUsage")
			}
			m.Status.PodsMetric = append(m.Status.PodsMetric, pm)
		}
	}
	for i, n := 0, rapid.IntRange(0, 2).Draw(t, "dangling"); i < n; i++ {
		if rapid.IntRange(0, 6).Draw(t, "nilEntry") == 0 {
			m.Status.PodsMetric = append(m.Status.PodsMetric, nil)
			continue
		}
		pm := &slov1alpha1.PodMetricInfo{Namespace: c08NS, Name: fmt.Sprintf("ghost-%d", i), Priority: rapid.SampledFrom([]extension.PriorityClass{extension.PriorityProd, extension.PriorityBatch}).Draw(t, "ghostClass")}
		pm.PodUsage.ResourceList = e.genNodeUsage(t, "ghostUsage")
		m.Status.PodsMetric = append(m.Status.PodsMetric, pm)
	}
	return m
}

func c08SpecOrConditionsChanged(a, b *corev1.Pod) bool {
	return !reflect.DeepEqual(&a.Spec, &b.Spec) || !reflect.DeepEqual(a.Status.Conditions, b.Status.Conditions)
}
