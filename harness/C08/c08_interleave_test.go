//go:build verif

// C08 unit "interleave": harness-owned interleavings of two cache events on one node. An in-flight reader (what
// Filter/Score do) holds the nodeInfo read lock; an "emptier" (NodeMetric delete / removal of the last pod, which
// empties the nodeInfo and drops it from the cache) and an "adder" (Reserve / pod add / bound update / NodeMetric add)
// are started in a drawn order and queue behind the reader; the reader leaves, both are joined, the NodeMetric is
// (re)delivered, and the drift oracle runs at quiescence. On correct code the final state equals the sequential
// application in start order whatever the Go scheduler does (the first writer is observed pending before the second
// is started; if the second has not reached the lock yet it simply runs later, with the same result), so the verdict
// is schedule-independent; only the SENSITIVITY to a lost update depends on the second event really waiting on the
// lock, which is observed through the mutex waiter count (bounded wait, fallback: short sleep).
package loadaware

import (
	"context"
	"reflect"
	"runtime"
	"sync"
	"testing"
	"time"

	corev1 "k8s.io/api/core/v1"
	"k8s.io/apimachinery/pkg/types"
	"pgregory.net/rapid"

	slov1alpha1 "github.com/koordinator-sh/koordinator/apis/slo/v1alpha1"
	"github.com/koordinator-sh/koordinator/pkg/verifkit/vk"
)

// number of goroutines blocked on the writer mutex inside rw (ok=false: layout not recognised)
func c08WriterWaiters(rw *sync.RWMutex) (n int, ok bool) {
	defer func() {
		if recover() != nil {
			n, ok = 0, false
		}
	}()
	w := reflect.ValueOf(rw).Elem().FieldByName("w")
	st := w.FieldByName("state")
	if !st.IsValid() {
		if mu := w.FieldByName("mu"); mu.IsValid() {
			st = mu.FieldByName("state")
		}
	}
	if !st.IsValid() || st.Kind() != reflect.Int32 {
		return 0, false
	}
	return int(st.Int() >> 3), true
}

type c08Op struct {
	desc  string
	run   func()
	model func()
	adder bool
	pod   bool
}

func TestVerifC08Interleave(t *testing.T) {
	rec := vk.New(t, "C08", "interleave")
	rapid.Check(t, func(t *rapid.T) {
		c := rec.Begin()
		defer c.End()
		env := c08NewEnv(c08GenArgs(t))
		s := c08NewState(env, c08T0)
		ctx := context.Background()
		const node = "n0"
		nm := s.nodes[node]
		now := func(string) time.Time { return s.clock.Now().Add(-2 * time.Minute) }
		newMetric := func(t *rapid.T) *slov1alpha1.NodeMetric {
			ut := s.clock.Now().Add(-time.Duration(rapid.IntRange(0, 90).Draw(t, "utAgo")) * time.Second)
			return env.genMetric(t, node, &ut, nm)
		}

		// ---- initial state of the node: metric only / one pod only / both
		initial := rapid.SampledFrom([]string{"metric-only", "metric-only", "pod-only", "metric+pod"}).Draw(t, "initial")
		var p0 *corev1.Pod
		if initial != "metric-only" {
			p0 = c08GenPod(t, "p0", "u0", now)
			p0.Spec.NodeName = node
			if c08Terminated(p0) {
				p0.Status.Phase = corev1.PodRunning
			}
			s.logf("OnAdd %s", env.podStr(c08T0, p0))
			s.cache.OnAdd(p0, false)
			s.mAssign(node, p0)
		}
		if initial != "pod-only" {
			m := newMetric(t)
			s.logf("%s", c08MetricStr(c08T0, m))
			s.handler.OnAdd(m, false)
			nm.metric = m
		}
		if s.check(c, t) {
			return
		}

		// ---- the two concurrent events
		var emptier c08Op
		if initial == "metric-only" || (initial == "metric+pod" && rapid.Bool().Draw(t, "emptierIsMetric")) {
			m := nm.metric
			emptier = c08Op{desc: "NodeMetric delete", run: func() { s.handler.OnDelete(m) }, model: func() { nm.metric = nil }}
		} else if rapid.Bool().Draw(t, "viaUnreserve") {
			emptier = c08Op{desc: "Unreserve p0", run: func() { s.pl.Unreserve(ctx, nil, p0, node) }, model: func() { s.mUnassign(node, p0.UID) }, pod: true}
		} else {
			emptier = c08Op{desc: "OnDelete p0", run: func() { s.cache.OnDelete(p0) }, model: func() { s.mUnassign(node, p0.UID) }, pod: true}
		}
		var adder c08Op
		p1 := c08GenPod(t, "p1", "u1", now)
		p1.Spec.NodeName = node
		if c08Terminated(p1) {
			p1.Status.Phase = corev1.PodRunning
		}
		switch rapid.SampledFrom([]string{"reserve", "reserve", "podAdd", "boundUpdate", "metric"}).Draw(t, "adder") {
		case "reserve":
			adder = c08Op{desc: "Reserve " + env.podStr(c08T0, p1), run: func() { s.pl.Reserve(ctx, nil, p1, node) }, model: func() { s.mAssign(node, p1) }, pod: true}
		case "podAdd":
			adder = c08Op{desc: "OnAdd " + env.podStr(c08T0, p1), run: func() { s.cache.OnAdd(p1, false) }, model: func() { s.mAssign(node, p1) }, pod: true}
		case "boundUpdate":
			pending := p1.DeepCopy()
			pending.Spec.NodeName = ""
			adder = c08Op{desc: "OnUpdate(bound) " + env.podStr(c08T0, p1), run: func() { s.cache.OnUpdate(pending, p1) }, model: func() { s.mUpdate(pending, p1) }, pod: true}
		default:
			m := newMetric(t)
			had := nm.metric
			adder = c08Op{desc: c08MetricStr(c08T0, m), run: func() {
				if had != nil {
					s.handler.OnUpdate(had, m)
				} else {
					s.handler.OnAdd(m, false)
				}
			}, model: func() { nm.metric = m }}
		}
		adder.adder = true
		first, second := emptier, adder
		if rapid.IntRange(0, 3).Draw(t, "adderFirst") == 0 {
			first, second = adder, emptier
		}
		withReader := rapid.IntRange(0, 5).Draw(t, "reader") > 0

		n, ok := s.cache.getNodeInfo(node)
		if !ok {
			t.Fatalf("harness: node info missing")
		}
		empties := (emptier.pod && initial == "pod-only") || (!emptier.pod && initial == "metric-only")
		secondBlocked := false
		if !withReader {
			s.logf("sequential: %s; then %s", first.desc, second.desc)
			first.run()
			second.run()
		} else {
			s.logf("reader holds the node's read lock; started in this order and queued behind it: (1) %s (2) %s; reader leaves", first.desc, second.desc)
			n.RLock()
			d1, d2 := make(chan struct{}), make(chan struct{})
			go func() { defer close(d1); first.run() }()
			// the first writer is pending once new readers are refused
			deadline := time.Now().Add(10 * time.Second)
			for n.TryRLock() {
				n.RUnlock()
				runtime.Gosched()
				if time.Now().After(deadline) {
					n.RUnlock()
					t.Fatalf("harness: first event never reached the node lock")
				}
			}
			go func() { defer close(d2); second.run() }()
			// sensitivity only: give the second event the chance to fetch the nodeInfo and queue on its lock
			if _, can := c08WriterWaiters(&n.RWMutex); can {
				for end := time.Now().Add(50 * time.Millisecond); time.Now().Before(end); runtime.Gosched() {
					if w, _ := c08WriterWaiters(&n.RWMutex); w >= 1 {
						secondBlocked = true
						break
					}
				}
			} else {
				time.Sleep(2 * time.Millisecond)
			}
			n.RUnlock()
			for i, d := range []chan struct{}{d1, d2} {
				select {
				case <-d:
				case <-time.After(20 * time.Second):
					c.Violation(t, "interleave:deadlock", "event %d did not return after the reader left\n%s", i+1, s.dump())
					return
				}
			}
		}
		first.model()
		second.model()
		// ---- the report (re)appears, then quiescence
		if nm.metric == nil && rapid.IntRange(0, 6).Draw(t, "heal") > 0 {
			m := newMetric(t)
			s.logf("%s", c08MetricStr(c08T0, m))
			s.handler.OnAdd(m, false)
			nm.metric = m
			c.Class("metric-reappears")
		}
		c.Class("initial:" + initial)
		c.ClassIf(withReader, "with-reader")
		c.ClassIf(!withReader, "sequential")
		c.ClassIf(first.adder, "adder-first")
		c.ClassIf(!first.adder, "emptier-first")
		c.ClassIf(secondBlocked, "second-event-observed-waiting-on-lock")
		c.ClassIf(empties, "emptier-empties-nodeinfo")
		shape := withReader && !first.adder && empties && nm.metric != nil
		c.ClassIf(shape, "add-queued-behind-emptying-delete")
		c.ClassIf(shape && adder.pod, "pod-add-queued-behind-emptying-delete")
		c.ClassIf(shape && secondBlocked, "add-queued-behind-emptying-delete(observed)")
		if shape {
			c.NonTrivial(c08ArgsStr(env.args), s.hist)
		}
		if c.WantSample() {
			c.Sample(map[string]any{"args": c08ArgsStr(env.args), "history": s.hist})
		}
		if s.check(c, t) {
			return
		}
		// the cache must also still accept events for the node afterwards (no orphaned nodeInfo in use)
		if len(nm.pods) > 0 && nm.metric != nil {
			uid := nm.sortedUIDs()[0]
			a := nm.pods[uid]
			s.logf("OnDelete %s", a.pod.Name)
			s.cache.OnDelete(a.pod)
			s.mUnassign(node, types.UID(uid))
			s.check(c, t)
		}
	})
}
