//go:build verif

// C08 unit "drift": state machine over podAssignCache. After every event the estimate kept for every node,
// in every query mode, must equal (a) a fresh cache fed the final metric + pods and (b) the from-scratch model.
package loadaware

import (
	"context"
	"encoding/json"
	"fmt"
	"os"
	"testing"
	"time"

	corev1 "k8s.io/api/core/v1"
	"k8s.io/apimachinery/pkg/api/errors"
	"k8s.io/apimachinery/pkg/api/resource"
	metav1 "k8s.io/apimachinery/pkg/apis/meta/v1"
	"k8s.io/apimachinery/pkg/types"
	toolscache "k8s.io/client-go/tools/cache"
	fwktype "k8s.io/kube-scheduler/framework"
	"k8s.io/kubernetes/pkg/scheduler/framework"
	clocktesting "k8s.io/utils/clock/testing"
	"k8s.io/utils/ptr"
	"pgregory.net/rapid"

	"github.com/koordinator-sh/koordinator/apis/extension"
	slov1alpha1 "github.com/koordinator-sh/koordinator/apis/slo/v1alpha1"
	"github.com/koordinator-sh/koordinator/pkg/scheduler/apis/config"
	"github.com/koordinator-sh/koordinator/pkg/scheduler/plugins/loadaware/estimator"
	"github.com/koordinator-sh/koordinator/pkg/verifkit/vk"
)

var c08T0 = time.Unix(1_700_000_000, 0)

// every query mode of GetNodeMetricAndEstimatedOfExisting: prod, whole node, aggregated (type x period incl. never-reported ones)
var c08AllModes = func() []c08Mode {
	out := []c08Mode{{prod: true}, {}}
	for _, ty := range []extension.AggregationType{extension.AVG, extension.P95, extension.P99, extension.P50} {
		for _, d := range []time.Duration{0, 5 * time.Minute, 10 * time.Minute, 30 * time.Minute, time.Hour} {
			out = append(out, c08Mode{typ: ty, dur: d})
		}
	}
	return out
}()

// minimal framework handle for Plugin.Score (it only asks for the snapshot lister)
type c08Handle struct {
	fwktype.Handle
	lister fwktype.SharedLister
}

func (h *c08Handle) SnapshotSharedLister() fwktype.SharedLister { return h.lister }

// development switch: VERIF_C08_NOALIAS=1 turns the "+1 on returned vectors" aliasing detector off (to show the probes alone catch a leak)
var c08NoAlias = os.Getenv("VERIF_C08_NOALIAS") != ""

// one pod as the generator follows it through its life
type c08Life struct {
	name    string
	uid     types.UID
	obj     *corev1.Pod // last object the informer delivered; nil before add / after delete
	assumed *corev1.Pod // copy handed to Reserve and not yet rolled back / bound
	gone    bool
}

type c08State struct {
	env       *c08Env
	clock     *clocktesting.FakeClock
	cache     *podAssignCache
	pl        *Plugin
	handler   toolscache.ResourceEventHandler
	nodeNames []string
	nodes     map[string]*c08NodeModel
	hist      []string
	// non-trivial rule: per node, pods whose CURRENT report shows a usage different from the estimate
	differs map[string]map[types.UID]bool
	sawNT   bool
	classes map[string]bool
	// deadline-crossing: pod seen inside its estimation window, later outside
	inWin map[types.UID]bool
}

func c08NewState(env *c08Env, t0 time.Time) *c08State {
	s := &c08State{env: env, clock: clocktesting.NewFakeClock(t0), nodeNames: []string{"n0", "n1", "n2"}, nodes: map[string]*c08NodeModel{},
		differs: map[string]map[types.UID]bool{}, classes: map[string]bool{}, inWin: map[types.UID]bool{}}
	s.cache = newPodAssignCache(env.est, NewResourceVectorizerFromArgs(env.args), env.args)
	s.cache.clock = s.clock
	s.pl = &Plugin{args: env.args, vectorizer: s.cache.vectorizer, filterProfile: NewUsageThresholdsFilterProfile(env.args, s.cache.vectorizer),
		estimator: env.est, podAssignCache: s.cache}
	s.handler = s.cache.NodeMetricHandler()
	for _, n := range s.nodeNames {
		s.nodes[n] = &c08NodeModel{pods: map[types.UID]*c08Assigned{}}
		s.differs[n] = map[types.UID]bool{}
	}
	return s
}

func (s *c08State) logf(format string, a ...any) {
	s.hist = append(s.hist, fmt.Sprintf("[clock %s] ", c08Off(c08T0, s.clock.Now()))+fmt.Sprintf(format, a...))
}

// ---- model of "which pods are currently assigned to which node" (the event semantics; the sums are NOT modelled here)

// shape: an assigned pod with an all-zero estimate (cached without estimation vector) that the CURRENT report shows as prod with usage
func (s *c08State) zeroEstActiveProd(node string, uid types.UID) bool {
	nm := s.nodes[node]
	a := nm.pods[uid]
	if a == nil || nm.metric == nil {
		return false
	}
	for _, v := range s.env.estimate(a.pod) {
		if v != 0 {
			return false
		}
	}
	if extension.GetPodPriorityClassWithDefault(a.pod) != extension.PriorityProd {
		return false
	}
	usage, prod := c08Reported(nm.metric)
	k := c08Key{a.pod.Namespace, a.pod.Name}
	_, ok := usage[k]
	return ok && prod[k]
}

func (s *c08State) mRemoved(node string, uid types.UID) {
	if s.zeroEstActiveProd(node, uid) {
		s.classes["zero-estimate-active-prod-pod-removed"] = true
	}
	if s.differs[node][uid] && s.nodes[node].metric != nil {
		s.sawNT = true
	}
	delete(s.differs[node], uid)
}

func (s *c08State) mAssign(node string, pod *corev1.Pod) {
	if node == "" || c08Terminated(pod) {
		return
	}
	nm := s.nodes[node]
	if _, ok := nm.pods[pod.UID]; ok {
		if s.zeroEstActiveProd(node, pod.UID) {
			s.classes["zero-estimate-active-prod-pod-restored"] = true
		}
		if s.differs[node][pod.UID] && nm.metric != nil {
			s.classes["restore-after-differing-report"] = true
		}
	}
	nm.pods[pod.UID] = &c08Assigned{pod: pod, ts: c08AssignTime(pod, s.clock.Now())}
	s.refreshDiffers(node)
}

func (s *c08State) mUnassign(node string, uid types.UID) {
	if node == "" {
		return
	}
	if _, ok := s.nodes[node].pods[uid]; ok {
		s.mRemoved(node, uid)
		delete(s.nodes[node].pods, uid)
	}
}

func (s *c08State) mUpdate(oldPod, newPod *corev1.Pod) {
	if oldPod.Spec.NodeName != "" && oldPod.Spec.NodeName != newPod.Spec.NodeName {
		s.mUnassign(oldPod.Spec.NodeName, newPod.UID)
	}
	n := newPod.Spec.NodeName
	if n == "" {
		return
	}
	cur := s.nodes[n].pods[newPod.UID]
	switch {
	case cur == nil:
		s.mAssign(n, newPod)
	case c08Terminated(newPod):
		s.mUnassign(n, newPod.UID)
	case c08SpecOrConditionsChanged(cur.pod, newPod):
		s.mAssign(n, newPod)
	}
}

func (s *c08State) refreshDiffers(node string) {
	nm := s.nodes[node]
	d := map[types.UID]bool{}
	if nm.metric != nil {
		usage, _ := c08Reported(nm.metric)
		for uid, a := range nm.pods {
			if rl, ok := usage[c08Key{a.pod.Namespace, a.pod.Name}]; ok {
				u, e := s.env.vec(rl), s.env.estimate(a.pod)
				for i := range u {
					if u[i] != e[i] {
						d[uid] = true
					}
				}
			}
		}
	}
	s.differs[node] = d
}

func c08AllZero(v []int64) bool {
	for _, x := range v {
		if x != 0 {
			return false
		}
	}
	return true
}

// ---- the differential partner: a fresh cache fed the final metric and pods

func (s *c08State) fresh(metricFirst bool) *podAssignCache {
	est, _ := estimator.NewEstimator(s.env.args, nil)
	fc := clocktesting.NewFakeClock(c08T0)
	f := newPodAssignCache(est, NewResourceVectorizerFromArgs(s.env.args), s.env.args)
	f.clock = fc
	for _, n := range s.nodeNames {
		nm := s.nodes[n]
		if metricFirst && nm.metric != nil {
			f.AddOrUpdateNodeMetric(nm.metric)
		}
		for _, uid := range nm.sortedUIDs() {
			a := nm.pods[uid]
			fc.SetTime(a.ts)
			f.assign(n, a.pod)
		}
		if !metricFirst && nm.metric != nil {
			f.AddOrUpdateNodeMetric(nm.metric)
		}
	}
	return f
}

func (s *c08State) dump() string {
	out := "args: " + c08ArgsStr(s.env.args) + "\nhistory:\n"
	for i, h := range s.hist {
		out += fmt.Sprintf("  %2d %s\n", i+1, h)
	}
	out += "model:\n"
	for _, n := range s.nodeNames {
		nm := s.nodes[n]
		if nm.metric != nil {
			out += "  " + n + ": " + c08MetricStr(c08T0, nm.metric) + "\n"
		} else {
			out += "  " + n + ": no metric\n"
		}
		for _, uid := range nm.sortedUIDs() {
			a := nm.pods[uid]
			out += fmt.Sprintf("     assigned@%s deadline=%s %s\n", c08Off(c08T0, a.ts), c08Off(c08T0, s.env.deadline(a)), s.env.podStr(c08T0, a.pod))
		}
	}
	return out
}

// check compares cache, fresh cache and model. Returns true when the case must be abandoned (known finding).
func (s *c08State) check(c *vk.Case, t *rapid.T) bool {
	fresh := s.fresh(len(s.hist)%2 == 0)
	for _, n := range s.nodeNames {
		nm := s.nodes[n]
		for _, mode := range c08AllModes {
			want, has, views := s.env.scratch(nm, mode)
			gotM, got, _, err := s.cache.GetNodeMetricAndEstimatedOfExisting(n, mode.prod, metav1.Duration{Duration: mode.dur}, mode.typ, false)
			if err != nil && !errors.IsNotFound(err) {
				return c.Violation(t, "drift:query-error", "node %s mode %+v: %v\n%s", n, mode, err, s.dump())
			}
			if has != (err == nil) {
				return c.Violation(t, "drift:metric-presence", "node %s: model has metric=%v, cache query err=%v\n%s", n, has, err, s.dump())
			}
			if !has {
				continue
			}
			if gotM != nm.metric {
				return c.Violation(t, "drift:stale-metric-object", "node %s: cache returns a NodeMetric that is not the last one delivered\n%s", n, s.dump())
			}
			_, fgot, _, ferr := fresh.GetNodeMetricAndEstimatedOfExisting(n, mode.prod, metav1.Duration{Duration: mode.dur}, mode.typ, false)
			if ferr != nil {
				return c.Violation(t, "rebuild:fresh-query-error", "node %s mode %+v: %v\n%s", n, mode, ferr, s.dump())
			}
			if !c08Eq(got, fgot) {
				return c.Violation(t, "drift:cache-ne-fresh:"+mode.kind(), "node %s mode %+v resources %v: cache keeps %v, a fresh cache fed the same metric and pods gives %v (from-scratch model: %v)\npods: %+v\n%s",
					n, mode, s.env.names, got, fgot, want, views, s.dump())
			}
			if !c08Eq(got, want) {
				return c.Violation(t, "drift:cache-and-fresh-ne-scratch:"+mode.kind(), "node %s mode %+v resources %v: cache and fresh cache give %v, from-scratch model %v\npods: %+v\n%s",
					n, mode, s.env.names, got, want, views, s.dump())
			}
			if !c08NoAlias { // the caller owns the returned vector: writing to it must not reach the cache (the next query shows it)
				for i := range got {
					got[i]++
				}
			}
			if mode.typ == "" && !mode.prod {
				for _, v := range views {
					if v.HasWindow && v.InWindow {
						s.inWin[types.UID(v.Name)] = true
						s.classes["in-estimation-window"] = true
					}
					if v.HasWindow && !v.InWindow {
						s.classes["estimation-window-elapsed"] = true
						if s.inWin[types.UID(v.Name)] {
							s.classes["deadline-crossing"] = true
						}
					}
					if v.Reported && !v.Unreflected {
						s.classes["pod-reflected-by-report"] = true
					}
					if v.Reported && v.Unreflected {
						s.classes["pod-reported-but-not-yet-reflected"] = true
					}
					if c08AllZero(v.Est) {
						s.classes["zero-estimate-pod-assigned"] = true
						if v.ActiveProd {
							s.classes["zero-estimate-active-prod-pod-assigned"] = true
						}
					}
					if v.Prod && v.Reported && !v.ActiveProd {
						s.classes["prod-pod-reported-nonprod"] = true
					}
				}
			}
		}
	}
	return false
}

func (s *c08State) genTimeNear(t *rapid.T, node string, label string) time.Time {
	now := s.clock.Now()
	nm := s.nodes[node]
	kind := rapid.IntRange(0, 3).Draw(t, label+"Kind")
	if nm == nil || nm.metric == nil || nm.metric.Status.UpdateTime == nil {
		kind = 0
	}
	jitter := rapid.SampledFrom([]time.Duration{-time.Second, -1, 0, 0, 1, time.Second}).Draw(t, label+"Jitter")
	switch kind {
	case 1: // around "assigned after updateTime - reportInterval"
		return c08UpdateTime(nm.metric).Add(-c08Interval(nm.metric)).Add(jitter)
	case 2: // so that an estimation deadline lands around the update time
		secs := []int64{30, 60, 120, 300}
		if p := s.env.args.EstimatedSecondsAfterPodScheduled; p != nil && *p > 0 {
			secs = append(secs, *p, *p)
		}
		if p := s.env.args.EstimatedSecondsAfterInitialized; p != nil && *p > 0 {
			secs = append(secs, *p, *p)
		}
		sec := rapid.SampledFrom(secs).Draw(t, label+"Window")
		return c08UpdateTime(nm.metric).Add(-time.Duration(sec) * time.Second).Add(jitter)
	}
	return now.Add(-rapid.SampledFrom([]time.Duration{0, time.Second, 30 * time.Second, 59 * time.Second, 60 * time.Second, 61 * time.Second, 3 * time.Minute}).Draw(t, label+"Ago"))
}

func (s *c08State) genUpdateTime(t *rapid.T, node string, interval time.Duration) time.Time {
	now := s.clock.Now()
	nm := s.nodes[node]
	uids := nm.sortedUIDs()
	kind := rapid.IntRange(0, 4).Draw(t, "utKind")
	if len(uids) == 0 && kind >= 2 {
		kind = 0
	}
	jitter := rapid.SampledFrom([]time.Duration{-time.Second, -1, 0, 0, 1, time.Second}).Draw(t, "utJitter")
	switch kind {
	case 1:
		return now.Add(rapid.SampledFrom([]time.Duration{time.Second, 30 * time.Second}).Draw(t, "utAhead"))
	case 2, 3: // boundary of "assigned after updateTime - reportInterval" for one assigned pod
		a := nm.pods[rapid.SampledFrom(uids).Draw(t, "utPod")]
		return a.ts.Add(interval).Add(jitter)
	case 4: // boundary of one pod's estimation window
		a := nm.pods[rapid.SampledFrom(uids).Draw(t, "utPod")]
		if dl := s.env.deadline(a); !dl.IsZero() {
			return dl.Add(jitter)
		}
	}
	return now.Add(-rapid.SampledFrom([]time.Duration{0, time.Second, 30 * time.Second, 59 * time.Second, 60 * time.Second, 61 * time.Second, 2 * time.Minute, 10 * time.Minute}).Draw(t, "utAgo"))
}

func TestVerifC08Drift(t *testing.T) {
	rec := vk.New(t, "C08", "drift")
	rapid.Check(t, func(t *rapid.T) {
		c := rec.Begin()
		defer c.End()
		env := c08NewEnv(c08GenArgs(t))
		s := c08NewState(env, c08T0)
		var lives []*c08Life
		dead := false
		ctx := context.Background()
		liveCount := func() int {
			n := 0
			for _, l := range lives {
				if l.obj != nil || l.assumed != nil {
					n++
				}
			}
			return n
		}
		pick := func(t *rapid.T, label string, ok func(*c08Life) bool) *c08Life {
			var cand []*c08Life
			for _, l := range lives {
				if ok(l) {
					cand = append(cand, l)
				}
			}
			if len(cand) == 0 {
				t.Skip("no candidate for " + label)
			}
			return cand[rapid.IntRange(0, len(cand)-1).Draw(t, label)]
		}
		nameInUse := func(name string) bool {
			for _, l := range lives {
				if l.name == name && (l.obj != nil || l.assumed != nil) {
					return true
				}
			}
			for _, nm := range s.nodes {
				for _, a := range nm.pods {
					if a.pod.Name == name {
						return true
					}
				}
			}
			return false
		}

		podAdd := func(t *rapid.T) {
			if dead {
				return
			}
			if liveCount() >= 7 {
				t.Skip("enough pods")
			}
			name := fmt.Sprintf("p%d", len(lives))
			if rapid.IntRange(0, 4).Draw(t, "reuseName") == 0 {
				for _, l := range lives {
					if l.gone && !nameInUse(l.name) {
						name = l.name
						s.classes["recreated-same-name"] = true
						break
					}
				}
			}
			node := ""
			if rapid.Bool().Draw(t, "prebound") {
				node = rapid.SampledFrom(s.nodeNames).Draw(t, "node")
			}
			l := &c08Life{name: name, uid: types.UID(fmt.Sprintf("u%d", len(lives)))}
			target := node
			if target == "" {
				target = s.nodeNames[0]
			}
			l.obj = c08GenPod(t, name, l.uid, func(label string) time.Time { return s.genTimeNear(t, target, label) })
			l.obj.Spec.NodeName = node
			if node == "" { // a pending pod has no PodScheduled=True condition
				if cnd := c08Cond(l.obj, corev1.PodScheduled); cnd != nil && cnd.Status == corev1.ConditionTrue {
					cnd.Status = corev1.ConditionFalse
				}
			}
			lives = append(lives, l)
			s.logf("OnAdd %s", env.podStr(c08T0, l.obj))
			s.cache.OnAdd(l.obj, rapid.Bool().Draw(t, "initialList"))
			s.mAssign(node, l.obj)
		}
		actions := map[string]func(*rapid.T){
			"podAdd":  podAdd,
			"podAdd2": podAdd,
			"reAdd": func(t *rapid.T) { // informer replays an add for an object it already delivered (forced sync at start-up)
				if dead {
					return
				}
				l := pick(t, "readd", func(l *c08Life) bool { return l.obj != nil })
				s.logf("OnAdd(again) %s", env.podStr(c08T0, l.obj))
				s.cache.OnAdd(l.obj, true)
				s.mAssign(l.obj.Spec.NodeName, l.obj)
			},
			"reserve": func(t *rapid.T) {
				if dead {
					return
				}
				l := pick(t, "reservePod", func(l *c08Life) bool {
					return l.obj != nil && l.obj.Spec.NodeName == "" && l.assumed == nil && !c08Terminated(l.obj)
				})
				node := rapid.SampledFrom(s.nodeNames).Draw(t, "node")
				l.assumed = l.obj.DeepCopy()
				l.assumed.Spec.NodeName = node
				s.logf("Reserve %s on %s", l.name, node)
				s.pl.Reserve(ctx, nil, l.assumed, node)
				s.mAssign(node, l.assumed)
				s.classes["reserve"] = true
			},
			"unreserve": func(t *rapid.T) {
				if dead {
					return
				}
				l := pick(t, "unreservePod", func(l *c08Life) bool { return l.assumed != nil })
				node := l.assumed.Spec.NodeName
				s.logf("Unreserve %s from %s", l.name, node)
				if rapid.Bool().Draw(t, "viaForget") {
					s.cache.unAssign(node, l.assumed) // the ForgetPod handler registered in New
				} else {
					s.pl.Unreserve(ctx, nil, l.assumed, node)
				}
				s.mUnassign(node, l.uid)
				l.assumed = nil
				s.classes["rollback"] = true
			},
			"bind": func(t *rapid.T) {
				if dead {
					return
				}
				l := pick(t, "bindPod", func(l *c08Life) bool { return l.assumed != nil && l.obj != nil && l.obj.Spec.NodeName == "" })
				node := l.assumed.Spec.NodeName
				elsewhere := rapid.IntRange(0, 3).Draw(t, "boundElsewhere") == 0
				if elsewhere {
					node = rapid.SampledFrom(s.nodeNames).Draw(t, "otherNode")
				}
				n := l.obj.DeepCopy()
				n.Spec.NodeName = node
				if rapid.IntRange(0, 3).Draw(t, "withScheduledCond") > 0 {
					at := s.genTimeNear(t, node, "boundAt")
					if cnd := c08Cond(n, corev1.PodScheduled); cnd != nil {
						cnd.Status, cnd.Reason, cnd.LastTransitionTime = corev1.ConditionTrue, "", metav1.Time{Time: at}
					} else {
						n.Status.Conditions = append(n.Status.Conditions, corev1.PodCondition{Type: corev1.PodScheduled, Status: corev1.ConditionTrue, LastTransitionTime: metav1.Time{Time: at}})
					}
				}
				s.logf("OnUpdate(bound) %s", env.podStr(c08T0, n))
				s.cache.OnUpdate(l.obj, n)
				s.mUpdate(l.obj, n)
				l.obj = n
				if node == l.assumed.Spec.NodeName {
					l.assumed = nil // binding finished
				} else {
					s.classes["bound-elsewhere"] = true
				}
			},
			"podUpdate": func(t *rapid.T) {
				if dead {
					return
				}
				l := pick(t, "updatePod", func(l *c08Life) bool { return l.obj != nil })
				n := l.obj.DeepCopy()
				kind := rapid.SampledFrom([]string{"resources", "resources", "limits", "limits", "priority", "conditions", "conditions", "terminate", "nodeName", "metadata"}).Draw(t, "updateKind")
				if kind == "priority" && (n.Spec.Priority == nil || n.Labels[extension.LabelPodPriorityClass] != "") {
					kind = "resources"
				}
				if kind == "nodeName" && (n.Spec.NodeName == "" || rapid.IntRange(0, 1).Draw(t, "reallyMove") == 0) {
					kind = "conditions"
				}
				// the pod is bound to one node but also cached on another (still assumed there): the deciding move is onto that node
				cachedElsewhere := ""
				if n.Spec.NodeName != "" && !c08Terminated(n) {
					for _, x := range s.nodeNames {
						if x != n.Spec.NodeName && s.nodes[x].pods[n.UID] != nil && s.nodes[n.Spec.NodeName].pods[n.UID] != nil {
							cachedElsewhere = x
						}
					}
				}
				if cachedElsewhere != "" && rapid.IntRange(0, 2).Draw(t, "moveOntoCached") > 0 {
					kind = "nodeName"
				}
				switch kind {
				case "resources":
					ctr := &n.Spec.Containers[0]
					name := corev1.ResourceCPU
					for k := range ctr.Resources.Requests {
						if k == extension.BatchCPU || k == extension.MidCPU {
							name = k
						}
					}
					var old int64
					if q, ok := ctr.Resources.Requests[name]; ok {
						old = q.MilliValue()
						if name != corev1.ResourceCPU {
							old = q.Value()
						}
					}
					v := c08CPUGen.Draw(t, "newCPU")
					if v == old {
						v++
					}
					if ctr.Resources.Requests == nil {
						ctr.Resources.Requests = corev1.ResourceList{}
					}
					if name == corev1.ResourceCPU {
						ctr.Resources.Requests[name] = *resource.NewMilliQuantity(v, resource.DecimalSI)
					} else {
						ctr.Resources.Requests[name] = *resource.NewQuantity(v, resource.DecimalSI)
					}
					delete(ctr.Resources.Limits, name)
					s.classes["update-spec"] = true
				case "limits": // in-place resize of a limit only: requests, priority, nodeName and conditions stay as they are
					ctr := &n.Spec.Containers[rapid.IntRange(0, len(n.Spec.Containers)-1).Draw(t, "limitContainer")]
					cpuName, memName := corev1.ResourceCPU, corev1.ResourceMemory
					for k := range ctr.Resources.Requests {
						switch k {
						case extension.BatchCPU, extension.MidCPU:
							cpuName = k
						case extension.BatchMemory, extension.MidMemory:
							memName = k
						}
					}
					name := cpuName
					if rapid.Bool().Draw(t, "limitOnMemory") {
						name = memName
					}
					milli := name == corev1.ResourceCPU
					val := func(q resource.Quantity) int64 {
						if milli {
							return q.MilliValue()
						}
						return q.Value()
					}
					mk := func(v int64) resource.Quantity {
						switch {
						case milli:
							return *resource.NewMilliQuantity(v, resource.DecimalSI)
						case name == memName:
							return *resource.NewQuantity(v, resource.BinarySI)
						}
						return *resource.NewQuantity(v, resource.DecimalSI)
					}
					req := val(ctr.Resources.Requests[name])
					oldLim, hadLim := ctr.Resources.Limits[name]
					var v int64
					switch rapid.IntRange(0, 4).Draw(t, "limitKind") {
					case 0: // drop the limit
						v = -1
					case 1: // limit == request
						v = req
					case 2: // just above the request
						v = req + 1
					default: // well above the request (burstable)
						if name == memName {
							v = req + rapid.Int64Range(1, 8<<30).Draw(t, "limitExtraMem")
						} else {
							v = req + rapid.Int64Range(1, 8000).Draw(t, "limitExtraCPU")
						}
					}
					if v == 0 || (v < 0 && !hadLim) || (v >= 0 && hadLim && val(oldLim) == v) {
						v = req + 1000 // make it a real change
						if hadLim && val(oldLim) == v {
							v++
						}
					}
					if v < 0 {
						delete(ctr.Resources.Limits, name)
						if len(ctr.Resources.Limits) == 0 {
							ctr.Resources.Limits = nil
						}
					} else {
						if ctr.Resources.Limits == nil {
							ctr.Resources.Limits = corev1.ResourceList{}
						}
						ctr.Resources.Limits[name] = mk(v)
					}
					s.classes["update-limits-only"] = true
					if node := n.Spec.NodeName; node != "" && s.nodes[node].pods[n.UID] != nil && !c08Terminated(n) {
						s.classes["update-limits-only-of-assigned-pod"] = true
						eo, en := env.estimate(l.obj), env.estimate(n)
						for i := range eo {
							if eo[i] != en[i] {
								s.classes["update-limits-only-changes-estimate"] = true
								if en[i] > eo[i] {
									s.classes["update-limits-only-raises-estimate"] = true
								}
							}
						}
						if s.nodes[node].metric != nil {
							s.classes["update-limits-only-with-metric-present"] = true
						}
					}
				case "priority":
					was := extension.GetPodPriorityClassWithDefault(n)
					to := extension.PriorityBatch
					if was != extension.PriorityProd {
						to = extension.PriorityProd
					}
					n.Spec.Priority = ptr.To(c08PriorityValue(to))
					s.classes["priority-flip"] = true
				case "conditions":
					node := n.Spec.NodeName
					if node == "" {
						node = s.nodeNames[0]
					}
					n.Status.Conditions = c08GenConditions(t, func(label string) time.Time { return s.genTimeNear(t, node, label) })
					if n.Spec.NodeName == "" {
						if cnd := c08Cond(n, corev1.PodScheduled); cnd != nil && cnd.Status == corev1.ConditionTrue {
							cnd.Status = corev1.ConditionFalse
						}
					}
					s.classes["update-conditions"] = true
				case "terminate":
					n.Status.Phase = rapid.SampledFrom([]corev1.PodPhase{corev1.PodSucceeded, corev1.PodFailed}).Draw(t, "endPhase")
					s.classes["update-terminated"] = true
				case "nodeName":
					others := []string{}
					for _, x := range s.nodeNames {
						if x != n.Spec.NodeName {
							others = append(others, x)
						}
					}
					n.Spec.NodeName = rapid.SampledFrom(others).Draw(t, "moveTo")
					if cachedElsewhere != "" {
						n.Spec.NodeName = cachedElsewhere
						s.classes["nodeName-change-onto-node-already-caching-the-pod"] = true
						if s.nodes[cachedElsewhere].metric != nil || s.nodes[l.obj.Spec.NodeName].metric != nil {
							s.classes["nodeName-change-onto-caching-node(metric present)"] = true
						}
					}
					s.classes["nodeName-change"] = true
				case "metadata":
					n.Labels["touched"] = fmt.Sprint(len(s.hist))
					s.classes["update-metadata-only"] = true
				}
				s.logf("OnUpdate(%s) %s", kind, env.podStr(c08T0, n))
				s.cache.OnUpdate(l.obj, n)
				s.mUpdate(l.obj, n)
				l.obj = n
			},
			"podDelete": func(t *rapid.T) {
				if dead {
					return
				}
				l := pick(t, "deletePod", func(l *c08Life) bool { return l.obj != nil })
				s.logf("OnDelete %s (node=%q)", l.name, l.obj.Spec.NodeName)
				if rapid.IntRange(0, 3).Draw(t, "tombstone") == 0 {
					s.cache.OnDelete(toolscache.DeletedFinalStateUnknown{Key: c08NS + "/" + l.name, Obj: l.obj})
				} else {
					s.cache.OnDelete(l.obj)
				}
				s.mUnassign(l.obj.Spec.NodeName, l.uid)
				l.obj, l.gone = nil, true
			},
			"metric": func(t *rapid.T) {
				if dead {
					return
				}
				node := rapid.SampledFrom(s.nodeNames).Draw(t, "node")
				nm := s.nodes[node]
				var m *slov1alpha1.NodeMetric
				if rapid.IntRange(0, 14).Draw(t, "emptyStatus") == 0 {
					m = env.genMetric(t, node, nil, nm)
					s.classes["metric-empty-status"] = true
				} else {
					probe := env.genMetric(t, node, nil, nil) // draws the interval first: the update time is aimed relative to it
					ut := s.genUpdateTime(t, node, c08Interval(probe))
					m = env.genMetric(t, node, &ut, nm)
					m.Spec = probe.Spec
				}
				had := nm.metric != nil
				s.logf("%s", c08MetricStr(c08T0, m))
				if had {
					s.handler.OnUpdate(nm.metric, m)
				} else {
					s.handler.OnAdd(m, false)
				}
				nm.metric = m
				s.refreshDiffers(node)
				if len(nm.pods) > 0 {
					s.classes["metric-with-assigned-pods"] = true
				}
				if m.Status.NodeMetric == nil && m.Status.UpdateTime != nil {
					s.classes["metric-without-node-usage"] = true
				}
				for _, pm := range m.Status.PodsMetric {
					if pm != nil && len(pm.Name) > 5 && pm.Name[:5] == "ghost" {
						s.classes["dangling-pod-metric"] = true
					}
				}
				if s.classes["metric-deleted"] && !had {
					s.classes["metric-delete-readd"] = true
				}
			},
			"metric2": nil,
			"metricDelete": func(t *rapid.T) {
				if dead {
					return
				}
				var with []string
				for _, n := range s.nodeNames {
					if s.nodes[n].metric != nil {
						with = append(with, n)
					}
				}
				if len(with) == 0 {
					t.Skip("no metric")
				}
				node := rapid.SampledFrom(with).Draw(t, "node")
				s.logf("delete metric %s", node)
				if rapid.Bool().Draw(t, "tombstone") {
					s.handler.OnDelete(toolscache.DeletedFinalStateUnknown{Key: node, Obj: s.nodes[node].metric})
				} else {
					s.handler.OnDelete(s.nodes[node].metric)
				}
				s.nodes[node].metric = nil
				s.differs[node] = map[types.UID]bool{}
				s.classes["metric-deleted"] = true
			},
			"probe": func(t *rapid.T) { // read-only consumers: PreFilter / Filter / Score of some incoming pod must not change what the cache keeps
				if dead {
					return
				}
				nodeName := rapid.SampledFrom(s.nodeNames).Draw(t, "node")
				nm := s.nodes[nodeName]
				withExtra := len(env.names) > 2
				pa := *env.args
				expiryOff := rapid.IntRange(0, 3).Draw(t, "probeExpiryOff") > 0
				if expiryOff { // the fake clock lives in 2023: with expiry checks on, Filter/Score stop at "expired"
					pa.FilterExpiredNodeMetrics, pa.NodeMetricExpirationSeconds = ptr.To(false), nil
				}
				pa.UsageThresholds = c08GenThresholds(t, "pUsageThr", withExtra, true)
				pa.ProdUsageThresholds = nil
				if rapid.Bool().Draw(t, "pHasProdThr") {
					pa.ProdUsageThresholds = c08GenThresholds(t, "pProdThr", withExtra, true)
				}
				pa.Aggregated = nil
				aggTypes := []extension.AggregationType{extension.AVG, extension.P95, extension.P99, extension.P50, ""}
				aggDurs := []time.Duration{0, 5 * time.Minute, 10 * time.Minute, 30 * time.Minute, time.Hour}
				if rapid.IntRange(0, 3).Draw(t, "pHasAgg") > 0 {
					thr := c08GenThresholds(t, "pAggThr", withExtra, false)
					if !env.anyThreshold(thr) {
						thr = map[corev1.ResourceName]int64{corev1.ResourceCPU: 50}
					}
					pa.Aggregated = &config.LoadAwareSchedulingAggregatedArgs{UsageThresholds: thr,
						UsageAggregationType:    rapid.SampledFrom(aggTypes).Draw(t, "pAggType"),
						UsageAggregatedDuration: metav1.Duration{Duration: rapid.SampledFrom(aggDurs).Draw(t, "pAggDur")},
						ScoreAggregationType:    rapid.SampledFrom(aggTypes).Draw(t, "pScoreAggType"),
						ScoreAggregatedDuration: metav1.Duration{Duration: rapid.SampledFrom(aggDurs).Draw(t, "pScoreAggDur")}}
				}
				pa.ScoreAccordingProdUsage = rapid.Bool().Draw(t, "pScoreProd")
				pa.ResourceWeights = map[corev1.ResourceName]int64{corev1.ResourceCPU: 1, corev1.ResourceMemory: 1}
				pa.DominantResourceWeight = rapid.Int64Range(0, 1).Draw(t, "pDominant")
				node := &corev1.Node{ObjectMeta: metav1.ObjectMeta{Name: nodeName, Annotations: map[string]string{}}}
				node.Status.Allocatable = corev1.ResourceList{
					corev1.ResourceCPU:    c08Q(corev1.ResourceCPU, rapid.SampledFrom([]int64{1000, 16000, 96000, 1000000}).Draw(t, "pAllocCPU")),
					corev1.ResourceMemory: c08Q(corev1.ResourceMemory, rapid.SampledFrom([]int64{1 << 30, 64 << 30, 512 << 30, 64 << 40}).Draw(t, "pAllocMem")),
					c08Extra:              c08Q(c08Extra, 1000),
				}
				if rapid.IntRange(0, 3).Draw(t, "pCustomAgg") == 0 {
					g := &extension.CustomAggregatedUsage{UsageThresholds: map[corev1.ResourceName]int64{corev1.ResourceCPU: rapid.Int64Range(1, 100).Draw(t, "pcAggThr")},
						UsageAggregationType: rapid.SampledFrom(aggTypes[:4]).Draw(t, "pcAggType")}
					if rapid.Bool().Draw(t, "pcAggHasDur") {
						g.UsageAggregatedDuration = &metav1.Duration{Duration: rapid.SampledFrom(aggDurs).Draw(t, "pcAggDur")}
					}
					b, _ := json.Marshal(&extension.CustomUsageThresholds{AggregatedUsage: g})
					node.Annotations[extension.AnnotationCustomUsageThresholds] = string(b)
				}
				vec := s.cache.vectorizer
				lister := newTestSharedLister(nil, []*corev1.Node{node})
				pl := &Plugin{handle: &c08Handle{lister: lister}, args: &pa, vectorizer: vec, filterProfile: NewUsageThresholdsFilterProfile(&pa, vec),
					scoreWeights: vec.ToFactorVec(pa.ResourceWeights), estimator: env.est, podAssignCache: s.cache}
				incoming := c08GenPod(t, "incoming", "u-incoming", func(string) time.Time { return s.clock.Now() })
				incoming.Status.Conditions = nil
				incProd := extension.GetPodPriorityClassWithDefault(incoming) == extension.PriorityProd
				ni, _ := lister.Get(nodeName)
				doFilter := rapid.IntRange(0, 2).Draw(t, "pFilter") > 0
				doScore := !doFilter || rapid.Bool().Draw(t, "pScore")
				doPre := rapid.Bool().Draw(t, "pPreFilter")
				reps := rapid.IntRange(1, 4).Draw(t, "pRepeat")
				shareState := rapid.Bool().Draw(t, "pShareState")

				// does this probe take the "requested aggregated usage is not reported" branch?
				hasUsage := nm.metric != nil && nm.metric.Status.NodeMetric != nil
				if doFilter && hasUsage && expiryOff {
					prof := c08EffectiveProfile(&pa, node)
					if !(env.anyThreshold(prof.prod) && incProd) && prof.agg != nil && env.anyThreshold(prof.agg.thr) &&
						env.reportedBase(nm.metric, c08Mode{typ: prof.agg.typ, dur: prof.agg.dur}) == nil {
						s.classes["probe-on-unreported-aggregation"] = true
						s.classes["probe-filter-on-unreported-aggregation"] = true
					}
				}
				if doScore && hasUsage && expiryOff {
					if g := pa.Aggregated; !(pa.ScoreAccordingProdUsage && incProd) && g != nil && g.ScoreAggregationType != "" &&
						env.reportedBase(nm.metric, c08Mode{typ: g.ScoreAggregationType, dur: g.ScoreAggregatedDuration.Duration}) == nil {
						s.classes["probe-on-unreported-aggregation"] = true
						s.classes["probe-score-on-unreported-aggregation"] = true
					}
				}
				s.logf("probe x%d on %s (filter=%v score=%v prefilter=%v sharedState=%v) incoming est=%v class=%s; probe args: %s; node annotations=%v",
					reps, nodeName, doFilter, doScore, doPre, shareState, env.estimate(incoming), extension.GetPodPriorityClassWithDefault(incoming), c08ArgsStr(&pa), node.Annotations)
				var firstCode fwktype.Code
				var firstScore int64
				state := framework.NewCycleState()
				for r := 0; r < reps; r++ {
					if !shareState {
						state = framework.NewCycleState()
					}
					if doPre {
						pl.PreFilter(ctx, state, incoming, nil)
					}
					if doFilter {
						s.classes["probe-filter"] = true
						st := pl.Filter(ctx, state, incoming, ni)
						if r == 0 {
							firstCode = st.Code()
						} else if st.Code() != firstCode {
							if c.Violation(t, "probe:filter-verdict-changes-on-repeat", "Filter call %d on %s returned %v, the first call %v, nothing happened in between\n%s", r+1, nodeName, st.Code(), firstCode, s.dump()) {
								dead = true
							}
							return
						}
					}
					if doScore {
						s.classes["probe-score"] = true
						sc, st := pl.Score(ctx, state, incoming, ni)
						if !st.IsSuccess() {
							if c.Violation(t, "probe:score-error", "Score on %s: %v\n%s", nodeName, st.Message(), s.dump()) {
								dead = true
							}
							return
						}
						if r == 0 {
							firstScore = sc
						} else if sc != firstScore {
							if c.Violation(t, "probe:score-changes-on-repeat", "Score call %d on %s returned %d, the first call %d, nothing happened in between\n%s", r+1, nodeName, sc, firstScore, s.dump()) {
								dead = true
							}
							return
						}
					}
				}
			},
			"tick": func(t *rapid.T) {
				if dead {
					return
				}
				d := rapid.SampledFrom([]time.Duration{1, time.Second, 10 * time.Second, 30 * time.Second, 59 * time.Second, 60 * time.Second, 61 * time.Second, 5 * time.Minute}).Draw(t, "tick")
				s.clock.Step(d)
			},
			"": func(t *rapid.T) {
				if !dead && s.check(c, t) {
					dead = true
				}
			},
		}
		actions["metric2"] = actions["metric"]
		actions["probe2"] = actions["probe"]
		t.Repeat(actions)

		for k := range s.classes {
			c.Class(k)
		}
		c.ClassIf(env.args.AllowCustomizeEstimation, "args:allow-customize")
		c.ClassIf(env.args.ProdUsageIncludeSys, "args:prod-include-sys")
		c.ClassIf(len(env.names) > 2, "args:extra-resource")
		c.ClassIf(s.sawNT, "pod-removed-after-report-with-usage-ne-estimate")
		if s.sawNT {
			c.NonTrivial(c08ArgsStr(env.args), s.hist)
		}
		if c.WantSample() {
			c.Sample(map[string]any{"args": c08ArgsStr(env.args), "history": s.hist})
		}
	})
}
