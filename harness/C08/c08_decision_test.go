//go:build verif

// C08 unit "decision": Plugin.Filter on generated (args, node, metric, assigned pods, incoming pod).
// One-directional oracle ("passes only if ..."), exact expired / missing-metric behaviour.
package loadaware

import (
	"context"
	"encoding/json"
	"fmt"
	"math/big"
	"testing"
	"time"

	corev1 "k8s.io/api/core/v1"
	metav1 "k8s.io/apimachinery/pkg/apis/meta/v1"
	"k8s.io/apimachinery/pkg/types"
	fwktype "k8s.io/kube-scheduler/framework"
	"k8s.io/kubernetes/pkg/scheduler/framework"
	"pgregory.net/rapid"

	"github.com/koordinator-sh/koordinator/apis/extension"
	slov1alpha1 "github.com/koordinator-sh/koordinator/apis/slo/v1alpha1"
	"github.com/koordinator-sh/koordinator/pkg/scheduler/apis/config"
	"github.com/koordinator-sh/koordinator/pkg/scheduler/apis/config/validation"
	"github.com/koordinator-sh/koordinator/pkg/verifkit/vk"
)

// ---- the configured percentages: plugin args, overridden per node by the usage-thresholds annotation

type c08Agg struct {
	thr map[corev1.ResourceName]int64
	typ extension.AggregationType
	dur time.Duration
}

type c08Profile struct {
	usage, prod map[corev1.ResourceName]int64
	agg         *c08Agg
}

func c08EffectiveProfile(args *config.LoadAwareSchedulingArgs, node *corev1.Node) c08Profile {
	p := c08Profile{usage: args.UsageThresholds, prod: args.ProdUsageThresholds}
	if a := args.Aggregated; a != nil && len(a.UsageThresholds) > 0 && a.UsageAggregationType != "" {
		p.agg = &c08Agg{a.UsageThresholds, a.UsageAggregationType, a.UsageAggregatedDuration.Duration}
	}
	data, ok := node.Annotations[extension.AnnotationCustomUsageThresholds]
	if !ok {
		return p
	}
	var cu extension.CustomUsageThresholds
	if json.Unmarshal([]byte(data), &cu) != nil {
		return p
	}
	if cu.AggregatedUsage != nil && !(len(cu.AggregatedUsage.UsageThresholds) > 0 && cu.AggregatedUsage.UsageAggregationType != "") {
		cu.AggregatedUsage = nil
	}
	if len(cu.UsageThresholds) > 0 {
		p.usage = cu.UsageThresholds
	}
	if len(cu.ProdUsageThresholds) > 0 {
		p.prod = cu.ProdUsageThresholds
	}
	if g := cu.AggregatedUsage; g != nil {
		p.agg = &c08Agg{thr: g.UsageThresholds, typ: g.UsageAggregationType}
		if g.UsageAggregatedDuration != nil {
			p.agg.dur = g.UsageAggregatedDuration.Duration
		}
	}
	return p
}

// thresholds count only for resources the plugin knows
func (e *c08Env) anyThreshold(m map[corev1.ResourceName]int64) bool {
	for _, n := range e.names {
		if m[n] != 0 {
			return true
		}
	}
	return false
}

// allocatable used for utilization: the raw (un-amplified) allocatable where the node carries one
func c08Allocatable(node *corev1.Node) corev1.ResourceList {
	out := corev1.ResourceList{}
	for k, v := range node.Status.Allocatable {
		out[k] = v
	}
	if s, ok := node.Annotations[extension.AnnotationNodeRawAllocatable]; ok {
		var raw corev1.ResourceList
		if json.Unmarshal([]byte(s), &raw) == nil {
			for k, v := range raw {
				out[k] = v
			}
		}
	}
	return out
}

type c08Verdict int

const (
	c08Under c08Verdict = iota // rounds to <= threshold
	c08Over                    // rounds to > threshold
	c08Near                    // within 1e-9 (relative to the boundary) of the rounding boundary: float64 may go either way
)

// exact comparison of round_half_up(100*est/alloc) with thr: boundary at 100*est/alloc == thr + 0.5
func c08Compare(est, alloc, thr int64) c08Verdict {
	lhs := new(big.Int).Mul(big.NewInt(200), big.NewInt(est))
	rhs := new(big.Int).Mul(big.NewInt(2*thr+1), big.NewInt(alloc))
	diff := new(big.Int).Sub(lhs, rhs)
	// |100*est/alloc - (thr+0.5)| <= 1e-9*(thr+0.5)  <=>  |lhs-rhs| * 1e9 <= rhs
	if new(big.Int).Mul(new(big.Int).Abs(diff), big.NewInt(1_000_000_000)).Cmp(new(big.Int).Abs(rhs)) <= 0 {
		return c08Near
	}
	if diff.Sign() >= 0 {
		return c08Over
	}
	return c08Under
}

func TestVerifC08Decision(t *testing.T) {
	rec := vk.New(t, "C08", "decision")
	// Filter reads the wall clock for metric expiry only; every generated update time is >= 1h away from the expiry
	// boundary, all other times are offsets from this base, so verdicts do not depend on when the test runs.
	wall := time.Now().Truncate(time.Second)
	rapid.Check(t, func(t *rapid.T) {
		c := rec.Begin()
		defer c.End()
		args := c08GenArgs(t)
		if err := validation.ValidateLoadAwareSchedulingArgs(args); err != nil {
			t.Fatalf("generator produced invalid args: %v", err)
		}
		env := c08NewEnv(args)
		s := c08NewState(env, wall)
		const nodeName = "n0"
		nm := s.nodes[nodeName]
		exp := time.Duration(*args.NodeMetricExpirationSeconds) * time.Second

		// ---- metric freshness
		metricKind := rapid.SampledFrom([]string{"fresh", "fresh", "fresh", "fresh", "fresh", "fresh", "expired", "expired", "missing", "empty-status"}).Draw(t, "metricKind")
		var ut time.Time
		switch metricKind {
		case "fresh":
			if exp >= 2*time.Hour && rapid.Bool().Draw(t, "pastFresh") {
				ut = wall.Add(-time.Duration(rapid.Int64Range(0, int64((exp-time.Hour)/time.Second)).Draw(t, "ageSec")) * time.Second)
			} else {
				ut = wall.Add(time.Hour + time.Duration(rapid.Int64Range(0, 3600).Draw(t, "aheadSec"))*time.Second)
			}
		case "expired":
			ut = wall.Add(-exp - time.Hour - time.Duration(rapid.Int64Range(0, 7200).Draw(t, "staleSec"))*time.Second)
		}

		// ---- pods already assigned to the node; times aimed at the report-interval / deadline boundaries of the metric
		probe := env.genMetric(t, nodeName, nil, nil)
		interval := c08Interval(probe)
		genTime := func(label string) time.Time {
			base := ut
			if base.IsZero() {
				base = wall
			}
			jitter := rapid.SampledFrom([]time.Duration{-10 * time.Second, -time.Second, -1, 0, 1, time.Second, 10 * time.Second}).Draw(t, label+"Jitter")
			switch rapid.IntRange(0, 3).Draw(t, label+"Kind") {
			case 0:
				return base.Add(-interval).Add(jitter)
			case 1:
				sec := rapid.SampledFrom([]int64{1, 30, 60, 120, 300, 600, 3600}).Draw(t, label+"Window")
				return base.Add(-time.Duration(sec) * time.Second).Add(jitter)
			case 2:
				return base.Add(-time.Duration(rapid.Int64Range(0, 7200).Draw(t, label+"Ago")) * time.Second)
			}
			return base.Add(-2 * interval).Add(-time.Hour)
		}
		nPods := rapid.IntRange(0, 4).Draw(t, "assignedPods")
		var feed []func()
		ctx := context.Background()
		for i := 0; i < nPods; i++ {
			name := fmt.Sprintf("p%d", i)
			pod := c08GenPod(t, name, types.UID("u"+name), genTime)
			pod.Spec.NodeName = nodeName
			if rapid.IntRange(0, 3).Draw(t, "viaReserve") == 0 {
				at := genTime("reservedAt")
				feed = append(feed, func() {
					s.clock.SetTime(at)
					s.pl.Reserve(ctx, nil, pod, nodeName)
					s.mAssign(nodeName, pod)
				})
			} else {
				at := genTime("addedAt")
				feed = append(feed, func() {
					s.clock.SetTime(at)
					s.cache.OnAdd(pod, false)
					s.mAssign(nodeName, pod)
				})
			}
		}
		metricFirst := rapid.Bool().Draw(t, "metricFirst")
		var metric *slov1alpha1.NodeMetric
		deliver := func() {
			if metricKind == "missing" {
				return
			}
			s.handler.OnAdd(metric, false)
			nm.metric = metric
		}
		// pods first (the generated report has to be able to name them); for metricFirst the final state is re-fed below in the other order
		for _, f := range feed {
			f()
		}
		switch metricKind {
		case "missing":
		case "empty-status":
			metric = env.genMetric(t, nodeName, nil, nm)
			metric.Spec = probe.Spec
		default:
			metric = env.genMetric(t, nodeName, &ut, nm)
			metric.Spec = probe.Spec
		}
		if metricFirst && metric != nil {
			// same final state, other arrival order: metric first, then every pod again through the update path
			s2 := c08NewState(env, wall)
			s2.handler.OnAdd(metric, false)
			s2.nodes[nodeName].metric = metric
			for _, uid := range nm.sortedUIDs() {
				a := nm.pods[uid]
				s2.clock.SetTime(a.ts)
				s2.cache.OnAdd(a.pod, false)
				s2.nodes[nodeName].pods[uid] = &c08Assigned{pod: a.pod, ts: a.ts}
			}
			s, nm = s2, s2.nodes[nodeName]
		} else {
			deliver()
		}

		// ---- incoming pod
		incoming := c08GenPod(t, "incoming", "u-incoming", func(string) time.Time { return wall })
		incoming.Status.Conditions = nil
		daemon := rapid.IntRange(0, 19).Draw(t, "daemonSet") == 0
		if daemon {
			incoming.OwnerReferences = []metav1.OwnerReference{{Kind: "DaemonSet", Name: "ds", APIVersion: "apps/v1"}}
		} else if rapid.Bool().Draw(t, "rsOwner") {
			incoming.OwnerReferences = []metav1.OwnerReference{{Kind: "ReplicaSet", Name: "rs", APIVersion: "apps/v1"}}
		}
		incEst := env.estimate(incoming)
		incProd := extension.GetPodPriorityClassWithDefault(incoming) == extension.PriorityProd

		// ---- node: custom thresholds, allocatable (possibly amplified), aimed at the threshold boundary
		node := &corev1.Node{ObjectMeta: metav1.ObjectMeta{Name: nodeName, Annotations: map[string]string{}}}
		withExtra := len(env.names) > 2
		switch rapid.IntRange(0, 5).Draw(t, "customThresholds") {
		case 0, 1, 2:
		case 3:
			node.Annotations[extension.AnnotationCustomUsageThresholds] = "{broken"
		default:
			cu := extension.CustomUsageThresholds{}
			if rapid.Bool().Draw(t, "customUsage") {
				cu.UsageThresholds = c08GenThresholds(t, "cUsageThr", withExtra, true)
			}
			if rapid.Bool().Draw(t, "customProd") {
				cu.ProdUsageThresholds = c08GenThresholds(t, "cProdThr", withExtra, true)
			}
			if rapid.Bool().Draw(t, "customAgg") {
				g := &extension.CustomAggregatedUsage{UsageThresholds: c08GenThresholds(t, "cAggThr", withExtra, true),
					UsageAggregationType: rapid.SampledFrom([]extension.AggregationType{"", extension.AVG, extension.P95, extension.P99}).Draw(t, "cAggType")}
				if rapid.Bool().Draw(t, "cAggHasDur") {
					g.UsageAggregatedDuration = &metav1.Duration{Duration: rapid.SampledFrom([]time.Duration{0, 5 * time.Minute, 10 * time.Minute, time.Hour}).Draw(t, "cAggDur")}
				}
				cu.AggregatedUsage = g
			}
			b, _ := json.Marshal(&cu)
			node.Annotations[extension.AnnotationCustomUsageThresholds] = string(b)
		}
		prof := c08EffectiveProfile(args, node)
		mode := c08Mode{}
		var thr map[corev1.ResourceName]int64
		switch {
		case env.anyThreshold(prof.prod) && incProd:
			mode, thr = c08Mode{prod: true}, prof.prod
		case prof.agg != nil:
			mode, thr = c08Mode{typ: prof.agg.typ, dur: prof.agg.dur}, prof.agg.thr
		default:
			thr = prof.usage
		}
		existing, hasMetric, views := env.scratch(nm, mode)
		total := make([]int64, len(env.names))
		for i := range total {
			if hasMetric {
				total[i] = existing[i]
			}
			total[i] += incEst[i]
		}
		alloc := corev1.ResourceList{}
		aimed := false
		for i, n := range env.names {
			var v int64
			switch {
			case n == corev1.ResourceCPU:
				v = rapid.SampledFrom([]int64{0, 1000, 4000, 32000, 96000, 96000, 256000}).Draw(t, "allocCPU")
			case n == corev1.ResourceMemory:
				v = rapid.SampledFrom([]int64{0, 1 << 30, 16 << 30, 512 << 30, 512 << 30, 4 << 40}).Draw(t, "allocMem")
			default:
				v = rapid.SampledFrom([]int64{0, 10, 1000}).Draw(t, "allocExtra")
			}
			// aim: choose the allocatable so that the utilization lands at threshold + delta percent
			if th := thr[n]; th > 0 && total[i] > 0 && rapid.IntRange(0, 3).Draw(t, "aim") > 0 {
				delta := rapid.SampledFrom([]float64{-5, -1, -0.51, -0.5, -0.49, 0, 0.49, 0.5, 0.5, 0.51, 1, 1, 1.49, 1.5, 2, 5}).Draw(t, "aimDelta")
				if pct := float64(th) + delta; pct > 0 {
					// 200*total / (2*pct) rounded one way or the other
					num := new(big.Int).Mul(big.NewInt(100000), big.NewInt(total[i]))
					den := big.NewInt(int64(pct * 1000))
					q := new(big.Int).Div(num, den)
					v = q.Int64() + rapid.Int64Range(0, 1).Draw(t, "aimRound")
					if v < 1 {
						v = 1
					}
					aimed = true
				}
			}
			if v != 0 || rapid.Bool().Draw(t, "explicitZero") {
				alloc[n] = c08Q(n, v)
			}
		}
		switch rapid.IntRange(0, 4).Draw(t, "amplified") {
		case 0: // amplified node: status shows 1.5x / 2x, the raw allocatable is in the annotation
			node.Status.Allocatable = corev1.ResourceList{}
			f := rapid.SampledFrom([]int64{3, 4}).Draw(t, "ampFactor")
			for k, q := range alloc {
				node.Status.Allocatable[k] = c08Q(k, c08Val(k, corev1.ResourceList{k: q})*f/2)
			}
			raw := corev1.ResourceList{}
			for k, q := range alloc {
				if k == corev1.ResourceCPU || rapid.Bool().Draw(t, "rawHas") {
					raw[k] = q
				} else {
					node.Status.Allocatable[k] = q
				}
			}
			b, _ := json.Marshal(raw)
			node.Annotations[extension.AnnotationNodeRawAllocatable] = string(b)
			c.Class("amplified-node")
		case 1:
			node.Status.Allocatable = alloc
			node.Annotations[extension.AnnotationNodeRawAllocatable] = "{broken"
		default:
			node.Status.Allocatable = alloc
		}
		effAlloc := c08Allocatable(node)

		// ---- run Filter as the framework does
		ni := framework.NewNodeInfo()
		ni.SetNode(node)
		state := framework.NewCycleState()
		if rapid.IntRange(0, 3).Draw(t, "preFilter") > 0 {
			s.pl.PreFilter(ctx, state, incoming, nil)
		}
		var status *fwktype.Status = s.pl.Filter(ctx, state, incoming, ni)
		passed := status.IsSuccess()

		// ---- oracle
		describe := func() string {
			ms := "none"
			if metric != nil && metricKind != "missing" {
				ms = c08MetricStr(wall, metric)
			}
			out := fmt.Sprintf("args: %s\nnode: allocatable=%s annotations=%v -> effective allocatable %s\nmetric(%s): %s\n", c08ArgsStr(args), c08RLStr(node.Status.Allocatable), node.Annotations, c08RLStr(effAlloc), metricKind, ms)
			for _, uid := range nm.sortedUIDs() {
				a := nm.pods[uid]
				out += fmt.Sprintf("  assigned@%s deadline=%s %s\n", c08Off(wall, a.ts), c08Off(wall, env.deadline(a)), env.podStr(wall, a.pod))
			}
			out += fmt.Sprintf("incoming: %s daemonset=%v\nmode=%+v thresholds=%v resources=%v existing(model)=%v incoming=%v total=%v pods=%+v\nFilter -> %v %v",
				env.podStr(wall, incoming), daemon, mode, thr, env.names, existing, incEst, total, views, status.Code(), status.Message())
			return out
		}
		c.Class("mode:" + mode.kind())
		c.Class("metric:" + metricKind)
		c.ClassIf(passed, "filter-passed")
		c.ClassIf(!passed, "filter-rejected")
		c.ClassIf(aimed, "aimed-at-boundary")
		if c.WantSample() {
			c.Sample(map[string]any{"case": describe()})
		}
		if status.Code() == fwktype.Error {
			c.Violation(t, "decision:filter-error", "%s", describe())
			return
		}
		if daemon {
			c.Class("daemonset-exempt")
			return
		}
		if !env.anyThreshold(thr) {
			c.Class("no-threshold-configured")
			return
		}
		if metricKind == "missing" {
			if !passed {
				c.Violation(t, "decision:missing-metric-not-skipped", "node without NodeMetric must be skipped\n%s", describe())
			}
			return
		}
		expired := metric.Status.UpdateTime == nil || metricKind == "expired"
		if *args.FilterExpiredNodeMetrics && expired {
			wantReject := !*args.EnableScheduleWhenNodeMetricsExpired
			c.ClassIf(wantReject, "expired-reject-configured")
			c.ClassIf(!wantReject, "expired-skip-configured")
			if wantReject && passed {
				c.Violation(t, "decision:expired-not-rejected", "expired metric, scheduling on expired metrics disabled, but Filter passed\n%s", describe())
			}
			if !wantReject && !passed {
				c.Violation(t, "decision:expired-not-skipped", "expired metric, scheduling on expired metrics enabled, but Filter rejected\n%s", describe())
			}
			return
		}
		if metric.Status.NodeMetric == nil {
			c.Class("no-node-usage-reported(not asserted)")
			return
		}
		overAny, nearAny, zeroAlloc := false, false, false
		var overRes corev1.ResourceName
		nearestPct := 1e18
		for i, n := range env.names {
			th := thr[n]
			if th == 0 {
				continue
			}
			al := c08Val(n, effAlloc)
			if al == 0 {
				zeroAlloc = true
				continue
			}
			switch c08Compare(total[i], al, th) {
			case c08Over:
				overAny, overRes = true, n
			case c08Near:
				nearAny = true
			}
			if d := 100*float64(total[i])/float64(al) - float64(th); d*d < nearestPct*nearestPct {
				nearestPct = d
			}
		}
		c.ClassIf(zeroAlloc, "thresholded-resource-with-zero-allocatable(skipped)")
		c.ClassIf(nearAny, "within-1e-9-of-rounding-boundary(not judged)")
		c.ClassIf(overAny, "over-threshold")
		c.ClassIf(!overAny && !nearAny, "under-threshold")
		c.ClassIf(nearestPct > -1.6 && nearestPct < 2.6, "utilization-within-2pct-of-threshold")
		c.ClassIf(nearestPct >= 0.5 && nearestPct < 1.5, "rounds-to-threshold-plus-1")
		c.ClassIf(len(nm.pods) > 0, "has-assigned-pods")
		// decisive = the incoming pod's own estimate is what tips the node over
		tips := false
		if overAny && hasMetric {
			for i, n := range env.names {
				if th, al := thr[n], c08Val(n, effAlloc); th != 0 && al != 0 && c08Compare(total[i], al, th) == c08Over && c08Compare(existing[i], al, th) == c08Under {
					tips = true
				}
			}
		}
		c.ClassIf(tips, "incoming-estimate-tips-over")
		if nearestPct > -1.6 && nearestPct < 2.6 || tips {
			c.NonTrivial(describe())
		}
		if passed && overAny {
			c.Violation(t, "decision:passed-over-threshold:"+mode.kind(), "Filter passed although %s is over its threshold\n%s", overRes, describe())
			return
		}
		if !passed && !overAny && !nearAny {
			c.Class("rejected-though-under-threshold(not asserted)")
		}
	})
}
