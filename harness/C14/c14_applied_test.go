//go:build verif

// C14, last mile: what the hook computed must be what reaches the cgroup files / the container runtime.
//   - reconciler: the injected pod- and container-level values go through the real resource updaters onto a scratch cgroup
//     tree (cgroup-v1 and cgroup-v2 layouts); the files are read back. "Undeclared limit means unlimited": -1 on v1, "max" on v2.
//   - node cpu-normalization ratio changes afterwards: the rule-update callback (ruleUpdateCbForNodeMeta, invoked as the rule
//     framework does when parseRuleForNodeMeta reports an update) must leave every configured container and the pod with the
//     quota of the new ratio (cgroup-v1 layout).
//   - NRI: the ContainerAdjustment / ContainerUpdate built by NriDone must carry the injected shares, quota (also -1) and memory limit.
package batchresource

import (
	"fmt"
	"strconv"
	"strings"
	"testing"

	nriapi "github.com/containerd/nri/pkg/api"
	corev1 "k8s.io/api/core/v1"
	metav1 "k8s.io/apimachinery/pkg/apis/meta/v1"
	"math/big"
	"pgregory.net/rapid"

	"github.com/koordinator-sh/koordinator/pkg/koordlet/resourceexecutor"
	"github.com/koordinator-sh/koordinator/pkg/koordlet/runtimehooks/protocol"
	"github.com/koordinator-sh/koordinator/pkg/koordlet/statesinformer"
	sysutil "github.com/koordinator-sh/koordinator/pkg/koordlet/util/system"
	"github.com/koordinator-sh/koordinator/pkg/verifkit/vk"
)

type c14Files struct {
	h  *sysutil.FileTestUtil
	v2 bool
}

func (f c14Files) res() (quota, mem, shares sysutil.Resource) {
	if f.v2 {
		return sysutil.CPUCFSQuotaV2, sysutil.MemoryLimitV2, sysutil.CPUSharesV2
	}
	return sysutil.CPUCFSQuota, sysutil.MemoryLimit, sysutil.CPUShares
}

// previous state left by kubelet / the runtime
func (f c14Files) seed(dir string, limited bool) {
	q, m, s := f.res()
	switch {
	case f.v2 && limited:
		f.h.WriteCgroupFileContents(dir, q, "200000 100000")
		f.h.WriteCgroupFileContents(dir, m, "1073741824")
		f.h.WriteCgroupFileContents(dir, s, "100")
	case f.v2:
		f.h.WriteCgroupFileContents(dir, q, "max 100000")
		f.h.WriteCgroupFileContents(dir, m, "max")
		f.h.WriteCgroupFileContents(dir, s, "1")
	case limited:
		f.h.WriteCgroupFileContents(dir, q, "200000")
		f.h.WriteCgroupFileContents(dir, m, "1073741824")
		f.h.WriteCgroupFileContents(dir, s, "1024")
	default:
		f.h.WriteCgroupFileContents(dir, q, "-1")
		f.h.WriteCgroupFileContents(dir, m, "9223372036854771712")
		f.h.WriteCgroupFileContents(dir, s, "2")
	}
}

// quota file -> value in the hook's terms (-1 = unlimited); ok=false when the content is not a legal content of the file
func (f c14Files) quota(dir string) (int64, string, bool) {
	q, _, _ := f.res()
	raw := strings.TrimSpace(f.h.ReadCgroupFileContents(dir, q))
	s := raw
	if f.v2 {
		fs := strings.Fields(raw)
		if len(fs) == 0 || len(fs) > 2 {
			return 0, raw, false
		}
		s = fs[0]
		if s == "max" {
			return -1, raw, true
		}
		if s == "-1" { // cpu.max does not take -1
			return 0, raw, false
		}
	}
	v, err := strconv.ParseInt(s, 10, 64)
	return v, raw, err == nil
}

func (f c14Files) memory(dir string) (int64, string, bool) {
	_, m, _ := f.res()
	raw := strings.TrimSpace(f.h.ReadCgroupFileContents(dir, m))
	if f.v2 {
		if raw == "max" {
			return -1, raw, true
		}
		if raw == "-1" { // memory.max does not take -1
			return 0, raw, false
		}
	}
	v, err := strconv.ParseInt(raw, 10, 64)
	return v, raw, err == nil
}

func (f c14Files) shares(dir string) (int64, string, bool) {
	_, _, s := f.res()
	raw := strings.TrimSpace(f.h.ReadCgroupFileContents(dir, s))
	v, err := strconv.ParseInt(raw, 10, 64)
	return v, raw, err == nil
}

type c14Expect struct {
	Shares, QuotaBase, Mem int64
}

func c14ExpectCtr(x *c14Ctr) c14Expect {
	return c14Expect{c14Shares(c14Val(x.CPUReq)), c14QuotaBase(c14Val(x.CPULim)), c14MemLimit(x.MemLim)}
}

func c14ExpectPod(pod *c14Pod) (e c14Expect, given int) {
	var sumReq, sumCPU, sumMem int64
	cpuUnl, memUnl := false, false
	for i := range pod.Ctrs {
		x := &pod.Ctrs[i]
		if x.Init || !x.declared() {
			continue
		}
		given++
		if x.CPUReq != nil && *x.CPUReq > 0 {
			sumReq += *x.CPUReq
		}
		if x.CPULim == nil || *x.CPULim <= 0 {
			cpuUnl = true
		} else {
			sumCPU += *x.CPULim
		}
		if x.MemLim == nil || *x.MemLim <= 0 {
			memUnl = true
		} else {
			sumMem += *x.MemLim
		}
	}
	e = c14Expect{c14Shares(sumReq), -1, -1}
	if !cpuUnl {
		e.QuotaBase = c14QuotaBase(sumCPU)
	}
	if !memUnl {
		e.Mem = sumMem
	}
	return e, given
}

func TestVerifC14Applied(t *testing.T) {
	outer := t
	rec := vk.New(t, "C14", "applied")
	helper := sysutil.NewFileTestUtil(outer)
	defer helper.Cleanup()
	sysutil.SetupCgroupPathFormatter(sysutil.Systemd)
	executor := resourceexecutor.NewResourceUpdateExecutor()
	stop := make(chan struct{})
	defer close(stop)
	executor.Run(stop)
	caseNo := 0

	rapid.Check(t, func(t *rapid.T) {
		c := rec.Begin()
		defer c.End()
		caseNo++
		pod := c14GenPod(t)
		cfg := c14GenCfg(t)
		v2 := rapid.Bool().Draw(t, "cgroupV2")
		prevLimited := rapid.Bool().Draw(t, "previouslyLimited")
		// a later change of the node's ratio annotation
		var newRatio *big.Rat // nil = no second phase
		newRatioStr := ""
		switch rapid.IntRange(0, 4).Draw(t, "ratioChange") {
		case 0:
		case 1:
			newRatio, newRatioStr = big.NewRat(-1, 1), "(annotation removed)"
		default:
			h := rapid.OneOf(rapid.Int64Range(100, 500), rapid.Int64Range(50, 1000)).Draw(t, "newRatioHundredths")
			newRatio, newRatioStr = big.NewRat(h, 100), fmt.Sprintf("%d.%02d", h/100, h%100)
		}

		helper.SetCgroupsV2(v2)
		defer helper.SetCgroupsV2(false)
		files := c14Files{helper, v2}
		podDir := fmt.Sprintf("kubepods.slice/kubepods-besteffort.slice/kubepods-besteffort-podcase%d.slice", caseNo)
		ctrDir := func(x *c14Ctr) string { return podDir + "/cri-containerd-" + x.Name + "0123456789abcdef.scope" }
		files.seed(podDir, prevLimited)
		for i := range pod.Ctrs {
			if pod.Ctrs[i].HasID {
				files.seed(ctrDir(&pod.Ctrs[i]), prevLimited)
			}
		}
		pm := func() *statesinformer.PodMeta {
			return &statesinformer.PodMeta{Pod: pod.pod.DeepCopy(), CgroupDir: "/" + podDir + "/"}
		}

		p := newPlugin()
		p.executor = executor
		cfg.apply(p)

		// ---- phase A: what reconcilePodCgroup does: one context per (level, file), then ReconcilerDone
		for _, fn := range []func(protocol.HooksProtocol) error{p.SetPodCPUShares, p.SetPodCFSQuota, p.SetPodMemoryLimit} {
			x := &protocol.PodContext{}
			x.FromReconciler(pm())
			if fn(x) == nil {
				x.ReconcilerDone(executor)
			}
		}
		for i := range pod.Ctrs {
			for _, fn := range []func(protocol.HooksProtocol) error{p.SetContainerCPUShares, p.SetContainerCFSQuota, p.SetContainerMemoryLimit} {
				x := &protocol.ContainerContext{}
				x.FromReconciler(pm(), pod.Ctrs[i].Name, false)
				if fn(x) == nil {
					x.ReconcilerDone(executor)
				}
			}
		}

		podWant, given := c14ExpectPod(pod)
		caseStr := func() string {
			return fmt.Sprintf("%s rule{%s} cgroup-v2=%v previously-limited=%v later-ratio=%s", pod, cfg.Desc, v2, prevLimited, newRatioStr)
		}
		partially := false
		{
			lim, unl := 0, 0
			for i := range pod.Ctrs {
				x := &pod.Ctrs[i]
				if x.Init || !x.declared() || !x.HasID {
					continue
				}
				if x.CPULim != nil && *x.CPULim > 0 {
					lim++
				} else {
					unl++
				}
			}
			partially = lim > 0 && unl > 0
		}
		c.Class("marking:" + strings.SplitN(pod.Marking, "+", 2)[0])
		c.ClassIf(v2, "cgroup-v2")
		c.ClassIf(!v2, "cgroup-v1")
		c.ClassIf(prevLimited, "files-previously-limited")
		c.ClassIf(pod.BE == 1 && given > 0 && podWant.Mem == -1, "pod-memory-unlimited")
		c.ClassIf(pod.BE == 1 && given > 0 && podWant.Mem == -1 && v2 && prevLimited, "pod-memory-unlimited-on-v2-over-finite-limit")
		c.ClassIf(pod.BE == 1 && given > 0 && podWant.QuotaBase == -1, "pod-quota-unlimited")
		c.ClassIf(pod.BE == 1 && partially, "partially-limited-pod(some containers with cpu limit, some without)")
		c.ClassIf(!cfg.Enabled, "cfs-quota-disabled")
		c.ClassIf(cfg.scalingAll(), "ratio-above-1")
		if pod.BE == 1 && given >= 1 && (podWant.Mem == -1 || podWant.QuotaBase == -1 || partially) {
			c.NonTrivial(pod.String(), cfg.Desc, v2, prevLimited, newRatioStr)
		}
		if c.WantSample() {
			c.Sample(map[string]any{"case": caseStr()})
		}
		if pod.BE != 1 {
			// not asserted here (the hooks unit checks that such pods get an empty response)
			return
		}

		checkDir := func(phase, who, dir string, want c14Expect, quotaOnly bool) bool {
			if got, raw, ok := files.quota(dir); !ok {
				if c.Violation(t, "applied:cfs-quota-file-illegal", "%s: %s cfs quota file holds %q; %s", phase, who, raw, caseStr()) {
					return true
				}
			} else if ok2, w := c14QuotaOK(got, want.QuotaBase, cfg); !ok2 {
				if c.Violation(t, "applied:cfs-quota-file-mismatch", "%s: %s cfs quota file holds %q, want %s; %s", phase, who, raw, w, caseStr()) {
					return true
				}
			}
			if quotaOnly {
				return false
			}
			if got, raw, ok := files.memory(dir); !ok {
				if c.Violation(t, "applied:memory-limit-file-illegal", "%s: %s memory limit file holds %q (unlimited is \"max\" on cgroup-v2, -1 on v1); %s", phase, who, raw, caseStr()) {
					return true
				}
			} else if got != want.Mem {
				if c.Violation(t, "applied:memory-limit-file-mismatch", "%s: %s memory limit file holds %q, want %d; %s", phase, who, raw, want.Mem, caseStr()) {
					return true
				}
			}
			if !v2 { // cpu.weight is a different scale; only the v1 file is compared
				if got, raw, ok := files.shares(dir); !ok || got != want.Shares {
					if c.Violation(t, "applied:cpu-shares-file-mismatch", "%s: %s cpu.shares holds %q, want %d; %s", phase, who, raw, want.Shares, caseStr()) {
						return true
					}
				}
			}
			return false
		}
		checkAll := func(phase string, quotaOnly bool) bool {
			if given > 0 {
				if checkDir(phase, "pod", podDir, podWant, quotaOnly) {
					return true
				}
			}
			for i := range pod.Ctrs {
				x := &pod.Ctrs[i]
				if x.Init || !x.declared() || !x.HasID {
					continue
				}
				if checkDir(phase, "container "+x.Name, ctrDir(x), c14ExpectCtr(x), quotaOnly) {
					return true
				}
			}
			return false
		}
		if checkAll("after reconcile", false) {
			return
		}

		// ---- NRI: the adjustment handed to the runtime carries the injected values
		for i := range pod.Ctrs {
			x := &pod.Ctrs[i]
			if x.Init || !x.declared() {
				continue
			}
			sb := &nriapi.PodSandbox{Id: "sb", Name: "p", Namespace: "ns", Uid: "uid-1", Labels: c14CopyMap(pod.Labels), Annotations: c14CopyMap(pod.fullAnnos),
				Linux: &nriapi.LinuxPodSandbox{CgroupParent: "/" + podDir + "/"}}
			cc := &protocol.ContainerContext{}
			cc.FromNri(sb, &nriapi.Container{Id: x.Name + "0123456789abcdef", PodSandboxId: "sb", Name: x.Name})
			_ = p.SetContainerResources(cc)
			adjust, update, err := cc.NriDone(executor)
			if err != nil {
				c.Class("nri-done-error(not asserted)")
				continue
			}
			want := c14ExpectCtr(x)
			for _, side := range []struct {
				name string
				res  *nriapi.LinuxResources
			}{{"ContainerAdjustment", adjust.GetLinux().GetResources()}, {"ContainerUpdate", update.GetLinux().GetResources()}} {
				q, s, m := side.res.GetCpu().GetQuota(), side.res.GetCpu().GetShares(), side.res.GetMemory().GetLimit()
				if q == nil || s == nil || m == nil {
					if c.Violation(t, "nri:injected-value-not-passed-on", "NRI %s of container %s lacks quota/shares/memory (quota=%v shares=%v memory=%v), hook response %v; %s", side.name, x.Name, q, s, m, c14CtrOut(cc), caseStr()) {
						return
					}
					continue
				}
				okQ, w := c14QuotaOK(q.GetValue(), want.QuotaBase, cfg)
				if !okQ || int64(s.GetValue()) != want.Shares || m.GetValue() != want.Mem {
					if c.Violation(t, "nri:passed-on-value-mismatch", "NRI %s of container %s: quota=%d (want %s) shares=%d (want %d) memory=%d (want %d); %s", side.name, x.Name, q.GetValue(), w, s.GetValue(), want.Shares, m.GetValue(), want.Mem, caseStr()) {
						return
					}
				}
				c.ClassIf(q.GetValue() == -1, "nri-adjustment-carries-unlimited-quota")
			}
		}

		// ---- phase B: the node's ratio changes; cgroup-v1 layout only (cpu.max "$QUOTA $PERIOD" is not emulated by plain files)
		if newRatio == nil || v2 {
			return
		}
		node := &corev1.Node{ObjectMeta: metav1.ObjectMeta{Name: "n"}}
		if newRatio.Sign() > 0 {
			node.Annotations = map[string]string{c14AnnoRatio: newRatioStr}
		}
		before := cfg.scalingAny()
		updated, _ := p.parseRuleForNodeMeta(node)
		cfg.ratioUpdate(newRatio)
		c.ClassIf(updated, "ratio-change-reported-as-update")
		c.ClassIf(updated && partially && cfg.Enabled && (before || cfg.scalingAny()), "ratio-change-rescales-a-partially-limited-pod")
		if updated { // what rule.UpdateRules does with the registered callback
			if err := p.ruleUpdateCbForNodeMeta(&statesinformer.CallbackTarget{Pods: []*statesinformer.PodMeta{pm()}}); err != nil {
				c.Class("callback-error(not asserted)")
				return
			}
		}
		cfg.Desc += " ; then node ratio -> " + newRatioStr
		if checkAll("after ratio change "+newRatioStr, true) {
			return
		}
	})
}
