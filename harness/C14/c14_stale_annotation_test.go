//go:build verif

// C14, reconciler path with an extended-resource-spec annotation that is NOT what the webhook would write for the pod's
// current spec. The annotation is a plain, user-editable annotation written once at CREATE (handleUpdate of the webhook is a
// no-op, the step can be switched off by the DisableExtendedResourceSpec gate), so koordlet can meet pods whose annotation is
// absent, stale or hand-written. The reconciler has the pod object: the amounts *declared in pod.spec* are what the statement
// talks about, so on this path pod-level and container-level values must follow the declared amounts whatever the annotation
// says. (Proxy/NRI requests carry nothing but the annotation and are therefore not exercised here.)
package batchresource

import (
	"encoding/json"
	"fmt"
	"testing"

	"k8s.io/apimachinery/pkg/api/resource"
	"pgregory.net/rapid"

	"github.com/koordinator-sh/koordinator/pkg/verifkit/vk"
)

type c14AnnoEntry struct {
	Name                           string
	CPUReq, CPULim, MemReq, MemLim *int64
}

func c14RenderAnno(entries []c14AnnoEntry) string {
	type ctrSpec struct {
		Limits   map[string]string `json:"limits,omitempty"`
		Requests map[string]string `json:"requests,omitempty"`
	}
	spec := map[string]ctrSpec{}
	for _, e := range entries {
		cs := ctrSpec{}
		put := func(m *map[string]string, k string, v *int64, f resource.Format) {
			if v == nil {
				return
			}
			if *m == nil {
				*m = map[string]string{}
			}
			(*m)[k] = resource.NewQuantity(*v, f).String()
		}
		put(&cs.Requests, string(c14BatchCPU), e.CPUReq, resource.DecimalSI)
		put(&cs.Requests, string(c14BatchMemory), e.MemReq, resource.BinarySI)
		put(&cs.Limits, string(c14BatchCPU), e.CPULim, resource.DecimalSI)
		put(&cs.Limits, string(c14BatchMemory), e.MemLim, resource.BinarySI)
		spec[e.Name] = cs
	}
	b, err := json.Marshal(map[string]any{"containers": spec})
	if err != nil {
		panic(err)
	}
	return string(b)
}

// c14StaleAnnotation replaces the pod's annotation. Entries are only ever keyed by regular containers that declare batch
// resources in the spec, or by names that do not exist in the pod: for a container that declares nothing the reconciler
// deliberately falls back to the annotation, which is outside the statement.
func c14StaleAnnotation(t *rapid.T, pod *c14Pod) (kinds []string) {
	orig, had := pod.fullAnnos[c14AnnoSpec]
	set := func(v string, present bool) {
		if present {
			pod.fullAnnos[c14AnnoSpec] = v
		} else {
			delete(pod.fullAnnos, c14AnnoSpec)
		}
		pod.pod.Annotations = c14CopyMap(pod.fullAnnos)
	}
	switch rapid.IntRange(0, 9).Draw(t, "staleKind") {
	case 0:
		set("", false)
		kinds = append(kinds, "annotation-absent")
	case 1:
		v := rapid.SampledFrom([]string{"{}", `{"containers":{}}`, "not-json", ""}).Draw(t, "degenerateAnno")
		set(v, true)
		kinds = append(kinds, "annotation-degenerate")
	default:
		var entries []c14AnnoEntry
		dropped, changed, noLimits := false, false, false
		for i := range pod.Ctrs {
			x := &pod.Ctrs[i]
			if x.Init || !x.declared() {
				continue
			}
			e := c14AnnoEntry{x.Name, x.CPUReq, x.CPULim, x.MemReq, x.MemLim}
			switch rapid.IntRange(0, 5).Draw(t, "entryEdit") {
			case 0: // unknown to the annotation (container added / annotation written for another pod)
				dropped = true
				continue
			case 1: // other amounts: typically smaller (stale), sometimes larger
				pick := func(cur *int64, g *rapid.Generator[int64], label string) *int64 {
					switch rapid.IntRange(0, 3).Draw(t, label+"How") {
					case 0:
						return cur
					case 1:
						if cur != nil && *cur > 1 {
							v := rapid.Int64Range(1, *cur-1).Draw(t, label+"Smaller")
							return &v
						}
					}
					v := g.Draw(t, label)
					return &v
				}
				e.CPUReq, e.CPULim = pick(e.CPUReq, c14CPUGen(), "staleCPUReq"), pick(e.CPULim, c14CPUGen(), "staleCPULim")
				e.MemReq, e.MemLim = pick(e.MemReq, c14MemGen(), "staleMemReq"), pick(e.MemLim, c14MemGen(), "staleMemLim")
				changed = true
			case 2: // limits lost
				if e.CPULim != nil || e.MemLim != nil {
					noLimits = true
				}
				e.CPULim, e.MemLim = nil, nil
			}
			entries = append(entries, e)
		}
		ghost := rapid.IntRange(0, 3).Draw(t, "ghostEntry") == 0
		if ghost {
			v := rapid.Int64Range(1, 4000).Draw(t, "ghostAmount")
			entries = append(entries, c14AnnoEntry{"ghost", &v, &v, &v, &v})
		}
		if len(entries) == 0 {
			set("", false)
		} else {
			set(c14RenderAnno(entries), true)
		}
		if dropped {
			kinds = append(kinds, "annotation-misses-a-container")
		}
		if changed {
			kinds = append(kinds, "annotation-other-amounts")
		}
		if noLimits {
			kinds = append(kinds, "annotation-lost-limits")
		}
		if ghost {
			kinds = append(kinds, "annotation-unknown-container")
		}
	}
	now, has := pod.fullAnnos[c14AnnoSpec]
	pod.AnnoDiffers = has != had || now != orig
	pod.StaleAnno = fmt.Sprint(kinds)
	return kinds
}

func TestVerifC14StaleAnnotation(t *testing.T) {
	rec := vk.New(t, "C14", "staleAnnotation")
	rec.Note("paths", "reconciler requests only (the pod object is available there); annotation disagrees with pod.spec")
	rapid.Check(t, func(t *rapid.T) {
		c := rec.Begin()
		defer c.End()
		pod := c14GenPod(t)
		kinds := c14StaleAnnotation(t, pod)
		cfg := c14GenCfg(t)
		aggregated := rapid.Bool().Draw(t, "reconcilerAggregated")

		p := newPlugin()
		cfg.apply(p)
		po, cos := c14RunReconciler(p, pod, aggregated)
		for _, k := range kinds {
			c.Class("stale:" + k)
		}
		c.ClassIf(pod.AnnoDiffers, "stale:annotation-differs-from-what-the-webhook-would-write")
		c.ClassIf(!pod.AnnoDiffers, "stale:annotation-happens-to-be-right")
		c14Evaluate(c, t, pod, cfg, aggregated, []c14PathResult{{"reconciler", po, cos}})
	})
}
