//go:build verif

// C14, first half of "a request built from a webhook-mutated pod": the extended-resource-spec annotation is the only thing
// the proxy/NRI hooks see of the containers' batch amounts. After the mutating webhook admitted a CREATE, the annotation
// must carry exactly the batch-cpu / batch-memory requests and limits declared by the regular containers — also when the
// submitted manifest already brings an annotation along (copied from another pod, hand-written, written by an older
// version). Otherwise the hooks inject shares / quota / memory limits the containers never declared.
package mutating

import (
	"context"
	"encoding/json"
	"fmt"
	"sort"
	"strings"
	"testing"

	admissionv1 "k8s.io/api/admission/v1"
	corev1 "k8s.io/api/core/v1"
	"k8s.io/apimachinery/pkg/api/resource"
	metav1 "k8s.io/apimachinery/pkg/apis/meta/v1"
	"pgregory.net/rapid"
	"sigs.k8s.io/controller-runtime/pkg/webhook/admission"

	"github.com/koordinator-sh/koordinator/pkg/verifkit/vk"
)

const (
	c14wBatchCPU    = "kubernetes.io/batch-cpu"
	c14wBatchMemory = "kubernetes.io/batch-memory"
	c14wAnnoSpec    = "node.koordinator.sh/extended-resource-spec"
)

// amounts of one container (or of one annotation entry): resource name -> quantity string; nil map = list absent
type c14wAmounts struct {
	Name     string
	Init     bool
	Requests map[string]string
	Limits   map[string]string
}

func (a c14wAmounts) String() string {
	kind := "ctr"
	if a.Init {
		kind = "init"
	}
	return fmt.Sprintf("%s %s{requests=%v limits=%v}", kind, a.Name, a.Requests, a.Limits)
}

func c14wQty(t *rapid.T, name, label string) string {
	if name == c14wBatchMemory {
		return rapid.SampledFrom([]string{"0", "1", "4Ki", "1Gi", "2Gi", "16Gi", "1500Mi", "1073741824", "1Ti"}).Draw(t, label)
	}
	if name == c14wBatchCPU {
		return rapid.OneOf(rapid.SampledFrom([]string{"0", "1", "9", "500", "1000", "1k", "1500", "4000", "8000", "256000"}),
			rapid.Map(rapid.Int64Range(1, 64000), func(v int64) string { return fmt.Sprint(v) })).Draw(t, label)
	}
	return rapid.SampledFrom([]string{"1", "100m", "2Gi"}).Draw(t, label)
}

func c14wGenList(t *rapid.T, label string, withOther bool) map[string]string {
	var m map[string]string
	names := []string{c14wBatchCPU, c14wBatchMemory}
	if withOther {
		// resources the annotation does not summarise
		names = append(names, "cpu", "memory", "kubernetes.io/mid-cpu", "example.com/gpu")
	}
	for _, n := range names {
		batch := n == c14wBatchCPU || n == c14wBatchMemory
		has := false
		if batch {
			has = rapid.IntRange(0, 3).Draw(t, label+":has:"+n) != 0
		} else {
			has = rapid.IntRange(0, 7).Draw(t, label+":has:"+n) == 0
		}
		if has {
			if m == nil {
				m = map[string]string{}
			}
			m[n] = c14wQty(t, n, label+":"+n)
		}
	}
	return m
}

func c14wRL(m map[string]string) corev1.ResourceList {
	if m == nil {
		return nil
	}
	rl := corev1.ResourceList{}
	for k, v := range m {
		rl[corev1.ResourceName(k)] = resource.MustParse(v)
	}
	return rl
}

func c14wBatchOnly(m map[string]string) map[string]string {
	out := map[string]string{}
	for k, v := range m {
		if k == c14wBatchCPU || k == c14wBatchMemory {
			out[k] = v
		}
	}
	return out
}

func c14wRenderAnno(entries []c14wAmounts) string {
	type ctrSpec struct {
		Limits   map[string]string `json:"limits,omitempty"`
		Requests map[string]string `json:"requests,omitempty"`
	}
	spec := map[string]ctrSpec{}
	for _, e := range entries {
		spec[e.Name] = ctrSpec{Limits: e.Limits, Requests: e.Requests}
	}
	b, err := json.Marshal(map[string]any{"containers": spec})
	if err != nil {
		panic(err)
	}
	return string(b)
}

// value comparison of two name->quantity maps (nil and empty are the same: "nothing listed")
func c14wSameAmounts(want, got map[string]string) (bool, string) {
	keys := map[string]bool{}
	for k := range want {
		keys[k] = true
	}
	for k := range got {
		keys[k] = true
	}
	var ks []string
	for k := range keys {
		ks = append(ks, k)
	}
	sort.Strings(ks)
	for _, k := range ks {
		w, wok := want[k]
		g, gok := got[k]
		if !wok {
			return false, fmt.Sprintf("%s=%s listed but not declared", k, g)
		}
		if !gok {
			return false, fmt.Sprintf("%s declared as %s but not listed", k, w)
		}
		wq, err1 := resource.ParseQuantity(w)
		gq, err2 := resource.ParseQuantity(g)
		if err1 != nil || err2 != nil {
			return false, fmt.Sprintf("%s: unparsable quantity %q / %q", k, w, g)
		}
		if wq.Cmp(gq) != 0 {
			return false, fmt.Sprintf("%s listed as %s, declared %s", k, g, w)
		}
	}
	return true, ""
}

func TestVerifC14WebhookAnnotation(t *testing.T) {
	rec := vk.New(t, "C14", "webhookAnnotation")
	rapid.Check(t, func(t *rapid.T) {
		c := rec.Begin()
		defer c.End()

		// ---- the submitted pod: containers already carry batch resources (written by the user or by the colocation
		// profile step that runs before), plus resources the annotation must ignore
		n := rapid.IntRange(1, 4).Draw(t, "containers")
		var ctrs []c14wAmounts
		for i := 0; i < n; i++ {
			a := c14wAmounts{Name: fmt.Sprintf("c%d", i)}
			if rapid.IntRange(0, 7).Draw(t, "declaresNothing") != 0 {
				a.Requests = c14wGenList(t, fmt.Sprintf("c%d:req", i), true)
				a.Limits = c14wGenList(t, fmt.Sprintf("c%d:lim", i), true)
			}
			ctrs = append(ctrs, a)
		}
		if rapid.IntRange(0, 3).Draw(t, "initContainer") == 0 {
			ctrs = append(ctrs, c14wAmounts{Name: "init0", Init: true, Requests: c14wGenList(t, "init:req", false), Limits: c14wGenList(t, "init:lim", false)})
		}
		// what the annotation has to say: regular containers with at least one batch entry, batch entries only
		var want []c14wAmounts
		for _, a := range ctrs {
			if a.Init {
				continue
			}
			r, l := c14wBatchOnly(a.Requests), c14wBatchOnly(a.Limits)
			if len(r) == 0 && len(l) == 0 {
				continue
			}
			want = append(want, c14wAmounts{Name: a.Name, Requests: r, Limits: l})
		}

		// ---- the annotation the manifest brings along
		pre, preKind := "", "none"
		switch rapid.IntRange(0, 9).Draw(t, "preKind") {
		case 0, 1:
		case 2:
			pre, preKind = rapid.SampledFrom([]string{"{}", `{"containers":{}}`}).Draw(t, "emptyAnno"), "empty"
		case 3:
			pre, preKind = "not-json", "invalid-json"
		case 4:
			pre, preKind = c14wRenderAnno(want), "already-right"
			if len(want) == 0 {
				preKind = "empty"
			}
		default:
			// derived from the right one by edits; the interesting ones keep names and requests and touch only the limits
			var entries []c14wAmounts
			var edits []string
			for _, w := range want {
				e := c14wAmounts{Name: w.Name, Requests: c14wBatchOnly(w.Requests), Limits: c14wBatchOnly(w.Limits)}
				switch rapid.IntRange(0, 6).Draw(t, "edit:"+w.Name) {
				case 0:
					edits = append(edits, "container-dropped")
					continue
				case 1:
					e.Limits = nil
					if len(w.Limits) > 0 {
						edits = append(edits, "limits-dropped")
					}
				case 2:
					name := rapid.SampledFrom([]string{c14wBatchCPU, c14wBatchMemory}).Draw(t, "limName")
					e.Limits[name] = c14wQty(t, name, "otherLimit")
					edits = append(edits, "limit-changed-or-added")
				case 3:
					name := rapid.SampledFrom([]string{c14wBatchCPU, c14wBatchMemory}).Draw(t, "reqName")
					e.Requests[name] = c14wQty(t, name, "otherRequest")
					edits = append(edits, "request-changed-or-added")
				case 4:
					e.Requests = nil
					if len(w.Requests) > 0 {
						edits = append(edits, "requests-dropped")
					}
				}
				entries = append(entries, e)
			}
			if rapid.IntRange(0, 4).Draw(t, "extraEntry") == 0 {
				entries = append(entries, c14wAmounts{Name: "ghost", Requests: map[string]string{c14wBatchCPU: "1000"}, Limits: map[string]string{c14wBatchCPU: "1000"}})
				edits = append(edits, "unknown-container-added")
			}
			pre, preKind = c14wRenderAnno(entries), "edited"
			sort.Strings(edits)
			for _, e := range edits {
				c.Class("pre-annotation-edit:" + e)
			}
			onlyLimits := len(edits) > 0
			for _, e := range edits {
				if !strings.HasPrefix(e, "limit") {
					onlyLimits = false
				}
			}
			c.ClassIf(onlyLimits, "pre-annotation-differs-in-limits-only")
			c.ClassIf(len(edits) == 0, "pre-annotation-edit:none(equal by value)")
		}
		c.Class("pre-annotation:" + preKind)

		pod := &corev1.Pod{ObjectMeta: metav1.ObjectMeta{Namespace: "default", Name: "p", Labels: map[string]string{"koordinator.sh/qosClass": "BE"}}}
		if preKind != "none" {
			pod.Annotations = map[string]string{c14wAnnoSpec: pre}
		} else if rapid.Bool().Draw(t, "otherAnnotation") {
			pod.Annotations = map[string]string{"a": "b"}
		}
		for _, a := range ctrs {
			ctr := corev1.Container{Name: a.Name, Resources: corev1.ResourceRequirements{Requests: c14wRL(a.Requests), Limits: c14wRL(a.Limits)}}
			if a.Init {
				pod.Spec.InitContainers = append(pod.Spec.InitContainers, ctr)
			} else {
				pod.Spec.Containers = append(pod.Spec.Containers, ctr)
			}
		}
		// as the API server hands it over: decoded from JSON
		raw, err := json.Marshal(pod)
		if err != nil {
			panic(err)
		}
		pod = &corev1.Pod{}
		if err := json.Unmarshal(raw, pod); err != nil {
			panic(err)
		}

		h := &PodMutatingHandler{}
		req := admission.Request{AdmissionRequest: admissionv1.AdmissionRequest{
			Resource:  metav1.GroupVersionResource{Group: "", Version: "v1", Resource: "pods"},
			Operation: admissionv1.Create,
		}}
		_, mErr := h.extendedResourceSpecMutatingPod(context.TODO(), req, pod)

		var ctrStrs []string
		for _, a := range ctrs {
			ctrStrs = append(ctrStrs, a.String())
		}
		caseStr := fmt.Sprintf("containers=[%s] submitted annotation=%q -> annotation after CREATE=%q err=%v", strings.Join(ctrStrs, ", "), pre, pod.Annotations[c14wAnnoSpec], mErr)
		c.Class(fmt.Sprintf("containers-with-batch-resources:%d", len(want)))
		differs := preKind == "edited" || preKind == "empty" && len(want) > 0 || preKind == "none" && len(want) > 0
		if len(want) >= 1 && differs && mErr == nil {
			c.NonTrivial(caseStr)
		}
		c.Sample(map[string]any{"case": caseStr})
		if mErr != nil {
			c.Class("admission-refused(not asserted)")
			return
		}

		// ---- oracle: decode the annotation with plain JSON and compare by value with the declared batch amounts
		type ctrSpec struct {
			Limits   map[string]string `json:"limits"`
			Requests map[string]string `json:"requests"`
		}
		got := struct {
			Containers map[string]ctrSpec `json:"containers"`
		}{}
		if s, ok := pod.Annotations[c14wAnnoSpec]; ok {
			if err := json.Unmarshal([]byte(s), &got); err != nil {
				if c.Violation(t, "webhook-annotation:undecodable", "annotation does not decode: %v; %s", err, caseStr) {
					return
				}
			}
		}
		wantNames := map[string]bool{}
		for _, w := range want {
			wantNames[w.Name] = true
			g, ok := got.Containers[w.Name]
			if !ok {
				if c.Violation(t, "webhook-annotation:container-missing", "container %s declares batch resources but is not in the annotation; %s", w.Name, caseStr) {
					return
				}
				continue
			}
			if same, why := c14wSameAmounts(w.Requests, g.Requests); !same {
				if c.Violation(t, "webhook-annotation:requests-differ-from-declared", "container %s requests: %s; %s", w.Name, why, caseStr) {
					return
				}
			}
			if same, why := c14wSameAmounts(w.Limits, g.Limits); !same {
				if c.Violation(t, "webhook-annotation:limits-differ-from-declared", "container %s limits: %s; %s", w.Name, why, caseStr) {
					return
				}
			}
		}
		var extra []string
		for name := range got.Containers {
			if !wantNames[name] {
				extra = append(extra, name)
			}
		}
		sort.Strings(extra)
		if len(extra) > 0 {
			if c.Violation(t, "webhook-annotation:undeclared-container-listed", "annotation lists %v which declare no batch resources (or do not exist); %s", extra, caseStr) {
				return
			}
		}
	})
}
