//go:build verif

// C14 — Batch pod cgroup limits match declared amounts; pod no tighter than a container.
// See /verif/DESIGN.md §1 C14. In-package harness (injected with -overlay).
//
// A case = one webhook-mutated pod (regular + init containers with batch-cpu / batch-memory
// requests/limits, the extended-resource-spec annotation the mutating webhook writes for it, a QoS
// marking) + one rule configuration (CFS quota enabled/disabled, CPU normalization ratio). The pod is
// pushed through the plugin the three ways real callers do it: runtime-proxy request, NRI request,
// reconciler (PodMeta). Every injected value is compared with an oracle that re-states the
// conversions (no call into sysutil / util helpers), and the pod-level answers are related to the
// container-level answers of the same path.
package batchresource

import (
	"encoding/json"
	"fmt"
	"math/big"
	"reflect"
	"strings"
	"testing"

	nriapi "github.com/containerd/nri/pkg/api"
	corev1 "k8s.io/api/core/v1"
	"k8s.io/apimachinery/pkg/api/resource"
	metav1 "k8s.io/apimachinery/pkg/apis/meta/v1"
	"k8s.io/apimachinery/pkg/types"
	"pgregory.net/rapid"

	runtimeapi "github.com/koordinator-sh/koordinator/apis/runtime/v1alpha1"
	slov1alpha1 "github.com/koordinator-sh/koordinator/apis/slo/v1alpha1"
	"github.com/koordinator-sh/koordinator/pkg/koordlet/runtimehooks/protocol"
	"github.com/koordinator-sh/koordinator/pkg/koordlet/statesinformer"
	"github.com/koordinator-sh/koordinator/pkg/verifkit/vk"
)

// The contract is re-stated with literals on purpose (independent of apis/extension constants):
const (
	c14BatchCPU    = corev1.ResourceName("kubernetes.io/batch-cpu")
	c14BatchMemory = corev1.ResourceName("kubernetes.io/batch-memory")
	c14AnnoSpec    = "node.koordinator.sh/extended-resource-spec"
	c14LabelQoS    = "koordinator.sh/qosClass"
	c14AnnoRatio   = "node.koordinator.sh/cpu-normalization-ratio"

	c14SharesMin = 2
	c14SharesMax = 262144
	c14QuotaMin  = 1000 // µs; CFS period is 100 000 µs
)

// ---------------------------------------------------------------- case model

type c14Ctr struct {
	Name                           string
	Init                           bool
	CPUReq, CPULim, MemReq, MemLim *int64 // nil = not declared
	HasID                          bool   // reconciler path: the container status carries a container id (container was started)
}

func (x *c14Ctr) declared() bool {
	return x.CPUReq != nil || x.CPULim != nil || x.MemReq != nil || x.MemLim != nil
}

func c14P(v *int64) string {
	if v == nil {
		return "-"
	}
	return fmt.Sprint(*v)
}

func (x *c14Ctr) String() string {
	kind := "ctr"
	if x.Init {
		kind = "init"
	}
	return fmt.Sprintf("%s %s{cpuReq=%s cpuLim=%s memReq=%s memLim=%s hasID=%v}", kind, x.Name, c14P(x.CPUReq), c14P(x.CPULim), c14P(x.MemReq), c14P(x.MemLim), x.HasID)
}

type c14Cfg struct {
	Desc    string
	Enabled bool // oracle's view of "CFS quota enabled" after the update sequence
	// oracle's view of the ratio stored in the rule after the update sequence. More than one candidate only where
	// the update logic is ambiguous (an update exactly at the ratioDiffEpsilon boundary, decided in float64 by the code).
	// nil entry = never configured; -1 = "no ratio" as reported for a node without the annotation.
	Cands []*big.Rat
	// what happened during the sequence (class counters)
	RemovedAfterSet, LoweredToLE1, SubEpsilon, EpsilonBoundary, IllegalKept, RaisedAbove1, Updates int
	apply                                                                                          func(p *plugin)
}

func c14Above1(r *big.Rat) bool { return r != nil && r.Cmp(big.NewRat(1, 1)) > 0 }

// scalingAll / scalingAny: every / some candidate stored ratio is above 1 (and CFS quota is enabled)
func (g *c14Cfg) scalingAll() bool {
	for _, r := range g.Cands {
		if !c14Above1(r) {
			return false
		}
	}
	return g.Enabled
}
func (g *c14Cfg) scalingAny() bool {
	for _, r := range g.Cands {
		if c14Above1(r) {
			return g.Enabled
		}
	}
	return false
}

func c14RatStr(r *big.Rat) string {
	if r == nil {
		return "unset"
	}
	return r.FloatString(6)
}

// c14RatioUpdate is the reference model of Rule.UpdateCPUNormalizationRatio: the first update is always stored; a later one
// is stored iff it differs from the stored ratio by at least ratioDiffEpsilon = 0.01 (documented hysteresis: a closer update
// deliberately keeps the stored ratio). The code decides |stored-new| >= 0.01 in float64, so within 1e-9 of the boundary both
// outcomes are accepted.
func (g *c14Cfg) ratioUpdate(r *big.Rat) {
	eps := big.NewRat(1, 100)
	fuzz := big.NewRat(1, 1000000000)
	seen := map[string]bool{}
	var out []*big.Rat
	add := func(x *big.Rat) {
		if k := c14RatStr(x) + "|" + fmt.Sprint(x); !seen[k] {
			seen[k] = true
			out = append(out, x)
		}
	}
	kept, taken, boundary := false, false, false
	anyAbove := false
	for _, s := range g.Cands {
		anyAbove = anyAbove || c14Above1(s)
		if s == nil {
			add(r)
			taken = true
			continue
		}
		d := new(big.Rat).Sub(s, r)
		d.Abs(d)
		d.Sub(d, eps)
		switch {
		case d.Cmp(fuzz) > 0:
			add(r)
			taken = true
		case d.Cmp(new(big.Rat).Neg(fuzz)) < 0:
			add(s)
			kept = true
		default:
			add(s)
			add(r)
			boundary = true
		}
	}
	if boundary {
		g.EpsilonBoundary++
	} else if kept && !taken {
		g.SubEpsilon++
	} else if taken && !kept {
		if anyAbove && r.Sign() < 0 {
			g.RemovedAfterSet++
		}
		if anyAbove && r.Sign() > 0 && !c14Above1(r) {
			g.LoweredToLE1++
		}
		if !anyAbove && c14Above1(r) {
			g.RaisedAbove1++
		}
	}
	g.Cands = out
}

type c14Out struct {
	S, Q, M *int64
	Touched bool
	Err     error
}

func (o c14Out) injected() bool { return o.S != nil || o.Q != nil || o.M != nil }
func (o c14Out) String() string {
	return fmt.Sprintf("{shares=%s quota=%s mem=%s}", c14P(o.S), c14P(o.Q), c14P(o.M))
}

// ---------------------------------------------------------------- generators

func c14CPUGen() *rapid.Generator[int64] {
	return rapid.OneOf(
		rapid.SampledFrom([]int64{0, 1, 2, 9, 10, 11, 999, 1000, 1001, 1500, 4000}),
		rapid.Int64Range(1, 12),
		rapid.Int64Range(1, 64000),
		rapid.Int64Range(255990, 256010), // around the cpu.shares maximum (262144 shares = 256000 milli)
		rapid.SampledFrom([]int64{1 << 31, 1 << 40}),
		rapid.Int64Range(1<<20, 1<<40),
	)
}

func c14MemGen() *rapid.Generator[int64] {
	return rapid.OneOf(
		rapid.SampledFrom([]int64{0, 1, 4096, 1 << 30, 1 << 40, 1 << 50}),
		rapid.Int64Range(1, 1<<20),
		rapid.Int64Range(1<<20, 1<<36),
	)
}

func c14Opt(t *rapid.T, g *rapid.Generator[int64], missingIn int, label string) *int64 {
	if missingIn > 0 && rapid.IntRange(0, missingIn-1).Draw(t, label+"Missing") == 0 {
		return nil
	}
	v := g.Draw(t, label)
	return &v
}

func c14GenCtr(t *rapid.T, name string, init bool, shape string) c14Ctr {
	x := c14Ctr{Name: name, Init: init}
	tinyCPU := rapid.Int64Range(1, 12)
	posCPU := rapid.OneOf(rapid.Int64Range(1, 12), rapid.Int64Range(1, 64000), rapid.SampledFrom([]int64{999, 1000, 1500, 256000, 1 << 40}))
	posMem := rapid.OneOf(rapid.SampledFrom([]int64{1, 4096, 1 << 30, 1 << 40, 1 << 50}), rapid.Int64Range(1, 1<<36))
	switch shape {
	case "all-limited", "one-unlimited":
		x.CPUReq = c14Opt(t, c14CPUGen(), 4, "cpuReq")
		x.MemReq = c14Opt(t, c14MemGen(), 4, "memReq")
		x.CPULim = c14Opt(t, posCPU, 0, "cpuLim")
		x.MemLim = c14Opt(t, posMem, 0, "memLim")
	case "tiny":
		x.CPUReq = c14Opt(t, rapid.Int64Range(0, 4), 3, "cpuReq")
		x.MemReq = c14Opt(t, rapid.Int64Range(0, 4096), 3, "memReq")
		x.CPULim = c14Opt(t, tinyCPU, 0, "cpuLim")
		x.MemLim = c14Opt(t, rapid.Int64Range(1, 8192), 0, "memLim")
	default: // "free"
		if rapid.IntRange(0, 9).Draw(t, "declaresNothing") == 0 {
			break
		}
		x.CPUReq = c14Opt(t, c14CPUGen(), 4, "cpuReq")
		x.CPULim = c14Opt(t, c14CPUGen(), 4, "cpuLim")
		x.MemReq = c14Opt(t, c14MemGen(), 4, "memReq")
		x.MemLim = c14Opt(t, c14MemGen(), 4, "memLim")
	}
	x.HasID = rapid.IntRange(0, 11).Draw(t, "noContainerID") != 0
	return x
}

// c14Normalize makes the container API-server-valid: request <= limit when both are declared; and, for pods
// that went through the colocation-profile mutation, request defaults to the limit when only the limit is set.
func c14Normalize(x *c14Ctr, profileMutated bool) {
	fix := func(req, lim **int64) {
		if *lim != nil && *req == nil && profileMutated {
			v := **lim
			*req = &v
		}
		if *lim != nil && *req != nil && **req > **lim {
			v := **lim
			*req = &v
		}
	}
	fix(&x.CPUReq, &x.CPULim)
	fix(&x.MemReq, &x.MemLim)
}

type c14Pod struct {
	Ctrs    []c14Ctr // regular containers first, then init containers
	Labels  map[string]string
	Annos   map[string]string // without the extended-resource-spec annotation
	Marking string            // "label-BE", "label-<other>", "no-label", "no-label+anno", ...
	BE      int               // +1 definitely BE, -1 definitely not BE, 0 not decided by the koordinator QoS label
	Shape   string
	// set by the stale-annotation unit: the annotation was replaced by something the webhook would not write for this spec
	StaleAnno   string
	AnnoDiffers bool
	pod         *corev1.Pod
	fullAnnos   map[string]string
}

func c14GenPod(t *rapid.T) *c14Pod {
	p := &c14Pod{}
	p.Shape = rapid.SampledFrom([]string{"free", "free", "all-limited", "all-limited", "tiny", "one-unlimited"}).Draw(t, "shape")
	n := rapid.IntRange(1, 5).Draw(t, "containers")
	profileMutated := rapid.Bool().Draw(t, "profileMutated")
	for i := 0; i < n; i++ {
		p.Ctrs = append(p.Ctrs, c14GenCtr(t, fmt.Sprintf("c%d", i), false, p.Shape))
	}
	if p.Shape == "one-unlimited" {
		i := rapid.IntRange(0, n-1).Draw(t, "unlimitedIdx")
		zero := int64(0)
		switch rapid.IntRange(0, 4).Draw(t, "unlimitedHow") {
		case 0:
			p.Ctrs[i].CPULim = nil
		case 1:
			p.Ctrs[i].MemLim = nil
		case 2:
			p.Ctrs[i].CPULim = &zero
		case 3:
			p.Ctrs[i].MemLim = &zero
		default:
			p.Ctrs[i].CPULim, p.Ctrs[i].MemLim = nil, nil
		}
	}
	nInit := rapid.SampledFrom([]int{0, 0, 0, 1, 1, 2}).Draw(t, "initContainers")
	for i := 0; i < nInit; i++ {
		shape := rapid.SampledFrom([]string{"free", "all-limited", "tiny"}).Draw(t, "initShape")
		p.Ctrs = append(p.Ctrs, c14GenCtr(t, fmt.Sprintf("init%d", i), true, shape))
	}
	for i := range p.Ctrs {
		c14Normalize(&p.Ctrs[i], profileMutated)
	}

	// QoS marking
	p.Labels = map[string]string{}
	p.Annos = map[string]string{}
	switch k := rapid.IntRange(0, 19).Draw(t, "marking"); {
	case k < 13:
		p.Labels[c14LabelQoS] = "BE"
		p.Marking, p.BE = "label-BE", 1
	case k < 16:
		q := rapid.SampledFrom([]string{"LS", "LSR", "LSE", "SYSTEM"}).Draw(t, "otherQoS")
		p.Labels[c14LabelQoS] = q
		p.Marking, p.BE = "label-"+q, -1
	default:
		// not decided by the koordinator QoS label: no label at all, optionally with BE written where the hook does
		// not look (annotation / priority class). Both "left untouched" and "treated as BE" are accepted, but nothing in between.
		p.Marking, p.BE = "no-label", 0
		if rapid.Bool().Draw(t, "qosAnnotation") {
			p.Annos[c14LabelQoS] = "BE"
			p.Marking += "+anno-BE"
		}
		if rapid.Bool().Draw(t, "batchPriority") {
			p.Labels["koordinator.sh/priority-class"] = "koord-batch"
			p.Marking += "+prio-batch"
		}
	}
	if rapid.Bool().Draw(t, "noise") {
		p.Labels["app"] = "x"
		p.Labels["io.kubernetes.pod.name"] = "p"
		p.Annos["kubernetes.io/config.source"] = "api"
	}
	if len(p.Labels) == 0 && rapid.Bool().Draw(t, "nilLabels") {
		p.Labels = nil
	}
	p.build()
	return p
}

func c14RL(cpu, mem *int64) corev1.ResourceList {
	if cpu == nil && mem == nil {
		return nil
	}
	rl := corev1.ResourceList{}
	if cpu != nil {
		rl[c14BatchCPU] = *resource.NewQuantity(*cpu, resource.DecimalSI)
	}
	if mem != nil {
		rl[c14BatchMemory] = *resource.NewQuantity(*mem, resource.BinarySI)
	}
	return rl
}

// build renders the pod object as it is stored after the mutating webhook ran: batch resources in the container
// specs (regular and init containers) and the extended-resource-spec annotation, which lists every *regular*
// container that declares at least one batch resource, with only the declared entries (an absent limit is an absent key;
// an empty list is omitted).
func (p *c14Pod) build() {
	type ctrSpec struct {
		Limits   map[string]string `json:"limits,omitempty"`
		Requests map[string]string `json:"requests,omitempty"`
	}
	spec := map[string]ctrSpec{}
	pod := &corev1.Pod{ObjectMeta: metav1.ObjectMeta{Name: "p", Namespace: "ns", UID: types.UID("uid-1")}}
	for i := range p.Ctrs {
		x := &p.Ctrs[i]
		ctr := corev1.Container{Name: x.Name, Resources: corev1.ResourceRequirements{
			Requests: c14RL(x.CPUReq, x.MemReq), Limits: c14RL(x.CPULim, x.MemLim)}}
		id := ""
		if x.HasID {
			id = "containerd://" + x.Name + "0123456789abcdef"
		}
		st := corev1.ContainerStatus{Name: x.Name, ContainerID: id}
		if x.Init {
			pod.Spec.InitContainers = append(pod.Spec.InitContainers, ctr)
			pod.Status.InitContainerStatuses = append(pod.Status.InitContainerStatuses, st)
			continue
		}
		pod.Spec.Containers = append(pod.Spec.Containers, ctr)
		pod.Status.ContainerStatuses = append(pod.Status.ContainerStatuses, st)
		if !x.declared() {
			continue
		}
		cs := ctrSpec{}
		put := func(m *map[string]string, k corev1.ResourceName, v *int64, f resource.Format) {
			if v == nil {
				return
			}
			if *m == nil {
				*m = map[string]string{}
			}
			(*m)[string(k)] = resource.NewQuantity(*v, f).String()
		}
		put(&cs.Requests, c14BatchCPU, x.CPUReq, resource.DecimalSI)
		put(&cs.Requests, c14BatchMemory, x.MemReq, resource.BinarySI)
		put(&cs.Limits, c14BatchCPU, x.CPULim, resource.DecimalSI)
		put(&cs.Limits, c14BatchMemory, x.MemLim, resource.BinarySI)
		spec[x.Name] = cs
	}
	p.fullAnnos = map[string]string{}
	for k, v := range p.Annos {
		p.fullAnnos[k] = v
	}
	if len(spec) > 0 {
		b, err := json.Marshal(map[string]any{"containers": spec})
		if err != nil {
			panic(err)
		}
		p.fullAnnos[c14AnnoSpec] = string(b)
	}
	if p.Labels != nil {
		pod.Labels = c14CopyMap(p.Labels)
	}
	pod.Annotations = c14CopyMap(p.fullAnnos)
	p.pod = pod
}

func c14CopyMap(m map[string]string) map[string]string {
	if m == nil {
		return nil
	}
	out := make(map[string]string, len(m))
	for k, v := range m {
		out[k] = v
	}
	return out
}

func (p *c14Pod) String() string {
	var parts []string
	for i := range p.Ctrs {
		parts = append(parts, p.Ctrs[i].String())
	}
	return fmt.Sprintf("pod{marking=%s labels=%v shape=%s %s; annotation=%s}", p.Marking, p.Labels, p.Shape, strings.Join(parts, ", "), p.fullAnnos[c14AnnoSpec])
}

// c14GenCfg draws a sequence of 0-4 rule updates, mostly through the entry points koordlet uses (parseRuleForNodeMeta with a
// node object, parseRuleForNodeSLO with the merged NodeSLO), and tracks the configuration that is effective afterwards.
func c14GenCfg(t *rapid.T) *c14Cfg {
	g := &c14Cfg{Enabled: true, Cands: []*big.Rat{nil}}
	var steps []func(p *plugin)
	var descs []string
	n := rapid.SampledFrom([]int{0, 1, 1, 2, 2, 2, 3, 3, 3, 4, 4}).Draw(t, "ruleUpdates")
	g.Updates = n
	lastTT := int64(0) // last valid annotated ratio, in ten-thousandths
	for i := 0; i < n; i++ {
		switch k := rapid.IntRange(0, 9).Draw(t, "updateKind"); {
		case k == 0:
			// --- CFS quota switch set directly (what parseRuleForNodeSLO ends up calling)
			en := rapid.IntRange(0, 2).Draw(t, "cfsEnabled") > 0
			g.Enabled = en
			descs = append(descs, fmt.Sprintf("cfs=direct(%v)", en))
			steps = append(steps, func(p *plugin) { p.rule.UpdateCFSQuotaEnabled(en) })
		case k <= 2:
			// --- the way koordlet does it: from the merged NodeSLO. CFS quota of batch pods is switched off iff the
			// BE CPU suppress strategy is enabled with policy "cfsQuota".
			spec := &slov1alpha1.NodeSLOSpec{}
			g.Enabled = true
			d := "cfs=nodeSLO(no threshold strategy)"
			if rapid.IntRange(0, 3).Draw(t, "hasStrategy") > 0 {
				en := rapid.Bool().Draw(t, "suppressEnable")
				pol := rapid.SampledFrom([]string{"cfsQuota", "cfsQuota", "cpuset", ""}).Draw(t, "suppressPolicy")
				spec.ResourceUsedThresholdWithBE = &slov1alpha1.ResourceThresholdStrategy{Enable: &en, CPUSuppressPolicy: slov1alpha1.CPUSuppressPolicy(pol)}
				g.Enabled = !(en && pol == "cfsQuota")
				d = fmt.Sprintf("cfs=nodeSLO(suppress enable=%v policy=%q)", en, pol)
			}
			descs = append(descs, d)
			steps = append(steps, func(p *plugin) {
				if _, err := p.parseRuleForNodeSLO(spec); err != nil {
					panic(fmt.Sprintf("parseRuleForNodeSLO: %v", err))
				}
			})
		case k == 3:
			// --- ratio set directly with an arbitrary float (what parseRuleForNodeMeta ends up calling)
			f := rapid.OneOf(rapid.SampledFrom([]float64{-1, 0.5, 1, 1.0001, 1.5, 3}), rapid.Float64Range(1, 10), rapid.Float64Range(1, 1.01)).Draw(t, "ratio")
			g.ratioUpdate(new(big.Rat).SetFloat64(f))
			descs = append(descs, fmt.Sprintf("ratio=direct(%v)", f))
			steps = append(steps, func(p *plugin) { p.rule.UpdateCPUNormalizationRatio(f) })
		default:
			// --- the way koordlet does it: from the node annotation (koord-manager writes it with two decimals)
			node := &corev1.Node{ObjectMeta: metav1.ObjectMeta{Name: "n"}}
			switch ak := rapid.IntRange(0, 9).Draw(t, "annoKind"); {
			case ak <= 1:
				// annotation missing: reported as -1 = "no ratio", which is a regular update of the stored value
				if rapid.Bool().Draw(t, "emptyAnnos") {
					node.Annotations = map[string]string{}
				}
				g.ratioUpdate(big.NewRat(-1, 1))
				descs = append(descs, "ratio=node(no annotation)")
			case ak == 2:
				// illegal value: parse error, the stored ratio is kept
				s := rapid.SampledFrom([]string{"abc", "", "0", "0.00", "-1", "-2.50"}).Draw(t, "badRatio")
				node.Annotations = map[string]string{c14AnnoRatio: s}
				for _, cand := range g.Cands {
					if cand != nil {
						g.IllegalKept++
						break
					}
				}
				descs = append(descs, fmt.Sprintf("ratio=node(illegal %q)", s))
			default:
				var tt int64 // ratio in ten-thousandths
				if lastTT > 0 && rapid.Bool().Draw(t, "nearLast") {
					tt = lastTT + rapid.SampledFrom([]int64{-200, -101, -100, -99, -50, -1, 1, 50, 99, 100, 101, 200}).Draw(t, "ratioDelta")
				} else {
					tt = rapid.OneOf(
						rapid.Map(rapid.Int64Range(100, 500), func(h int64) int64 { return h * 100 }),
						rapid.Map(rapid.Int64Range(1, 1000), func(h int64) int64 { return h * 100 }),
						rapid.Int64Range(1, 100000),
						rapid.SampledFrom([]int64{5000, 9900, 10000, 10001, 10100, 15000, 30000}),
					).Draw(t, "ratioTT")
				}
				if tt < 1 {
					tt = 1
				}
				var s string
				switch {
				case tt%10000 == 0 && rapid.Bool().Draw(t, "noDecimals"):
					s = fmt.Sprint(tt / 10000)
				case tt%100 == 0:
					s = fmt.Sprintf("%d.%02d", tt/10000, tt%10000/100)
				default:
					s = fmt.Sprintf("%d.%04d", tt/10000, tt%10000)
				}
				lastTT = tt
				node.Annotations = map[string]string{c14AnnoRatio: s}
				g.ratioUpdate(big.NewRat(tt, 10000))
				descs = append(descs, fmt.Sprintf("ratio=node(%q)", s))
			}
			steps = append(steps, func(p *plugin) { _, _ = p.parseRuleForNodeMeta(node) })
		}
	}
	if n == 0 {
		descs = append(descs, "never configured (cfs quota enabled, no ratio)")
	}
	var cs []string
	for _, r := range g.Cands {
		cs = append(cs, c14RatStr(r))
	}
	g.Desc = fmt.Sprintf("updates=[%s] => model: cfsEnabled=%v storedRatio=%s", strings.Join(descs, " ; "), g.Enabled, strings.Join(cs, "|"))
	g.apply = func(p *plugin) {
		for _, s := range steps {
			s(p)
		}
	}
	return g
}

// ---------------------------------------------------------------- oracle: the standard conversions, re-stated

// shares = max(2, min(262144, floor(milli*1024/1000))); a missing or non-positive request counts as 0
func c14Shares(milli int64) int64 {
	if milli < 0 {
		milli = 0
	}
	s := new(big.Int).Mul(big.NewInt(milli), big.NewInt(1024))
	s.Quo(s, big.NewInt(1000))
	if s.Cmp(big.NewInt(c14SharesMin)) < 0 {
		return c14SharesMin
	}
	if s.Cmp(big.NewInt(c14SharesMax)) > 0 {
		return c14SharesMax
	}
	return s.Int64()
}

// quota for a 100 ms period = max(1000, milli*100) µs; no (or non-positive) limit = unlimited = -1
func c14QuotaBase(milli int64) int64 {
	if milli <= 0 {
		return -1
	}
	q := new(big.Int).Mul(big.NewInt(milli), big.NewInt(100))
	if q.Cmp(big.NewInt(c14QuotaMin)) < 0 {
		return c14QuotaMin
	}
	if !q.IsInt64() {
		panic("generator produced a cpu limit whose quota overflows int64")
	}
	return q.Int64()
}

// c14QuotaOK decides whether got is an acceptable quota for an unscaled quota `base` under cfg.
// Unlimited / disabled: exactly -1. No ratio above 1: exactly base. Ratio r > 1: ceil(base/r), computed by the
// code in float64; accepted interval base/r*(1-2^-50) <= got <= base/r*(1+2^-50)+1 (exact rational arithmetic), and
// additionally the kernel minimum 1000 when the scaled value falls below it (the statement does not fix whether the
// minimum clamp is re-applied after scaling).
func c14QuotaOK(got, base int64, cfg *c14Cfg) (bool, string) {
	if !cfg.Enabled {
		return got == -1, "-1 (cfs quota disabled)"
	}
	if base == -1 {
		return got == -1, "-1 (unlimited)"
	}
	var wants []string
	ok := false
	for _, r := range cfg.Cands {
		o, w := c14QuotaOKFor(got, base, r)
		ok = ok || o
		wants = append(wants, w)
	}
	return ok, strings.Join(wants, " or ")
}

func c14QuotaOKFor(got, base int64, ratio *big.Rat) (bool, string) {
	if !c14Above1(ratio) {
		return got == base, fmt.Sprintf("%d (stored ratio %s: no scaling)", base, c14RatStr(ratio))
	}
	x := new(big.Rat).Quo(new(big.Rat).SetInt64(base), ratio)
	delta := new(big.Rat).SetFrac(big.NewInt(1), new(big.Int).Lsh(big.NewInt(1), 50))
	lo := new(big.Rat).Mul(x, new(big.Rat).Sub(big.NewRat(1, 1), delta))
	hi := new(big.Rat).Mul(x, new(big.Rat).Add(big.NewRat(1, 1), delta))
	hi.Add(hi, big.NewRat(1, 1))
	g := new(big.Rat).SetInt64(got)
	want := fmt.Sprintf("ceil(%d/%s)=ceil(%s)", base, ratio.FloatString(6), x.FloatString(4))
	if g.Cmp(lo) >= 0 && g.Cmp(hi) <= 0 {
		return true, want
	}
	if hi.Cmp(big.NewRat(c14QuotaMin, 1)) < 0 && got == c14QuotaMin {
		return true, want
	}
	return false, want
}

func c14MemLimit(lim *int64) int64 {
	if lim == nil || *lim <= 0 {
		return -1
	}
	return *lim
}

func c14Val(v *int64) int64 {
	if v == nil {
		return -1
	}
	return *v
}

// ---------------------------------------------------------------- driving the plugin the three ways

const c14PodCgroup = "/kubepods.slice/kubepods-besteffort.slice/kubepods-besteffort-poduid_1.slice"

func c14PodOut(ctxs ...*protocol.PodContext) c14Out {
	var o c14Out
	for _, x := range ctxs {
		r := x.Response.Resources
		if r.CPUShares != nil {
			o.S = r.CPUShares
		}
		if r.CFSQuota != nil {
			o.Q = r.CFSQuota
		}
		if r.MemoryLimit != nil {
			o.M = r.MemoryLimit
		}
		if !reflect.DeepEqual(x.Response, protocol.PodResponse{}) {
			o.Touched = true
		}
	}
	return o
}

func c14CtrOut(ctxs ...*protocol.ContainerContext) c14Out {
	var o c14Out
	for _, x := range ctxs {
		r := x.Response.Resources
		if r.CPUShares != nil {
			o.S = r.CPUShares
		}
		if r.CFSQuota != nil {
			o.Q = r.CFSQuota
		}
		if r.MemoryLimit != nil {
			o.M = r.MemoryLimit
		}
		if !reflect.DeepEqual(x.Response, protocol.ContainerResponse{}) {
			o.Touched = true
		}
	}
	return o
}

func c14FirstErr(errs ...error) error {
	for _, e := range errs {
		if e != nil {
			return e
		}
	}
	return nil
}

// runtime-proxy: PreRunPodSandbox -> SetPodResources, PreCreateContainer -> SetContainerResources
func c14RunProxy(p *plugin, pod *c14Pod) (c14Out, []c14Out) {
	meta := &runtimeapi.PodSandboxMetadata{Name: "p", Namespace: "ns", Uid: "uid-1"}
	podCtx := &protocol.PodContext{}
	podCtx.FromProxy(&runtimeapi.PodSandboxHookRequest{PodMeta: meta, Labels: c14CopyMap(pod.Labels), Annotations: c14CopyMap(pod.fullAnnos), CgroupParent: c14PodCgroup})
	err := p.SetPodResources(podCtx)
	po := c14PodOut(podCtx)
	po.Err = err
	var cos []c14Out
	for i := range pod.Ctrs {
		cc := &protocol.ContainerContext{}
		cc.FromProxy(&runtimeapi.ContainerResourceHookRequest{PodMeta: meta,
			ContainerMeta:  &runtimeapi.ContainerMetadata{Name: pod.Ctrs[i].Name, Id: pod.Ctrs[i].Name + "0123456789abcdef"},
			PodAnnotations: c14CopyMap(pod.fullAnnos), PodLabels: c14CopyMap(pod.Labels), PodCgroupParent: c14PodCgroup})
		err := p.SetContainerResources(cc)
		co := c14CtrOut(cc)
		co.Err = err
		cos = append(cos, co)
	}
	return po, cos
}

// NRI: RunPodSandbox -> SetPodResources, CreateContainer -> SetContainerResources
func c14RunNRI(p *plugin, pod *c14Pod) (c14Out, []c14Out) {
	sb := func() *nriapi.PodSandbox {
		return &nriapi.PodSandbox{Id: "sb", Name: "p", Namespace: "ns", Uid: "uid-1", Labels: c14CopyMap(pod.Labels), Annotations: c14CopyMap(pod.fullAnnos),
			Linux: &nriapi.LinuxPodSandbox{CgroupParent: c14PodCgroup}}
	}
	podCtx := &protocol.PodContext{}
	podCtx.FromNri(sb())
	err := p.SetPodResources(podCtx)
	po := c14PodOut(podCtx)
	po.Err = err
	var cos []c14Out
	for i := range pod.Ctrs {
		cc := &protocol.ContainerContext{}
		cc.FromNri(sb(), &nriapi.Container{Id: pod.Ctrs[i].Name + "0123456789abcdef", PodSandboxId: "sb", Name: pod.Ctrs[i].Name})
		err := p.SetContainerResources(cc)
		co := c14CtrOut(cc)
		co.Err = err
		cos = append(cos, co)
	}
	return po, cos
}

// reconciler: one fresh context per (level, cgroup file), through the functions registered with
// RegisterCgroupReconciler; containers = regular and init container statuses (reconcilePodCgroup).
func c14RunReconciler(p *plugin, pod *c14Pod, aggregated bool) (c14Out, []c14Out) {
	pm := func() *statesinformer.PodMeta {
		return &statesinformer.PodMeta{Pod: pod.pod.DeepCopy(), CgroupDir: c14PodCgroup}
	}
	var po c14Out
	if aggregated {
		x := &protocol.PodContext{}
		x.FromReconciler(pm())
		err := p.SetPodResources(x)
		po = c14PodOut(x)
		po.Err = err
	} else {
		a, b, d := &protocol.PodContext{}, &protocol.PodContext{}, &protocol.PodContext{}
		a.FromReconciler(pm())
		b.FromReconciler(pm())
		d.FromReconciler(pm())
		e1, e2, e3 := p.SetPodCPUShares(a), p.SetPodCFSQuota(b), p.SetPodMemoryLimit(d)
		po = c14PodOut(a, b, d)
		po.Err = c14FirstErr(e1, e2, e3)
	}
	var cos []c14Out
	for i := range pod.Ctrs {
		name := pod.Ctrs[i].Name
		var co c14Out
		if aggregated {
			x := &protocol.ContainerContext{}
			x.FromReconciler(pm(), name, false)
			err := p.SetContainerResources(x)
			co = c14CtrOut(x)
			co.Err = err
		} else {
			a, b, d := &protocol.ContainerContext{}, &protocol.ContainerContext{}, &protocol.ContainerContext{}
			a.FromReconciler(pm(), name, false)
			b.FromReconciler(pm(), name, false)
			d.FromReconciler(pm(), name, false)
			e1, e2, e3 := p.SetContainerCPUShares(a), p.SetContainerCFSQuota(b), p.SetContainerMemoryLimit(d)
			co = c14CtrOut(a, b, d)
			co.Err = c14FirstErr(e1, e2, e3)
		}
		cos = append(cos, co)
	}
	return po, cos
}

// ---------------------------------------------------------------- the property

type c14PathResult struct {
	Path string
	Pod  c14Out
	Ctrs []c14Out
}

func TestVerifC14Hooks(t *testing.T) {
	rec := vk.New(t, "C14", "hooks")
	rec.Note("paths", "every case is driven through runtime-proxy, NRI and reconciler requests")
	rapid.Check(t, func(t *rapid.T) {
		c := rec.Begin()
		defer c.End()
		pod := c14GenPod(t)
		cfg := c14GenCfg(t)
		aggregated := rapid.Bool().Draw(t, "reconcilerAggregated")

		p := newPlugin() // fresh plugin and rule per case: no state shared between cases
		cfg.apply(p)

		var results []c14PathResult
		{
			po, cos := c14RunProxy(p, pod)
			results = append(results, c14PathResult{"proxy", po, cos})
			po, cos = c14RunNRI(p, pod)
			results = append(results, c14PathResult{"nri", po, cos})
			po, cos = c14RunReconciler(p, pod, aggregated)
			results = append(results, c14PathResult{"reconciler", po, cos})
		}
		c14Evaluate(c, t, pod, cfg, aggregated, results)
	})
}

// c14Evaluate labels the case and applies the oracle to the responses collected on the given paths. It performs no draws.
func c14Evaluate(c *vk.Case, t *rapid.T, pod *c14Pod, cfg *c14Cfg, aggregated bool, results []c14PathResult) {
	{
		caseStr := func() string { return fmt.Sprintf("%s rule{%s}", pod, cfg.Desc) }

		// the containers the pod-level hook is given: regular containers declaring at least one batch resource
		var given []int
		for i := range pod.Ctrs {
			if !pod.Ctrs[i].Init && pod.Ctrs[i].declared() {
				given = append(given, i)
			}
		}
		anyTouched, anyErr := false, false
		for _, r := range results {
			anyTouched = anyTouched || r.Pod.Touched
			anyErr = anyErr || r.Pod.Err != nil
			for _, co := range r.Ctrs {
				anyTouched = anyTouched || co.Touched
				anyErr = anyErr || co.Err != nil
			}
		}
		c.ClassIf(anyErr, "hook-returned-error(not asserted)")

		// ----- classes
		subMin, unlimCPU, unlimMem, initDeclared, nothingDeclared, noID, sharesMax, sharesMin := false, false, false, false, false, false, false, false
		var sumLim int64
		for _, i := range given {
			x := &pod.Ctrs[i]
			if x.CPULim != nil && *x.CPULim >= 1 && *x.CPULim <= 9 {
				subMin = true
			}
			if x.CPULim == nil || *x.CPULim <= 0 {
				unlimCPU = true
			} else {
				sumLim += *x.CPULim
			}
			if x.MemLim == nil || *x.MemLim <= 0 {
				unlimMem = true
			}
			if x.CPUReq != nil && *x.CPUReq >= 256000 {
				sharesMax = true
			}
			if x.CPUReq == nil || *x.CPUReq <= 1 {
				sharesMin = true
			}
		}
		for i := range pod.Ctrs {
			x := &pod.Ctrs[i]
			initDeclared = initDeclared || (x.Init && x.declared())
			nothingDeclared = nothingDeclared || (!x.Init && !x.declared())
			noID = noID || !x.HasID
		}
		c.Class("marking:" + strings.SplitN(pod.Marking, "+", 2)[0])
		c.Class("shape:" + pod.Shape)
		c.Class(fmt.Sprintf("given-containers:%d", len(given)))
		c.ClassIf(initDeclared, "init-container-with-batch-resources")
		c.ClassIf(nothingDeclared, "regular-container-declaring-nothing")
		c.ClassIf(noID, "container-without-id(reconciler skips it)")
		c.ClassIf(subMin, "container-quota-below-minimum")
		c.ClassIf(subMin && !unlimCPU && sumLim >= 10, "sub-minimum-containers-sum-above-minimum")
		c.ClassIf(unlimCPU, "a-container-without-cpu-limit")
		c.ClassIf(unlimMem, "a-container-without-memory-limit")
		c.ClassIf(!unlimCPU && !unlimMem && len(given) > 0, "all-containers-limited")
		c.ClassIf(sharesMax, "shares-at-maximum")
		c.ClassIf(sharesMin, "shares-at-minimum")
		c.ClassIf(!cfg.Enabled, "cfs-quota-disabled")
		c.ClassIf(cfg.scalingAll(), "ratio-above-1")
		c.ClassIf(cfg.Enabled && !cfg.scalingAny() && cfg.Cands[0] != nil, "ratio-not-above-1")
		c.ClassIf(len(cfg.Cands) == 1 && cfg.Cands[0] == nil, "ratio-not-configured")
		c.ClassIf(len(cfg.Cands) > 1, "stored-ratio-ambiguous(epsilon boundary, both accepted)")
		c.Class(fmt.Sprintf("rule-updates:%d", cfg.Updates))
		c.ClassIf(cfg.RemovedAfterSet > 0, "ratio-removed-after-set")
		c.ClassIf(cfg.LoweredToLE1 > 0, "ratio-lowered-to-le-1")
		c.ClassIf(cfg.SubEpsilon > 0, "sub-epsilon-update")
		c.ClassIf(cfg.EpsilonBoundary > 0, "epsilon-boundary-update")
		c.ClassIf(cfg.IllegalKept > 0, "illegal-annotation-keeps-stored-ratio")
		c.ClassIf(cfg.RaisedAbove1 > 0, "ratio-raised-above-1")
		c.ClassIf((cfg.RemovedAfterSet > 0 || cfg.LoweredToLE1 > 0) && cfg.Enabled && !cfg.scalingAny(), "ratio-removed-or-lowered-and-not-scaling-at-end")
		c.ClassIf(aggregated, "reconciler-aggregated-entry")
		treatedBE := pod.BE == 1 || (pod.BE == 0 && anyTouched)
		c.ClassIf(pod.BE == 0 && anyTouched, "undecided-marking-treated-as-BE")
		c.ClassIf(pod.BE == 0 && !anyTouched, "undecided-marking-left-untouched")
		if pod.StaleAnno != "" {
			// stale-annotation unit: non-trivial = BE pod with declared batch resources whose annotation disagrees with the spec
			if treatedBE && len(given) >= 1 && pod.AnnoDiffers {
				c.NonTrivial(pod.String(), cfg.Desc)
			}
		} else if treatedBE && len(given) >= 2 && ((subMin && cfg.Enabled) || unlimCPU || unlimMem) {
			c.NonTrivial(pod.String(), cfg.Desc)
		}
		if c.WantSample() {
			sm := map[string]any{"pod": pod.String(), "rule": cfg.Desc}
			for _, r := range results {
				sm[r.Path] = fmt.Sprint(r.Pod, r.Ctrs)
			}
			c.Sample(sm)
		}

		// ----- pods that are not best-effort are left untouched
		if pod.BE == -1 {
			for _, r := range results {
				if r.Pod.Touched {
					if c.Violation(t, "nonbe:pod-touched", "%s path: pod-level response %v set for a pod that is not BE; %s", r.Path, r.Pod, caseStr()) {
						return
					}
				}
				for i, co := range r.Ctrs {
					if co.Touched {
						if c.Violation(t, "nonbe:container-touched", "%s path: container %s response %v set for a pod that is not BE; %s", r.Path, pod.Ctrs[i].Name, co, caseStr()) {
							return
						}
					}
				}
			}
			return
		}
		if !treatedBE {
			return // marking not decided by the QoS label and the hook consistently left everything alone
		}

		// ----- BE pod. Expected pod-level values: the same conversions applied to the sums over the given containers,
		// unlimited as soon as one of them is unlimited.
		var sumReq, sumCPULim, sumMemLim int64
		podCPUUnlimited, podMemUnlimited := false, false
		for _, i := range given {
			x := &pod.Ctrs[i]
			if x.CPUReq != nil && *x.CPUReq > 0 {
				sumReq += *x.CPUReq
			}
			if x.CPULim == nil || *x.CPULim <= 0 {
				podCPUUnlimited = true
			} else {
				sumCPULim += *x.CPULim
			}
			if x.MemLim == nil || *x.MemLim <= 0 {
				podMemUnlimited = true
			} else {
				sumMemLim += *x.MemLim
			}
		}
		wantPodShares := c14Shares(sumReq)
		wantPodQuotaBase := int64(-1)
		if !podCPUUnlimited {
			wantPodQuotaBase = c14QuotaBase(sumCPULim)
		}
		wantPodMem := int64(-1)
		if !podMemUnlimited {
			wantPodMem = sumMemLim
		}

		type initViolation struct{ msg string }
		var initBad []initViolation
		scaledBelowMin := false

		for _, r := range results {
			// --- container level: equality with the conversion of the container's own declared amounts
			for i, co := range r.Ctrs {
				x := &pod.Ctrs[i]
				mustInject := !x.Init && x.declared() && (r.Path != "reconciler" || x.HasID)
				if mustInject && (co.S == nil || co.Q == nil || co.M == nil) {
					if c.Violation(t, "container:not-injected", "%s path: BE pod, container %s declares batch resources but got %v; %s", r.Path, x.Name, co, caseStr()) {
						return
					}
				}
				if !co.injected() {
					continue
				}
				if co.S != nil {
					if want := c14Shares(c14Val(x.CPUReq)); *co.S != want {
						if c.Violation(t, "container:shares-mismatch", "%s path: container %s cpu shares %d, want %d for batch-cpu request %s; %s", r.Path, x.Name, *co.S, want, c14P(x.CPUReq), caseStr()) {
							return
						}
					}
				}
				if co.Q != nil {
					base := c14QuotaBase(c14Val(x.CPULim))
					if ok, want := c14QuotaOK(*co.Q, base, cfg); !ok {
						if c.Violation(t, "container:quota-mismatch", "%s path: container %s cfs quota %d, want %s for batch-cpu limit %s; %s", r.Path, x.Name, *co.Q, want, c14P(x.CPULim), caseStr()) {
							return
						}
					}
					if *co.Q != -1 && *co.Q < c14QuotaMin {
						scaledBelowMin = true
					}
				}
				if co.M != nil {
					if want := c14MemLimit(x.MemLim); *co.M != want {
						if c.Violation(t, "container:memory-mismatch", "%s path: container %s memory limit %d, want %d for batch-memory limit %s; %s", r.Path, x.Name, *co.M, want, c14P(x.MemLim), caseStr()) {
							return
						}
					}
				}
			}

			// --- pod level
			if len(given) == 0 {
				c.Class("BE-pod-without-batch-resources(pod level not asserted)")
			} else {
				po := r.Pod
				if po.S == nil || po.Q == nil || po.M == nil {
					if c.Violation(t, "pod:not-injected", "%s path: BE pod with batch resources got pod-level %v; %s", r.Path, po, caseStr()) {
						return
					}
				}
				if po.S != nil && *po.S != wantPodShares {
					if c.Violation(t, "pod:shares-mismatch", "%s path: pod cpu shares %d, want %d for summed request %d; %s", r.Path, *po.S, wantPodShares, sumReq, caseStr()) {
						return
					}
				}
				if po.Q != nil {
					if ok, want := c14QuotaOK(*po.Q, wantPodQuotaBase, cfg); !ok {
						if c.Violation(t, "pod:quota-mismatch", "%s path: pod cfs quota %d, want %s (summed limit %d, some container unlimited=%v); %s", r.Path, *po.Q, want, sumCPULim, podCPUUnlimited, caseStr()) {
							return
						}
					}
				}
				if po.M != nil && *po.M != wantPodMem {
					if c.Violation(t, "pod:memory-mismatch", "%s path: pod memory limit %d, want %d (summed limit %d, some container unlimited=%v); %s", r.Path, *po.M, wantPodMem, sumMemLim, podMemUnlimited, caseStr()) {
						return
					}
				}
			}

			// --- pod vs. the containers the hook configured on the same path (actual outputs against actual outputs)
			po := r.Pod
			var sumS, sumQ, sumM int64
			nCfg, allGivenCfg := 0, true
			for i, co := range r.Ctrs {
				x := &pod.Ctrs[i]
				if !co.injected() {
					if !x.Init && x.declared() {
						allGivenCfg = false
					}
					continue
				}
				var tight []string
				if po.Q != nil && co.Q != nil && *po.Q != -1 && (*co.Q == -1 || *co.Q > *po.Q) {
					tight = append(tight, fmt.Sprintf("cfs quota pod=%d container=%d", *po.Q, *co.Q))
				}
				if po.M != nil && co.M != nil && *po.M != -1 && (*co.M == -1 || *co.M > *po.M) {
					tight = append(tight, fmt.Sprintf("memory limit pod=%d container=%d", *po.M, *co.M))
				}
				if po.S != nil && co.S != nil && *co.S > *po.S {
					tight = append(tight, fmt.Sprintf("cpu shares pod=%d container=%d", *po.S, *co.S))
				}
				if len(tight) > 0 {
					if x.Init {
						initBad = append(initBad, initViolation{fmt.Sprintf("%s path: pod cgroup tighter than init container %s, which the hook configured from its own batch amounts: %s", r.Path, x.Name, strings.Join(tight, "; "))})
					} else if c.Violation(t, "pod:tighter-than-container", "%s path: pod cgroup tighter than container %s: %s; %s", r.Path, x.Name, strings.Join(tight, "; "), caseStr()) {
						return
					}
				}
				if !x.Init && co.S != nil && co.Q != nil && co.M != nil {
					nCfg++
					sumS += *co.S
					sumQ += *co.Q
					sumM += *co.M
				} else if !x.Init {
					allGivenCfg = false
				}
			}
			// equals the sum of its containers up to rounding and the minimum clamps (only meaningful when limited)
			if nCfg > 0 && allGivenCfg && nCfg == len(given) {
				n := int64(nCfg)
				if po.M != nil && *po.M != -1 && *po.M != sumM {
					if c.Violation(t, "pod:not-sum-of-containers", "%s path: pod memory limit %d but the containers' limits sum to %d; %s", r.Path, *po.M, sumM, caseStr()) {
						return
					}
				}
				if po.Q != nil && *po.Q != -1 {
					if d := *po.Q - sumQ; d > n || d < -(n*c14QuotaMin+n) {
						if c.Violation(t, "pod:not-sum-of-containers", "%s path: pod cfs quota %d but the containers' quotas sum to %d (allowed: -%d..+%d); %s", r.Path, *po.Q, sumQ, n*c14QuotaMin+n, n, caseStr()) {
							return
						}
					}
				}
				if po.S != nil && *po.S < c14SharesMax {
					if d := *po.S - sumS; d > n+1 || d < -2*n {
						if c.Violation(t, "pod:not-sum-of-containers", "%s path: pod cpu shares %d but the containers' shares sum to %d (allowed: -%d..+%d); %s", r.Path, *po.S, sumS, 2*n, n+1, caseStr()) {
							return
						}
					}
				}
			}
		}
		c.ClassIf(scaledBelowMin, "scaled-quota-below-kernel-minimum(not asserted)")
		c.ClassIf(len(initBad) > 0, "pod-tighter-than-configured-init-container")
		if len(initBad) > 0 {
			if c.Violation(t, "pod:tighter-than-init-container", "%s; %s", initBad[0].msg, caseStr()) {
				return
			}
		}
	}
}
