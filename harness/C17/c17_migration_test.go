//go:build verif

// C17 — Migration jobs evict only after capacity is secured; finished jobs stay finished.
// See /verif/DESIGN.md §1 C17. In-package harness (injected with -overlay).
//
// Shape: a rapid state machine drives the real Reconciler (real reservation interpreter from
// reservation.NewInterpreter over a controller-runtime fake client) with reconcile calls interleaved with
// environment events (what koord-scheduler / workload controllers / users do to Reservations and Pods),
// clock advances (injected fake clock), controller restarts and injected API write failures.
// A recording evictor stamps every Evict call with the API state at that instant; the oracle is
// re-stated on the raw API objects (never through the helpers the controller uses).
package migration

import (
	"context"
	"errors"
	"flag"
	"fmt"
	"io"
	"strings"
	"testing"
	"time"

	corev1 "k8s.io/api/core/v1"
	apierrors "k8s.io/apimachinery/pkg/api/errors"
	metav1 "k8s.io/apimachinery/pkg/apis/meta/v1"
	"k8s.io/apimachinery/pkg/runtime"
	"k8s.io/apimachinery/pkg/types"
	"k8s.io/client-go/tools/events"
	"k8s.io/klog/v2"
	clocktesting "k8s.io/utils/clock/testing"
	"k8s.io/utils/ptr"
	"pgregory.net/rapid"
	"sigs.k8s.io/controller-runtime/pkg/client"
	"sigs.k8s.io/controller-runtime/pkg/client/fake"
	"sigs.k8s.io/controller-runtime/pkg/client/interceptor"
	"sigs.k8s.io/controller-runtime/pkg/manager"
	"sigs.k8s.io/controller-runtime/pkg/reconcile"

	sev1alpha1 "github.com/koordinator-sh/koordinator/apis/scheduling/v1alpha1"
	deschedulerconfig "github.com/koordinator-sh/koordinator/pkg/descheduler/apis/config"
	"github.com/koordinator-sh/koordinator/pkg/descheduler/apis/config/v1alpha2"
	"github.com/koordinator-sh/koordinator/pkg/descheduler/controllers/migration/controllerfinder"
	"github.com/koordinator-sh/koordinator/pkg/descheduler/controllers/migration/reservation"
	"github.com/koordinator-sh/koordinator/pkg/descheduler/framework"
	"github.com/koordinator-sh/koordinator/pkg/verifkit/vk"
)

const (
	c17NS          = "default"
	c17WorkloadUID = types.UID("wl-uid")
)

var c17Nodes = []string{"n0", "n1", "n2"}

var c17Epoch = time.Date(2024, 1, 1, 0, 0, 0, 0, time.UTC)

// ---------------------------------------------------------------- pieces handed to the Reconciler

// c17Mgr gives reservation.NewInterpreter the two things it takes from a manager.
type c17Mgr struct {
	manager.Manager
	c client.Client
}

func (m c17Mgr) GetClient() client.Client    { return m.c }
func (m c17Mgr) GetAPIReader() client.Reader { return m.c }

// c17ResvInterp is the real interpreter plus call recording.
type c17ResvInterp struct {
	reservation.Interpreter
	env *c17Env
}

func (i *c17ResvInterp) CreateReservation(ctx context.Context, job *sev1alpha1.PodMigrationJob) (reservation.Object, error) {
	i.env.onCreateReservation(job)
	return i.Interpreter.CreateReservation(ctx, job)
}

func (i *c17ResvInterp) DeleteReservation(ctx context.Context, ref *corev1.ObjectReference) error {
	if ref != nil {
		i.env.hist = append(i.env.hist, "    DeleteReservation("+ref.Name+")")
	}
	return i.Interpreter.DeleteReservation(ctx, ref)
}

// c17PreemptInterp is the real interpreter plus the optional extension point reservation.Interpreter.Preemption():
// every Reservation reports NeedPreemption() and Preempt answers from the harness's model of the preemption process.
type c17PreemptInterp struct{ *c17ResvInterp }

type c17PreemptObj struct {
	reservation.Object
	env *c17Env
}

// whether a reservation can only be placed by preempting others is a property of the reservation (drawn per job)
func (o c17PreemptObj) NeedPreemption() bool { return !o.env.noPreemptNeeded[o.GetName()] }

func (i *c17PreemptInterp) Preemption() reservation.Preemption { return c17Preemption{env: i.env} }

func (i *c17PreemptInterp) GetReservation(ctx context.Context, ref *corev1.ObjectReference) (reservation.Object, error) {
	obj, err := i.c17ResvInterp.GetReservation(ctx, ref)
	if obj != nil {
		obj = c17PreemptObj{obj, i.env}
	}
	return obj, err
}

func (i *c17PreemptInterp) CreateReservation(ctx context.Context, job *sev1alpha1.PodMigrationJob) (reservation.Object, error) {
	obj, err := i.c17ResvInterp.CreateReservation(ctx, job)
	if obj != nil {
		obj = c17PreemptObj{obj, i.env}
	}
	return obj, err
}

type c17Preemption struct{ env *c17Env }

// Preempt: the first call starts the preemption for the reservation; it is complete only after the environment
// event "preemption completes". While incomplete the answer takes one of the shapes an implementation may use:
// (false, zero Result, nil) - wait for watch events; (false, RequeueAfter, nil); (false, _, error).
func (p c17Preemption) Preempt(ctx context.Context, job *sev1alpha1.PodMigrationJob, obj reservation.Object) (bool, reconcile.Result, error) {
	e := p.env
	name := obj.GetName()
	e.sawPreemptCall = true
	if e.noPreemptNeeded[name] {
		// asked for a reservation that has no victims to wait for: there is nothing to do
		e.sawPreemptForNoNeed = true
		e.hist = append(e.hist, "    Preempt("+name+") -> nothing to preempt, complete")
		return true, reconcile.Result{}, nil
	}
	if e.preemptState[name] == 0 {
		e.preemptState[name] = 1
	}
	e.sawPreemptCall = true
	if e.preemptState[name] == 2 {
		e.hist = append(e.hist, "    Preempt("+name+") -> complete")
		return true, reconcile.Result{}, nil
	}
	switch e.preemptShape {
	case 1:
		e.hist = append(e.hist, "    Preempt("+name+") -> incomplete, requeue after 3s")
		return false, reconcile.Result{RequeueAfter: 3 * time.Second}, nil
	case 2:
		e.faultsDelivered++
		e.hist = append(e.hist, "    Preempt("+name+") -> incomplete, error")
		return false, reconcile.Result{}, c17InjectedErr()
	}
	e.sawPreemptIncompleteZero = true
	e.hist = append(e.hist, "    Preempt("+name+") -> incomplete, zero result, no error (waits for events)")
	return false, reconcile.Result{}, nil
}

type c17Evictor struct{ env *c17Env }

func (e c17Evictor) Evict(ctx context.Context, job *sev1alpha1.PodMigrationJob, pod *corev1.Pod) error {
	return e.env.onEvict(ctx, job, pod)
}

// ---------------------------------------------------------------- harness state

type c17Job struct {
	name     string
	origin   string // user | descheduler | preset-ref
	direct   bool   // effective mode is EvictionDirectly
	podName  string
	podUID   types.UID // UID of the target pod when the job was created ("" if it did not exist)
	resvName string    // name the job's reservation has / will have
	ttl      time.Duration
	created  time.Time

	evicts, creates int
	terminal        sev1alpha1.PodMigrationJobPhase // first terminal phase observed in the API
	terminalReason  string
	afterTerminal   int // reconciles issued after the terminal phase was observed

	runningAtLastReconcile bool
	resvChangedSince       bool

	// every status write of the job that reached the API, in order (what a watcher of the API sees)
	phasesWritten           []sev1alpha1.PodMigrationJobPhase
	writtenTerminal         sev1alpha1.PodMigrationJobPhase // first Succeeded/Failed that was written
	nameOnlyRef             bool                            // user-supplied reservationRef without UID
	deleted                 bool                            // removed by the scavenger
	prunedBeforeEvict       bool
	msgChangedWhileEvicting bool
	userTemplate            string // "", or the allocateOnce value of a user-written reservation template: nil / true / false
	falseTemplateConsumed   bool   // template said allocateOnce=false and another pod consumed the reservation before the job evicted
	nonOnceConsumed         bool   // a non-allocate-once reservation of this job was consumed by another pod before the job evicted
	targetBoundOwn          bool   // the target pod itself consumed the job's reservation

	// the pattern "unschedulable report -> reconcile records ReservationScheduled=False -> reservation scheduled on the
	// target pod's own node -> reconcile": 1 = False condition persisted, 2 = then scheduled on the pod's node, 3 = then reconciled
	unschedThenSameNode int
}

type c17Stamp struct{ sig, msg string }

type c17Env struct {
	c    *vk.Case
	base client.WithWatch // the "API server": fake client + server-side UID / creationTimestamp
	cli  client.WithWatch // what the controller talks to: base + injected write failures
	clk  *clocktesting.FakeClock
	args *deschedulerconfig.MigrationControllerArgs
	r    *Reconciler
	gen  int
	uidN int
	podN int
	jobN int

	faultSkip, faultN int
	faultArmed        int // >0: that many writes fail right after the next successful Evict
	evictFailArmed    int // >0: that many Evict calls are rejected
	evictedUIDs       map[types.UID]bool
	lateScheduled     map[types.UID]bool // pods that existed without a node and were scheduled by the environment later
	faultAfterApply   bool
	faultsDelivered   int
	justEvicted       bool

	evictImmediate                                                                                                                    bool
	nextPodUnscheduled                                                                                                                bool
	extended                                                                                                                          bool            // third test: unscheduled target pods that may get bound through a reservation; optional preemption
	preempt                                                                                                                           bool            // the interpreter offers Preemption()
	preemptState                                                                                                                      map[string]int  // per reservation: 0 not started, 1 in progress, 2 complete
	noPreemptNeeded                                                                                                                   map[string]bool // reservations whose NeedPreemption() is false
	sawFalseTemplateConsumedThenReconciled                                                                                            bool
	sawScavenge, sawScavengeExpiredWithResv, sawScavengeForeignExpiredWithResv, sawMsgChangeWhileEvicting, sawReconcileAfterMsgChange bool
	scavengeProfile                                                                                                                   bool
	fitsNowhere                                                                                                                       bool
	pruneOwners                                                                                                                       bool
	sawOwnersPruned, sawOwnersPrunedBeforeEvict, sawReconcileAfterPrune                                                               bool
	sawPreemptForNoNeed, sawGivenUpNoNeedReconciled, sawNonOnceConsumedBeforeEvict, sawNonOnceConsumedThenReconciled                  bool
	preemptShape                                                                                                                      int  // how an incomplete Preempt answers during the next reconcile
	userInput                                                                                                                         bool // second test: jobs as users write them (name-only reservationRef, unresolvable podRef), TTL expiry favoured
	colocated                                                                                                                         bool // generator profile: several reservation-first jobs of one workload whose reservations tend to share a node
	jobs                                                                                                                              []*c17Job
	pods                                                                                                                              []string
	hist                                                                                                                              []string
	stamps                                                                                                                            []c17Stamp
	dead                                                                                                                              bool

	// distribution
	sawRestart, sawFaultAfterEvict, sawResvChangeWhileRunning, sawSameNode, sawEvictReplacement bool
	sawTTLAbortNameOnlyRef, sawFirstReconcileNoPod, sawWriteAfterTerminalWrite                  bool
	sawPreemptCall, sawPreemptIncompleteZero, sawEvictAfterPreemption, sawGivenUp               bool
	sawTargetBoundOwnResv, sawTargetBoundAfterEvictAttempt, sawReconcileAfterTargetBound        bool
	sawOrphanAtTTL, sawTTLAbortWithResv, sawEvictRetry, sawBoundBeforeEvict, sawClockPastTTL    bool
}

var c17Ctx = context.Background()

func c17Scheme() *runtime.Scheme {
	s := runtime.NewScheme()
	_ = sev1alpha1.AddToScheme(s)
	_ = corev1.AddToScheme(s) // the full client-go scheme makes the fake client's lazily built REST mapper the dominant cost
	return s
}

func c17InjectedErr() error {
	return apierrors.NewInternalError(errors.New("verif: injected API failure"))
}

func c17Terminal(p sev1alpha1.PodMigrationJobPhase) bool {
	return p == sev1alpha1.PodMigrationJobSucceeded || p == sev1alpha1.PodMigrationJobFailed
}

func c17Describe(obj client.Object) string {
	s := fmt.Sprintf("%T", obj)
	if i := strings.LastIndex(s, "."); i >= 0 {
		s = s[i+1:]
	}
	return s + "/" + obj.GetName()
}

func c17NewEnv(c *vk.Case, scheme *runtime.Scheme) *c17Env {
	e := &c17Env{c: c, clk: clocktesting.NewFakeClock(c17Epoch), evictedUIDs: map[types.UID]bool{}, preemptState: map[string]int{}, noPreemptNeeded: map[string]bool{}, lateScheduled: map[types.UID]bool{}}
	raw := fake.NewClientBuilder().WithScheme(scheme).
		WithStatusSubresource(&sev1alpha1.PodMigrationJob{}, &sev1alpha1.Reservation{}).Build()
	// what an API server does on create
	e.base = interceptor.NewClient(raw, interceptor.Funcs{
		Create: func(ctx context.Context, cl client.WithWatch, obj client.Object, opts ...client.CreateOption) error {
			if obj.GetUID() == "" {
				e.uidN++
				obj.SetUID(types.UID(fmt.Sprintf("uid-%d", e.uidN)))
			}
			if ts := obj.GetCreationTimestamp(); ts.IsZero() {
				obj.SetCreationTimestamp(metav1.NewTime(e.clk.Now()))
			}
			return cl.Create(ctx, obj, opts...)
		},
	})
	// injected write failures; only the controller uses this client
	e.cli = interceptor.NewClient(e.base, interceptor.Funcs{
		Create: func(ctx context.Context, cl client.WithWatch, obj client.Object, opts ...client.CreateOption) error {
			fail, after := e.nextFault("create " + c17Describe(obj))
			if fail && !after {
				return c17InjectedErr()
			}
			if fail {
				_ = cl.Create(ctx, obj.DeepCopyObject().(client.Object), opts...)
				return c17InjectedErr()
			}
			return cl.Create(ctx, obj, opts...)
		},
		Update: func(ctx context.Context, cl client.WithWatch, obj client.Object, opts ...client.UpdateOption) error {
			fail, after := e.nextFault("update " + c17Describe(obj))
			if fail && !after {
				return c17InjectedErr()
			}
			if fail {
				_ = cl.Update(ctx, obj.DeepCopyObject().(client.Object), opts...)
				return c17InjectedErr()
			}
			return cl.Update(ctx, obj, opts...)
		},
		Delete: func(ctx context.Context, cl client.WithWatch, obj client.Object, opts ...client.DeleteOption) error {
			fail, after := e.nextFault("delete " + c17Describe(obj))
			if fail && !after {
				return c17InjectedErr()
			}
			if fail {
				_ = cl.Delete(ctx, obj.DeepCopyObject().(client.Object), opts...)
				return c17InjectedErr()
			}
			return cl.Delete(ctx, obj, opts...)
		},
		SubResourceUpdate: func(ctx context.Context, cl client.Client, sub string, obj client.Object, opts ...client.SubResourceUpdateOption) error {
			fail, after := e.nextFault("update " + sub + " of " + c17Describe(obj))
			if fail && !after {
				return c17InjectedErr()
			}
			if fail {
				lost := obj.DeepCopyObject().(client.Object)
				if cl.SubResource(sub).Update(ctx, lost, opts...) == nil {
					e.onStatusWritten(sub, lost)
				}
				return c17InjectedErr()
			}
			err := cl.SubResource(sub).Update(ctx, obj, opts...)
			if err == nil {
				e.onStatusWritten(sub, obj)
			}
			return err
		},
	})
	return e
}

// nextFault decides whether the controller's next write fails ("skip k writes, then fail n").
func (e *c17Env) nextFault(what string) (fail bool, afterApply bool) {
	wasAfterEvict := e.justEvicted
	e.justEvicted = false
	if e.faultN == 0 {
		return false, false
	}
	if e.faultSkip > 0 {
		e.faultSkip--
		return false, false
	}
	e.faultN--
	e.faultsDelivered++
	if wasAfterEvict {
		e.sawFaultAfterEvict = true
	}
	s := "    ! injected failure: " + what
	if e.faultAfterApply {
		s += " (applied, response lost)"
	}
	e.hist = append(e.hist, s)
	return true, e.faultAfterApply
}

// newReconciler builds a Reconciler the way newReconciler()/New() do: fresh assumed cache, fresh limiters,
// fresh reconciler UID, same API. Object limiters are switched off (they read the wall clock through
// rate.Limiter.Tokens and can only delay a job, which equals "not reconciling").
func (e *c17Env) newReconciler() *Reconciler {
	e.gen++
	r := &Reconciler{
		Client:                 e.cli,
		args:                   e.args,
		eventRecorder:          &events.FakeRecorder{},
		reservationInterpreter: &c17ResvInterp{Interpreter: reservation.NewInterpreter(c17Mgr{c: e.cli}), env: e},
		evictorInterpreter:     c17Evictor{env: e},
		controllerFinder:       &controllerfinder.ControllerFinder{Client: e.cli},
		assumedCache:           newAssumedCache(),
		clock:                  e.clk,
	}
	if e.preempt {
		r.reservationInterpreter = &c17PreemptInterp{r.reservationInterpreter.(*c17ResvInterp)}
	}
	r.initObjectLimiters()
	r.reconcilerUID = types.UID(fmt.Sprintf("reconciler-%d", e.gen))
	return r
}

func (e *c17Env) getJob(name string) *sev1alpha1.PodMigrationJob {
	job := &sev1alpha1.PodMigrationJob{}
	if err := e.base.Get(c17Ctx, types.NamespacedName{Name: name}, job); err != nil {
		return nil
	}
	return job
}

func (e *c17Env) getResv(name string) *sev1alpha1.Reservation {
	if name == "" {
		return nil
	}
	r := &sev1alpha1.Reservation{}
	if err := e.base.Get(c17Ctx, types.NamespacedName{Name: name}, r); err != nil {
		return nil
	}
	return r
}

func (e *c17Env) getPod(name string) *corev1.Pod {
	if name == "" {
		return nil
	}
	p := &corev1.Pod{}
	if err := e.base.Get(c17Ctx, types.NamespacedName{Namespace: c17NS, Name: name}, p); err != nil {
		return nil
	}
	return p
}

func (e *c17Env) job(name string) *c17Job {
	for _, j := range e.jobs {
		if j.name == name {
			return j
		}
	}
	return nil
}

func (e *c17Env) history() string { return "\n  " + strings.Join(e.hist, "\n  ") }

func (e *c17Env) stamp(sig, format string, args ...any) {
	e.stamps = append(e.stamps, c17Stamp{sig, fmt.Sprintf(format, args...)})
}

func (e *c17Env) markResvChanged(resvName string) {
	for _, j := range e.jobs {
		if j.resvName == resvName {
			j.resvChangedSince = true
		}
	}
}

// ---------------------------------------------------------------- the oracle for one Evict call (clause 1)

func c17ResvCond(r *sev1alpha1.Reservation, typ sev1alpha1.ReservationConditionType) *sev1alpha1.ReservationCondition {
	for i := range r.Status.Conditions {
		if r.Status.Conditions[i].Type == typ {
			return &r.Status.Conditions[i]
		}
	}
	return nil
}

func c17ResvString(r *sev1alpha1.Reservation) string {
	if r == nil {
		return "<none>"
	}
	s := fmt.Sprintf("%s{phase=%q node=%q", r.Name, r.Status.Phase, r.Status.NodeName)
	for _, c := range r.Status.Conditions {
		s += fmt.Sprintf(" %s=%s/%s", c.Type, c.Status, c.Reason)
	}
	for _, o := range r.Status.CurrentOwners {
		s += fmt.Sprintf(" owner=%s(%s)", o.Name, o.UID)
	}
	return s + "}"
}

// c17Gate re-states "capacity is secured" on the raw Reservation: it exists, is not pending / unschedulable /
// expired, is scheduled on a node other than the pod's, and is not held by some other pod.
func c17Gate(r *sev1alpha1.Reservation, pod *corev1.Pod, preemptionComplete bool) string {
	if r == nil {
		return "evict:reservation-missing"
	}
	sched := c17ResvCond(r, sev1alpha1.ReservationConditionScheduled)
	switch r.Status.Phase {
	case "", sev1alpha1.ReservationPending:
		if sched != nil && sched.Status == sev1alpha1.ConditionStatusFalse {
			return "evict:reservation-unschedulable"
		}
		return "evict:reservation-pending"
	case sev1alpha1.ReservationFailed:
		if ready := c17ResvCond(r, sev1alpha1.ReservationConditionReady); ready == nil || ready.Reason != sev1alpha1.ReasonReservationExpired {
			// not expired: the scheduler gave up on it (Scheduled=False/Unschedulable). Only generated together with a
			// preemption-capable interpreter; the statement accepts the eviction once the preemption for it has completed.
			if preemptionComplete {
				return ""
			}
			return "evict:reservation-unschedulable-preemption-incomplete"
		}
		return "evict:reservation-expired"
	}
	for _, o := range r.Status.CurrentOwners {
		if o.UID != pod.UID {
			return "evict:reservation-bound-by-other-pod"
		}
	}
	if r.Status.Phase == sev1alpha1.ReservationSucceeded && len(r.Status.CurrentOwners) == 0 {
		// used up by a pod that is not listed any more: the capacity was handed out, it is not secured for the job's pod
		return "evict:reservation-bound-by-other-pod:consumer-gone"
	}
	if r.Status.NodeName == "" || sched == nil || sched.Status != sev1alpha1.ConditionStatusTrue {
		return "evict:reservation-not-scheduled"
	}
	if r.Status.NodeName == pod.Spec.NodeName {
		return "evict:reservation-on-pod-node"
	}
	return ""
}

func (e *c17Env) onEvict(ctx context.Context, job *sev1alpha1.PodMigrationJob, pod *corev1.Pod) error {
	j := e.job(job.Name)
	if j == nil {
		e.stamp("evict:unknown-job", "Evict for job %q that the harness never created", job.Name)
		return nil
	}
	j.evicts++
	api := e.getJob(job.Name)
	var resv *sev1alpha1.Reservation
	if api != nil && api.Spec.ReservationOptions != nil && api.Spec.ReservationOptions.ReservationRef != nil {
		resv = e.getResv(api.Spec.ReservationOptions.ReservationRef.Name)
	}
	e.hist = append(e.hist, fmt.Sprintf("    Evict(job=%s pod=%s uid=%s node=%q) with reservation %s", job.Name, pod.Name, pod.UID, pod.Spec.NodeName, c17ResvString(resv)))
	if api != nil && c17Terminal(api.Status.Phase) {
		e.stamp("terminal:evict-for-finished-job", "Evict issued for job %s whose persisted phase is %s", job.Name, api.Status.Phase)
	} else if j.writtenTerminal != "" {
		e.stamp("terminal:evict-for-finished-job", "Evict issued for job %s after phase %s had been written to the API (status writes so far: %v)", job.Name, j.writtenTerminal, j.phasesWritten)
	}
	if !j.direct {
		preemptionComplete := resv != nil && e.preemptState[resv.Name] == 2
		if preemptionComplete && resv.Status.NodeName == "" {
			e.sawEvictAfterPreemption = true
		}
		if sig := c17Gate(resv, pod, preemptionComplete); sig != "" {
			if sig == "evict:reservation-unschedulable-preemption-incomplete" && e.noPreemptNeeded[resv.Name] {
				// no preemption is needed for it, none secured anything: it is simply unschedulable
				sig = "evict:reservation-unschedulable-and-needs-no-preemption"
			}
			// same clause, different defect: the pod found under the job's pod name is not the pod the job recorded
			// (spec.podRef.uid, stamped by the controller itself when the job started)
			if sig == "evict:reservation-on-pod-node" && api != nil && api.Spec.PodRef != nil && api.Spec.PodRef.UID != "" && api.Spec.PodRef.UID != pod.UID {
				sig += ":replacement-pod"
			} else if sig == "evict:reservation-on-pod-node" && resv.Status.Phase == sev1alpha1.ReservationSucceeded {
				// the reservation is used up, and by the very pod that is being evicted from its node
				sig += ":consumed-by-the-pod-itself"
			} else if sig == "evict:reservation-on-pod-node" && e.lateScheduled[pod.UID] {
				// the pod had no node when the job compared nodes and was placed on the reservation's node afterwards
				sig += ":pod-scheduled-after-the-check"
			}
			e.stamp(sig, "reservation-first job %s evicts pod %s/%s (uid %s, node %q) while its reservation is %s", job.Name, pod.Namespace, pod.Name, pod.UID, pod.Spec.NodeName, c17ResvString(resv))
		}
	}
	if api != nil && api.Spec.PodRef != nil && api.Spec.PodRef.UID != "" && api.Spec.PodRef.UID != pod.UID {
		e.sawEvictReplacement = true // the root of the finding reported for this property; by itself not forbidden by the statement
	}
	if j.evicts > 1 {
		e.sawEvictRetry = true
	}
	if e.evictFailArmed > 0 {
		e.evictFailArmed--
		e.faultsDelivered++
		e.hist = append(e.hist, "    ! injected failure: evict pod "+pod.Name+" (rejected, e.g. 429 from a disruption budget)")
		return c17InjectedErr()
	}
	fail, after := e.nextFault("evict pod " + pod.Name)
	if fail && !after {
		return c17InjectedErr()
	}
	e.evictedUIDs[pod.UID] = true
	if e.evictImmediate {
		if cur := e.getPod(pod.Name); cur != nil && cur.UID == pod.UID {
			_ = e.base.Delete(ctx, cur)
		}
	}
	if fail {
		return c17InjectedErr()
	}
	e.justEvicted = true
	if e.faultArmed > 0 {
		e.faultSkip, e.faultN, e.faultArmed = 0, e.faultArmed, 0
	}
	return nil
}

func (e *c17Env) onCreateReservation(job *sev1alpha1.PodMigrationJob) {
	e.hist = append(e.hist, "    CreateReservation(job="+job.Name+")")
	j := e.job(job.Name)
	if j == nil {
		return
	}
	j.creates++
	if api := e.getJob(job.Name); api != nil && c17Terminal(api.Status.Phase) {
		e.stamp("terminal:reservation-for-finished-job", "CreateReservation issued for job %s whose persisted phase is %s", job.Name, api.Status.Phase)
	} else if j.writtenTerminal != "" {
		e.stamp("terminal:reservation-for-finished-job", "CreateReservation issued for job %s after phase %s had been written to the API (status writes so far: %v)", job.Name, j.writtenTerminal, j.phasesWritten)
	}
}

// onStatusWritten sees every PodMigrationJob status write of the controller that reached the API (clause 2 over the
// write history: the phase a watcher observes never leaves Succeeded/Failed, also not for the duration of one reconcile).
func (e *c17Env) onStatusWritten(sub string, obj client.Object) {
	job, ok := obj.(*sev1alpha1.PodMigrationJob)
	if !ok || sub != "status" {
		return
	}
	j := e.job(job.Name)
	if j == nil {
		return
	}
	if n := len(j.phasesWritten); n == 0 || j.phasesWritten[n-1] != job.Status.Phase {
		e.hist = append(e.hist, fmt.Sprintf("    status write: phase=%q reason=%q", job.Status.Phase, job.Status.Reason))
	}
	j.phasesWritten = append(j.phasesWritten, job.Status.Phase)
	if j.writtenTerminal != "" {
		e.sawWriteAfterTerminalWrite = true
		if job.Status.Phase != j.writtenTerminal {
			e.stamp("terminal:phase-rewritten", "job %s had phase %s written to the API, a later status write carries phase %q (reason %q); status writes in order: %v", job.Name, j.writtenTerminal, job.Status.Phase, job.Status.Reason, j.phasesWritten)
		}
		return
	}
	if c17Terminal(job.Status.Phase) {
		j.writtenTerminal = job.Status.Phase
	}
}

// ---------------------------------------------------------------- environment: pods

func c17OwnerRef() metav1.OwnerReference {
	return metav1.OwnerReference{APIVersion: "apps/v1", Kind: "ReplicaSet", Name: "wl", UID: c17WorkloadUID, Controller: ptr.To(true)}
}

func (e *c17Env) createPod(name, node string, pending, ready bool) *corev1.Pod {
	p := &corev1.Pod{
		ObjectMeta: metav1.ObjectMeta{Namespace: c17NS, Name: name, OwnerReferences: []metav1.OwnerReference{c17OwnerRef()}},
		Spec:       corev1.PodSpec{SchedulerName: "koord-scheduler", NodeName: node, Containers: []corev1.Container{{Name: "main", Image: "img"}}},
		Status:     corev1.PodStatus{Phase: corev1.PodRunning},
	}
	if pending {
		p.Spec.NodeName = ""
		p.Status.Phase = corev1.PodPending
		p.Status.Conditions = []corev1.PodCondition{{Type: corev1.PodScheduled, Status: corev1.ConditionFalse, Reason: corev1.PodReasonUnschedulable}}
	} else {
		p.Status.Conditions = []corev1.PodCondition{{Type: corev1.PodScheduled, Status: corev1.ConditionTrue}}
		if ready {
			p.Status.Conditions = append(p.Status.Conditions, corev1.PodCondition{Type: corev1.PodReady, Status: corev1.ConditionTrue})
		}
	}
	if e.nextPodUnscheduled {
		// created, not yet looked at by the scheduler: no node, no PodScheduled condition
		e.nextPodUnscheduled = false
		p.Spec.NodeName = ""
		p.Status.Phase = corev1.PodPending
		p.Status.Conditions = nil
	}
	if err := e.base.Create(c17Ctx, p); err != nil {
		panic(fmt.Sprintf("harness: create pod: %v", err))
	}
	return p
}

func c17PodUnschedulable(p *corev1.Pod) bool {
	for _, c := range p.Status.Conditions {
		if c.Type == corev1.PodScheduled && c.Status == corev1.ConditionFalse {
			return true
		}
	}
	return false
}

// resvGiveUp: a scheduler with preemption support stops retrying a reservation that fits nowhere (not generated for the
// stock interpreter: koord-scheduler leaves such a reservation Pending).
func (e *c17Env) resvGiveUp(r *sev1alpha1.Reservation) {
	now := metav1.NewTime(e.clk.Now())
	r.Status.Phase = sev1alpha1.ReservationFailed
	if c := c17ResvCond(r, sev1alpha1.ReservationConditionScheduled); c != nil {
		c.Status, c.Reason, c.LastProbeTime = sev1alpha1.ConditionStatusFalse, sev1alpha1.ReasonReservationUnschedulable, now
	} else {
		r.Status.Conditions = append(r.Status.Conditions, sev1alpha1.ReservationCondition{Type: sev1alpha1.ReservationConditionScheduled,
			Status: sev1alpha1.ConditionStatusFalse, Reason: sev1alpha1.ReasonReservationUnschedulable, Message: "0/3 nodes are available", LastProbeTime: now, LastTransitionTime: now})
	}
	e.updateResvStatus(r)
	e.sawGivenUp = true
	e.hist = append(e.hist, fmt.Sprintf("env: scheduler gives up on reservation %s: unschedulable without preemption", r.Name))
}

// resvBindExisting: an existing, not yet scheduled pod of the workload is placed on the reservation's node by consuming it.
func (e *c17Env) resvBindExisting(r *sev1alpha1.Reservation, p *corev1.Pod, ready bool) {
	e.lateScheduled[p.UID] = true
	p.Spec.NodeName = r.Status.NodeName
	p.Status.Phase = corev1.PodRunning
	p.Status.Conditions = []corev1.PodCondition{{Type: corev1.PodScheduled, Status: corev1.ConditionTrue}}
	if ready {
		p.Status.Conditions = append(p.Status.Conditions, corev1.PodCondition{Type: corev1.PodReady, Status: corev1.ConditionTrue})
	}
	if err := e.base.Update(c17Ctx, p); err != nil {
		panic(fmt.Sprintf("harness: update pod: %v", err))
	}
	e.resvConsumed(r, corev1.ObjectReference{Namespace: p.Namespace, Name: p.Name, UID: p.UID})
	e.hist = append(e.hist, fmt.Sprintf("env: unscheduled pod %s (uid %s) is scheduled on %s by consuming reservation %s", p.Name, p.UID, r.Status.NodeName, r.Name))
}

// ---------------------------------------------------------------- environment: reservations (what koord-scheduler does)

func (e *c17Env) updateResvStatus(r *sev1alpha1.Reservation) {
	if err := e.base.Status().Update(c17Ctx, r); err != nil {
		panic(fmt.Sprintf("harness: update reservation status: %v", err))
	}
	e.markResvChanged(r.Name)
}

func c17ResvIsPending(r *sev1alpha1.Reservation) bool {
	return r.Status.Phase == "" || r.Status.Phase == sev1alpha1.ReservationPending
}

func (e *c17Env) resvSchedule(r *sev1alpha1.Reservation, node string) {
	now := metav1.NewTime(e.clk.Now())
	r.Status.NodeName = node
	r.Status.Phase = sev1alpha1.ReservationAvailable
	r.Status.Conditions = []sev1alpha1.ReservationCondition{
		{Type: sev1alpha1.ReservationConditionScheduled, Status: sev1alpha1.ConditionStatusTrue, Reason: sev1alpha1.ReasonReservationScheduled, LastProbeTime: now, LastTransitionTime: now},
		{Type: sev1alpha1.ReservationConditionReady, Status: sev1alpha1.ConditionStatusTrue, Reason: sev1alpha1.ReasonReservationAvailable, LastProbeTime: now, LastTransitionTime: now},
	}
	e.updateResvStatus(r)
	e.hist = append(e.hist, fmt.Sprintf("env: reservation %s scheduled on %s", r.Name, node))
}

func (e *c17Env) resvUnschedulable(r *sev1alpha1.Reservation, setPhase bool, msg string) {
	now := metav1.NewTime(e.clk.Now())
	if setPhase {
		r.Status.Phase = sev1alpha1.ReservationPending
	}
	if c := c17ResvCond(r, sev1alpha1.ReservationConditionScheduled); c != nil {
		c.Reason, c.Message, c.LastProbeTime = sev1alpha1.ReasonReservationUnschedulable, msg, now
	} else {
		r.Status.Conditions = append(r.Status.Conditions, sev1alpha1.ReservationCondition{Type: sev1alpha1.ReservationConditionScheduled,
			Status: sev1alpha1.ConditionStatusFalse, Reason: sev1alpha1.ReasonReservationUnschedulable, Message: msg, LastProbeTime: now, LastTransitionTime: now})
	}
	e.updateResvStatus(r)
	e.hist = append(e.hist, fmt.Sprintf("env: reservation %s marked unschedulable (%s)", r.Name, msg))
}

func (e *c17Env) resvExpire(r *sev1alpha1.Reservation) {
	now := metav1.NewTime(e.clk.Now())
	r.Status.Phase = sev1alpha1.ReservationFailed
	exp := sev1alpha1.ReservationCondition{Type: sev1alpha1.ReservationConditionReady, Status: sev1alpha1.ConditionStatusFalse, Reason: sev1alpha1.ReasonReservationExpired, LastProbeTime: now, LastTransitionTime: now}
	if c := c17ResvCond(r, sev1alpha1.ReservationConditionReady); c != nil {
		*c = exp
	} else {
		r.Status.Conditions = append(r.Status.Conditions, exp)
	}
	e.updateResvStatus(r)
	e.hist = append(e.hist, fmt.Sprintf("env: reservation %s expired", r.Name))
}

// resvConsumed is the status update of the scheduler's reservation controller (syncStatus): currentOwners always, phase
// Succeeded only for an allocate-once reservation (spec.allocateOnce nil counts as true); any other stays Available.
func (e *c17Env) resvConsumed(r *sev1alpha1.Reservation, owner corev1.ObjectReference) {
	now := metav1.NewTime(e.clk.Now())
	r.Status.CurrentOwners = append(r.Status.CurrentOwners, owner)
	for _, j := range e.jobs {
		if api := e.getJob(j.name); j.userTemplate == "false" && j.resvName == r.Name && api != nil && !c17Terminal(api.Status.Phase) && c17JobCond(api, sev1alpha1.PodMigrationJobConditionEviction) == nil && owner.UID != j.podUID {
			j.falseTemplateConsumed = true
		}
	}
	if r.Spec.AllocateOnce == nil || *r.Spec.AllocateOnce {
		r.Status.Phase = sev1alpha1.ReservationSucceeded
		if c := c17ResvCond(r, sev1alpha1.ReservationConditionReady); c != nil {
			c.Status, c.Reason, c.LastProbeTime = sev1alpha1.ConditionStatusFalse, sev1alpha1.ReasonReservationSucceeded, now
		}
	} else {
		for _, j := range e.jobs {
			if api := e.getJob(j.name); j.resvName == r.Name && api != nil && !c17Terminal(api.Status.Phase) && c17JobCond(api, sev1alpha1.PodMigrationJobConditionEviction) == nil && owner.UID != j.podUID {
				j.nonOnceConsumed = true
				e.sawNonOnceConsumedBeforeEvict = true
			}
		}
	}
	e.updateResvStatus(r)
}

// resvBind: a pod that matches the reservation's owners lands on the reservation's node and consumes it.
// For an allocate-once reservation the scheduler writes CurrentOwners and phase Succeeded in one status update.
func (e *c17Env) resvBind(r *sev1alpha1.Reservation, podName string, ready bool) {
	var ref corev1.ObjectReference
	if len(r.Spec.Owners) > 0 && r.Spec.Owners[0].Object != nil {
		// reservation made for one particular (pending) pod: only that pod can consume it
		p := e.getPod(r.Spec.Owners[0].Object.Name)
		p.Spec.NodeName = r.Status.NodeName
		p.Status.Phase = corev1.PodRunning
		p.Status.Conditions = []corev1.PodCondition{{Type: corev1.PodScheduled, Status: corev1.ConditionTrue}}
		if ready {
			p.Status.Conditions = append(p.Status.Conditions, corev1.PodCondition{Type: corev1.PodReady, Status: corev1.ConditionTrue})
		}
		if err := e.base.Update(c17Ctx, p); err != nil {
			panic(fmt.Sprintf("harness: update pod: %v", err))
		}
		ref = corev1.ObjectReference{Namespace: p.Namespace, Name: p.Name, UID: p.UID}
	} else {
		p := e.createPod(podName, r.Status.NodeName, false, ready)
		ref = corev1.ObjectReference{Namespace: p.Namespace, Name: p.Name, UID: p.UID}
	}
	e.resvConsumed(r, ref)
	e.hist = append(e.hist, fmt.Sprintf("env: pod %s (uid %s, ready=%v) bound reservation %s on %s (phase now %s)", ref.Name, ref.UID, ready, r.Name, r.Status.NodeName, r.Status.Phase))
}

// ---------------------------------------------------------------- job creation

func (e *c17Env) createJob(t *rapid.T) {
	e.jobN++
	podName := rapid.SampledFrom(e.pods).Draw(t, "jobPod")
	pod := e.getPod(podName)
	origin := rapid.SampledFrom([]string{"user", "user", "descheduler", "preset-ref"}).Draw(t, "origin")
	invalidPodRef, nameOnlyRef, userTemplate := false, false, ""
	if e.userInput {
		switch rapid.SampledFrom([]string{"name-only-ref", "name-only-ref", "name-only-ref", "uid-ref", "plain", "template", "template", "template", "invalid-podref"}).Draw(t, "userInput") {
		case "template":
			// spec.reservationOptions.template written by the user; only allocateOnce is varied (the rest is filled in from the pod)
			origin = "user"
			userTemplate = rapid.SampledFrom([]string{"false", "false", "nil", "true"}).Draw(t, "templateAllocateOnce")
		case "name-only-ref":
			origin, nameOnlyRef = "preset-ref", true
		case "uid-ref":
			origin = "preset-ref"
		case "invalid-podref":
			origin, invalidPodRef = "user", true
		default:
			origin = "user"
		}
	}
	if e.colocated && origin == "descheduler" {
		origin = "user"
	}
	if e.scavengeProfile && !e.colocated && pod != nil && rapid.IntRange(0, 3).Draw(t, "madeByDescheduler") > 0 {
		origin = "descheduler"
	}
	if pod == nil && origin != "user" {
		origin = "user"
	}
	j := &c17Job{origin: origin, podName: podName, created: e.clk.Now()}
	if pod != nil {
		j.podUID = pod.UID
	}
	var mode sev1alpha1.PodMigrationJobMode
	var ttl *metav1.Duration
	switch origin {
	case "descheduler":
		// the path descheduling plugins take: Reconciler.Evict -> CreatePodMigrationJob
		err := CreatePodMigrationJob(c17Ctx, pod, framework.EvictOptions{PluginName: "verif", Reason: "verif"}, e.base, e.args, e.r.reconcilerUID)
		if err != nil {
			panic(fmt.Sprintf("harness: CreatePodMigrationJob: %v", err))
		}
		j.name = fmt.Sprintf("gen-%d", c17UUIDCounter)
		mode, ttl = sev1alpha1.PodMigrationJobMode(e.args.DefaultJobMode), e.args.DefaultJobTTL.DeepCopy()
	default:
		j.name = fmt.Sprintf("job-%d", e.jobN)
		mode = rapid.SampledFrom([]sev1alpha1.PodMigrationJobMode{"", "", sev1alpha1.PodMigrationJobModeReservationFirst, sev1alpha1.PodMigrationJobModeEvictionDirectly}).Draw(t, "mode")
		if d := rapid.SampledFrom([]time.Duration{-1, 0, 30 * time.Second, 5 * time.Minute, 5 * time.Minute}).Draw(t, "ttl"); d >= 0 {
			ttl = &metav1.Duration{Duration: d}
		}
		if e.userInput && origin == "preset-ref" {
			// a user who prepares a Reservation wants reservation-first; give the job a deadline most of the time
			if mode == sev1alpha1.PodMigrationJobModeEvictionDirectly {
				mode = sev1alpha1.PodMigrationJobModeReservationFirst
			}
			if (ttl == nil || ttl.Duration == 0) && rapid.IntRange(0, 3).Draw(t, "giveTTL") > 0 {
				ttl = &metav1.Duration{Duration: rapid.SampledFrom([]time.Duration{30 * time.Second, 5 * time.Minute}).Draw(t, "userTTL")}
			}
		}
		if e.colocated {
			if mode == sev1alpha1.PodMigrationJobModeEvictionDirectly {
				mode = sev1alpha1.PodMigrationJobModeReservationFirst
			}
			if ttl != nil && ttl.Duration == 30*time.Second {
				ttl = nil
			}
		}
		job := &sev1alpha1.PodMigrationJob{
			ObjectMeta: metav1.ObjectMeta{Name: j.name},
			Spec:       sev1alpha1.PodMigrationJobSpec{PodRef: &corev1.ObjectReference{Namespace: c17NS, Name: podName}, Mode: mode, TTL: ttl},
		}
		if pod != nil && rapid.Bool().Draw(t, "podRefHasUID") {
			job.Spec.PodRef.UID = pod.UID
		}
		if userTemplate != "" {
			if mode == sev1alpha1.PodMigrationJobModeEvictionDirectly {
				mode = sev1alpha1.PodMigrationJobModeReservationFirst
				job.Spec.Mode = mode
			}
			tmpl := &sev1alpha1.ReservationTemplateSpec{}
			switch userTemplate {
			case "false":
				tmpl.Spec.AllocateOnce = ptr.To(false)
			case "true":
				tmpl.Spec.AllocateOnce = ptr.To(true)
			}
			job.Spec.ReservationOptions = &sev1alpha1.PodMigrateReservationOptions{Template: tmpl}
			j.userTemplate = userTemplate
		}
		if invalidPodRef {
			// spec.podRef without a name: the controller has an explicit InvalidPodRef abort for it
			job.Spec.PodRef = &corev1.ObjectReference{Namespace: c17NS}
			j.podName, j.podUID, podName = "", "", ""
		}
		if origin == "preset-ref" {
			// the user points the job at a Reservation that already exists (allocate-once, owned by the pod's workload)
			tmpl := &corev1.PodTemplateSpec{ObjectMeta: metav1.ObjectMeta{Labels: map[string]string{"app": "wl"}}, Spec: *pod.Spec.DeepCopy()}
			tmpl.Spec.NodeName = ""
			owners := []sev1alpha1.ReservationOwner{{Controller: &sev1alpha1.ReservationControllerReference{OwnerReference: c17OwnerRef(), Namespace: c17NS}}}
			if pod.Spec.NodeName == "" && c17PodUnschedulable(pod) {
				owners = []sev1alpha1.ReservationOwner{{Object: &corev1.ObjectReference{Kind: "Pod", Namespace: pod.Namespace, Name: pod.Name, UID: pod.UID}}}
			}
			resv := &sev1alpha1.Reservation{
				ObjectMeta: metav1.ObjectMeta{Name: fmt.Sprintf("preset-%d", e.jobN)},
				Spec:       sev1alpha1.ReservationSpec{Template: tmpl, Owners: owners, AllocateOnce: ptr.To(true)},
			}
			if err := e.base.Create(c17Ctx, resv); err != nil {
				panic(fmt.Sprintf("harness: create reservation: %v", err))
			}
			job.Spec.ReservationOptions = &sev1alpha1.PodMigrateReservationOptions{ReservationRef: &corev1.ObjectReference{
				Kind: "Reservation", APIVersion: "scheduling.koordinator.sh/v1alpha1", Name: resv.Name, UID: resv.UID}}
			if nameOnlyRef {
				// ObjectReference.UID is optional; a hand-written reference normally carries just the name
				job.Spec.ReservationOptions.ReservationRef = &corev1.ObjectReference{Name: resv.Name}
				j.nameOnlyRef = true
			}
			j.resvName = resv.Name
		}
		if err := e.base.Create(c17Ctx, job); err != nil {
			panic(fmt.Sprintf("harness: create job: %v", err))
		}
	}
	api := e.getJob(j.name)
	if api == nil {
		panic("harness: job " + j.name + " not found after create")
	}
	if j.resvName == "" {
		j.resvName = string(api.UID) // CreateOrUpdateReservationOptions names the Reservation after the job UID
	}
	// effective mode, re-stated: explicit mode wins, otherwise the controller default
	j.direct = mode == sev1alpha1.PodMigrationJobModeEvictionDirectly ||
		(mode == "" && e.args.DefaultJobMode == string(sev1alpha1.PodMigrationJobModeEvictionDirectly))
	if ttl != nil {
		j.ttl = ttl.Duration
	}
	e.jobs = append(e.jobs, j)
	e.hist = append(e.hist, fmt.Sprintf("create job %s origin=%s mode=%q(direct=%v) ttl=%v pod=%s(uid %s) reservation-name=%s", j.name, origin, mode, j.direct, j.ttl, podName, j.podUID, j.resvName))
	if invalidPodRef {
		e.hist = append(e.hist, "    (spec.podRef of "+j.name+" has no name)")
	}
	if j.nameOnlyRef {
		e.hist = append(e.hist, "    (spec.reservationOptions.reservationRef of "+j.name+" carries only the name, no UID)")
	}
	if j.userTemplate != "" {
		e.hist = append(e.hist, "    (spec.reservationOptions.template of "+j.name+" is user-written, spec.allocateOnce="+j.userTemplate+")")
	}
	if e.preempt && !j.direct && rapid.IntRange(0, 2).Draw(t, "needsNoPreemption") == 2 {
		e.noPreemptNeeded[j.resvName] = true
		e.hist = append(e.hist, "    (reservation "+j.resvName+" of "+j.name+" reports NeedPreemption()=false)")
	}
}

var c17UUIDCounter int

// the controller logs every injected failure at error level; keep the replay logs readable
func c17QuietKlog() {
	fs := flag.NewFlagSet("klog", flag.ContinueOnError)
	klog.InitFlags(fs)
	_ = fs.Set("logtostderr", "false")
	_ = fs.Set("alsologtostderr", "false")
	_ = fs.Set("stderrthreshold", "FATAL")
	klog.SetOutput(io.Discard)
}

// ---------------------------------------------------------------- reconcile + per-reconcile oracle (clauses 2,3,4)

func (e *c17Env) reconcile(t *rapid.T, j *c17Job) {
	pre := e.getJob(j.name)
	prePhase := pre.Status.Phase
	preTerminal := c17Terminal(prePhase)
	ev0, cr0 := j.evicts, j.creates
	e.stamps = e.stamps[:0]
	e.hist = append(e.hist, fmt.Sprintf("reconcile %s (t=+%v, reconciler #%d)", j.name, e.clk.Now().Sub(c17Epoch), e.gen))
	if (prePhase == "" || prePhase == sev1alpha1.PodMigrationJobPending) && e.getPod(j.podName) == nil {
		e.sawFirstReconcileNoPod = true
	}
	if j.targetBoundOwn && !preTerminal {
		e.sawReconcileAfterTargetBound = true
	}
	if j.prunedBeforeEvict && !preTerminal {
		e.sawReconcileAfterPrune = true
	}
	if j.msgChangedWhileEvicting && !preTerminal {
		e.sawReconcileAfterMsgChange = true
	}
	if j.falseTemplateConsumed && !preTerminal {
		e.sawFalseTemplateConsumedThenReconciled = true
	}
	if j.nonOnceConsumed && !preTerminal {
		e.sawNonOnceConsumedThenReconciled = true
	}
	if r := e.getResv(j.resvName); r != nil && !preTerminal && e.noPreemptNeeded[j.resvName] && r.Status.Phase == sev1alpha1.ReservationFailed && r.Status.NodeName == "" {
		e.sawGivenUpNoNeedReconciled = true
	}
	res, err := e.r.Reconcile(c17Ctx, reconcile.Request{NamespacedName: types.NamespacedName{Name: j.name}})
	e.justEvicted = false
	post := e.getJob(j.name)
	es := ""
	if err != nil {
		es = " err=" + err.Error()
	}
	e.hist = append(e.hist, fmt.Sprintf("    -> phase=%q status=%q reason=%q node=%q requeueAfter=%v%s", post.Status.Phase, post.Status.Status, post.Status.Reason, post.Status.NodeName, res.RequeueAfter, es))

	for _, s := range e.stamps {
		if e.c.Violation(t, s.sig, "%s; history:%s", s.msg, e.history()) {
			e.dead = true
			return
		}
	}
	if preTerminal {
		j.afterTerminal++
		if post.Status.Phase != prePhase {
			if e.c.Violation(t, "terminal:phase-changed", "job %s was %s, a later reconcile made it %s (reason %q); history:%s", j.name, prePhase, post.Status.Phase, post.Status.Reason, e.history()) {
				e.dead = true
				return
			}
		}
		if j.evicts != ev0 {
			if e.c.Violation(t, "terminal:evict-for-finished-job", "job %s was already %s, a later reconcile issued Evict; history:%s", j.name, prePhase, e.history()) {
				e.dead = true
				return
			}
		}
		if j.creates != cr0 {
			if e.c.Violation(t, "terminal:reservation-for-finished-job", "job %s was already %s, a later reconcile issued CreateReservation; history:%s", j.name, prePhase, e.history()) {
				e.dead = true
				return
			}
		}
	}
	if c17Terminal(post.Status.Phase) && j.terminal == "" {
		j.terminal, j.terminalReason = post.Status.Phase, post.Status.Reason
	}
	// clause 3: a job aborted because its TTL ran out has deleted its reservation
	if !preTerminal && post.Status.Phase == sev1alpha1.PodMigrationJobFailed && post.Status.Reason == sev1alpha1.PodMigrationJobReasonTimeout {
		if post.Spec.ReservationOptions != nil && post.Spec.ReservationOptions.ReservationRef != nil {
			name := post.Spec.ReservationOptions.ReservationRef.Name
			if j.creates > 0 || j.origin == "preset-ref" {
				e.sawTTLAbortWithResv = true
			}
			if j.nameOnlyRef {
				e.sawTTLAbortNameOnlyRef = true
			}
			if left := e.getResv(name); left != nil {
				if e.c.Violation(t, "ttl:reservation-not-deleted", "job %s failed with reason Timeout but its reservation %s still exists; history:%s", j.name, c17ResvString(left), e.history()) {
					e.dead = true
					return
				}
			}
		} else if e.getResv(j.resvName) != nil {
			// Reservation created, reference never persisted (job update failed): not asserted, see report
			e.sawOrphanAtTTL = true
		}
	}
	// clause 4: without API errors at most one Evict per job
	if e.faultsDelivered == 0 && j.evicts > 1 {
		if e.c.Violation(t, "evict:repeated-without-api-errors", "job %s issued Evict %d times and no API call failed; history:%s", j.name, j.evicts, e.history()) {
			e.dead = true
			return
		}
	}
	if j.runningAtLastReconcile && j.resvChangedSince {
		e.sawResvChangeWhileRunning = true
	}
	j.runningAtLastReconcile = post.Status.Phase == sev1alpha1.PodMigrationJobRunning
	j.resvChangedSince = false
	if j.unschedThenSameNode == 2 && !preTerminal {
		j.unschedThenSameNode = 3
	}
	if cnd := c17JobCond(post, sev1alpha1.PodMigrationJobConditionReservationScheduled); j.unschedThenSameNode == 0 && !j.direct &&
		cnd != nil && cnd.Status == sev1alpha1.PodMigrationJobConditionStatusFalse && !c17Terminal(post.Status.Phase) {
		j.unschedThenSameNode = 1
	}
}

func c17JobCond(job *sev1alpha1.PodMigrationJob, typ sev1alpha1.PodMigrationJobConditionType) *sev1alpha1.PodMigrationJobCondition {
	for i := range job.Status.Conditions {
		if job.Status.Conditions[i].Type == typ {
			return &job.Status.Conditions[i]
		}
	}
	return nil
}

// colocateNode: under the "colocated" profile, often the node that already holds another job's reservation.
func (e *c17Env) colocateNode(t *rapid.T, j *c17Job) string {
	if !e.colocated && !e.extended {
		return ""
	}
	for _, o := range e.jobs {
		if o == j {
			continue
		}
		if r := e.getResv(o.resvName); r != nil && r.Status.NodeName != "" && rapid.IntRange(0, 2).Draw(t, "colocate") > 0 {
			return r.Status.NodeName
		}
	}
	return ""
}

// pickNode: where the scheduler puts a reservation. The controller's own template excludes the pod's node, a
// user-supplied one need not, and the property has a clause for it, so the pod's node is drawn often.
func (e *c17Env) pickNode(t *rapid.T, j *c17Job) string {
	if n := e.colocateNode(t, j); n != "" {
		return n
	}
	if p := e.getPod(j.podName); p != nil && p.Spec.NodeName != "" && rapid.Bool().Draw(t, "onPodNode") {
		return p.Spec.NodeName
	}
	return rapid.SampledFrom(c17Nodes).Draw(t, "node")
}

// ---------------------------------------------------------------- the test

func TestVerifC17History(t *testing.T) { c17RunTest(t, "history", false) }

// TestVerifC17UserInput is the same state machine over jobs the way users write them: spec.reservationOptions.reservationRef
// pointing at a prepared Reservation by name only, spec.podRef that cannot be resolved, deadlines that are reached.
// (A separate test function so that the draw sequence of TestVerifC17History, and its recorded fail files, stay as they are.)
func TestVerifC17UserInput(t *testing.T) { c17RunTest(t, "userInput", true) }

// TestVerifC17Extended adds (own draws, own test function for the same reason) target pods that are not scheduled yet and may
// be placed by consuming a job's reservation - also the target pod through its own job's reservation -, rejected evictions
// armed from the start, and in half of the cases a reservation interpreter that offers the Preemption() extension point.
func TestVerifC17Extended(t *testing.T) { c17RunTest(t, "extended", false) }

// TestVerifC17OwnersPruned: the same machine plus one environment event - the pod that consumed a reservation goes away and
// status.currentOwners is pruned while the reservation keeps its phase (Succeeded for allocate-once). koord-scheduler's
// reservation controller in this tree stops syncing a Succeeded reservation, other writers of the status may not; the
// controller defends against the state (a Succeeded reservation without bound pod counts as taken). Own test function: own draws.
func TestVerifC17OwnersPruned(t *testing.T) { c17RunTest(t, "ownersPruned", false) }

func c17RunTest(t *testing.T, unit string, userInput bool) {
	rec := vk.New(t, "C17", unit)
	c17QuietKlog()
	scheme := c17Scheme()
	oldUUID := UUIDGenerateFn
	UUIDGenerateFn = func() types.UID {
		c17UUIDCounter++
		return types.UID(fmt.Sprintf("gen-%d", c17UUIDCounter))
	}
	t.Cleanup(func() { UUIDGenerateFn = oldUUID })

	rapid.Check(t, func(t *rapid.T) {
		c := rec.Begin()
		defer c.End()
		c17UUIDCounter = 0
		e := c17NewEnv(c, scheme)
		e.userInput = userInput
		e.extended = unit == "extended"
		e.pruneOwners = unit == "ownersPruned"
		if e.extended {
			e.preempt = rapid.Bool().Draw(t, "interpreterOffersPreemption")
			e.scavengeProfile = rapid.IntRange(0, 2).Draw(t, "scavengeProfile") == 2
			// a full cluster: reservations fit nowhere unless victims are preempted; evicted pods terminate gracefully
			e.fitsNowhere = e.preempt && rapid.Bool().Draw(t, "clusterFull")
		}

		var v1a2 v1alpha2.MigrationControllerArgs
		v1alpha2.SetDefaults_MigrationControllerArgs(&v1a2)
		args := &deschedulerconfig.MigrationControllerArgs{}
		if err := v1alpha2.Convert_v1alpha2_MigrationControllerArgs_To_config_MigrationControllerArgs(&v1a2, args, nil); err != nil {
			t.Fatalf("harness: args: %v", err)
		}
		args.ObjectLimiters = nil
		args.DefaultJobMode = string(rapid.SampledFrom([]sev1alpha1.PodMigrationJobMode{sev1alpha1.PodMigrationJobModeReservationFirst,
			sev1alpha1.PodMigrationJobModeReservationFirst, sev1alpha1.PodMigrationJobModeReservationFirst, sev1alpha1.PodMigrationJobModeEvictionDirectly}).Draw(t, "defaultMode"))
		args.DefaultJobTTL = metav1.Duration{Duration: rapid.SampledFrom([]time.Duration{30 * time.Second, 5 * time.Minute}).Draw(t, "defaultTTL")}
		e.args = args
		e.evictImmediate = rapid.Bool().Draw(t, "evictDeletesPodAtOnce") && !e.fitsNowhere
		maxJobs := rapid.IntRange(1, 2).Draw(t, "maxJobs")
		nPods := rapid.IntRange(1, 2).Draw(t, "pods")
		e.colocated = rapid.SampledFrom([]bool{false, true}).Draw(t, "colocatedProfile")
		if e.colocated {
			maxJobs = 2
			args.DefaultJobMode = string(sev1alpha1.PodMigrationJobModeReservationFirst)
		}
		pendingPod, unscheduledPod := false, false
		for i := 0; i < nPods; i++ {
			name := fmt.Sprintf("pod-%d", i)
			pending := rapid.SampledFrom([]bool{false, false, false, false, false, false, false, false, false, true}).Draw(t, "podPending") && !e.colocated
			pendingPod = pendingPod || pending
			node := rapid.SampledFrom(c17Nodes[:2]).Draw(t, "podNode")
			if e.extended && !pending && rapid.IntRange(0, 2).Draw(t, "podUnscheduled") == 2 {
				e.nextPodUnscheduled = true
				unscheduledPod = true
			}
			p := e.createPod(name, node, pending, true)
			e.pods = append(e.pods, name)
			e.hist = append(e.hist, fmt.Sprintf("pod %s uid=%s node=%q pending=%v", name, p.UID, p.Spec.NodeName, pending))
		}
		e.hist = append(e.hist, fmt.Sprintf("controller defaultMode=%s defaultTTL=%v evictorDeletesPodAtOnce=%v", args.DefaultJobMode, args.DefaultJobTTL.Duration, e.evictImmediate))
		e.r = e.newReconciler()
		e.createJob(t)
		if e.extended && !e.colocated && rapid.Bool().Draw(t, "twoJobs") {
			maxJobs = 2
		}
		if maxJobs > 1 && (e.colocated || rapid.Bool().Draw(t, "secondJobAtStart")) {
			e.createJob(t)
		}
		if e.extended && !e.preempt && rapid.Bool().Draw(t, "firstEvictRejected") {
			e.evictFailArmed = rapid.IntRange(1, 3).Draw(t, "rejections")
			e.hist = append(e.hist, fmt.Sprintf("fault plan: the next %d Evict call(s) are rejected", e.evictFailArmed))
		}
		if e.preempt {
			e.hist = append(e.hist, "reservation interpreter offers Preemption(); reservations report NeedPreemption()")
		}
		if e.colocated && !e.fitsNowhere {
			// this profile aims at "the eviction went through but could not be recorded" / "the eviction was rejected"
			switch rapid.IntRange(0, 3).Draw(t, "initialFault") {
			case 2:
				e.faultArmed = rapid.IntRange(1, 2).Draw(t, "failWrites")
				e.hist = append(e.hist, fmt.Sprintf("fault plan: the %d write(s) following the next successful Evict fail (applied-but-lost=false)", e.faultArmed))
			case 3:
				e.evictFailArmed = 1
				e.hist = append(e.hist, "fault plan: the next 1 Evict call(s) are rejected")
			}
		}

		pickJob := func(t *rapid.T) *c17Job {
			j := e.jobs[rapid.IntRange(0, len(e.jobs)-1).Draw(t, "job")]
			if j.deleted {
				t.Skip("job object removed by the scavenger")
			}
			return j
		}
		// a reservation that belongs to a drawn job and satisfies want
		pickResv := func(t *rapid.T, want func(*sev1alpha1.Reservation) bool) (*c17Job, *sev1alpha1.Reservation) {
			j := pickJob(t)
			r := e.getResv(j.resvName)
			if r == nil || !want(r) {
				t.Skip("no such reservation")
			}
			return j, r
		}
		doReconcile := func(t *rapid.T) {
			if e.dead {
				return
			}
			if e.preempt {
				e.preemptShape = rapid.SampledFrom([]int{0, 0, 0, 1, 1, 2}).Draw(t, "incompletePreemptAnswers")
				if e.fitsNowhere && e.preemptShape == 2 {
					e.preemptShape = 1
				}
			}
			e.reconcile(t, pickJob(t))
		}
		newPodName := func() string { e.podN++; return fmt.Sprintf("wl-new-%d", e.podN) }
		bind := func(t *rapid.T, j *c17Job, r *sev1alpha1.Reservation, ready bool) {
			name := newPodName()
			// a workload that re-uses pod names (StatefulSet style) can only do so once the old pod is gone
			var gone []string
			for _, pn := range e.pods {
				if e.getPod(pn) == nil {
					gone = append(gone, pn)
				}
			}
			if len(gone) > 0 && (rapid.Bool().Draw(t, "reuseName") || (e.colocated && rapid.Bool().Draw(t, "reuseName2"))) {
				name = rapid.SampledFrom(gone).Draw(t, "reusedName")
			}
			if api := e.getJob(j.name); api != nil && c17JobCond(api, sev1alpha1.PodMigrationJobConditionEviction) == nil && !c17Terminal(api.Status.Phase) {
				e.sawBoundBeforeEvict = true
			}
			e.resvBind(r, name, ready)
		}

		// a pod can consume r: r is Available; if r was made for one particular (pending) pod, that pod is still there, unscheduled
		ownedByOnePod := func(r *sev1alpha1.Reservation) bool { return len(r.Spec.Owners) > 0 && r.Spec.Owners[0].Object != nil }
		bindable := func(r *sev1alpha1.Reservation) bool {
			if r.Status.Phase != sev1alpha1.ReservationAvailable || len(r.Status.CurrentOwners) > 0 {
				return false // used up (a reservation sized for one pod has nothing left once a pod consumed it, reusable or not)
			}
			if ownedByOnePod(r) {
				p := e.getPod(r.Spec.Owners[0].Object.Name)
				return p != nil && p.UID == r.Spec.Owners[0].Object.UID && p.Spec.NodeName == ""
			}
			return true
		}
		var schedViaResv func(t *rapid.T, j *c17Job) // extended test only
		// the scheduler retries a reservation that does not fit and reports it with another message (same state otherwise)
		msgChange := func(r *sev1alpha1.Reservation) {
			c := c17ResvCond(r, sev1alpha1.ReservationConditionScheduled)
			if c.Message == "0/3 nodes are available" {
				c.Message = "0/3 nodes are available: 3 Insufficient cpu"
			} else {
				c.Message = "0/3 nodes are available"
			}
			c.LastProbeTime = metav1.NewTime(e.clk.Now())
			e.updateResvStatus(r)
			e.hist = append(e.hist, fmt.Sprintf("env: scheduler retries reservation %s, still unschedulable, new message %q", r.Name, c.Message))
			for _, j := range e.jobs {
				if api := e.getJob(j.name); j.resvName == r.Name && api != nil && !c17Terminal(api.Status.Phase) {
					if ev := c17JobCond(api, sev1alpha1.PodMigrationJobConditionEviction); ev != nil && ev.Status == sev1alpha1.PodMigrationJobConditionStatusFalse && e.getPod(j.podName) != nil {
						j.msgChangedWhileEvicting = true
						e.sawMsgChangeWhileEvicting = true
					}
				}
			}
		}
		scheduleOn := func(j *c17Job, r *sev1alpha1.Reservation, node string) {
			if p := e.getPod(j.podName); p != nil && p.Spec.NodeName == node {
				e.sawSameNode = true
				for _, o := range e.jobs {
					if o.resvName == r.Name && o.unschedThenSameNode == 1 {
						o.unschedThenSameNode = 2
					}
				}
			}
			e.resvSchedule(r, node)
		}
		all := map[string]func(*rapid.T){
			// the environment does the next thing a healthy cluster would do for a drawn job
			"envProgress": func(t *rapid.T) {
				if e.dead {
					return
				}
				j := pickJob(t)
				api := e.getJob(j.name)
				if c17Terminal(api.Status.Phase) {
					t.Skip("job finished")
				}
				ev := c17JobCond(api, sev1alpha1.PodMigrationJobConditionEviction)
				r := e.getResv(j.resvName)
				pod := e.getPod(j.podName)
				// reservations of the workload that a new pod of the workload could consume (the scheduler picks any matching one)
				var free []*sev1alpha1.Reservation
				for _, o := range e.jobs {
					if fr := e.getResv(o.resvName); fr != nil && bindable(fr) && !ownedByOnePod(fr) {
						free = append(free, fr)
					}
				}
				switch {
				// (extended test, preemption-capable scheduler) no node fits: report unschedulable, then give up; victims leave later
				case e.preempt && r != nil && !j.direct && c17ResvIsPending(r) && (e.fitsNowhere || rapid.Bool().Draw(t, "noNodeFits")):
					if c17ResvCond(r, sev1alpha1.ReservationConditionScheduled) == nil {
						e.resvUnschedulable(r, rapid.Bool().Draw(t, "setPhase"), "0/3 nodes are available")
					} else {
						e.resvGiveUp(r)
					}
				case e.fitsNowhere && r != nil && c17ResvIsPending(r):
					t.Skip("the cluster is full: nothing is placed without preemption")
				case e.preempt && r != nil && e.preemptState[r.Name] == 1 && rapid.Bool().Draw(t, "victimsLeave"):
					e.preemptState[r.Name] = 2
					e.markResvChanged(r.Name)
					e.hist = append(e.hist, fmt.Sprintf("env: preemption for reservation %s completes (victims gone)", r.Name))
				case e.preempt && r != nil && pod != nil && ev != nil && ev.Status == sev1alpha1.PodMigrationJobConditionStatusFalse && r.Status.NodeName == "" && c17ResvCond(r, sev1alpha1.ReservationConditionScheduled) != nil && rapid.Bool().Draw(t, "reportRewordedWhileEvicting"):
					msgChange(r)
				// (extended test) a target pod still waiting for the scheduler, whose eviction was attempted but is not on record, gets placed
				case e.extended && schedViaResv != nil && pod != nil && pod.Spec.NodeName == "" && !c17PodUnschedulable(pod) && j.evicts > 0 && ev == nil && r != nil && bindable(r) && !ownedByOnePod(r) && rapid.Bool().Draw(t, "placeTarget"):
					schedViaResv(t, j)
				case pod != nil && (e.evictedUIDs[pod.UID] || (ev != nil && ev.Status == sev1alpha1.PodMigrationJobConditionStatusFalse)):
					// an eviction that went through removes the pod, whether or not the controller managed to record it
					_ = e.base.Delete(c17Ctx, pod)
					e.hist = append(e.hist, fmt.Sprintf("env: evicted pod %s (uid %s) is gone", pod.Name, pod.UID))
				case r != nil && c17ResvIsPending(r) && !j.direct && c17ResvCond(r, sev1alpha1.ReservationConditionScheduled) == nil && rapid.IntRange(0, 2).Draw(t, "unschedulableFirst") == 2:
					// a first scheduling attempt that finds no node is an ordinary event
					e.resvUnschedulable(r, rapid.Bool().Draw(t, "setPhase"), "0/3 nodes are available")
				case r != nil && c17ResvIsPending(r) && !j.direct && c17ResvCond(r, sev1alpha1.ReservationConditionScheduled) != nil && j.unschedThenSameNode == 0 && rapid.Bool().Draw(t, "retryLater"):
					t.Skip("the scheduler retries later")
				case r != nil && c17ResvIsPending(r) && j.unschedThenSameNode == 1 && pod != nil && pod.Spec.NodeName != "" && rapid.Bool().Draw(t, "retryFindsPodNode"):
					scheduleOn(j, r, pod.Spec.NodeName)
				case r != nil && c17ResvIsPending(r):
					node := rapid.SampledFrom(c17Nodes).Draw(t, "node")
					if n := e.colocateNode(t, j); n != "" {
						node = n
					}
					for _, n := range c17Nodes {
						if pod != nil && node == pod.Spec.NodeName {
							node = n
						}
					}
					e.resvSchedule(r, node)
				case r != nil && bindable(r) && ownedByOnePod(r):
					bind(t, j, r, true)
				case pod == nil && len(free) > 0:
					// the workload controller replaces the missing pod
					fr := free[rapid.IntRange(0, len(free)-1).Draw(t, "whichReservation")]
					bind(t, j, fr, rapid.Bool().Draw(t, "ready"))
				default:
					t.Skip("nothing to do")
				}
			},
			"resvSchedule": func(t *rapid.T) {
				if e.dead {
					return
				}
				if e.fitsNowhere {
					t.Skip("the cluster is full: nothing is placed without preemption")
				}
				j, r := pickResv(t, c17ResvIsPending)
				node := e.pickNode(t, j)
				scheduleOn(j, r, node)
			},
			// aimed at one ordering: the scheduler first reports the reservation unschedulable (the controller copies that into a
			// ReservationScheduled=False condition on its next reconcile) and only later finds a node, which may be the pod's own
			"unschedulableThenPodNode": func(t *rapid.T) {
				if e.dead {
					return
				}
				if e.fitsNowhere {
					t.Skip("the cluster is full: nothing is placed without preemption")
				}
				j, r := pickResv(t, c17ResvIsPending)
				if j.direct {
					t.Skip("direct mode")
				}
				p := e.getPod(j.podName)
				switch {
				case c17ResvCond(r, sev1alpha1.ReservationConditionScheduled) == nil:
					e.resvUnschedulable(r, rapid.Bool().Draw(t, "setPhase"), "0/3 nodes are available")
				case j.unschedThenSameNode == 1 && p != nil && p.Spec.NodeName != "":
					scheduleOn(j, r, p.Spec.NodeName)
				default:
					t.Skip("report not yet recorded by the controller, or no placed pod")
				}
			},
			"resvUnschedulable": func(t *rapid.T) {
				if e.dead {
					return
				}
				_, r := pickResv(t, c17ResvIsPending)
				e.resvUnschedulable(r, rapid.Bool().Draw(t, "setPhase"), rapid.SampledFrom([]string{"0/3 nodes are available", "insufficient cpu"}).Draw(t, "msg"))
			},
			"resvExpire": func(t *rapid.T) {
				if e.dead {
					return
				}
				// only an assigned, still active reservation is expired by the scheduler (TTL passed or node gone)
				_, r := pickResv(t, func(r *sev1alpha1.Reservation) bool { return r.Status.Phase == sev1alpha1.ReservationAvailable })
				e.resvExpire(r)
			},
			"resvDelete": func(t *rapid.T) {
				if e.dead {
					return
				}
				_, r := pickResv(t, func(*sev1alpha1.Reservation) bool { return true })
				if err := e.base.Delete(c17Ctx, r); err != nil {
					panic(err)
				}
				e.markResvChanged(r.Name)
				e.hist = append(e.hist, fmt.Sprintf("env: reservation %s deleted (user / GC)", r.Name))
			},
			"resvBind": func(t *rapid.T) {
				if e.dead {
					return
				}
				j, r := pickResv(t, bindable)
				bind(t, j, r, rapid.Bool().Draw(t, "ready"))
			},
			"podDelete": func(t *rapid.T) {
				if e.dead {
					return
				}
				p := e.getPod(rapid.SampledFrom(e.pods).Draw(t, "pod"))
				if p == nil {
					t.Skip("no pod")
				}
				_ = e.base.Delete(c17Ctx, p)
				e.hist = append(e.hist, fmt.Sprintf("env: pod %s (uid %s) deleted", p.Name, p.UID))
			},
			"podReplace": func(t *rapid.T) {
				if e.dead {
					return
				}
				// same name, new UID: delete + create. The replacement lands on the old node or on a node that holds no
				// reservation of ours (landing on a reservation's node means consuming it: that is resvBind).
				name := rapid.SampledFrom(e.pods).Draw(t, "pod")
				old := e.getPod(name)
				node := rapid.SampledFrom(c17Nodes).Draw(t, "node")
				if old != nil {
					_ = e.base.Delete(c17Ctx, old)
					if old.Spec.NodeName != "" && rapid.Bool().Draw(t, "sameNode") {
						node = old.Spec.NodeName
					}
				}
				for _, j := range e.jobs {
					if r := e.getResv(j.resvName); r != nil && r.Status.NodeName == node {
						t.Skip("node holds a reservation")
					}
				}
				p := e.createPod(name, node, false, true)
				e.hist = append(e.hist, fmt.Sprintf("env: pod %s replaced, new uid %s on %s", name, p.UID, node))
			},
			"pendingPodScheduled": func(t *rapid.T) {
				if e.dead {
					return
				}
				p := e.getPod(rapid.SampledFrom(e.pods).Draw(t, "pod"))
				if p == nil || p.Spec.NodeName != "" {
					t.Skip("no pending pod")
				}
				node := rapid.SampledFrom(c17Nodes).Draw(t, "node")
				for _, j := range e.jobs {
					if r := e.getResv(j.resvName); r != nil && r.Status.NodeName == node {
						t.Skip("node holds a reservation")
					}
				}
				p.Spec.NodeName = node
				p.Status.Phase = corev1.PodRunning
				p.Status.Conditions = []corev1.PodCondition{{Type: corev1.PodScheduled, Status: corev1.ConditionTrue}}
				if err := e.base.Update(c17Ctx, p); err != nil {
					panic(err)
				}
				e.lateScheduled[p.UID] = true
				e.hist = append(e.hist, fmt.Sprintf("env: pending pod %s scheduled on %s without the reservation", p.Name, node))
			},
			"podReady": func(t *rapid.T) {
				if e.dead {
					return
				}
				_, r := pickResv(t, func(r *sev1alpha1.Reservation) bool { return len(r.Status.CurrentOwners) > 0 })
				p := e.getPod(r.Status.CurrentOwners[0].Name)
				if p == nil {
					t.Skip("bound pod gone")
				}
				for _, cnd := range p.Status.Conditions {
					if cnd.Type == corev1.PodReady && cnd.Status == corev1.ConditionTrue {
						t.Skip("already ready")
					}
				}
				p.Status.Conditions = append(p.Status.Conditions, corev1.PodCondition{Type: corev1.PodReady, Status: corev1.ConditionTrue})
				if err := e.base.Update(c17Ctx, p); err != nil {
					panic(err)
				}
				e.hist = append(e.hist, fmt.Sprintf("env: pod %s becomes ready", p.Name))
			},
			"clock": func(t *rapid.T) {
				if e.dead {
					return
				}
				d := rapid.SampledFrom([]time.Duration{time.Second, 3 * time.Second, 3 * time.Second, 10 * time.Second, time.Minute}).Draw(t, "d")
				j := pickJob(t)
				if j.ttl > 0 && (rapid.IntRange(0, 2).Draw(t, "toTTL") == 2 || (e.userInput && rapid.Bool().Draw(t, "toTTL2"))) {
					// land exactly on, one second before or one second after the job's deadline
					target := j.created.Add(j.ttl).Add(time.Duration(rapid.IntRange(-1, 1).Draw(t, "delta")) * time.Second)
					if target.After(e.clk.Now()) {
						d = target.Sub(e.clk.Now())
					}
				}
				e.clk.Step(d)
				for _, j := range e.jobs {
					if j.ttl > 0 && !e.clk.Now().Before(j.created.Add(j.ttl)) && j.terminal == "" {
						e.sawClockPastTTL = true
					}
				}
				e.hist = append(e.hist, fmt.Sprintf("clock +%v (t=+%v)", d, e.clk.Now().Sub(c17Epoch)))
			},
			"restart": func(t *rapid.T) {
				if e.dead {
					return
				}
				e.r = e.newReconciler()
				e.sawRestart = true
				e.hist = append(e.hist, fmt.Sprintf("controller restart -> reconciler #%d", e.gen))
			},
			"fault": func(t *rapid.T) {
				if e.dead {
					return
				}
				if e.fitsNowhere {
					t.Skip("the full-cluster profile looks at runs without API errors")
				}
				e.faultAfterApply = rapid.IntRange(0, 3).Draw(t, "lostResponse") == 0
				kind := rapid.IntRange(0, 3).Draw(t, "faultKind")
				if e.colocated && kind < 2 && rapid.Bool().Draw(t, "aimAtEvict") {
					kind += 2
				}
				if kind == 3 {
					e.evictFailArmed = rapid.IntRange(1, 2).Draw(t, "failEvicts")
					e.hist = append(e.hist, fmt.Sprintf("fault plan: the next %d Evict call(s) are rejected", e.evictFailArmed))
					return
				}
				if kind == 2 {
					// aimed at the window the property worries about: the write(s) right after the next successful Evict
					e.faultArmed = rapid.IntRange(1, 3).Draw(t, "failWrites")
					e.hist = append(e.hist, fmt.Sprintf("fault plan: the %d write(s) following the next successful Evict fail (applied-but-lost=%v)", e.faultArmed, e.faultAfterApply))
					return
				}
				e.faultSkip = rapid.IntRange(0, 5).Draw(t, "skipWrites")
				e.faultN = rapid.IntRange(1, 3).Draw(t, "failWrites")
				e.hist = append(e.hist, fmt.Sprintf("fault plan: controller's next %d write(s) pass, then %d fail (applied-but-lost=%v)", e.faultSkip, e.faultN, e.faultAfterApply))
			},
			"createJob": func(t *rapid.T) {
				if e.dead {
					return
				}
				if len(e.jobs) >= maxJobs {
					t.Skip("enough jobs")
				}
				e.createJob(t)
			},
			"": func(t *rapid.T) {
				if e.dead {
					return
				}
				// clause 2, continuously: a finished job's persisted phase never moves, whoever reconciles whatever
				for _, j := range e.jobs {
					if j.terminal == "" || j.deleted {
						continue
					}
					if api := e.getJob(j.name); api == nil || api.Status.Phase != j.terminal {
						got := "<deleted>"
						if api != nil {
							got = string(api.Status.Phase)
						}
						if e.c.Violation(t, "terminal:phase-changed", "job %s was %s, now %s; history:%s", j.name, j.terminal, got, e.history()) {
							e.dead = true
							return
						}
					}
				}
			},
		}
		// rapid picks the keys uniformly: repeat / group them to weight reconciles and forward progress against disturbances
		group := func(names ...string) func(*rapid.T) {
			return func(t *rapid.T) { all[rapid.SampledFrom(names).Draw(t, "what")](t) }
		}
		resvEvent := group("resvSchedule", "resvSchedule", "resvSchedule", "resvUnschedulable", "resvExpire", "resvDelete", "resvBind", "resvBind")
		actions := map[string]func(*rapid.T){
			"":                        all[""],
			"reconcile-a":             doReconcile,
			"reconcile-b":             doReconcile,
			"reconcile-c":             doReconcile,
			"reconcile-d":             doReconcile,
			"reconcile-e":             doReconcile,
			"env-progress-a":          all["envProgress"],
			"env-progress-b":          all["envProgress"],
			"env-progress-c":          all["envProgress"],
			"reservation-event-a":     resvEvent,
			"reservation-event-b":     resvEvent,
			"unsched-then-pod-node-a": all["unschedulableThenPodNode"],
			"unsched-then-pod-node-b": all["unschedulableThenPodNode"],
			"pod-event":               group("podDelete", "podReplace", "pendingPodScheduled", "podReady"),
			"clock":                   all["clock"],
			"fault":                   all["fault"],
			"restart-or-new-job":      group("restart", "createJob", "createJob"),
		}
		if e.pruneOwners {
			prune := func(r *sev1alpha1.Reservation) {
				for _, o := range r.Status.CurrentOwners {
					if p := e.getPod(o.Name); p != nil && p.UID == o.UID {
						_ = e.base.Delete(c17Ctx, p)
					}
				}
				r.Status.CurrentOwners = nil
				e.updateResvStatus(r)
				e.sawOwnersPruned = true
				e.hist = append(e.hist, fmt.Sprintf("env: the pod that consumed reservation %s is gone, currentOwners pruned (phase stays %s)", r.Name, r.Status.Phase))
				for _, j := range e.jobs {
					if api := e.getJob(j.name); j.resvName == r.Name && api != nil && !c17Terminal(api.Status.Phase) && c17JobCond(api, sev1alpha1.PodMigrationJobConditionEviction) == nil {
						j.prunedBeforeEvict = true
						e.sawOwnersPrunedBeforeEvict = true
					}
				}
			}
			actions["consumer-pod-goes-away"] = func(t *rapid.T) {
				if e.dead {
					return
				}
				_, r := pickResv(t, func(r *sev1alpha1.Reservation) bool { return len(r.Status.CurrentOwners) > 0 })
				prune(r)
			}
			// another replica takes the reservation before the job evicted, and leaves again
			takeAndLeave := func(t *rapid.T) {
				if e.dead {
					return
				}
				j := pickJob(t)
				api := e.getJob(j.name)
				r := e.getResv(j.resvName)
				if r == nil || ownedByOnePod(r) || c17Terminal(api.Status.Phase) || c17JobCond(api, sev1alpha1.PodMigrationJobConditionEviction) != nil {
					t.Skip("job finished or already evicting")
				}
				switch {
				case bindable(r):
					bind(t, j, r, rapid.Bool().Draw(t, "ready"))
				case len(r.Status.CurrentOwners) > 0:
					prune(r)
				default:
					t.Skip("nothing to do")
				}
			}
			actions["replica-takes-reservation-and-leaves-a"] = takeAndLeave
			actions["replica-takes-reservation-and-leaves-b"] = takeAndLeave
		}
		if e.userInput {
			// the workload scales out (or replaces a pod) while a job with a user-written template has not evicted yet: the new
			// replica matches the reservation's owners and consumes it
			scaleOut := func(t *rapid.T) {
				if e.dead {
					return
				}
				j, r := pickResv(t, bindable)
				api := e.getJob(j.name)
				if j.userTemplate == "" || ownedByOnePod(r) || api == nil || c17JobCond(api, sev1alpha1.PodMigrationJobConditionEviction) != nil {
					t.Skip("not a template job that still waits to evict")
				}
				bind(t, j, r, rapid.Bool().Draw(t, "ready"))
			}
			actions["replica-consumes-template-reservation-a"] = scaleOut
			actions["replica-consumes-template-reservation-b"] = scaleOut
		}
		if e.extended {
			// the scheduler places a not yet scheduled pod of the workload - possibly a job's own target - through a reservation
			schedViaResv = func(t *rapid.T, j *c17Job) {
				p := e.getPod(j.podName)
				if p == nil || p.Spec.NodeName != "" || c17PodUnschedulable(p) {
					t.Skip("target pod is not waiting for the scheduler")
				}
				// mostly after an eviction has been attempted (rejected or unrecorded), the window the property worries about
				if j.evicts == 0 && rapid.IntRange(0, 2).Draw(t, "early") > 0 {
					t.Skip("later")
				}
				var free []*sev1alpha1.Reservation
				for _, o := range e.jobs {
					if fr := e.getResv(o.resvName); fr != nil && bindable(fr) && !ownedByOnePod(fr) {
						free = append(free, fr) // the job's own reservation or another one of the workload, as the scheduler pleases
					}
				}
				if len(free) == 0 {
					t.Skip("no reservation to consume")
				}
				fr := free[rapid.IntRange(0, len(free)-1).Draw(t, "whichReservation")]
				if fr.Name == j.resvName {
					j.targetBoundOwn = true
					e.sawTargetBoundOwnResv = true
					if api := e.getJob(j.name); api != nil && j.evicts > 0 && !c17Terminal(api.Status.Phase) && c17JobCond(api, sev1alpha1.PodMigrationJobConditionEviction) == nil {
						e.sawTargetBoundAfterEvictAttempt = true
					}
				}
				e.resvBindExisting(fr, p, rapid.Bool().Draw(t, "ready"))
			}
			act := func(t *rapid.T) {
				if e.dead {
					return
				}
				schedViaResv(t, pickJob(t))
			}
			actions["target-scheduled-via-reservation-a"] = act
			actions["target-scheduled-via-reservation-b"] = act
			actions["target-scheduled-via-reservation-c"] = act
		}
		if e.preempt {
			actions["unschedulable-report-reworded"] = func(t *rapid.T) {
				if e.dead {
					return
				}
				_, r := pickResv(t, func(r *sev1alpha1.Reservation) bool {
					c := c17ResvCond(r, sev1alpha1.ReservationConditionScheduled)
					return r.Status.NodeName == "" && c != nil && c.Status == sev1alpha1.ConditionStatusFalse
				})
				msgChange(r)
			}
		}
		if e.extended {
			// one round of the controller's scavenger (Reconciler.doScavenge, started by Start() once a minute)
			scavenge := func(t *rapid.T) {
				if e.dead {
					return
				}
				type due struct {
					j    *c17Job
					resv string
				}
				var dues []due
				now := e.clk.Now()
				for _, j := range e.jobs {
					api := e.getJob(j.name)
					if j.deleted || api == nil || j.ttl <= 0 {
						continue
					}
					// "expired" with the scavenger's own grace of 5 minutes on top of the TTL as tolerance
					if now.Sub(j.created) >= j.ttl+5*time.Minute && api.Spec.ReservationOptions != nil && api.Spec.ReservationOptions.ReservationRef != nil {
						name := api.Spec.ReservationOptions.ReservationRef.Name
						if e.getResv(name) != nil {
							dues = append(dues, due{j, name})
							e.sawScavengeExpiredWithResv = true
							if by, ok := api.Annotations[AnnotationJobCreatedBy]; ok && by != string(e.r.reconcilerUID) {
								e.sawScavengeForeignExpiredWithResv = true
							}
						}
					}
				}
				f0 := e.faultsDelivered
				e.hist = append(e.hist, fmt.Sprintf("scavenger round (t=+%v, reconciler #%d)", now.Sub(c17Epoch), e.gen))
				e.r.doScavenge()
				e.sawScavenge = true
				for _, j := range e.jobs {
					if !j.deleted && e.getJob(j.name) == nil {
						j.deleted = true
						e.hist = append(e.hist, "    job "+j.name+" removed")
					}
				}
				if e.faultsDelivered != f0 {
					return // a failed delete stops the round; it is retried a minute later
				}
				for _, d := range dues {
					if left := e.getResv(d.resv); left != nil {
						if e.c.Violation(t, "scavenge:expired-job-keeps-reservation", "job %s (ttl %v, created t=+%v) is expired for more than 5 minutes, a scavenger round ran without API errors, its reservation %s still exists; history:%s", d.j.name, d.j.ttl, d.j.created.Sub(c17Epoch), c17ResvString(left), e.history()) {
							e.dead = true
							return
						}
					}
				}
			}
			actions["scavenger-round"] = scavenge
			if e.scavengeProfile {
				// a job of the descheduler outlives its controller instance: restart, then time passes, then the scavenger runs
				outlive := func(t *rapid.T) {
					if e.dead {
						return
					}
					j := pickJob(t)
					api := e.getJob(j.name)
					by, ok := api.Annotations[AnnotationJobCreatedBy]
					if !ok || j.ttl <= 0 || api.Spec.ReservationOptions == nil || api.Spec.ReservationOptions.ReservationRef == nil || c17Terminal(api.Status.Phase) {
						t.Skip("not a running descheduler-made job with a reservation")
					}
					deadline := j.created.Add(j.ttl + 5*time.Minute)
					switch {
					case by == string(e.r.reconcilerUID):
						all["restart"](t)
					case e.clk.Now().Before(deadline):
						d := deadline.Sub(e.clk.Now()) + time.Duration(rapid.IntRange(0, 1).Draw(t, "late"))*time.Second
						e.clk.Step(d)
						e.hist = append(e.hist, fmt.Sprintf("clock +%v (t=+%v)", d, e.clk.Now().Sub(c17Epoch)))
					default:
						scavenge(t)
					}
				}
				actions["job-outlives-its-controller-a"] = outlive
				actions["job-outlives-its-controller-b"] = outlive
				actions["job-outlives-its-controller-c"] = outlive
				actions["scavenger-round-b"] = scavenge
				actions["restart-b"] = all["restart"]
				actions["clock-to-scavenger-deadline"] = func(t *rapid.T) {
					if e.dead {
						return
					}
					j := pickJob(t)
					if j.ttl <= 0 {
						t.Skip("no ttl")
					}
					target := j.created.Add(j.ttl + 5*time.Minute).Add(time.Duration(rapid.IntRange(-1, 1).Draw(t, "delta")) * time.Second)
					if !target.After(e.clk.Now()) {
						t.Skip("already past")
					}
					d := target.Sub(e.clk.Now())
					e.clk.Step(d)
					e.hist = append(e.hist, fmt.Sprintf("clock +%v (t=+%v)", d, e.clk.Now().Sub(c17Epoch)))
				}
			}
		}
		if e.preempt {
			// the next step of "fits nowhere -> given up -> victims preempted -> (evicted) -> retried with another wording"
			chain := func(t *rapid.T) {
				if e.dead {
					return
				}
				j := pickJob(t)
				api := e.getJob(j.name)
				r := e.getResv(j.resvName)
				if r == nil || j.direct || r.Status.NodeName != "" || c17Terminal(api.Status.Phase) {
					t.Skip("no unplaced reservation of a live reservation-first job")
				}
				ev := c17JobCond(api, sev1alpha1.PodMigrationJobConditionEviction)
				sc := c17ResvCond(r, sev1alpha1.ReservationConditionScheduled)
				switch {
				case c17ResvIsPending(r) && sc == nil:
					e.resvUnschedulable(r, rapid.Bool().Draw(t, "setPhase"), "0/3 nodes are available")
				case c17ResvIsPending(r):
					e.resvGiveUp(r)
				case e.preemptState[r.Name] == 1:
					e.preemptState[r.Name] = 2
					e.markResvChanged(r.Name)
					e.hist = append(e.hist, fmt.Sprintf("env: preemption for reservation %s completes (victims gone)", r.Name))
				case sc != nil && ev != nil && ev.Status == sev1alpha1.PodMigrationJobConditionStatusFalse && e.getPod(j.podName) != nil:
					msgChange(r)
				default:
					t.Skip("waiting for the controller")
				}
			}
			actions["preemption-chain-a"] = chain
			actions["preemption-chain-b"] = chain
			actions["preemption-chain-c"] = chain
			if e.fitsNowhere {
				actions["preemption-chain-d"] = chain
				// actions that can only be skipped in this profile would eat rapid's budget of invalid actions
				delete(actions, "fault")
				delete(actions, "unsched-then-pod-node-a")
				delete(actions, "unsched-then-pod-node-b")
			}
			giveUp := func(t *rapid.T) {
				if e.dead {
					return
				}
				j, r := pickResv(t, c17ResvIsPending)
				if j.direct {
					t.Skip("direct mode")
				}
				if c17ResvCond(r, sev1alpha1.ReservationConditionScheduled) == nil {
					e.resvUnschedulable(r, rapid.Bool().Draw(t, "setPhase"), "0/3 nodes are available")
				} else {
					e.resvGiveUp(r)
				}
			}
			actions["scheduler-gives-up-a"] = giveUp
			actions["scheduler-gives-up-b"] = giveUp
			actions["preemption-completes"] = func(t *rapid.T) {
				if e.dead {
					return
				}
				_, r := pickResv(t, func(r *sev1alpha1.Reservation) bool { return e.preemptState[r.Name] == 1 })
				e.preemptState[r.Name] = 2
				e.markResvChanged(r.Name)
				e.hist = append(e.hist, fmt.Sprintf("env: preemption for reservation %s completes (victims gone)", r.Name))
			}
		}
		t.Repeat(actions)

		// ---- distribution
		evicted, afterTerminal, direct, rfirst := false, false, false, false
		for _, j := range e.jobs {
			evicted = evicted || j.evicts > 0
			afterTerminal = afterTerminal || j.afterTerminal > 0
			direct = direct || j.direct
			rfirst = rfirst || !j.direct
			c.Class("origin:" + j.origin)
			if j.terminal != "" {
				c.Class("end:" + string(j.terminal) + "/" + j.terminalReason)
			} else {
				c.Class("end:unfinished")
			}
			c.ClassIf(!j.direct && j.evicts > 0, "evict-in-reservation-first")
			c.ClassIf(j.direct && j.evicts > 0, "evict-in-direct-mode")
		}
		c.ClassIf(direct, "mode:eviction-directly")
		c.ClassIf(rfirst, "mode:reservation-first")
		c.ClassIf(len(e.jobs) > 1, "two-jobs")
		c.ClassIf(e.colocated, "profile:colocated-reservations")
		c.ClassIf(evicted, "evicted")
		c.ClassIf(afterTerminal, "reconciled-after-finish")
		c.ClassIf(e.sawRestart, "restart")
		c.ClassIf(e.faultsDelivered > 0, "api-failure-delivered")
		c.ClassIf(e.faultsDelivered == 0, "fault-free")
		c.ClassIf(e.sawFaultAfterEvict, "write-fails-right-after-evict")
		c.ClassIf(e.sawResvChangeWhileRunning, "reservation-changes-under-running-job")
		c.ClassIf(e.sawSameNode, "reservation-scheduled-on-pod-node")
		pat1, pat3 := false, false
		for _, j := range e.jobs {
			pat1 = pat1 || j.unschedThenSameNode >= 1
			pat3 = pat3 || j.unschedThenSameNode == 3
		}
		c.ClassIf(pat1, "unschedulable-report-recorded-as-False-condition")
		c.ClassIf(pat3, "unschedulable-recorded-then-scheduled-on-pod-node-then-reconciled")
		c.ClassIf(e.sawEvictReplacement, "evicted-pod-uid-differs-from-job-podref-uid(not asserted)")
		c.ClassIf(e.sawEvictRetry, "evict-retried-after-api-failure")
		c.ClassIf(e.sawBoundBeforeEvict, "reservation-bound-before-eviction")
		c.ClassIf(e.sawClockPastTTL, "clock-passes-ttl-of-live-job")
		c.ClassIf(e.sawTTLAbortWithResv, "ttl-abort-with-reservation")
		c.ClassIf(e.sawOrphanAtTTL, "ttl-abort-leaves-unreferenced-reservation(not asserted)")
		c.ClassIf(e.sawTTLAbortNameOnlyRef, "ttl-abort-of-job-with-name-only-reservation-ref")
		c.ClassIf(e.preempt, "interpreter-offers-preemption")
		c.ClassIf(e.sawOwnersPruned, "consumer-of-reservation-gone-owners-pruned")
		c.ClassIf(e.sawOwnersPrunedBeforeEvict, "consumed-reservation-loses-its-owner-before-the-job-evicted")
		c.ClassIf(e.sawOwnersPrunedBeforeEvict && e.sawReconcileAfterPrune, "...and-then-that-job-is-reconciled")
		c.ClassIf(e.fitsNowhere, "profile:full-cluster-nothing-fits-without-preemption")
		c.ClassIf(e.sawScavenge, "scavenger-round")
		c.ClassIf(e.sawScavengeExpiredWithResv, "scavenger-round-finds-expired-job-that-still-holds-a-reservation")
		c.ClassIf(e.sawScavengeForeignExpiredWithResv, "...a-job-created-by-a-previous-controller-instance")
		c.ClassIf(e.sawMsgChangeWhileEvicting, "unschedulable-report-reworded-while-evicted-pod-still-exists")
		c.ClassIf(e.sawMsgChangeWhileEvicting && e.sawReconcileAfterMsgChange && e.faultsDelivered == 0, "...then-reconciled-again-in-a-run-without-api-errors")
		c.ClassIf(len(e.noPreemptNeeded) > 0, "reservation-reports-NeedPreemption-false")
		c.ClassIf(e.sawGivenUpNoNeedReconciled, "job-reconciled-while-its-reservation-is-given-up-and-needs-no-preemption")
		c.ClassIf(e.sawPreemptForNoNeed, "preempt-called-for-reservation-needing-none(never on correct code)")
		c.ClassIf(e.sawNonOnceConsumedBeforeEvict, "reusable-reservation-consumed-by-other-pod-before-eviction(never on correct code)")
		c.ClassIf(e.sawNonOnceConsumedThenReconciled, "...and-then-the-job-is-reconciled")
		c.ClassIf(e.sawFalseTemplateConsumedThenReconciled, "reservation-of-allocateOnce:false-template-consumed-by-other-pod-before-eviction-then-reconciled")
		for _, j := range e.jobs {
			c.ClassIf(j.userTemplate != "", "job-template-allocateOnce:"+j.userTemplate)
		}
		c.ClassIf(e.sawGivenUp, "reservation-given-up-as-unschedulable")
		c.ClassIf(e.sawPreemptCall, "preempt-called")
		c.ClassIf(e.sawPreemptIncompleteZero, "preempt-answers-incomplete-with-zero-result-and-no-error")
		c.ClassIf(e.sawEvictAfterPreemption, "evict-after-completed-preemption-of-unscheduled-reservation")
		c.ClassIf(unscheduledPod, "not-yet-scheduled-target-pod")
		c.ClassIf(e.sawTargetBoundOwnResv, "target-pod-consumes-its-own-jobs-reservation")
		c.ClassIf(e.sawTargetBoundAfterEvictAttempt, "target-pod-consumes-own-reservation-after-unrecorded-evict-attempt")
		c.ClassIf(e.sawTargetBoundAfterEvictAttempt && e.sawReconcileAfterTargetBound, "...and-the-job-is-reconciled-again")
		c.ClassIf(e.sawFirstReconcileNoPod, "unstarted-job-reconciled-while-target-pod-unresolvable")
		c.ClassIf(e.sawWriteAfterTerminalWrite, "status-write-after-terminal-phase-was-written")
		for _, j := range e.jobs {
			c.ClassIf(j.nameOnlyRef, "job-with-name-only-reservation-ref")
			c.ClassIf(j.podName == "", "job-with-nameless-podref")
		}
		c.ClassIf(pendingPod, "pending-target-pod")
		c.ClassIf(e.dead, "abandoned")
		if e.sawResvChangeWhileRunning || e.sawFaultAfterEvict {
			c.NonTrivial(e.hist)
		}
		c.Sample(map[string]any{"history": e.hist})
	})
}
