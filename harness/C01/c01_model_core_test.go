//go:build verif

// C01 model, oracle and operation generator, shared by the two C01 units.
// THIS FILE EXISTS TWICE: c01_model_core_test.go (package core) is the source,
// c01_model_plugin_test.go (package elasticquota) is produced from it with
//
//	sed 's/^package core$/package elasticquota/' c01_model_core_test.go > c01_model_plugin_test.go
//
// Everything package-specific (c01Manager, c01Summary, c01NewManager, the drivers, the Test functions) lives in
// c01_core_test.go / c01_plugin_test.go.
//
// C01 — Elastic-quota usage and request accounting is exact over any event history.
// See /verif/DESIGN.md §1 C01. In-package harness (injected with -overlay) that drives
// GroupQuotaManager with the same calls the plugin's event handlers make (routing by the pod's
// quota label with fall-back to the default quota, the periodic default->quota migrate cycle,
// Reserve/Unreserve) and compares GetQuotaSummaries(true) after EVERY operation with
//
//	(a) a from-scratch recomputation written here from the model's surviving quotas and pods, and
//	(b) a fresh manager fed the final objects (end of run and after every ResetQuota).
//
// The reference rule, stated independently of the code under test (dimension-wise, cpu in milli, memory in bytes):
//
//	self(g)         = Σ requests of the pods that are members of g
//	childRequest(g) = self(g) + Σ_{c child of g} limited(c)
//	request(g)      = childRequest(g)                      if g lends (allowLentResource)
//	                = max(childRequest(g), min(g))         otherwise
//	limited(g)      = min(request(g), max(g))              (what is passed to the parent)
//	used(g)         = Σ requests of the ASSIGNED member pods of g + Σ_{c} used(c)
//	nonPreemptible{Request,Used}(g): the same sums restricted to pods labelled preemptible=false, never limited
package core

import (
	"encoding/json"
	"fmt"
	"sort"
	"strings"
	"sync"
	"time"

	corev1 "k8s.io/api/core/v1"
	"k8s.io/apimachinery/pkg/api/resource"
	metav1 "k8s.io/apimachinery/pkg/apis/meta/v1"
	"k8s.io/apimachinery/pkg/types"
	utilfeature "k8s.io/apiserver/pkg/util/feature"
	"pgregory.net/rapid"

	"github.com/koordinator-sh/koordinator/apis/extension"
	"github.com/koordinator-sh/koordinator/apis/thirdparty/scheduler-plugins/pkg/apis/scheduling/v1alpha1"
	"github.com/koordinator-sh/koordinator/pkg/features"
	"github.com/koordinator-sh/koordinator/pkg/verifkit/vk"
)

// ---------------------------------------------------------------- amounts

type c01Vec [2]int64 // [0] cpu in milli, [1] memory in bytes

var c01DimName = [2]string{"cpu", "memory"}

func (a c01Vec) add(b c01Vec) c01Vec { return c01Vec{a[0] + b[0], a[1] + b[1]} }

func c01VecMin(a, b c01Vec) c01Vec {
	for d := 0; d < 2; d++ {
		if b[d] < a[d] {
			a[d] = b[d]
		}
	}
	return a
}

func (a c01Vec) String() string { return fmt.Sprintf("{cpu:%dm mem:%d}", a[0], a[1]) }

func c01Quantity(d int, v int64) resource.Quantity {
	if d == 0 {
		return *resource.NewMilliQuantity(v, resource.DecimalSI)
	}
	return *resource.NewQuantity(v, resource.BinarySI)
}

func c01RL(v c01Vec, has [2]bool) corev1.ResourceList {
	rl := corev1.ResourceList{}
	if has[0] {
		rl[corev1.ResourceCPU] = c01Quantity(0, v[0])
	}
	if has[1] {
		rl[corev1.ResourceMemory] = c01Quantity(1, v[1])
	}
	return rl
}

var c01Both = [2]bool{true, true}

const c01ExtraResource = corev1.ResourceName("example.com/widget")

// c01FromRL reads a reported list: a missing key and a zero are the same figure. Any other
// dimension with a non-zero amount is returned in foreign (all quotas of a run have exactly {cpu, memory}).
func c01FromRL(rl corev1.ResourceList) (v c01Vec, foreign string) {
	for _, name := range c01SortedResourceNames(rl) {
		q := rl[name]
		switch name {
		case corev1.ResourceCPU:
			v[0] = q.MilliValue()
		case corev1.ResourceMemory:
			v[1] = q.Value()
		default:
			if !q.IsZero() {
				foreign += fmt.Sprintf("%s=%s ", name, q.String())
			}
		}
	}
	return
}

func c01SortedResourceNames(rl corev1.ResourceList) []corev1.ResourceName {
	out := make([]corev1.ResourceName, 0, len(rl))
	for k := range rl {
		out = append(out, k)
	}
	sort.Slice(out, func(i, j int) bool { return out[i] < out[j] })
	return out
}

var c01Ladder = [2][]int64{
	{0, 1, 100, 250, 499, 500, 501, 1000, 1500, 2000, 3000, 4000, 8000, 64000},
	{0, 1, 1 << 10, 1 << 20, 1<<20 + 1, 1 << 30, 3 << 30, 1 << 36},
}
var c01Span = [2]int64{4000, 4 << 20}

func c01GenAmount(t *rapid.T, d int, label string) int64 {
	if rapid.Bool().Draw(t, label+"Ladder") {
		return rapid.SampledFrom(c01Ladder[d]).Draw(t, label)
	}
	return rapid.Int64Range(0, c01Span[d]).Draw(t, label)
}

// ---------------------------------------------------------------- model objects

type c01Res struct {
	Has   [2]bool
	Val   c01Vec
	Extra int64 // amount of a dimension no quota declares (must be masked out); 0 = absent
}

func (r c01Res) list() corev1.ResourceList {
	rl := c01RL(r.Val, r.Has)
	if r.Extra > 0 {
		rl[c01ExtraResource] = *resource.NewQuantity(r.Extra, resource.DecimalSI)
	}
	return rl
}

func (r c01Res) String() string {
	var parts []string
	for d := 0; d < 2; d++ {
		if r.Has[d] {
			parts = append(parts, fmt.Sprintf("%s=%d", c01DimName[d], r.Val[d]))
		}
	}
	if r.Extra > 0 {
		parts = append(parts, fmt.Sprintf("widget=%d", r.Extra))
	}
	return "[" + strings.Join(parts, " ") + "]"
}

func c01GenRes(t *rapid.T, label string) c01Res {
	var r c01Res
	for d := 0; d < 2; d++ {
		r.Has[d] = rapid.IntRange(0, 5).Draw(t, label+c01DimName[d]+"Has") > 0
		if r.Has[d] {
			r.Val[d] = c01GenAmount(t, d, label+c01DimName[d])
		}
	}
	if rapid.IntRange(0, 5).Draw(t, label+"Extra") == 0 {
		r.Extra = rapid.Int64Range(1, 8).Draw(t, label+"ExtraN")
	}
	return r
}

type c01PodSpec struct {
	Name        string
	Label       string // value of the quota-name label, "" = no label
	NonPreempt  bool   // label preemptible=false (immutable per the pod webhook)
	Ctrs        []c01Res
	Init        *c01Res
	Node        string
	Terminating bool
	RV          int
}

func (s c01PodSpec) clone() c01PodSpec {
	c := s
	c.Ctrs = append([]c01Res(nil), s.Ctrs...)
	if s.Init != nil {
		i := *s.Init
		c.Init = &i
	}
	return c
}

// request is the pod's effective request, stated independently of core.PodRequests:
// per dimension max(Σ containers, init container); no overhead is generated.
func (s c01PodSpec) request() c01Vec {
	var sum c01Vec
	for _, c := range s.Ctrs {
		sum = sum.add(c.Val)
	}
	if s.Init != nil {
		for d := 0; d < 2; d++ {
			if s.Init.Val[d] > sum[d] {
				sum[d] = s.Init.Val[d]
			}
		}
	}
	return sum
}

func (s c01PodSpec) String() string {
	out := fmt.Sprintf("%s{label=%q", s.Name, s.Label)
	for _, c := range s.Ctrs {
		out += " ctr" + c.String()
	}
	if s.Init != nil {
		out += " init" + s.Init.String()
	}
	if s.NonPreempt {
		out += " nonpreemptible"
	}
	if s.Node != "" {
		out += " node=" + s.Node
	}
	if s.Terminating {
		out += " terminating"
	}
	return out + "}"
}

var c01DeletionTime = metav1.NewTime(time.Unix(1000000000, 0)) // 2001: far from any wall-clock boundary

func (s c01PodSpec) build() *corev1.Pod {
	p := &corev1.Pod{ObjectMeta: metav1.ObjectMeta{Namespace: "ns", Name: s.Name, UID: types.UID("uid-" + s.Name),
		Labels: map[string]string{}, ResourceVersion: fmt.Sprint(s.RV)}}
	if s.Label != "" {
		p.Labels[extension.LabelQuotaName] = s.Label
	}
	if s.NonPreempt {
		p.Labels[extension.LabelPreemptible] = "false"
	}
	for i, c := range s.Ctrs {
		p.Spec.Containers = append(p.Spec.Containers, corev1.Container{Name: fmt.Sprintf("c%d", i),
			Resources: corev1.ResourceRequirements{Requests: c.list()}})
	}
	if s.Init != nil {
		p.Spec.InitContainers = append(p.Spec.InitContainers, corev1.Container{Name: "init",
			Resources: corev1.ResourceRequirements{Requests: s.Init.list()}})
	}
	p.Spec.NodeName = s.Node
	p.Status.Phase = corev1.PodPending
	if s.Node != "" {
		p.Status.Phase = corev1.PodRunning
	}
	if s.Terminating {
		ts := c01DeletionTime
		p.DeletionTimestamp = &ts
	}
	return p
}

type c01Pod struct {
	Spec     c01PodSpec  // latest object delivered by the (simulated) informer
	Obj      *corev1.Pod // built from Spec
	In       string      // quota the pod is a member of ("" = none)
	Assigned bool
}

type c01Quota struct {
	Name, Parent string
	IsParent     bool
	AllowLent    bool
	Max          c01Vec
	Min          c01Vec
	MinHas       [2]bool
	Weight       c01Vec // zero vector = no shared-weight annotation (defaults to max)
	RV           int
	Obj          *v1alpha1.ElasticQuota // last object delivered for this quota
	Tree         string                 // quota tree id ("" = the default tree); only in the multi-tree unit
	TreeRoot     bool                   // the root quota of a non-default tree
}

func (q *c01Quota) minEff() c01Vec {
	var m c01Vec
	for d := 0; d < 2; d++ {
		if q.MinHas[d] {
			m[d] = q.Min[d]
		}
	}
	return m
}

func (q *c01Quota) String() string {
	if q.Tree != "" {
		return fmt.Sprintf("%s{tree=%s treeRoot=%v parent=%s isParent=%v lent=%v max=%v min=%v/%v}", q.Name, q.Tree, q.TreeRoot, q.Parent, q.IsParent, q.AllowLent, q.Max, q.Min, q.MinHas)
	}
	return fmt.Sprintf("%s{parent=%s isParent=%v lent=%v max=%v min=%v/%v}", q.Name, q.Parent, q.IsParent, q.AllowLent, q.Max, q.Min, q.MinHas)
}

func (q *c01Quota) build() *v1alpha1.ElasticQuota {
	q.RV++
	eq := &v1alpha1.ElasticQuota{
		ObjectMeta: metav1.ObjectMeta{Name: q.Name, Namespace: "ns", Labels: map[string]string{}, Annotations: map[string]string{}, ResourceVersion: fmt.Sprint(q.RV)},
		Spec:       v1alpha1.ElasticQuotaSpec{Max: c01RL(q.Max, c01Both), Min: c01RL(q.Min, q.MinHas)},
	}
	eq.Labels[extension.LabelQuotaParent] = q.Parent
	eq.Labels[extension.LabelQuotaIsParent] = fmt.Sprint(q.IsParent)
	eq.Labels[extension.LabelAllowLentResource] = fmt.Sprint(q.AllowLent)
	if q.Tree != "" {
		eq.Labels[extension.LabelQuotaTreeID] = q.Tree
	}
	if q.TreeRoot {
		eq.Labels[extension.LabelQuotaIsRoot] = "true"
		eq.Annotations[extension.AnnotationTotalResource] = `{"cpu":"64","memory":"64Gi"}`
	}
	if q.Weight != (c01Vec{}) {
		b, _ := json.Marshal(c01RL(q.Weight, c01Both))
		eq.Annotations[extension.AnnotationSharedWeight] = string(b)
	}
	return eq
}

// ---------------------------------------------------------------- expectation (oracle a)

type c01Exp struct {
	self, selfNP, selfUsed, selfNPUsed c01Vec
	child, req, lim                    c01Vec
	np, used, npUsed                   c01Vec
	pods                               map[string]bool // member key -> assigned
}

func c01PodKey(name string) string { return "ns/" + name }

// c01Expect recomputes every figure from scratch from the surviving quotas and pods.
func c01Expect(quotas map[string]*c01Quota, pods map[string]*c01Pod) map[string]*c01Exp {
	children := map[string][]string{}
	for _, name := range vk.SortedKeys(quotas) {
		children[quotas[name].Parent] = append(children[quotas[name].Parent], name)
	}
	out := map[string]*c01Exp{}
	for _, name := range vk.SortedKeys(quotas) {
		out[name] = &c01Exp{pods: map[string]bool{}}
	}
	for _, pn := range vk.SortedKeys(pods) {
		p := pods[pn]
		if p.In == "" {
			continue
		}
		e := out[p.In]
		r := p.Spec.request()
		e.pods[c01PodKey(pn)] = p.Assigned
		e.self = e.self.add(r)
		if p.Spec.NonPreempt {
			e.selfNP = e.selfNP.add(r)
		}
		if p.Assigned {
			e.selfUsed = e.selfUsed.add(r)
			if p.Spec.NonPreempt {
				e.selfNPUsed = e.selfNPUsed.add(r)
			}
		}
	}
	var rec func(name string, depth int)
	rec = func(name string, depth int) {
		if depth > 16 {
			panic("c01: cycle in model tree")
		}
		q, e := quotas[name], out[name]
		e.child, e.np, e.used, e.npUsed = e.self, e.selfNP, e.selfUsed, e.selfNPUsed
		for _, c := range children[name] {
			rec(c, depth+1)
			ce := out[c]
			e.child = e.child.add(ce.lim)
			e.np = e.np.add(ce.np)
			e.used = e.used.add(ce.used)
			e.npUsed = e.npUsed.add(ce.npUsed)
		}
		e.req = e.child
		if !q.AllowLent {
			m := q.minEff()
			for d := 0; d < 2; d++ {
				if m[d] > e.req[d] {
					e.req[d] = m[d]
				}
			}
		}
		e.lim = c01VecMin(e.req, q.Max)
	}
	for _, top := range children[extension.RootQuotaName] {
		rec(top, 0)
	}
	return out
}

// ---------------------------------------------------------------- world

type c01Flags struct {
	Orphans          bool // pod labels may name quotas that do not exist (default-quota fall-back, migrate cycle); quotas may be deleted with pods inside
	EagerMigrate     bool // (orphans) the migrate cycle runs right after every quota creation
	FreezeInFallback bool // (orphans) a pod sitting in the default quota by fall-back is not resized/relabelled
	ParentPods       bool // pods may be labelled with an is-parent quota (feature SupportParentQuotaSubmitPod)
	IgnoreTerm       bool // feature ElasticQuotaImmediateIgnoreTerminatingPod
	ScaleMin         bool
	NoReparentOver   bool // exclusion pass: never re-parent/delete a quota whose own request exceeds its max
	MultiTree        bool // (multi-tree unit) feature gate MultiQuotaTree: quotas may live in non-default quota trees, each with its own manager
	Interleave       bool // (migrate-race unit, implies Parked) one pod event is delivered between the migrate cycle's snapshot and its per-pod step
	Parked           bool // (parked-reserve unit) Reserve/Unreserve are also issued for a pod still parked in the default quota although its own quota exists
}

func (f c01Flags) String() string {
	return fmt.Sprintf("orphans=%v eagerMigrate=%v freezeInFallback=%v parentPods=%v ignoreTerminating=%v scaleMin=%v excludeOverMaxMove=%v reserveWhileParked=%v multiTree=%v",
		f.Orphans, f.EagerMigrate, f.FreezeInFallback, f.ParentPods, f.IgnoreTerm, f.ScaleMin, f.NoReparentOver, f.Parked, f.MultiTree)
}

var c01QuotaNames = []string{"q0", "q1", "q2", "q3", "q4", "q5"}
var c01PodNames = []string{"p0", "p1", "p2", "p3", "p4", "p5", "p6", "p7"}

type c01World struct {
	c      *vk.Case
	drv    c01Driver
	flags  c01Flags
	sysMax c01Vec
	defMax c01Vec
	quotas map[string]*c01Quota // user quotas + default + system
	pods   map[string]*c01Pod   // pods known to the informer
	nodes  map[string]*corev1.Node
	hist   []string
	dead   bool

	// context of the operation being checked (for signatures)
	opKind string
	family *c01Family

	// what the case contained
	sawReparentLoad, sawDeleteLoad, sawOverMax, sawMinRaise, sawMigrate, sawTerminating, sawReset   bool
	sawCrossQuota, sawResize, sawUnreserve, sawParentPods, sawFallback, sawDirtyDelete, sawRootDiff bool
	sawReserveParked, sawReserveMisrouted, sawUnreserveMisrouted                                    bool
	sawWindowMoved, sawWindowDeleted, sawWindowChanged, sawWindowMigrated                           bool
	sawParkedMoveReserved                                                                           bool
	sawReserveAssigned, sawReserveAssignedMisrouted                                                 bool
	sawCrossTreeWindow, sawTreePod, sawCrossTreeMigrate, sawCrossTreeRelabel                        bool
	sawCrossTreeReservedMigrate                                                                     bool
	excludedMoves                                                                                   int
}

func c01Special(name string) bool {
	return name == extension.DefaultQuotaName || name == extension.SystemQuotaName
}

func (w *c01World) userQuotas() []string {
	var out []string
	for _, n := range vk.SortedKeys(w.quotas) {
		if !c01Special(n) {
			out = append(out, n)
		}
	}
	return out
}

// route restates the plugin's getPodAssociateQuotaNameAndTreeID: the label if such a quota is
// known, otherwise the default quota.
func (w *c01World) route(label string) string {
	if label == "" {
		return extension.DefaultQuotaName
	}
	if _, ok := w.quotas[label]; ok {
		return label
	}
	return extension.DefaultQuotaName
}

func (w *c01World) ignored(s c01PodSpec) bool { return w.flags.IgnoreTerm && s.Terminating }

func (w *c01World) log(format string, args ...any) {
	w.hist = append(w.hist, fmt.Sprintf("%02d ", len(w.hist)+1)+fmt.Sprintf(format, args...))
}

func (w *c01World) violation(t *rapid.T, sig, format string, args ...any) {
	if w.dead {
		return
	}
	msg := fmt.Sprintf(format, args...)
	if w.c.Violation(t, sig, "%s\n  flags: %s\n  quotas now: %s\n  pods now: %s\n  history:\n    %s", msg, w.flags, w.quotaDump(), w.podDump(), strings.Join(w.hist, "\n    ")) {
		w.dead = true
	}
}

func (w *c01World) quotaDump() string {
	var parts []string
	for _, n := range vk.SortedKeys(w.quotas) {
		parts = append(parts, w.quotas[n].String())
	}
	return strings.Join(parts, " ")
}

func (w *c01World) podDump() string {
	var parts []string
	for _, n := range vk.SortedKeys(w.pods) {
		p := w.pods[n]
		parts = append(parts, fmt.Sprintf("%s in=%q assigned=%v req=%v", p.Spec.String(), p.In, p.Assigned, p.Spec.request()))
	}
	return strings.Join(parts, " ")
}

func (w *c01World) depth(name string) int {
	d := 0
	for name != extension.RootQuotaName && d < 32 {
		name = w.quotas[name].Parent
		d++
	}
	return d
}

func (w *c01World) childrenOf(name string) []string {
	var out []string
	for _, n := range w.userQuotas() {
		if w.quotas[n].Parent == name {
			out = append(out, n)
		}
	}
	return out
}

func (w *c01World) height(name string) int {
	h := 1
	for _, c := range w.childrenOf(name) {
		if x := 1 + w.height(c); x > h {
			h = x
		}
	}
	return h
}

func (w *c01World) inSubtree(root, name string) bool {
	for i := 0; name != extension.RootQuotaName && i < 32; i++ {
		if name == root {
			return true
		}
		name = w.quotas[name].Parent
	}
	return false
}

func (w *c01World) subtreeHasAssigned(root string) bool {
	for _, pn := range vk.SortedKeys(w.pods) {
		p := w.pods[pn]
		if p.In != "" && p.Assigned && w.inSubtree(root, p.In) {
			return true
		}
	}
	return false
}

func (w *c01World) members(q string) []string {
	var out []string
	for _, pn := range vk.SortedKeys(w.pods) {
		if w.pods[pn].In == q {
			out = append(out, pn)
		}
	}
	return out
}

// ---------------------------------------------------------------- comparison

type c01Field struct {
	name string
	got  func(s *c01Summary) corev1.ResourceList
	want func(e *c01Exp) c01Vec
}

var c01Fields = []c01Field{
	{"Request", func(s *c01Summary) corev1.ResourceList { return s.Request }, func(e *c01Exp) c01Vec { return e.req }},
	{"ChildRequest", func(s *c01Summary) corev1.ResourceList { return s.ChildRequest }, func(e *c01Exp) c01Vec { return e.child }},
	{"SelfRequest", func(s *c01Summary) corev1.ResourceList { return s.SelfRequest }, func(e *c01Exp) c01Vec { return e.self }},
	{"NonPreemptibleRequest", func(s *c01Summary) corev1.ResourceList { return s.NonPreemptibleRequest }, func(e *c01Exp) c01Vec { return e.np }},
	{"SelfNonPreemptibleRequest", func(s *c01Summary) corev1.ResourceList { return s.SelfNonPreemptibleRequest }, func(e *c01Exp) c01Vec { return e.selfNP }},
	{"Used", func(s *c01Summary) corev1.ResourceList { return s.Used }, func(e *c01Exp) c01Vec { return e.used }},
	{"SelfUsed", func(s *c01Summary) corev1.ResourceList { return s.SelfUsed }, func(e *c01Exp) c01Vec { return e.selfUsed }},
	{"NonPreemptibleUsed", func(s *c01Summary) corev1.ResourceList { return s.NonPreemptibleUsed }, func(e *c01Exp) c01Vec { return e.npUsed }},
	{"SelfNonPreemptibleUsed", func(s *c01Summary) corev1.ResourceList { return s.SelfNonPreemptibleUsed }, func(e *c01Exp) c01Vec { return e.selfNPUsed }},
}

// sigFor builds the violation signature: normally <operation>:<what differs>. When the operation was issued in a
// situation that is a root cause of its own (family) and the symptom is one that root cause explains, every such
// symptom gets the family's single signature, so that one defect has one signature and another defect a different one.
func (w *c01World) sigFor(what, dir, quota string) string {
	for f := w.family; f != nil; f = f.next {
		if f.match(what, dir, quota) {
			return f.sig
		}
	}
	s := w.opKind + ":" + what
	if dir != "" {
		s += ":" + dir
	}
	return s
}

type c01Family struct {
	next  *c01Family // tried when this family does not explain the symptom
	sig   string
	match func(what, dir, quota string) bool
}

func c01AnySymptom(string, string, string) bool { return true }

const (
	c01SigCrossTreeMigrateDropped = "migrateCycle:cross-tree:reservation-dropped"
	c01SigMisroutedCrossTree      = "default-fallback:cross-tree:pod-event-misses-pod-parked-in-default-tree"
	c01SigParkedMoveDropped       = "parked-move:reservation-dropped-by-pod-update"
	c01SigMigrateGone             = "migrateCycle:pod-left-default-quota-between-snapshot-and-migrate"
	c01SigMigrateStale            = "migrateCycle:pod-updated-between-snapshot-and-migrate"
	c01SigMisrouted               = "default-fallback:pod-event-misses-pod-still-counted-in-default-quota"
	c01SigStaleCache              = "migrateCycle:cached-pod-object-stale"
	c01SigReparentOver            = "quotaReparent:old-ancestors-request-undercounted:moved-quota-request-over-max"
	c01SigDeleteOver              = "quotaDelete:ancestors-request-undercounted:deleted-quota-request-over-max"
)

// overMaxFamily: the quota that leaves (re-parent or delete) had request > max; the explained symptom is an
// under-counted Request/ChildRequest on the chain of its former ancestors.
func (w *c01World) overMaxFamily(sig, oldParent string) *c01Family {
	anc := map[string]bool{}
	for n, i := oldParent, 0; n != extension.RootQuotaName && i < 32; i++ {
		anc[n] = true
		n = w.quotas[n].Parent
	}
	return &c01Family{sig: sig, match: func(what, dir, quota string) bool {
		return (what == "Request" || what == "ChildRequest") && dir == "under" && anc[quota]
	}}
}

func (w *c01World) begin(kind string) { w.opKind, w.family = kind, nil }

// check is oracle (a): compare the reported summaries with the from-scratch recomputation.
func (w *c01World) check(t *rapid.T) {
	if w.dead {
		return
	}
	exp := c01Expect(w.quotas, w.pods)
	byTree := w.drv.Summaries()
	summ := map[string]*c01Summary{}
	for _, tree := range vk.SortedKeys(byTree) {
		for _, name := range vk.SortedKeys(byTree[tree]) {
			q, ok := w.quotas[name]
			if !ok {
				w.violation(t, w.sigFor("quota-set:unexpected", "", name), "manager of tree %q reports quota %q which does not exist (any more)", tree, name)
				return
			}
			if q.Tree != tree || summ[name] != nil {
				w.violation(t, w.sigFor("quota-set:wrong-tree", "", name), "quota %q of tree %q is reported by the manager of tree %q (reported twice=%v)", name, q.Tree, tree, summ[name] != nil)
				return
			}
			summ[name] = byTree[tree][name]
		}
	}
	names := vk.SortedKeys(w.quotas)
	for _, name := range names {
		s := summ[name]
		if s == nil {
			w.violation(t, w.sigFor("quota-set:missing", "", name), "manager does not report quota %q", name)
			return
		}
		q := w.quotas[name]
		gotMax, _ := c01FromRL(s.Max)
		gotMin, _ := c01FromRL(s.Min)
		if s.ParentName != q.Parent || s.IsParent != q.IsParent || s.AllowLentResource != q.AllowLent || gotMax != q.Max || gotMin != q.minEff() {
			w.violation(t, w.sigFor("meta", "", name), "quota %q reported parent=%s isParent=%v lent=%v max=%v min=%v; last delivered object says %s",
				name, s.ParentName, s.IsParent, s.AllowLentResource, gotMax, gotMin, q)
			return
		}
	}
	// membership and assigned flags
	for _, name := range names {
		s, e := summ[name], exp[name]
		for _, key := range vk.SortedKeys(s.PodCache) {
			if _, ok := e.pods[key]; !ok {
				w.violation(t, w.sigFor("podcache:unexpected-pod", "", name), "quota %q still holds pod %s which should not be counted there", name, key)
				return
			}
		}
		for _, key := range vk.SortedKeys(e.pods) {
			pi, ok := s.PodCache[key]
			if !ok {
				w.violation(t, w.sigFor("podcache:missing-pod", "", name), "quota %q does not hold pod %s", name, key)
				return
			}
			if pi.IsAssigned != e.pods[key] {
				w.violation(t, w.sigFor("podcache:assigned-flag", "", name), "quota %q pod %s isAssigned=%v, expected %v", name, key, pi.IsAssigned, e.pods[key])
				return
			}
		}
	}
	// figures: field-major so that the signature does not depend on quota names
	for _, f := range c01Fields {
		for _, name := range names {
			got, foreign := c01FromRL(f.got(summ[name]))
			want := f.want(exp[name])
			if foreign != "" {
				w.violation(t, w.sigFor(f.name+":foreign-dimension", "", name), "quota %q %s carries a dimension no quota declares: %s", name, f.name, foreign)
				return
			}
			for d := 0; d < 2; d++ {
				if got[d] != want[d] {
					dir := "under"
					if got[d] > want[d] {
						dir = "over"
					}
					e := exp[name]
					w.violation(t, w.sigFor(f.name, dir, name), "quota %q %s[%s]: reported %d, recomputed from scratch %d (reported %v, expected %v; expected self=%v childRequest=%v request=%v limited=%v used=%v)",
						name, f.name, c01DimName[d], got[d], want[d], got, want, e.self, e.child, e.req, e.lim, e.used)
					return
				}
			}
		}
	}
	// distribution
	for _, name := range names {
		q, e := w.quotas[name], exp[name]
		m := q.minEff()
		for d := 0; d < 2; d++ {
			if e.req[d] > q.Max[d] && !c01Special(name) {
				w.sawOverMax = true
			}
			if !q.AllowLent && e.child[d] < m[d] {
				w.sawMinRaise = true
			}
		}
		if q.IsParent && len(e.pods) > 0 {
			w.sawParentPods = true
		}
		if q.Tree != "" && len(e.pods) > 0 {
			w.sawTreePod = true
		}
	}
	// the abstract root group is not part of GetQuotaSummaries; observed, not asserted
	if root := w.drv.Manager().GetQuotaInfoByName(extension.RootQuotaName); root != nil {
		var wantReq, wantUsed c01Vec
		for _, name := range names {
			if w.quotas[name].Parent == extension.RootQuotaName && w.quotas[name].Tree == "" {
				wantReq = wantReq.add(exp[name].lim)
				wantUsed = wantUsed.add(exp[name].used)
			}
		}
		gr, _ := c01FromRL(root.GetRequest())
		gu, _ := c01FromRL(root.GetUsed())
		if gr != wantReq || gu != wantUsed {
			w.sawRootDiff = true
		}
	}
}

// freshSummaries: one fresh manager per quota tree, fed the surviving quotas (parents first) and pods of that tree.
func (w *c01World) freshSummaries() map[string]*c01Summary {
	trees := map[string]bool{"": true}
	for _, n := range w.userQuotas() {
		trees[w.quotas[n].Tree] = true
	}
	out := map[string]*c01Summary{}
	for _, tree := range vk.SortedKeys(trees) {
		fresh := c01NewTreeManager(tree, w.flags.ScaleMin, c01RL(w.sysMax, c01Both), c01RL(w.defMax, c01Both))
		users := w.userQuotas()
		sort.SliceStable(users, func(i, j int) bool { return w.depth(users[i]) < w.depth(users[j]) })
		for _, n := range users {
			if w.quotas[n].Tree == tree {
				_ = fresh.UpdateQuota(w.quotas[n].build())
			}
		}
		for _, pn := range vk.SortedKeys(w.pods) {
			p := w.pods[pn]
			if p.In == "" || w.quotas[p.In].Tree != tree {
				continue
			}
			obj := p.Spec.build()
			fresh.OnPodAdd(p.In, obj)
			if p.Assigned && !fresh.GetQuotaInfoByName(p.In).CheckPodIsAssigned(obj) {
				fresh.ReservePod(p.In, obj)
			}
		}
		for name, sm := range fresh.GetQuotaSummaries(true) {
			out[name] = sm
		}
	}
	return out
}

func (w *c01World) flatSummaries() map[string]*c01Summary {
	out := map[string]*c01Summary{}
	for _, m := range w.drv.Summaries() {
		for name, sm := range m {
			out[name] = sm
		}
	}
	return out
}

// differential is oracle (b): a fresh manager fed the final objects must report the same figures.
func (w *c01World) differential(t *rapid.T, where string) {
	if w.dead {
		return
	}
	a := w.flatSummaries()
	b := w.freshSummaries()
	for _, f := range c01Fields {
		for _, name := range vk.SortedKeys(w.quotas) {
			sa, sb := a[name], b[name]
			if sa == nil || sb == nil {
				w.violation(t, "differential:quota-set", "%s: quota %q present incremental=%v fresh=%v", where, name, sa != nil, sb != nil)
				return
			}
			va, _ := c01FromRL(f.got(sa))
			vb, _ := c01FromRL(f.got(sb))
			if va != vb {
				w.violation(t, "differential:"+f.name, "%s: quota %q %s: incrementally maintained %v, fresh manager fed the final objects %v", where, name, f.name, va, vb)
				return
			}
		}
	}
	for _, name := range vk.SortedKeys(w.quotas) {
		pa, pb := a[name].PodCache, b[name].PodCache
		for _, k := range vk.SortedKeys(pb) {
			if pa[k] == nil || pa[k].IsAssigned != pb[k].IsAssigned {
				w.violation(t, "differential:podcache", "%s: quota %q pod %s: incremental %+v fresh %+v", where, name, k, pa[k], pb[k])
				return
			}
		}
		if len(pa) != len(pb) {
			w.violation(t, "differential:podcache", "%s: quota %q holds %d pods incrementally, %d in a fresh manager", where, name, len(pa), len(pb))
			return
		}
	}
}

// ---------------------------------------------------------------- driver: how events reach the code under test

// c01Driver delivers the events. The core driver restates the plugin's handlers on a bare GroupQuotaManager
// (routing computed here); the plugin driver hands the objects to the real Plugin handlers.
type c01Driver interface {
	Manager() *c01Manager // the manager of the default tree
	// Summaries returns GetQuotaSummaries(true) of every quota tree's manager, keyed by tree id ("" = default tree).
	Summaries() map[string]map[string]*c01Summary
	QuotaUpsert(old, new *v1alpha1.ElasticQuota) error // old == nil: add event
	QuotaDelete(obj *v1alpha1.ElasticQuota) error
	PodAdd(route string, pod *corev1.Pod)
	PodUpdate(newRoute, oldRoute string, newPod, oldPod *corev1.Pod)
	PodDelete(route string, pod *corev1.Pod)
	Reserve(route string, assumed *corev1.Pod)
	Unreserve(route string, assumed *corev1.Pod)
	// MigrateCycle runs the periodic default->quota migration; route is the model's routing function (used by the
	// core driver only, which restates the plugin's loop).
	MigrateCycle(route func(label string) string)
	// The migrate cycle in its two steps, so that another event can be delivered in between, as the scheduling cycle and
	// the informer do while the plugin's migration goroutine walks its snapshot: MigrateSnapshot is the copy of the
	// default quota's pod cache the loop iterates over, MigrateOne the loop body for one pod of that snapshot.
	MigrateSnapshot() map[string]*corev1.Pod
	MigrateOne(pod *corev1.Pod, route func(label string) string)
	NodeAdd(n *corev1.Node)
	NodeUpdate(old, n *corev1.Node)
	NodeDelete(n *corev1.Node)
}

func (w *c01World) upsert(q *c01Quota) error {
	obj := q.build()
	old := q.Obj
	q.Obj = obj
	return w.drv.QuotaUpsert(old, obj)
}

func (w *c01World) plugPodAdd(p *c01Pod) { w.drv.PodAdd(w.route(p.Spec.Label), p.Obj) }

func (w *c01World) plugPodUpdate(oldSpec c01PodSpec, oldObj *corev1.Pod, p *c01Pod) {
	w.drv.PodUpdate(w.route(p.Spec.Label), w.route(oldSpec.Label), p.Obj, oldObj)
}

func (w *c01World) plugPodDelete(p *c01Pod) { w.drv.PodDelete(w.route(p.Spec.Label), p.Obj) }

// assumed is the copy the scheduling cycle hands to Reserve/Unreserve: the queued pod with NodeName filled in.
func c01Assumed(p *c01Pod) *corev1.Pod {
	a := p.Obj.DeepCopy()
	if a.Spec.NodeName == "" {
		a.Spec.NodeName = "assumed-node"
	}
	return a
}

// defaultCacheState looks at the objects the default quota's pod cache holds (the migrate cycle routes and
// moves by THOSE objects): how many there are, and whether one of them differs in label or requests from the
// object last delivered for that pod.
func (w *c01World) defaultCacheState() (n int, stale bool) {
	cache := w.drv.Manager().GetQuotaInfoByName(extension.DefaultQuotaName).GetPodCache()
	for _, key := range vk.SortedKeys(cache) {
		pod := cache[key]
		if mp := w.pods[pod.Name]; mp != nil && mp.Obj != pod {
			if mp.Spec.Label != pod.Labels[extension.LabelQuotaName] || c01PodRequestsDump(mp.Obj) != c01PodRequestsDump(pod) {
				stale = true
			}
		}
	}
	return len(cache), stale
}

// c01PodRequestsDump renders container requests for a staleness comparison (not an oracle).
func c01PodRequestsDump(p *corev1.Pod) string {
	var b strings.Builder
	for _, c := range p.Spec.Containers {
		for _, n := range c01SortedResourceNames(c.Resources.Requests) {
			q := c.Resources.Requests[n]
			fmt.Fprintf(&b, "%s=%s,", n, q.String())
		}
		b.WriteString(";")
	}
	return b.String()
}

// ---------------------------------------------------------------- generators for quota specs

func c01GenMax(t *rapid.T) c01Vec {
	return c01Vec{c01GenAmount(t, 0, "maxCPU"), c01GenAmount(t, 1, "maxMem")}
}

func c01GenMin(t *rapid.T, max c01Vec) (min c01Vec, has [2]bool) {
	for d := 0; d < 2; d++ {
		switch rapid.IntRange(0, 5).Draw(t, "minKind"+c01DimName[d]) {
		case 0:
			// key absent
		case 1, 2:
			has[d] = true // zero
		case 3:
			has[d], min[d] = true, max[d]
		case 4:
			has[d] = true
			if max[d] > 0 {
				min[d] = max[d] - 1
			}
		default:
			has[d], min[d] = true, rapid.Int64Range(0, max[d]).Draw(t, "min"+c01DimName[d])
		}
	}
	return
}

// ---------------------------------------------------------------- operations

type c01Op struct {
	name   string
	weight int
	run    func(t *rapid.T)
}

func (w *c01World) parentCandidates(maxDepth int) []string {
	out := []string{extension.RootQuotaName}
	for _, n := range w.userQuotas() {
		if w.quotas[n].IsParent && w.depth(n) < maxDepth {
			out = append(out, n)
		}
	}
	return out
}

func (w *c01World) opQuotaCreate(t *rapid.T) {
	var free []string
	for _, n := range c01QuotaNames {
		if _, ok := w.quotas[n]; !ok {
			free = append(free, n)
		}
	}
	if w.flags.Parked {
		// prefer the quota a parked pod is waiting for, most of all one that was reserved while parked
		for _, pn := range vk.SortedKeys(w.pods) {
			if p := w.pods[pn]; w.inFallback(p) && w.route(p.Spec.Label) == extension.DefaultQuotaName && p.Spec.Label != extension.SystemQuotaName {
				free = append(free, p.Spec.Label, p.Spec.Label)
				if p.Assigned && p.Spec.Node == "" {
					free = append(free, p.Spec.Label, p.Spec.Label, p.Spec.Label)
				}
			}
		}
	}
	name := rapid.SampledFrom(free).Draw(t, "newQuota")
	parent := rapid.SampledFrom(w.parentCandidates(3)).Draw(t, "parent")
	q := &c01Quota{Name: name, Parent: parent}
	depth := 1
	if parent != extension.RootQuotaName {
		depth = w.depth(parent) + 1
		q.Tree = w.quotas[parent].Tree
	}
	q.IsParent = depth < 3 && rapid.IntRange(0, 2).Draw(t, "isParent") == 0
	if w.flags.MultiTree && parent == extension.RootQuotaName {
		// a top-level quota either belongs to the default tree or is the root quota of a new tree
		var freeTrees []string
		for _, tr := range []string{"t1", "t2"} {
			used := false
			for _, n := range w.userQuotas() {
				used = used || w.quotas[n].Tree == tr
			}
			if !used {
				freeTrees = append(freeTrees, tr)
			}
		}
		if len(freeTrees) > 0 && rapid.IntRange(0, 2).Draw(t, "newTree") > 0 {
			q.Tree, q.TreeRoot, q.IsParent = freeTrees[0], true, true
		}
	}
	q.AllowLent = rapid.IntRange(0, 2).Draw(t, "allowLent") > 0
	q.Max = c01GenMax(t)
	q.Min, q.MinHas = c01GenMin(t, q.Max)
	if rapid.IntRange(0, 2).Draw(t, "hasWeight") == 0 {
		q.Weight = c01Vec{rapid.Int64Range(1, 4000).Draw(t, "wCPU"), rapid.Int64Range(1, 1<<20).Draw(t, "wMem")}
	}
	w.begin("quotaCreate")
	w.quotas[name] = q
	w.log("quotaCreate %s", q)
	if err := w.upsert(q); err != nil {
		w.violation(t, "quotaCreate:error", "UpdateQuota(%s) returned %v", q, err)
		return
	}
	if w.flags.Orphans && w.flags.EagerMigrate {
		w.check(t)
		w.opMigrate(t)
	}
}

func (w *c01World) opQuotaUpdate(t *rapid.T) {
	name := rapid.SampledFrom(w.userQuotas()).Draw(t, "quota")
	q := w.quotas[name]
	what := rapid.IntRange(1, 7).Draw(t, "what") // bit0 max, bit1 min, bit2 weight
	if what&1 != 0 {
		q.Max = c01GenMax(t)
		for d := 0; d < 2; d++ { // the webhook rejects min > max: such an update lowers min as well
			if q.Min[d] > q.Max[d] {
				q.Min[d] = q.Max[d]
			}
		}
	}
	if what&2 != 0 {
		q.Min, q.MinHas = c01GenMin(t, q.Max)
	}
	if what&4 != 0 {
		q.Weight = c01Vec{rapid.Int64Range(0, 4000).Draw(t, "wCPU"), rapid.Int64Range(0, 1<<20).Draw(t, "wMem")}
		if q.Weight[0] == 0 || q.Weight[1] == 0 {
			q.Weight = c01Vec{}
		}
	}
	w.begin("quotaUpdate")
	w.log("quotaUpdate(what=%d) %s", what, q)
	if err := w.upsert(q); err != nil {
		w.violation(t, "quotaUpdate:error", "UpdateQuota(%s) returned %v", q, err)
	}
}

func (w *c01World) opToggleLent(t *rapid.T) {
	name := rapid.SampledFrom(w.userQuotas()).Draw(t, "quota")
	q := w.quotas[name]
	q.AllowLent = !q.AllowLent
	w.begin("quotaToggleLent")
	w.sawReset = true
	w.log("quotaToggleLent %s", q)
	if err := w.upsert(q); err != nil {
		w.violation(t, "quotaToggleLent:error", "UpdateQuota(%s) returned %v", q, err)
	}
}

func (w *c01World) toggleParentCandidates() []string {
	var out []string
	for _, n := range w.userQuotas() {
		q := w.quotas[n]
		if q.TreeRoot {
			continue
		}
		if q.IsParent && len(w.childrenOf(n)) == 0 {
			out = append(out, n) // true -> false needs no children
		}
		if !q.IsParent && len(w.members(n)) == 0 && w.depth(n) < 3 {
			out = append(out, n) // false -> true needs no pods
		}
	}
	return out
}

func (w *c01World) opToggleIsParent(t *rapid.T) {
	name := rapid.SampledFrom(w.toggleParentCandidates()).Draw(t, "quota")
	q := w.quotas[name]
	q.IsParent = !q.IsParent
	w.begin("quotaToggleIsParent")
	w.sawReset = true
	w.log("quotaToggleIsParent %s", q)
	if err := w.upsert(q); err != nil {
		w.violation(t, "quotaToggleIsParent:error", "UpdateQuota(%s) returned %v", q, err)
	}
}

func (w *c01World) overMax(name string) bool {
	e := c01Expect(w.quotas, w.pods)[name]
	q := w.quotas[name]
	return e.req[0] > q.Max[0] || e.req[1] > q.Max[1]
}

type c01Move struct{ q, to string }

func (w *c01World) reparentMoves() []c01Move {
	var out []c01Move
	for _, n := range w.userQuotas() {
		if w.flags.NoReparentOver && w.overMax(n) {
			w.excludedMoves++ // exclusion pass: counted, reported as class "excluded-over-max-move"
			continue
		}
		if w.quotas[n].TreeRoot {
			continue // the root quota of a tree stays where it is
		}
		h := w.height(n)
		for _, p := range w.parentCandidates(8) {
			if p == w.quotas[n].Parent || p == n {
				continue
			}
			if w.flags.MultiTree { // a quota never changes its tree
				if (p == extension.RootQuotaName && w.quotas[n].Tree != "") || (p != extension.RootQuotaName && w.quotas[p].Tree != w.quotas[n].Tree) {
					continue
				}
			}
			pd := 0
			if p != extension.RootQuotaName {
				if w.inSubtree(n, p) {
					continue
				}
				pd = w.depth(p)
			}
			if pd+h > 4 {
				continue
			}
			out = append(out, c01Move{n, p})
		}
	}
	return out
}

func (w *c01World) opReparent(t *rapid.T) {
	moves := w.reparentMoves()
	mv := moves[rapid.IntRange(0, len(moves)-1).Draw(t, "move")]
	q := w.quotas[mv.q]
	load := w.subtreeHasAssigned(mv.q)
	over := w.overMax(mv.q)
	old := q.Parent
	q.Parent = mv.to
	if rapid.IntRange(0, 3).Draw(t, "alsoMax") == 0 {
		q.Max = c01GenMax(t)
		for d := 0; d < 2; d++ {
			if q.Min[d] > q.Max[d] {
				q.Min[d] = q.Max[d]
			}
		}
	}
	w.begin("quotaReparent")
	if over {
		w.family = w.overMaxFamily(c01SigReparentOver, old)
	}
	if load {
		w.sawReparentLoad = true
	}
	w.log("quotaReparent %s -> parent %s (was %s; subtree has assigned pod=%v; request>max before=%v) now %s", mv.q, mv.to, old, load, over, q)
	if err := w.upsert(q); err != nil {
		w.violation(t, "quotaReparent:error", "UpdateQuota(%s) returned %v", q, err)
	}
}

func (w *c01World) deleteCandidates() []string {
	var out []string
	for _, n := range w.userQuotas() {
		if len(w.childrenOf(n)) == 0 {
			out = append(out, n)
		}
	}
	return out
}

func (w *c01World) opQuotaDelete(t *rapid.T) {
	name := rapid.SampledFrom(w.deleteCandidates()).Draw(t, "quota")
	q := w.quotas[name]
	dirty := w.flags.Orphans && rapid.IntRange(0, 2).Draw(t, "withPodsInside") > 0
	if dirty && w.flags.NoReparentOver && w.overMax(name) {
		dirty = false
		w.excludedMoves++
	}
	if !dirty {
		// the order the webhook enforces: the quota's pods are gone before the quota
		for _, pn := range vk.SortedKeys(w.pods) {
			if w.pods[pn].In == name || w.pods[pn].Spec.Label == name {
				w.podDelete(t, pn)
				w.check(t)
				if w.dead {
					return
				}
			}
		}
	}
	load := w.subtreeHasAssigned(name)
	over := w.overMax(name)
	w.begin("quotaDelete")
	if over {
		w.family = w.overMaxFamily(c01SigDeleteOver, q.Parent)
	}
	if load {
		w.sawDeleteLoad = true
	}
	if len(w.members(name)) > 0 {
		w.sawDirtyDelete = true
	}
	w.log("quotaDelete %s (pods inside=%v; assigned pod inside=%v; request>max before=%v)", name, w.members(name), load, over)
	obj := q.build()
	delete(w.quotas, name)
	for _, pn := range w.members(name) {
		w.pods[pn].In, w.pods[pn].Assigned = "", false
	}
	if err := w.drv.QuotaDelete(obj); err != nil {
		w.violation(t, "quotaDelete:error", "DeleteQuota(%s) returned %v", name, err)
	}
}

func (w *c01World) labelChoices() []string {
	out := []string{"", ""}
	if w.flags.Orphans {
		out = append(out, c01QuotaNames...)
	}
	if w.flags.Parked { // most pods come before their quota
		for _, n := range c01QuotaNames {
			if _, ok := w.quotas[n]; !ok {
				out = append(out, n, n)
			}
		}
	}
	for _, n := range w.userQuotas() {
		if w.quotas[n].IsParent && !w.flags.ParentPods {
			continue
		}
		out = append(out, n, n)
	}
	out = append(out, extension.SystemQuotaName)
	return out
}

func (w *c01World) opPodAdd(t *rapid.T) {
	var free []string
	for _, n := range c01PodNames {
		if _, ok := w.pods[n]; !ok {
			free = append(free, n)
		}
	}
	w.podAdd(t, rapid.SampledFrom(free).Draw(t, "newPod"))
}

func (w *c01World) podAdd(t *rapid.T, name string) {
	s := c01PodSpec{Name: name}
	s.Label = rapid.SampledFrom(w.labelChoices()).Draw(t, "label")
	s.NonPreempt = rapid.IntRange(0, 3).Draw(t, "nonPreempt") == 0
	n := rapid.IntRange(1, 2).Draw(t, "containers")
	for i := 0; i < n; i++ {
		s.Ctrs = append(s.Ctrs, c01GenRes(t, fmt.Sprintf("c%d", i)))
	}
	if rapid.IntRange(0, 5).Draw(t, "hasInit") == 0 {
		r := c01GenRes(t, "init")
		s.Init = &r
	}
	if rapid.IntRange(0, 3).Draw(t, "alreadyBound") == 0 {
		s.Node = "node-a" // fail-over: the pod is already bound when it is first seen
	}
	if rapid.IntRange(0, 9).Draw(t, "alreadyTerminating") == 0 {
		s.Terminating = true
		w.sawTerminating = true
	}
	p := &c01Pod{Spec: s, Obj: s.build()}
	w.pods[s.Name] = p
	target := w.route(s.Label)
	if !w.ignored(s) {
		p.In, p.Assigned = target, s.Node != ""
	}
	if s.Label != "" && target == extension.DefaultQuotaName && s.Label != extension.DefaultQuotaName {
		w.sawFallback = true
	}
	w.begin("podAdd")
	w.log("podAdd %s -> %s", s, target)
	w.plugPodAdd(p)
}

// misrouted: the pod is counted in one quota while the plugin would now route its events to another
// (it sits in the default quota by fall-back and its own quota has appeared since).
func (w *c01World) misrouted(p *c01Pod) bool { return p.In != "" && p.In != w.route(p.Spec.Label) }

// misroutedSig: a pod parked in the default quota whose own quota lives in another quota tree is a situation of its own
// (the two quotas belong to different managers).
func (w *c01World) misroutedSig(own string) string {
	if q := w.quotas[own]; q != nil && q.Tree != "" {
		w.sawCrossTreeWindow = true
		return c01SigMisroutedCrossTree
	}
	return c01SigMisrouted
}

func (w *c01World) inFallback(p *c01Pod) bool {
	return p.In == extension.DefaultQuotaName && p.Spec.Label != "" && p.Spec.Label != extension.DefaultQuotaName
}

// reservedParkedPods: pods holding a reservation while parked in the default quota although their own quota exists.
func (w *c01World) reservedParkedPods() []string {
	var out []string
	for _, pn := range vk.SortedKeys(w.pods) {
		if p := w.pods[pn]; w.misrouted(p) && p.Assigned && p.Spec.Node == "" {
			out = append(out, pn)
		}
	}
	return out
}

func (w *c01World) opPodUpdate(t *rapid.T) {
	names := vk.SortedKeys(w.pods)
	if w.flags.Parked {
		// prefer a pod that holds a reservation while parked in the default quota although its own quota exists: the update
		// moves it over and has to take the reservation along
		for _, pn := range vk.SortedKeys(w.pods) {
			if p := w.pods[pn]; w.misrouted(p) && p.Assigned && p.Spec.Node == "" {
				names = append(names, pn, pn, pn, pn)
			}
		}
	}
	w.podUpdate(t, rapid.SampledFrom(names).Draw(t, "pod"))
}

func (w *c01World) podUpdate(t *rapid.T, name string) {
	p := w.pods[name]
	oldSpec, oldObj := p.Spec, p.Obj
	s := p.Spec.clone()
	s.RV++
	frozen := w.flags.FreezeInFallback && w.inFallback(p)
	kinds := []string{"touch", "bind", "terminate"}
	if !frozen {
		kinds = append(kinds, "resize", "resize", "relabel", "relabel", "resize+relabel")
	}
	kind := rapid.SampledFrom(kinds).Draw(t, "updateKind")
	if strings.Contains(kind, "resize") {
		i := rapid.IntRange(0, len(s.Ctrs)-1).Draw(t, "ctr")
		s.Ctrs[i] = c01GenRes(t, "resized")
		w.sawResize = true
	}
	if strings.Contains(kind, "relabel") {
		choices := w.labelChoices()
		if w.flags.FreezeInFallback && p.In == extension.DefaultQuotaName {
			// a pod counted in the default quota is not given a label that keeps it there by fall-back
			var keep []string
			for _, l := range choices {
				if l == "" || w.route(l) != extension.DefaultQuotaName {
					keep = append(keep, l)
				}
			}
			choices = keep
		}
		s.Label = rapid.SampledFrom(choices).Draw(t, "label")
	}
	if kind == "bind" && s.Node == "" {
		s.Node = "node-a"
	}
	if kind == "terminate" {
		s.Terminating = true
		w.sawTerminating = true
	}
	mis := w.misrouted(p)
	reservedParkedMove := false
	p.Spec, p.Obj = s, s.build()
	target := w.route(s.Label)
	switch {
	case w.ignored(s):
		p.In, p.Assigned = "", false
	case p.In == target:
		if !p.Assigned && s.Node != "" {
			p.Assigned = true
		}
	case p.In == extension.DefaultQuotaName && w.route(oldSpec.Label) == target:
		// parked move: old and new object resolve to the same, meanwhile created, quota but the pod is still counted in the
		// default quota. The update takes it over together with what it holds there: a reservation made while it was
		// parked stays a reservation (reserved ... nothing is lost), it is now charged to its own quota.
		w.sawCrossQuota = true
		if p.Assigned && s.Node == "" {
			reservedParkedMove = true
		}
		p.In, p.Assigned = target, p.Assigned || s.Node != ""
	default:
		// a genuine move between two quotas (the label changed): the pod starts afresh in the new quota, assigned when bound
		if p.In != "" {
			w.sawCrossQuota = true
			if w.quotas[p.In].Tree != w.quotas[target].Tree {
				w.sawCrossTreeRelabel = true
			}
		}
		p.In, p.Assigned = target, s.Node != ""
	}
	if s.Label != "" && target == extension.DefaultQuotaName && s.Label != extension.DefaultQuotaName {
		w.sawFallback = true
	}
	w.begin("podUpdate")
	if mis {
		w.family = &c01Family{sig: w.misroutedSig(w.route(oldSpec.Label)), match: c01AnySymptom}
	}
	if reservedParkedMove {
		w.sawParkedMoveReserved = true
		w.family = &c01Family{next: w.family, sig: c01SigParkedMoveDropped, match: func(what, dir, quota string) bool {
			return what == "podcache:assigned-flag" || (strings.HasSuffix(what, "Used") && dir == "under")
		}}
	}
	w.log("podUpdate(%s) %s -> %s (event routed old=%s new=%s)", kind, s, target, w.route(oldSpec.Label), target)
	w.plugPodUpdate(oldSpec, oldObj, p)
}

func (w *c01World) podDelete(t *rapid.T, name string) {
	p := w.pods[name]
	w.begin("podDelete")
	if w.misrouted(p) {
		w.family = &c01Family{sig: w.misroutedSig(w.route(p.Spec.Label)), match: c01AnySymptom}
	}
	w.log("podDelete %s (member of %q, event routed to %s)", name, p.In, w.route(p.Spec.Label))
	delete(w.pods, name)
	w.plugPodDelete(p)
}

func (w *c01World) opPodDelete(t *rapid.T) {
	w.podDelete(t, rapid.SampledFrom(vk.SortedKeys(w.pods)).Draw(t, "pod"))
}

func (w *c01World) reserveCandidates() []string {
	var out []string
	for _, pn := range vk.SortedKeys(w.pods) {
		p := w.pods[pn]
		if p.In != "" && (w.flags.Parked || !w.misrouted(p)) && !p.Assigned {
			out = append(out, pn)
		}
		// A late scheduling attempt: the cycle was started for a pod whose earlier bind looked failed to the scheduler but
		// went through, and the informer delivers the bound pod (assigned by that update) before the cycle reaches Reserve.
		// Only in the parked-reserve units (not in the migrate-race units, whose draw sequence is pinned by replay files).
		if w.flags.Parked && !w.flags.Interleave && p.In != "" && p.Assigned && p.Spec.Node != "" {
			out = append(out, pn)
			if w.misrouted(p) {
				out = append(out, pn, pn, pn)
			}
		}
	}
	return out
}

func (w *c01World) opReserve(t *rapid.T) {
	w.reserve(rapid.SampledFrom(w.reserveCandidates()).Draw(t, "pod"))
}

func (w *c01World) reserve(name string) {
	p := w.pods[name]
	mis := w.misrouted(p)
	if w.inFallback(p) && !mis {
		w.sawReserveParked = true
	}
	if p.Assigned { // reserving a pod that already counts as used changes nothing: it stays counted once
		w.sawReserveAssigned = true
		if mis {
			w.sawReserveAssignedMisrouted = true
		}
	}
	p.Assigned = true
	w.begin("reserve")
	own := w.route(p.Spec.Label)
	w.log("reserve %s in %s (event routed to %s)", name, p.In, own)
	w.drv.Reserve(own, c01Assumed(p))
	if mis {
		// The pod is parked in the default quota, its own quota exists. The statement does not say in which of the two the
		// reservation has to be charged (the manager may move the pod first): the model follows the manager's placement,
		// everything else (counted once, assigned, all figures) is checked as usual.
		w.sawReserveMisrouted = true
		summ := w.flatSummaries()
		key := c01PodKey(name)
		inOwn, inDef := false, false
		if sm := summ[own]; sm != nil {
			_, inOwn = sm.PodCache[key]
		}
		if sm := summ[p.In]; sm != nil {
			_, inDef = sm.PodCache[key]
		}
		if inOwn && !inDef {
			p.In = own
		}
	}
}

func (w *c01World) unreserveCandidates() []string {
	var out []string
	for _, pn := range vk.SortedKeys(w.pods) {
		p := w.pods[pn]
		if p.In != "" && (w.flags.Parked || !w.misrouted(p)) && p.Assigned && p.Spec.Node == "" {
			out = append(out, pn)
			if w.flags.Parked && w.misrouted(p) {
				out = append(out, pn, pn) // prefer rolling back a reservation taken while the pod was parked
			}
		}
	}
	return out
}

func (w *c01World) opUnreserve(t *rapid.T) {
	w.unreserve(rapid.SampledFrom(w.unreserveCandidates()).Draw(t, "pod"))
}

func (w *c01World) unreserve(name string) {
	p := w.pods[name]
	if w.misrouted(p) {
		w.sawUnreserveMisrouted = true // reserved while parked in the default quota, rolled back after its own quota appeared
	}
	p.Assigned = false
	w.sawUnreserve = true
	w.begin("unreserve")
	w.log("unreserve %s in %s (event routed to %s)", name, p.In, w.route(p.Spec.Label))
	w.drv.Unreserve(w.route(p.Spec.Label), c01Assumed(p))
}

func (w *c01World) opMigrate(t *rapid.T) {
	var movedModel []string
	crossTreeReserved := false
	for _, pn := range vk.SortedKeys(w.pods) {
		p := w.pods[pn]
		if p.In == extension.DefaultQuotaName && w.route(p.Spec.Label) != extension.DefaultQuotaName {
			p.In = w.route(p.Spec.Label)
			movedModel = append(movedModel, pn+"->"+p.In)
			if w.quotas[p.In].Tree != "" {
				w.sawCrossTreeMigrate = true
				if p.Assigned && p.Spec.Node == "" {
					crossTreeReserved = true // a reservation made while parked is carried into another tree
				}
			}
		}
	}
	w.begin("migrateCycle")
	before, stale := w.defaultCacheState()
	w.drv.MigrateCycle(w.route)
	after, _ := w.defaultCacheState()
	n := before - after
	if stale {
		w.family = &c01Family{sig: c01SigStaleCache, match: c01AnySymptom}
	}
	if crossTreeReserved {
		w.sawCrossTreeReservedMigrate = true
		w.family = &c01Family{next: w.family, sig: c01SigCrossTreeMigrateDropped, match: func(what, dir, quota string) bool {
			return what == "podcache:assigned-flag" || (strings.HasSuffix(what, "Used") && dir == "under")
		}}
	}
	if n > 0 {
		w.sawMigrate = true
	}
	w.log("migrateCycle (model moves %v; pods that left the default quota=%d; a cached pod object was stale=%v)", movedModel, n, stale)
}

// opMigrateInterleaved is the migrate cycle with the other goroutines in the picture: the plugin's loop works on a
// snapshot of the default quota's pod cache and takes the manager's lock only per pod, so a Reserve/Unreserve (scheduling
// cycle) or a pod update/delete (informer) can be processed between the snapshot and the pod's own migrate step. The
// harness owns the interleaving: snapshot, then for every pod of it optionally one generated event on a snapshot pod,
// then that pod's migrate step. Model: a pod moves iff it is, at that moment, still counted in the default quota and the
// label of its last delivered object names an existing quota.
func (w *c01World) opMigrateInterleaved(t *rapid.T) {
	w.begin("migrateCycle")
	snap := w.drv.MigrateSnapshot()
	names := map[string]*corev1.Pod{}
	for _, key := range vk.SortedKeys(snap) {
		names[snap[key].Name] = snap[key]
	}
	w.log("migrateCycle: snapshot of the default quota's pods %v", vk.SortedKeys(names))
	for _, name := range vk.SortedKeys(names) {
		if w.dead {
			return
		}
		if rapid.Bool().Draw(t, "eventInWindow") {
			var alive []string
			for _, n := range vk.SortedKeys(names) {
				if _, ok := w.pods[n]; ok {
					alive = append(alive, n)
				}
			}
			if len(alive) > 0 {
				target := name
				if _, ok := w.pods[name]; !ok || rapid.IntRange(0, 3).Draw(t, "otherPod") == 0 {
					target = rapid.SampledFrom(alive).Draw(t, "windowPod")
				}
				p := w.pods[target]
				menu := []string{"update", "update", "delete"}
				if p.In != "" && !p.Assigned {
					menu = append(menu, "reserve", "reserve", "reserve")
				}
				if p.In != "" && p.Assigned && p.Spec.Node == "" {
					menu = append(menu, "unreserve")
				}
				switch rapid.SampledFrom(menu).Draw(t, "windowOp") {
				case "update":
					w.podUpdate(t, target)
				case "delete":
					w.podDelete(t, target)
				case "reserve":
					w.reserve(target)
				case "unreserve":
					w.unreserve(target)
				}
				w.check(t)
				if w.dead {
					return
				}
			}
		}
		pod := names[name]
		w.begin("migrateCycle")
		mp := w.pods[name]
		switch {
		case mp == nil:
			w.sawWindowDeleted = true
			w.family = &c01Family{sig: c01SigMigrateGone, match: c01AnySymptom}
			w.log("migrateCycle: step for %s (deleted since the snapshot)", name)
		case mp.In != extension.DefaultQuotaName:
			w.sawWindowMoved = true
			w.family = &c01Family{sig: c01SigMigrateGone, match: c01AnySymptom}
			w.log("migrateCycle: step for %s (moved to %q since the snapshot)", name, mp.In)
		default:
			if mp.Obj != pod && (mp.Spec.Label != pod.Labels[extension.LabelQuotaName] || c01PodRequestsDump(mp.Obj) != c01PodRequestsDump(pod)) {
				w.sawWindowChanged = true
				w.family = &c01Family{sig: c01SigMigrateStale, match: c01AnySymptom}
			}
			if to := w.route(mp.Spec.Label); to != extension.DefaultQuotaName {
				mp.In = to
				w.sawMigrate, w.sawWindowMigrated = true, true
			}
			w.log("migrateCycle: step for %s (model: now in %q; label or requests changed since the snapshot=%v)", name, mp.In, w.family != nil)
		}
		w.drv.MigrateOne(pod, w.route)
		w.check(t)
	}
}

func (w *c01World) opNode(t *rapid.T) {
	name := rapid.SampledFrom([]string{"n0", "n1", "n2"}).Draw(t, "node")
	alloc := c01RL(c01Vec{c01GenAmount(t, 0, "nodeCPU"), c01GenAmount(t, 1, "nodeMem")}, c01Both)
	w.begin("node")
	old := w.nodes[name]
	switch {
	case old == nil:
		n := &corev1.Node{ObjectMeta: metav1.ObjectMeta{Name: name, ResourceVersion: "1"}, Status: corev1.NodeStatus{Allocatable: alloc}}
		w.nodes[name] = n
		w.log("nodeAdd %s", name)
		w.drv.NodeAdd(n)
	case rapid.Bool().Draw(t, "nodeDelete"):
		delete(w.nodes, name)
		w.log("nodeDelete %s", name)
		w.drv.NodeDelete(old)
	default:
		n := old.DeepCopy()
		n.ResourceVersion += "1"
		n.Status.Allocatable = alloc
		w.nodes[name] = n
		w.log("nodeUpdate %s", name)
		w.drv.NodeUpdate(old, n)
	}
}

func (w *c01World) opReset(t *rapid.T) {
	w.begin("resetQuota")
	w.sawReset = true
	w.log("resetQuota")
	w.drv.Manager().ResetQuota()
	w.check(t)
	w.differential(t, "after resetQuota")
}

func (w *c01World) opRefreshRuntime(t *rapid.T) {
	name := rapid.SampledFrom(vk.SortedKeys(w.quotas)).Draw(t, "quota")
	w.begin("refreshRuntime")
	w.log("refreshRuntime %s", name)
	w.drv.Manager().RefreshRuntime(name)
}

func (w *c01World) enabledOps() []c01Op {
	var ops []c01Op
	add := func(name string, weight int, on bool, run func(t *rapid.T)) {
		if on {
			ops = append(ops, c01Op{name, weight, run})
		}
	}
	users := w.userQuotas()
	if w.flags.Parked {
		// parked-reserve unit: pods wait in the default quota for their quota, the scheduler works on them meanwhile
		add("quotaCreate", 5, len(users) < len(c01QuotaNames), w.opQuotaCreate)
		add("quotaUpdate", 1, len(users) > 0, w.opQuotaUpdate)
		add("quotaReparent", 1, len(w.reparentMoves()) > 0, w.opReparent)
		add("quotaDelete", 2, len(w.deleteCandidates()) > 0, w.opQuotaDelete)
		add("podAdd", 6, len(w.pods) < len(c01PodNames), w.opPodAdd)
		add("podUpdate", 4, len(w.pods) > 0, w.opPodUpdate)
		add("podUpdateOfReservedParkedPod", 6, len(w.reservedParkedPods()) > 0, func(t *rapid.T) {
			w.podUpdate(t, rapid.SampledFrom(w.reservedParkedPods()).Draw(t, "pod"))
		})
		add("podDelete", 2, len(w.pods) > 0, w.opPodDelete)
		add("reserve", 8, len(w.reserveCandidates()) > 0, w.opReserve)
		add("unreserve", 8, len(w.unreserveCandidates()) > 0, w.opUnreserve)
		if w.flags.Interleave {
			add("migrateCycleInterleaved", 5, true, w.opMigrateInterleaved)
		} else {
			add("migrateCycle", 1, true, w.opMigrate)
		}
		add("resetQuota", 1, true, w.opReset)
		return ops
	}
	add("quotaCreate", 4, len(users) < len(c01QuotaNames), w.opQuotaCreate)
	add("quotaUpdate", 4, len(users) > 0, w.opQuotaUpdate)
	add("quotaToggleLent", 1, len(users) > 0, w.opToggleLent)
	add("quotaToggleIsParent", 1, len(w.toggleParentCandidates()) > 0, w.opToggleIsParent)
	add("quotaReparent", 5, len(w.reparentMoves()) > 0, w.opReparent)
	add("quotaDelete", 3, len(w.deleteCandidates()) > 0, w.opQuotaDelete)
	add("podAdd", 6, len(w.pods) < len(c01PodNames), w.opPodAdd)
	add("podUpdate", 6, len(w.pods) > 0, w.opPodUpdate)
	add("podDelete", 2, len(w.pods) > 0, w.opPodDelete)
	add("reserve", 4, len(w.reserveCandidates()) > 0, w.opReserve)
	add("unreserve", 2, len(w.unreserveCandidates()) > 0, w.opUnreserve)
	add("migrateCycle", 2, w.flags.Orphans, w.opMigrate)
	add("node", 1, true, w.opNode)
	add("resetQuota", 1, true, w.opReset)
	add("refreshRuntime", 1, true, w.opRefreshRuntime)
	return ops
}

func (w *c01World) step(t *rapid.T) {
	if w.dead {
		return
	}
	ops := w.enabledOps()
	var menu []int
	for i, o := range ops {
		for k := 0; k < o.weight; k++ {
			menu = append(menu, i)
		}
	}
	op := ops[menu[rapid.IntRange(0, len(menu)-1).Draw(t, "op")]]
	op.run(t)
}

// ---------------------------------------------------------------- set-up shared by the tests

func c01SetGate(name string, on bool) {
	_ = utilfeature.DefaultMutableFeatureGate.Set(fmt.Sprintf("%s=%v", name, on))
}

func c01SetIgnoreTerminating(on bool) {
	_ = utilfeature.DefaultMutableFeatureGate.Set(fmt.Sprintf("%s=%v", features.ElasticQuotaImmediateIgnoreTerminatingPod, on))
}

func c01NewWorld(t *rapid.T, c *vk.Case, flags c01Flags, mk func(scaleMin bool, sysMax, defMax corev1.ResourceList) c01Driver) *c01World {
	w := &c01World{c: c, flags: flags, quotas: map[string]*c01Quota{}, pods: map[string]*c01Pod{}, nodes: map[string]*corev1.Node{}}
	big := c01Vec{1 << 50, 1 << 60}
	w.sysMax, w.defMax = big, big
	if rapid.IntRange(0, 2).Draw(t, "smallDefaultMax") == 0 {
		w.defMax = c01GenMax(t)
	}
	w.drv = mk(flags.ScaleMin, c01RL(w.sysMax, c01Both), c01RL(w.defMax, c01Both))
	w.quotas[extension.DefaultQuotaName] = &c01Quota{Name: extension.DefaultQuotaName, Parent: extension.RootQuotaName, AllowLent: true, Max: w.defMax}
	w.quotas[extension.SystemQuotaName] = &c01Quota{Name: extension.SystemQuotaName, Parent: extension.RootQuotaName, AllowLent: true, Max: w.sysMax}
	w.log("new manager defaultMax=%v systemMax=%v", w.defMax, w.sysMax)
	return w
}

func c01GenFlags(t *rapid.T) c01Flags {
	f := c01Flags{
		Orphans:    rapid.Bool().Draw(t, "orphans"),
		ParentPods: rapid.Bool().Draw(t, "parentPods"),
		IgnoreTerm: rapid.IntRange(0, 2).Draw(t, "ignoreTerminating") == 0,
		ScaleMin:   rapid.Bool().Draw(t, "scaleMin"),
	}
	if f.Orphans {
		// half of the orphan cases exclude by construction the two situations in which the plugin's own event routing
		// loses track of a pod parked in the default quota (see c01SigMisrouted, c01SigStaleCache)
		safe := rapid.Bool().Draw(t, "safeFallback")
		f.EagerMigrate = safe || rapid.Bool().Draw(t, "eagerMigrate")
		f.FreezeInFallback = safe || rapid.Bool().Draw(t, "freezeInFallback")
	}
	f.NoReparentOver = rapid.IntRange(0, 2).Draw(t, "excludeOverMaxMove") == 0
	return f
}

// ---------------------------------------------------------------- the sequential-history property

func c01RunHistory(t *rapid.T, rec *vk.Rec, mk func(scaleMin bool, sysMax, defMax corev1.ResourceList) c01Driver) {
	c01RunHistoryMode(t, rec, mk, c01Mode{})
}

// c01RunMigrateRace: the parked-pod generator, with the migrate cycle always run in its two steps and generated events
// delivered between the snapshot and the per-pod step (see opMigrateInterleaved).
func c01RunMigrateRace(t *rapid.T, rec *vk.Rec, mk func(scaleMin bool, sysMax, defMax corev1.ResourceList) c01Driver) {
	c01RunHistoryMode(t, rec, mk, c01Mode{parked: true, interleave: true})
}

// c01RunParked: the same property with the generator aimed at pods that exist before their quota: they are parked in
// the default quota, the migrate cycle is rare, and Reserve/Unreserve are issued while a pod is parked, also after its
// own quota has appeared (the plugin then routes the call to that quota).
func c01RunParked(t *rapid.T, rec *vk.Rec, mk func(scaleMin bool, sysMax, defMax corev1.ResourceList) c01Driver) {
	c01RunHistoryMode(t, rec, mk, c01Mode{parked: true})
}

// c01RunMultiTree: the same property with feature gate MultiQuotaTree on: top-level quotas may open their own quota tree
// (own manager, no default quota there), pods are routed by quota name to the tree's manager, a pod created before its
// tree quota waits in the default quota of the default tree and is carried over by the migrate cycle. Every pod must be
// counted in exactly one quota of exactly one tree; the figures of every tree's groups are recomputed from scratch.
func c01RunMultiTree(t *rapid.T, rec *vk.Rec, mk func(scaleMin bool, sysMax, defMax corev1.ResourceList) c01Driver) {
	c01RunHistoryMode(t, rec, mk, c01Mode{multiTree: true})
}

type c01Mode struct{ parked, interleave, multiTree bool }

func c01RunHistoryMode(t *rapid.T, rec *vk.Rec, mk func(scaleMin bool, sysMax, defMax corev1.ResourceList) c01Driver, mode c01Mode) {
	parked, interleave := mode.parked, mode.interleave
	c := rec.Begin()
	defer c.End()
	var flags c01Flags
	maxWarmQuotas := 4
	if mode.multiTree {
		flags = c01Flags{MultiTree: true, Orphans: true,
			EagerMigrate:     rapid.IntRange(0, 3).Draw(t, "eagerMigrate") > 0,
			FreezeInFallback: rapid.Bool().Draw(t, "freezeInFallback"),
			ParentPods:       rapid.Bool().Draw(t, "parentPods"),
			IgnoreTerm:       rapid.IntRange(0, 3).Draw(t, "ignoreTerminating") == 0,
			ScaleMin:         rapid.Bool().Draw(t, "scaleMin")}
		c01SetGate(string(features.MultiQuotaTree), true)
		defer c01SetGate(string(features.MultiQuotaTree), false)
	} else if parked {
		flags = c01Flags{Parked: true, Orphans: true, Interleave: interleave,
			FreezeInFallback: rapid.Bool().Draw(t, "freezeInFallback"),
			ParentPods:       rapid.Bool().Draw(t, "parentPods"),
			IgnoreTerm:       rapid.IntRange(0, 3).Draw(t, "ignoreTerminating") == 0,
			ScaleMin:         rapid.Bool().Draw(t, "scaleMin")}
		maxWarmQuotas = 2
	} else {
		flags = c01GenFlags(t)
	}
	c01SetIgnoreTerminating(flags.IgnoreTerm)
	defer c01SetIgnoreTerminating(false)
	w := c01NewWorld(t, c, flags, mk)

	// warm start with the ordinary operations so that short cases already have a tree and pods
	nq := rapid.IntRange(0, maxWarmQuotas).Draw(t, "warmQuotas")
	for i := 0; i < nq && !w.dead; i++ {
		w.opQuotaCreate(t)
		w.check(t)
	}
	np := rapid.IntRange(0, 4).Draw(t, "warmPods")
	for i := 0; i < np && !w.dead; i++ {
		w.opPodAdd(t)
		w.check(t)
	}
	t.Repeat(map[string]func(*rapid.T){
		"op": w.step,
		"":   w.check,
	})
	w.begin("end")
	w.differential(t, "end of run")

	c.ClassIf(w.sawReparentLoad, "reparent-with-load")
	c.ClassIf(w.sawDeleteLoad, "delete-with-load")
	c.ClassIf(w.sawOverMax, "over-max")
	c.ClassIf(w.sawMinRaise, "non-lent-min-raise")
	c.ClassIf(w.sawMigrate, "migrate")
	c.ClassIf(w.sawTerminating, "terminating")
	c.ClassIf(w.sawReset, "reset")
	c.ClassIf(w.sawCrossQuota, "pod-moved-between-quotas")
	c.ClassIf(w.sawResize, "pod-resized")
	c.ClassIf(w.sawUnreserve, "unreserve")
	c.ClassIf(w.sawParentPods, "pods-in-parent-quota")
	c.ClassIf(w.sawFallback, "default-fallback")
	c.ClassIf(w.sawDirtyDelete, "quota-deleted-with-pods-inside")
	c.ClassIf(w.sawRootDiff, "root-group-differs(not asserted)")
	c.ClassIf(flags.Orphans, "mode:orphans")
	c.ClassIf(!flags.Orphans, "mode:strict-routing")
	c.ClassIf(flags.Orphans && flags.EagerMigrate && flags.FreezeInFallback, "mode:orphans-safe-fallback")
	c.ClassIf(flags.NoReparentOver, "mode:exclude-over-max-move")
	c.ClassIf(w.excludedMoves > 0, "excluded-over-max-move")
	c.ClassIf(w.sawReserveParked, "reserve-while-parked-in-default")
	c.ClassIf(w.sawReserveMisrouted, "reserve-while-parked-after-own-quota-appeared")
	c.ClassIf(w.sawUnreserveMisrouted, "unreserve-while-parked-after-own-quota-appeared")
	c.ClassIf(w.sawParkedMoveReserved, "pod-update-moves-reserved-parked-pod-to-own-quota")
	c.ClassIf(w.sawReserveAssigned, "late-reserve-of-pod-already-bound-and-assigned")
	c.ClassIf(w.sawReserveAssignedMisrouted, "late-reserve-of-bound-pod-parked-after-own-quota-appeared")
	if mode.multiTree {
		trees := map[string]bool{}
		for _, n := range w.userQuotas() {
			if w.quotas[n].Tree != "" {
				trees[w.quotas[n].Tree] = true
			}
		}
		c.ClassIf(w.sawTreePod, "pod-counted-in-non-default-tree")
		c.ClassIf(w.sawCrossTreeMigrate, "migrate-cycle-carries-pod-into-other-tree")
		c.ClassIf(w.sawCrossTreeReservedMigrate, "migrate-cycle-carries-reserved-pod-into-other-tree")
		c.ClassIf(w.sawCrossTreeRelabel, "pod-update-moves-pod-between-trees")
		c.ClassIf(w.sawCrossTreeWindow, "pod-event-while-parked-and-own-quota-in-other-tree")
		c.ClassIf(len(trees) >= 1, "non-default-tree-at-end")
		c.ClassIf(len(trees) >= 2, "two-non-default-trees-at-end")
	}
	c.ClassIf(w.sawWindowMoved, "migrate-step-for-pod-moved-since-snapshot")
	c.ClassIf(w.sawWindowDeleted, "migrate-step-for-pod-deleted-since-snapshot")
	c.ClassIf(w.sawWindowChanged, "migrate-step-for-pod-updated-since-snapshot")
	c.ClassIf(w.sawWindowMigrated, "migrate-step-moved-a-pod")
	if cnt, ok := w.drv.(interface{ c01Counts() map[string]int }); ok {
		for _, k := range vk.SortedKeys(cnt.c01Counts()) {
			c.ClassIf(cnt.c01Counts()[k] > 0, k)
		}
	}
	c.ClassIf(flags.IgnoreTerm, "mode:ignore-terminating")
	c.ClassIf(len(w.hist) >= 20, "history>=20")
	nt := w.sawReparentLoad || w.sawDeleteLoad || w.sawOverMax
	if parked { // a reservation taken or rolled back while the pod is parked in the default quota
		nt = w.sawReserveParked || w.sawReserveMisrouted || w.sawUnreserveMisrouted || w.sawReserveAssignedMisrouted
	}
	if interleave { // a migrate step for a pod that was moved, deleted or updated since the snapshot
		nt = w.sawWindowMoved || w.sawWindowDeleted || w.sawWindowChanged
	}
	if mode.multiTree { // a pod carried into / moved between trees
		nt = w.sawCrossTreeMigrate || w.sawCrossTreeRelabel
	}
	if nt {
		c.NonTrivial(w.hist)
	}
	if c.WantSample() {
		c.Sample(map[string]any{"flags": flags.String(), "history": w.hist})
	}
}

// ---------------------------------------------------------------- the concurrent property

// c01RecDriver records the calls instead of making them: the model is advanced while a script is generated, the
// calls are replayed later from several goroutines.
type c01RecDriver struct {
	inner c01Driver
	cur   *[]func()
}

func (d *c01RecDriver) rec(f func())         { *d.cur = append(*d.cur, f) }
func (d *c01RecDriver) Manager() *c01Manager { return d.inner.Manager() }
func (d *c01RecDriver) Summaries() map[string]map[string]*c01Summary {
	return d.inner.Summaries()
}
func (d *c01RecDriver) QuotaUpsert(old, new *v1alpha1.ElasticQuota) error {
	d.rec(func() { _ = d.inner.QuotaUpsert(old, new) })
	return nil
}
func (d *c01RecDriver) QuotaDelete(obj *v1alpha1.ElasticQuota) error {
	d.rec(func() { _ = d.inner.QuotaDelete(obj) })
	return nil
}
func (d *c01RecDriver) PodAdd(route string, pod *corev1.Pod) {
	d.rec(func() { d.inner.PodAdd(route, pod) })
}
func (d *c01RecDriver) PodUpdate(newRoute, oldRoute string, newPod, oldPod *corev1.Pod) {
	d.rec(func() { d.inner.PodUpdate(newRoute, oldRoute, newPod, oldPod) })
}
func (d *c01RecDriver) PodDelete(route string, pod *corev1.Pod) {
	d.rec(func() { d.inner.PodDelete(route, pod) })
}
func (d *c01RecDriver) Reserve(route string, assumed *corev1.Pod) {
	d.rec(func() { d.inner.Reserve(route, assumed) })
}
func (d *c01RecDriver) Unreserve(route string, assumed *corev1.Pod) {
	d.rec(func() { d.inner.Unreserve(route, assumed) })
}
func (d *c01RecDriver) MigrateCycle(route func(string) string) {
	d.rec(func() { d.inner.MigrateCycle(route) })
}
func (d *c01RecDriver) MigrateSnapshot() map[string]*corev1.Pod { return nil }
func (d *c01RecDriver) MigrateOne(pod *corev1.Pod, route func(string) string) {
	d.rec(func() { d.inner.MigrateOne(pod, route) })
}
func (d *c01RecDriver) NodeAdd(n *corev1.Node)         { d.rec(func() { d.inner.NodeAdd(n) }) }
func (d *c01RecDriver) NodeUpdate(old, n *corev1.Node) { d.rec(func() { d.inner.NodeUpdate(old, n) }) }
func (d *c01RecDriver) NodeDelete(n *corev1.Node)      { d.rec(func() { d.inner.NodeDelete(n) }) }

// c01RunConcurrent: a fixed quota tree, then pod operations on DISTINCT pods (each pod's own events in order) issued
// from several goroutines released together, next to a goroutine that retunes quota max/min/weight and one that only
// reads. Operations on distinct pods commute and the figures are a function of the final objects, so whatever the
// interleaving the final summaries must equal the from-scratch recomputation and a fresh manager.
func c01RunConcurrent(t *rapid.T, rec *vk.Rec, mk func(scaleMin bool, sysMax, defMax corev1.ResourceList) c01Driver) {
	c := rec.Begin()
	defer c.End()
	flags := c01Flags{ParentPods: rapid.Bool().Draw(t, "parentPods"), ScaleMin: rapid.Bool().Draw(t, "scaleMin")}
	c01SetIgnoreTerminating(false)
	w := c01NewWorld(t, c, flags, mk)
	nq := rapid.IntRange(1, 5).Draw(t, "quotas")
	for i := 0; i < nq && !w.dead; i++ {
		w.opQuotaCreate(t)
		w.check(t)
	}
	if w.dead {
		return
	}
	inner := w.drv
	recd := &c01RecDriver{inner: inner}
	w.drv = recd

	// per-pod scripts (the model is advanced now, pod after pod; the calls are only recorded)
	npods := rapid.IntRange(2, len(c01PodNames)).Draw(t, "pods")
	scripts := make([][]func(), npods)
	for i := 0; i < npods; i++ {
		name := c01PodNames[i]
		recd.cur = &scripts[i]
		w.podAdd(t, name)
		steps := rapid.IntRange(0, 5).Draw(t, "podSteps")
		for j := 0; j < steps; j++ {
			if _, alive := w.pods[name]; !alive {
				break
			}
			p := w.pods[name]
			menu := []string{"update", "update", "delete"}
			if p.In != "" && !p.Assigned {
				menu = append(menu, "reserve", "reserve")
			}
			if p.In != "" && p.Assigned && p.Spec.Node == "" {
				menu = append(menu, "unreserve")
			}
			switch rapid.SampledFrom(menu).Draw(t, "podOp") {
			case "update":
				w.podUpdate(t, name)
			case "delete":
				w.podDelete(t, name)
			case "reserve":
				w.reserve(name)
			case "unreserve":
				w.unreserve(name)
			}
		}
	}
	// quota retuning (max / min / weight only: the tree shape is fixed)
	var tuner []func()
	recd.cur = &tuner
	for i, n := 0, rapid.IntRange(0, 4).Draw(t, "quotaUpdates"); i < n; i++ {
		w.opQuotaUpdate(t)
	}
	w.drv = inner

	// partition the pods onto goroutines; inside a goroutine the pods' scripts are merged in a generated order
	ng := rapid.IntRange(2, 8).Draw(t, "goroutines")
	lanes := make([][]func(), ng)
	owner := make([][]int, ng)
	for i := 0; i < npods; i++ {
		g := rapid.IntRange(0, ng-1).Draw(t, "lane")
		owner[g] = append(owner[g], i)
	}
	busy := 0
	for g := 0; g < ng; g++ {
		next := map[int]int{}
		for {
			var ready []int
			for _, i := range owner[g] {
				if next[i] < len(scripts[i]) {
					ready = append(ready, i)
				}
			}
			if len(ready) == 0 {
				break
			}
			i := ready[0]
			if len(ready) > 1 {
				i = rapid.SampledFrom(ready).Draw(t, "mergePick")
			}
			lanes[g] = append(lanes[g], scripts[i][next[i]])
			next[i]++
		}
		if len(lanes[g]) > 0 {
			busy++
		}
	}
	lanes = append(lanes, tuner)
	mgr := inner.Manager()
	reads := rapid.IntRange(0, 4).Draw(t, "reads")
	quotaNames := vk.SortedKeys(w.quotas)
	lanes = append(lanes, []func(){func() {
		for i := 0; i < reads; i++ {
			_ = mgr.GetQuotaSummaries(true)
			_ = mgr.RefreshRuntime(quotaNames[i%len(quotaNames)])
		}
	}})

	// run: every goroutine is joined before the case goes on
	var wg sync.WaitGroup
	start := make(chan struct{})
	panics := make([]any, len(lanes))
	for g := range lanes {
		wg.Add(1)
		go func(g int) {
			defer wg.Done()
			defer func() { panics[g] = recover() }()
			<-start
			for _, call := range lanes[g] {
				call()
			}
		}(g)
	}
	close(start)
	wg.Wait()
	w.begin("concurrent")
	total := 0
	for g := range lanes {
		total += len(lanes[g])
		if panics[g] != nil {
			w.violation(t, "concurrent:panic", "goroutine %d panicked: %v", g, panics[g])
			return
		}
	}
	w.log("-- the %d calls above were issued from %d goroutines (%d with pod operations), quota retuning calls=%d, reader rounds=%d", total, len(lanes), busy, len(tuner), reads)
	w.check(t)
	w.differential(t, "after concurrent run")

	c.Class("concurrent")
	c.ClassIf(w.sawOverMax, "over-max")
	c.ClassIf(w.sawMinRaise, "non-lent-min-raise")
	c.ClassIf(w.sawCrossQuota, "pod-moved-between-quotas")
	c.ClassIf(w.sawUnreserve, "unreserve")
	c.ClassIf(len(tuner) > 0, "quota-retuned-concurrently")
	c.ClassIf(busy >= 4, "pod-goroutines>=4")
	if busy >= 2 && total >= 6 {
		c.NonTrivial(w.hist, ng)
	}
	if c.WantSample() {
		c.Sample(map[string]any{"flags": flags.String(), "goroutines": len(lanes), "history": w.hist})
	}
}

// ---------------------------------------------------------------- concurrent bursts around a leaf's max

type c01BurstStep struct {
	Pod     int   // index into the goroutine's own pods
	Present bool  // true: the pod exists with request Units afterwards (add, or resize); false: the pod is gone afterwards
	Units   int64 // request in units (both dimensions, or cpu only for a cpu-only pod)
}

func (s c01BurstStep) String() string {
	if !s.Present {
		return fmt.Sprintf("pod%d:absent", s.Pod)
	}
	return fmt.Sprintf("pod%d:present(%d)", s.Pod, s.Units)
}

var c01BurstUnit = c01Vec{1000, 1 << 20}

// c01RunBurst: a chain root <- ancestors <- leaf with a small leaf max; 2-6 goroutines, each owning its own pods, each
// applying a generated list of add / resize / delete events (a generated pattern repeated a generated number of times)
// whose requests are chosen around the leaf's max, so that the leaf's summed request keeps crossing it. All goroutines
// are joined, then the usual oracle runs at quiescence: every figure must be what the FINAL live pod set implies
// (from-scratch recomputation + fresh manager). The final pod set does not depend on the schedule (each pod belongs to
// one goroutine), so the verdict on correct code is schedule-independent; whether a lost update is provoked is not.
func c01RunBurst(t *rapid.T, rec *vk.Rec, mk func(scaleMin bool, sysMax, defMax corev1.ResourceList) c01Driver) {
	c := rec.Begin()
	defer c.End()
	c01SetIgnoreTerminating(false)
	w := c01NewWorld(t, c, c01Flags{ScaleMin: rapid.Bool().Draw(t, "scaleMin")}, mk)
	mkQuota := func(q *c01Quota) bool {
		w.begin("quotaCreate")
		w.quotas[q.Name] = q
		w.log("quotaCreate %s", q)
		if err := w.upsert(q); err != nil {
			w.violation(t, "quotaCreate:error", "UpdateQuota(%s) returned %v", q, err)
		}
		w.check(t)
		return !w.dead
	}
	scale := func(units int64) c01Vec { return c01Vec{units * c01BurstUnit[0], units * c01BurstUnit[1]} }
	// ancestors
	parent := extension.RootQuotaName
	depth := rapid.IntRange(1, 3).Draw(t, "ancestors")
	for i := 0; i < depth; i++ {
		q := &c01Quota{Name: c01QuotaNames[i], Parent: parent, IsParent: true, AllowLent: rapid.IntRange(0, 3).Draw(t, "ancestorLent") > 0,
			Max: scale(rapid.SampledFrom([]int64{1000, 1000, 1000, 8, 20}).Draw(t, "ancestorMax"))}
		if !q.AllowLent {
			q.Min, q.MinHas = scale(rapid.Int64Range(0, 4).Draw(t, "ancestorMin")), c01Both
		}
		if !mkQuota(q) {
			return
		}
		parent = q.Name
	}
	leafMax := rapid.Int64Range(2, 12).Draw(t, "leafMaxUnits")
	leaf := &c01Quota{Name: "q5", Parent: parent, AllowLent: rapid.IntRange(0, 3).Draw(t, "leafLent") > 0, Max: scale(leafMax)}
	if rapid.IntRange(0, 3).Draw(t, "memoryUncapped") == 0 {
		leaf.Max[1] = 1 << 50
	}
	if !leaf.AllowLent {
		leaf.Min, leaf.MinHas = scale(rapid.Int64Range(0, leafMax/2).Draw(t, "leafMin")), c01Both
	}
	if !mkQuota(leaf) {
		return
	}
	specFor := func(name string, units int64, cpuOnly, bound bool, rv int) c01PodSpec {
		r := c01Res{Has: c01Both, Val: scale(units)}
		if cpuOnly {
			r.Has[1], r.Val[1] = false, 0
		}
		sp := c01PodSpec{Name: name, Label: leaf.Name, Ctrs: []c01Res{r}, RV: rv}
		if bound {
			sp.Node = "node-a"
		}
		return sp
	}
	// a base load that stays
	base := rapid.Int64Range(0, leafMax-1).Draw(t, "baseUnits")
	if rapid.IntRange(0, 5).Draw(t, "baseAtOrAboveMax") == 0 {
		base = leafMax + rapid.Int64Range(0, 1).Draw(t, "baseExtra")
	}
	if base > 0 {
		sp := specFor("base", base, false, rapid.Bool().Draw(t, "baseBound"), 1)
		p := &c01Pod{Spec: sp, Obj: sp.build(), In: leaf.Name, Assigned: sp.Node != ""}
		w.pods["base"] = p
		w.begin("podAdd")
		w.log("podAdd %s -> %s", sp, leaf.Name)
		w.plugPodAdd(p)
		w.check(t)
		if w.dead {
			return
		}
	}
	gap := leafMax - base // what is missing to reach the max
	if gap < 1 {
		gap = 1
	}
	// the goroutines' event lists
	ng := rapid.IntRange(2, 6).Draw(t, "goroutines")
	inner := w.drv
	lanes := make([][]func(), ng)
	crossers, growers, total := 0, 0, 0
	for g := 0; g < ng; g++ {
		npods := rapid.IntRange(1, 2).Draw(t, "ownPods")
		cpuOnly := make([]bool, npods)
		bound := make([]bool, npods)
		for i := range cpuOnly {
			cpuOnly[i] = rapid.IntRange(0, 3).Draw(t, "cpuOnly") == 0
			bound[i] = rapid.IntRange(0, 2).Draw(t, "bound") == 0
		}
		// request sizes around the boundary: small ones, and ones that carry the leaf to / over its max
		sizes := []int64{1, 1, 2, gap, gap + 1, leafMax}
		var pattern []c01BurstStep
		role := rapid.IntRange(0, 3).Draw(t, "role")
		switch {
		case g == 0 && role > 0: // one pod whose presence alone saturates the leaf comes and goes
			pattern = []c01BurstStep{{0, true, gap + rapid.Int64Range(0, 1).Draw(t, "bigExtra")}, {0, false, 0}}
		case role == 1: // a small pod comes and goes
			pattern = []c01BurstStep{{0, true, rapid.Int64Range(1, 2).Draw(t, "small")}, {0, false, 0}}
		default:
			n := rapid.IntRange(2, 6).Draw(t, "patternLen")
			for k := 0; k < n; k++ {
				st := c01BurstStep{Pod: rapid.IntRange(0, npods-1).Draw(t, "stepPod"), Present: rapid.IntRange(0, 2).Draw(t, "stepPresent") > 0}
				if st.Present {
					st.Units = rapid.SampledFrom(sizes).Draw(t, "stepUnits")
				}
				pattern = append(pattern, st)
			}
		}
		reps := rapid.IntRange(1, 400).Draw(t, "repetitions")
		// expand: what each step means depends on the pod's state at that point of this goroutine's own list
		cur := make([]*c01Pod, npods)
		rv := 0
		grows, shrinks := false, false
		for r := 0; r < reps; r++ {
			for _, st := range pattern {
				name := fmt.Sprintf("g%dp%d", g, st.Pod)
				old := cur[st.Pod]
				switch {
				case st.Present && old == nil:
					rv++
					sp := specFor(name, st.Units, cpuOnly[st.Pod], bound[st.Pod], rv)
					p := &c01Pod{Spec: sp, Obj: sp.build(), In: leaf.Name, Assigned: sp.Node != ""}
					cur[st.Pod] = p
					obj := p.Obj
					lanes[g] = append(lanes[g], func() { inner.PodAdd(leaf.Name, obj) })
					grows = true
				case st.Present && old.Spec.Ctrs[0].Val[0] != st.Units*c01BurstUnit[0]:
					rv++
					sp := specFor(name, st.Units, cpuOnly[st.Pod], bound[st.Pod], rv)
					p := &c01Pod{Spec: sp, Obj: sp.build(), In: leaf.Name, Assigned: old.Assigned}
					cur[st.Pod] = p
					oldObj, obj := old.Obj, p.Obj
					lanes[g] = append(lanes[g], func() { inner.PodUpdate(leaf.Name, leaf.Name, obj, oldObj) })
					grows, shrinks = true, true
				case !st.Present && old != nil:
					cur[st.Pod] = nil
					obj := old.Obj
					lanes[g] = append(lanes[g], func() { inner.PodDelete(leaf.Name, obj) })
					shrinks = true
				}
			}
		}
		for i, p := range cur {
			if p != nil {
				w.pods[fmt.Sprintf("g%dp%d", g, i)] = p
			}
		}
		total += len(lanes[g])
		if grows {
			growers++
		}
		if grows && shrinks && len(lanes[g]) >= 50 {
			crossers++
		}
		w.log("goroutine %d: pods=%d cpuOnly=%v bound=%v pattern=%v x %d -> %d calls", g, npods, cpuOnly, bound, pattern, reps, len(lanes[g]))
	}
	var wg sync.WaitGroup
	start := make(chan struct{})
	panics := make([]any, ng)
	for g := range lanes {
		wg.Add(1)
		go func(g int) {
			defer wg.Done()
			defer func() { panics[g] = recover() }()
			<-start
			for _, call := range lanes[g] {
				call()
			}
		}(g)
	}
	close(start)
	wg.Wait() // no goroutine outlives the case
	w.begin("burst")
	for g := range panics {
		if panics[g] != nil {
			w.violation(t, "burst:panic", "goroutine %d panicked: %v", g, panics[g])
			return
		}
	}
	w.log("-- %d calls issued from %d goroutines released together; leaf max=%d units, base=%d units", total, ng, leafMax, base)
	w.check(t)
	w.differential(t, "after concurrent bursts")

	c.Class("burst")
	c.ClassIf(w.sawOverMax, "leaf-over-max-at-quiescence")
	c.ClassIf(base < leafMax, "base-below-leaf-max")
	c.ClassIf(crossers >= 2, "two-goroutines-growing-and-shrinking")
	c.ClassIf(total >= 1000, "calls>=1000")
	c.ClassIf(depth >= 2, "ancestors>=2")
	if crossers >= 1 && growers >= 2 && total >= 200 {
		c.NonTrivial(w.hist)
	}
	if c.WantSample() {
		c.Sample(map[string]any{"goroutines": ng, "history": w.hist})
	}
}
