//go:build verif

// C01 unit "plugin": the same generated histories as the core unit, but every event goes through the real Plugin
// (OnQuota{Add,Update,Delete}, OnPod{Add,Update,Delete}, Reserve/Unreserve, migrateDefaultQuotaGroupsPod), so the
// label -> quota routing, the default-quota fall-back and the quota-to-tree map of pod_handler.go / quota_handler.go /
// plugin_helper.go are inside the loop. The model computes the routing itself and ignores the routes it passes down.
// Model, oracle and generator: c01_model_plugin_test.go (copy of c01_model_core_test.go).
package elasticquota

import (
	"context"
	"io"
	"testing"

	corev1 "k8s.io/api/core/v1"
	"k8s.io/klog/v2"
	"k8s.io/kubernetes/pkg/scheduler/framework"
	"pgregory.net/rapid"

	"github.com/koordinator-sh/koordinator/apis/thirdparty/scheduler-plugins/pkg/apis/scheduling/v1alpha1"
	"github.com/koordinator-sh/koordinator/pkg/scheduler/apis/config"
	frameworkexthelper "github.com/koordinator-sh/koordinator/pkg/scheduler/frameworkext/helper"
	"github.com/koordinator-sh/koordinator/pkg/scheduler/plugins/elasticquota/core"
	"github.com/koordinator-sh/koordinator/pkg/verifkit/vk"
)

type c01Manager = core.GroupQuotaManager
type c01Summary = core.QuotaInfoSummary

func c01NewManager(scaleMin bool, sysMax, defMax corev1.ResourceList) *c01Manager {
	return core.NewGroupQuotaManager("", scaleMin, sysMax, defMax)
}

func c01Quiet() {
	var l klog.Level
	_ = l.Set("0")
	klog.LogToStderr(false)
	klog.SetOutput(io.Discard)
}

type c01PluginDriver struct{ pl *Plugin }

func (d *c01PluginDriver) Manager() *c01Manager { return d.pl.groupQuotaManager }

func (d *c01PluginDriver) QuotaUpsert(old, new *v1alpha1.ElasticQuota) error {
	if old == nil {
		d.pl.OnQuotaAdd(new)
	} else {
		d.pl.OnQuotaUpdate(old, new)
	}
	return nil
}
func (d *c01PluginDriver) QuotaDelete(obj *v1alpha1.ElasticQuota) error {
	d.pl.OnQuotaDelete(obj)
	return nil
}
func (d *c01PluginDriver) PodAdd(_ string, pod *corev1.Pod) { d.pl.OnPodAdd(pod) }
func (d *c01PluginDriver) PodUpdate(_, _ string, newPod, oldPod *corev1.Pod) {
	d.pl.OnPodUpdate(oldPod, newPod)
}
func (d *c01PluginDriver) PodDelete(_ string, pod *corev1.Pod) { d.pl.OnPodDelete(pod) }
func (d *c01PluginDriver) Reserve(_ string, assumed *corev1.Pod) {
	d.pl.Reserve(context.TODO(), framework.NewCycleState(), assumed, assumed.Spec.NodeName)
}
func (d *c01PluginDriver) Unreserve(_ string, assumed *corev1.Pod) {
	d.pl.Unreserve(context.TODO(), framework.NewCycleState(), assumed, assumed.Spec.NodeName)
}
func (d *c01PluginDriver) MigrateCycle(func(string) string) { d.pl.migrateDefaultQuotaGroupsPod() }
func (d *c01PluginDriver) NodeAdd(n *corev1.Node)           { d.pl.OnNodeAdd(n) }
func (d *c01PluginDriver) NodeUpdate(old, n *corev1.Node)   { d.pl.OnNodeUpdate(old, n) }
func (d *c01PluginDriver) NodeDelete(n *corev1.Node)        { d.pl.OnNodeDelete(n) }

// c01PluginMaker: one suite (fake clients, framework handle) for the whole test; every case gets a fresh Plugin from it.
// The plugin's informers are never started: events reach it only through the handler calls made by the driver.
func c01PluginMaker(t *testing.T) func(scaleMin bool, sysMax, defMax corev1.ResourceList) c01Driver {
	suit := newPluginTestSuit(t, nil, func(args *config.ElasticQuotaArgs) {})
	c01Quiet()
	return func(scaleMin bool, sysMax, defMax corev1.ResourceList) c01Driver {
		args := suit.elasticQuotaArgs.DeepCopy()
		args.EnableMinQuotaScale = scaleMin
		args.SystemQuotaGroupMax = sysMax
		args.DefaultQuotaGroupMax = defMax
		frameworkexthelper.ResetRegistrations()
		p, err := suit.proxyNew(context.TODO(), args, suit.Handle)
		if err != nil {
			t.Fatalf("cannot create plugin: %v", err)
		}
		return &c01PluginDriver{p.(*Plugin)}
	}
}

func TestVerifC01PluginHistory(t *testing.T) {
	rec := vk.New(t, "C01", "pluginHistory")
	mk := c01PluginMaker(t)
	rapid.Check(t, func(t *rapid.T) { c01RunHistory(t, rec, mk) })
}

func TestVerifC01PluginParked(t *testing.T) {
	rec := vk.New(t, "C01", "pluginParkedReserve")
	mk := c01PluginMaker(t)
	rapid.Check(t, func(t *rapid.T) { c01RunParked(t, rec, mk) })
}
