//go:build verif

// C01 unit "plugin": the same generated histories as the core unit, but every event goes through the real Plugin
// (OnQuota{Add,Update,Delete}, OnPod{Add,Update,Delete}, Reserve/Unreserve, migrateDefaultQuotaGroupsPod), so the
// label -> quota routing, the default-quota fall-back and the quota-to-tree map of pod_handler.go / quota_handler.go /
// plugin_helper.go are inside the loop. The model computes the routing itself and ignores the routes it passes down.
// Model, oracle and generator: c01_model_plugin_test.go (copy of c01_model_core_test.go).
package elasticquota

import (
	"context"
	"flag"
	"io"
	"testing"

	corev1 "k8s.io/api/core/v1"
	"k8s.io/client-go/tools/cache"
	"k8s.io/klog/v2"
	"k8s.io/kubernetes/pkg/scheduler/framework"
	"pgregory.net/rapid"

	"github.com/koordinator-sh/koordinator/apis/extension"
	"github.com/koordinator-sh/koordinator/apis/thirdparty/scheduler-plugins/pkg/apis/scheduling/v1alpha1"
	"github.com/koordinator-sh/koordinator/pkg/scheduler/apis/config"
	frameworkexthelper "github.com/koordinator-sh/koordinator/pkg/scheduler/frameworkext/helper"
	"github.com/koordinator-sh/koordinator/pkg/scheduler/plugins/elasticquota/core"
	"github.com/koordinator-sh/koordinator/pkg/verifkit/vk"
)

type c01Manager = core.GroupQuotaManager
type c01Summary = core.QuotaInfoSummary

func c01NewManager(scaleMin bool, sysMax, defMax corev1.ResourceList) *c01Manager {
	return core.NewGroupQuotaManager("", scaleMin, sysMax, defMax)
}

func c01NewTreeManager(tree string, scaleMin bool, sysMax, defMax corev1.ResourceList) *c01Manager {
	return core.NewGroupQuotaManager(tree, scaleMin, sysMax, defMax)
}

func c01Quiet() {
	var l klog.Level
	_ = l.Set("0")
	klog.LogToStderr(false)
	klog.SetOutput(io.Discard)
	// errors would still be copied to stderr (the manager logs one for every refused double add / remove)
	fs := flag.NewFlagSet("c01-klog", flag.ContinueOnError)
	klog.InitFlags(fs)
	_ = fs.Set("stderrthreshold", "FATAL")
}

type c01PluginDriver struct {
	pl     *Plugin
	counts map[string]int
}

// c01Tombstone: a delete the watch missed is replayed by the informer as a cache.DeletedFinalStateUnknown VALUE holding
// the last known object. Which deletes take that form is derived from generated data (name and resource version of the
// object, i.e. how often it was updated), not drawn, so the draw sequence of a history stays what it was.
func c01Tombstone(name, resourceVersion string) bool {
	n := int(name[len(name)-1])
	if resourceVersion != "" {
		n += int(resourceVersion[len(resourceVersion)-1])
	}
	return n%2 == 1
}

func (d *c01PluginDriver) c01Counts() map[string]int { return d.counts }

func (d *c01PluginDriver) Manager() *c01Manager { return d.pl.groupQuotaManager }
func (d *c01PluginDriver) Summaries() map[string]map[string]*c01Summary {
	out := map[string]map[string]*c01Summary{"": d.pl.groupQuotaManager.GetQuotaSummaries(true)}
	for _, mgr := range d.pl.ListGroupQuotaManagersForQuotaTree() {
		out[mgr.GetTreeID()] = mgr.GetQuotaSummaries(true)
	}
	return out
}

func (d *c01PluginDriver) QuotaUpsert(old, new *v1alpha1.ElasticQuota) error {
	if old == nil {
		d.pl.OnQuotaAdd(new)
	} else {
		d.pl.OnQuotaUpdate(old, new)
	}
	return nil
}
func (d *c01PluginDriver) QuotaDelete(obj *v1alpha1.ElasticQuota) error {
	if c01Tombstone(obj.Name, obj.ResourceVersion) {
		d.counts["quota-delete-delivered-as-tombstone"]++
		d.pl.OnQuotaDelete(cache.DeletedFinalStateUnknown{Key: obj.Namespace + "/" + obj.Name, Obj: obj})
	} else {
		d.pl.OnQuotaDelete(obj)
	}
	return nil
}
func (d *c01PluginDriver) PodAdd(_ string, pod *corev1.Pod) { d.pl.OnPodAdd(pod) }
func (d *c01PluginDriver) PodUpdate(_, _ string, newPod, oldPod *corev1.Pod) {
	d.pl.OnPodUpdate(oldPod, newPod)
}
func (d *c01PluginDriver) PodDelete(_ string, pod *corev1.Pod) {
	if c01Tombstone(pod.Name, pod.ResourceVersion) {
		d.counts["pod-delete-delivered-as-tombstone"]++
		d.pl.OnPodDelete(cache.DeletedFinalStateUnknown{Key: pod.Namespace + "/" + pod.Name, Obj: pod})
	} else {
		d.pl.OnPodDelete(pod)
	}
}
func (d *c01PluginDriver) Reserve(_ string, assumed *corev1.Pod) {
	d.pl.Reserve(context.TODO(), framework.NewCycleState(), assumed, assumed.Spec.NodeName)
}
func (d *c01PluginDriver) Unreserve(_ string, assumed *corev1.Pod) {
	d.pl.Unreserve(context.TODO(), framework.NewCycleState(), assumed, assumed.Spec.NodeName)
}
func (d *c01PluginDriver) MigrateCycle(func(string) string) { d.pl.migrateDefaultQuotaGroupsPod() }

// MigrateSnapshot / MigrateOne: Plugin.migrateDefaultQuotaGroupsPod split at the point where the other goroutines get in,
// between taking the snapshot of the default quota's pods and the loop body for one pod (routing by the plugin itself).
func (d *c01PluginDriver) MigrateSnapshot() map[string]*corev1.Pod {
	return d.pl.groupQuotaManager.GetQuotaInfoByName(extension.DefaultQuotaName).GetPodCache()
}

func (d *c01PluginDriver) MigrateOne(pod *corev1.Pod, _ func(string) string) {
	quotaName, treeID := d.pl.getPodAssociateQuotaNameAndTreeID(pod)
	if quotaName == extension.DefaultQuotaName {
		return
	}
	curMgr := d.pl.GetGroupQuotaManagerForTree(treeID)
	if curMgr == nil || curMgr.GetQuotaInfoByName(quotaName) == nil {
		return
	}
	curMgr.MigratePod(pod, extension.DefaultQuotaName, quotaName)
}
func (d *c01PluginDriver) NodeAdd(n *corev1.Node)         { d.pl.OnNodeAdd(n) }
func (d *c01PluginDriver) NodeUpdate(old, n *corev1.Node) { d.pl.OnNodeUpdate(old, n) }
func (d *c01PluginDriver) NodeDelete(n *corev1.Node)      { d.pl.OnNodeDelete(n) }

// c01PluginMaker: one suite (fake clients, framework handle) for the whole test; every case gets a fresh Plugin from it.
// The plugin's informers are never started: events reach it only through the handler calls made by the driver.
func c01PluginMaker(t *testing.T) func(scaleMin bool, sysMax, defMax corev1.ResourceList) c01Driver {
	suit := newPluginTestSuit(t, nil, func(args *config.ElasticQuotaArgs) {})
	c01Quiet()
	return func(scaleMin bool, sysMax, defMax corev1.ResourceList) c01Driver {
		args := suit.elasticQuotaArgs.DeepCopy()
		args.EnableMinQuotaScale = scaleMin
		args.SystemQuotaGroupMax = sysMax
		args.DefaultQuotaGroupMax = defMax
		frameworkexthelper.ResetRegistrations()
		p, err := suit.proxyNew(context.TODO(), args, suit.Handle)
		if err != nil {
			t.Fatalf("cannot create plugin: %v", err)
		}
		return &c01PluginDriver{pl: p.(*Plugin), counts: map[string]int{}}
	}
}

func TestVerifC01PluginHistory(t *testing.T) {
	rec := vk.New(t, "C01", "pluginHistory")
	mk := c01PluginMaker(t)
	rapid.Check(t, func(t *rapid.T) { c01RunHistory(t, rec, mk) })
}

func TestVerifC01PluginParked(t *testing.T) {
	rec := vk.New(t, "C01", "pluginParkedReserve")
	mk := c01PluginMaker(t)
	rapid.Check(t, func(t *rapid.T) { c01RunParked(t, rec, mk) })
}

func TestVerifC01PluginMigrateRace(t *testing.T) {
	rec := vk.New(t, "C01", "pluginMigrateRace")
	mk := c01PluginMaker(t)
	rapid.Check(t, func(t *rapid.T) { c01RunMigrateRace(t, rec, mk) })
}

func TestVerifC01PluginMultiTree(t *testing.T) {
	rec := vk.New(t, "C01", "pluginMultiTree")
	mk := c01PluginMaker(t)
	rapid.Check(t, func(t *rapid.T) { c01RunMultiTree(t, rec, mk) })
}
