//go:build verif

// C01 unit "core": GroupQuotaManager driven directly. The driver below restates, call for call, what the plugin's
// event handlers do (pod_handler.go, quota_handler.go, plugin.go Reserve/Unreserve, plugin_helper.go
// migrateDefaultQuotaGroupsPod); the routing (label -> quota, fall-back to the default quota) comes from the model.
// Model, oracle and generator: c01_model_core_test.go.
package core

import (
	"flag"
	"io"
	"testing"

	corev1 "k8s.io/api/core/v1"
	"k8s.io/klog/v2"
	"pgregory.net/rapid"

	"github.com/koordinator-sh/koordinator/apis/extension"
	"github.com/koordinator-sh/koordinator/apis/thirdparty/scheduler-plugins/pkg/apis/scheduling/v1alpha1"
	"github.com/koordinator-sh/koordinator/pkg/verifkit/vk"
)

type c01Manager = GroupQuotaManager
type c01Summary = QuotaInfoSummary

func c01NewManager(scaleMin bool, sysMax, defMax corev1.ResourceList) *c01Manager {
	return NewGroupQuotaManager("", scaleMin, sysMax, defMax)
}

func c01NewTreeManager(tree string, scaleMin bool, sysMax, defMax corev1.ResourceList) *c01Manager {
	return NewGroupQuotaManager(tree, scaleMin, sysMax, defMax)
}

func c01Quiet() {
	klog.LogToStderr(false)
	klog.SetOutput(io.Discard)
	// errors would still be copied to stderr (the manager logs one for every refused double add / remove)
	fs := flag.NewFlagSet("c01-klog", flag.ContinueOnError)
	klog.InitFlags(fs)
	_ = fs.Set("stderrthreshold", "FATAL")
}

type c01CoreDriver struct{ gqm *GroupQuotaManager }

func c01NewCoreDriver(scaleMin bool, sysMax, defMax corev1.ResourceList) c01Driver {
	return &c01CoreDriver{c01NewManager(scaleMin, sysMax, defMax)}
}

func (d *c01CoreDriver) Manager() *c01Manager { return d.gqm }
func (d *c01CoreDriver) Summaries() map[string]map[string]*c01Summary {
	return map[string]map[string]*c01Summary{"": d.gqm.GetQuotaSummaries(true)}
}

// OnQuotaAdd / OnQuotaUpdate both end in UpdateQuota(new) (an add for a quota the manager already knows is dropped
// by the plugin; the model never re-adds a live quota).
func (d *c01CoreDriver) QuotaUpsert(old, new *v1alpha1.ElasticQuota) error {
	return d.gqm.UpdateQuota(new)
}
func (d *c01CoreDriver) QuotaDelete(obj *v1alpha1.ElasticQuota) error { return d.gqm.DeleteQuota(obj) }
func (d *c01CoreDriver) PodAdd(route string, pod *corev1.Pod)         { d.gqm.OnPodAdd(route, pod) }
func (d *c01CoreDriver) PodUpdate(newRoute, oldRoute string, newPod, oldPod *corev1.Pod) {
	d.gqm.OnPodUpdate(newRoute, oldRoute, newPod, oldPod)
}
func (d *c01CoreDriver) PodDelete(route string, pod *corev1.Pod)   { d.gqm.OnPodDelete(route, pod) }
func (d *c01CoreDriver) Reserve(route string, assumed *corev1.Pod) { d.gqm.ReservePod(route, assumed) }
func (d *c01CoreDriver) Unreserve(route string, assumed *corev1.Pod) {
	d.gqm.UnreservePod(route, assumed)
}
func (d *c01CoreDriver) NodeAdd(n *corev1.Node)         { d.gqm.OnNodeAdd(n) }
func (d *c01CoreDriver) NodeUpdate(old, n *corev1.Node) { d.gqm.OnNodeUpdate(old, n) }
func (d *c01CoreDriver) NodeDelete(n *corev1.Node)      { d.gqm.OnNodeDelete(n) }

// MigrateCycle restates Plugin.migrateDefaultQuotaGroupsPod: walk the default quota's pod cache (the objects stored
// there, exactly as the plugin does) and move every pod whose label now names an existing quota.
func (d *c01CoreDriver) MigrateCycle(route func(label string) string) {
	cache := d.gqm.GetQuotaInfoByName(extension.DefaultQuotaName).GetPodCache()
	for _, key := range vk.SortedKeys(cache) {
		pod := cache[key]
		target := route(pod.Labels[extension.LabelQuotaName])
		if target == extension.DefaultQuotaName || d.gqm.GetQuotaInfoByName(target) == nil {
			continue
		}
		d.gqm.MigratePod(pod, extension.DefaultQuotaName, target)
	}
}

func (d *c01CoreDriver) MigrateSnapshot() map[string]*corev1.Pod {
	return d.gqm.GetQuotaInfoByName(extension.DefaultQuotaName).GetPodCache()
}

func (d *c01CoreDriver) MigrateOne(pod *corev1.Pod, route func(label string) string) {
	target := route(pod.Labels[extension.LabelQuotaName])
	if target == extension.DefaultQuotaName || d.gqm.GetQuotaInfoByName(target) == nil {
		return
	}
	d.gqm.MigratePod(pod, extension.DefaultQuotaName, target)
}

func TestVerifC01CoreHistory(t *testing.T) {
	c01Quiet()
	rec := vk.New(t, "C01", "coreHistory")
	rapid.Check(t, func(t *rapid.T) { c01RunHistory(t, rec, c01NewCoreDriver) })
}

func TestVerifC01Concurrent(t *testing.T) {
	c01Quiet()
	rec := vk.New(t, "C01", "coreConcurrent")
	rapid.Check(t, func(t *rapid.T) { c01RunConcurrent(t, rec, c01NewCoreDriver) })
}

func TestVerifC01CoreParked(t *testing.T) {
	c01Quiet()
	rec := vk.New(t, "C01", "coreParkedReserve")
	rapid.Check(t, func(t *rapid.T) { c01RunParked(t, rec, c01NewCoreDriver) })
}

func TestVerifC01ConcurrentBurst(t *testing.T) {
	c01Quiet()
	rec := vk.New(t, "C01", "coreConcurrentBurst")
	rapid.Check(t, func(t *rapid.T) { c01RunBurst(t, rec, c01NewCoreDriver) })
}

func TestVerifC01CoreMigrateRace(t *testing.T) {
	c01Quiet()
	rec := vk.New(t, "C01", "coreMigrateRace")
	rapid.Check(t, func(t *rapid.T) { c01RunMigrateRace(t, rec, c01NewCoreDriver) })
}
