//go:build verif

// C13 (mutating half) — when the mutating webhook translates a mid/batch pod's cpu and memory into the tier's extended
// resources, every container's request and limit keep their amounts (cpu in milli-cores), the native entries are removed,
// the per-container summary annotation matches the final spec, and admitting the result again changes nothing.
// See /verif/DESIGN.md §1 C13. In-package harness (injected with -overlay).
package mutating

import (
	"context"
	"encoding/json"
	"fmt"
	"math/big"
	"strings"
	"testing"

	admissionv1 "k8s.io/api/admission/v1"
	corev1 "k8s.io/api/core/v1"
	schedulingv1 "k8s.io/api/scheduling/v1"
	"k8s.io/apimachinery/pkg/api/resource"
	metav1 "k8s.io/apimachinery/pkg/apis/meta/v1"
	"k8s.io/apimachinery/pkg/runtime"
	"k8s.io/apimachinery/pkg/util/intstr"
	"pgregory.net/rapid"
	"sigs.k8s.io/controller-runtime/pkg/client/fake"
	"sigs.k8s.io/controller-runtime/pkg/webhook/admission"

	configv1alpha1 "github.com/koordinator-sh/koordinator/apis/config/v1alpha1"
	"github.com/koordinator-sh/koordinator/pkg/features"
	utilfeature "github.com/koordinator-sh/koordinator/pkg/util/feature"
	"github.com/koordinator-sh/koordinator/pkg/verifkit/vk"
)

// ---------------------------------------------------------------- names restated from the documentation (not taken from the code)

const (
	c13LabelQoS       = "koordinator.sh/qosClass"
	c13LabelPrioClass = "koordinator.sh/priority-class"
	c13AnnoExtSpec    = "node.koordinator.sh/extended-resource-spec"
	c13AnnoSkipRes    = "config.koordinator.sh/skip-update-resources"
	c13BatchCPU       = corev1.ResourceName("kubernetes.io/batch-cpu")
	c13BatchMem       = corev1.ResourceName("kubernetes.io/batch-memory")
	c13MidCPU         = corev1.ResourceName("kubernetes.io/mid-cpu")
	c13MidMem         = corev1.ResourceName("kubernetes.io/mid-memory")
	c13SelKey         = "verif/sel"
	c13NsKey          = "enable-koordinator-colocation"
)

var c13Ranges = []struct {
	Class    string
	Min, Max int32
}{{"koord-prod", 9000, 9999}, {"koord-mid", 7000, 7999}, {"koord-batch", 5000, 5999}, {"koord-free", 3000, 3999}}

func c13QoSOf(labels map[string]string) string {
	switch v := labels[c13LabelQoS]; v {
	case "LSE", "LSR", "LS", "BE", "SYSTEM":
		return v
	}
	return ""
}

func c13PrioOf(labels map[string]string, prio *int32) string {
	if v, ok := labels[c13LabelPrioClass]; ok {
		switch v {
		case "koord-prod", "koord-mid", "koord-batch", "koord-free":
			return v
		}
		return ""
	}
	if prio == nil {
		return ""
	}
	for _, r := range c13Ranges {
		if *prio >= r.Min && *prio <= r.Max {
			return r.Class
		}
	}
	return ""
}

// the tier's extended resource names (only mid and batch have any)
func c13ExtNames(tier string) (cpu, mem corev1.ResourceName) {
	switch tier {
	case "koord-batch":
		return c13BatchCPU, c13BatchMem
	case "koord-mid":
		return c13MidCPU, c13MidMem
	}
	return "", ""
}

// ---------------------------------------------------------------- quantities with an exact model

type c13Qty struct {
	Str string
	Val *big.Rat
}

func (q c13Qty) Q() resource.Quantity { return resource.MustParse(q.Str) }

var c13Pow10 = []int64{1, 10, 100, 1000, 10000, 100000, 1000000, 10000000, 100000000, 1000000000}

func c13FmtNano(n int64, decimal bool) string {
	if n == 0 {
		return "0"
	}
	if decimal {
		ip, fp := n/1e9, n%1e9
		if fp == 0 {
			return fmt.Sprintf("%d", ip)
		}
		return strings.TrimRight(fmt.Sprintf("%d.%09d", ip, fp), "0")
	}
	switch {
	case n%1e9 == 0:
		return fmt.Sprintf("%d", n/1e9)
	case n%1e6 == 0:
		return fmt.Sprintf("%dm", n/1e6)
	case n%1e3 == 0:
		return fmt.Sprintf("%du", n/1e3)
	}
	return fmt.Sprintf("%dn", n)
}

func c13NanoQty(n int64, decimal bool) c13Qty {
	return c13Qty{Str: c13FmtNano(n, decimal), Val: big.NewRat(n, 1e9)}
}

func c13GenCPU(t *rapid.T, label string) c13Qty {
	dec := rapid.Bool().Draw(t, label+"Dec")
	switch rapid.IntRange(0, 10).Draw(t, label+"Kind") {
	case 0:
		return c13Qty{"0", new(big.Rat)}
	case 1:
		return c13NanoQty(1e6, dec) // 1m
	case 2: // below one milli-core
		return c13NanoQty(rapid.SampledFrom([]int64{5e5, 1, 999999, 1e5, 1e3}).Draw(t, label+"SubMilli"), dec)
	case 3:
		k := rapid.SampledFrom([]int64{1, 1, 2, 3, 4, 8, 16, 64}).Draw(t, label+"Whole")
		if rapid.Bool().Draw(t, label+"AsMilli") {
			return c13Qty{fmt.Sprintf("%dm", k*1000), big.NewRat(k, 1)}
		}
		return c13NanoQty(k*1e9, dec)
	case 4:
		return c13NanoQty(rapid.SampledFrom([]int64{5e8, 15e8, 25e7, 1e8}).Draw(t, label+"Frac"), dec)
	case 5: // just off a whole milli / whole core
		k := rapid.Int64Range(0, 4).Draw(t, label+"Near")
		off := rapid.SampledFrom([]int64{1, 5e5, 1e6, 999999, 1e5, 1500000, 1000001}).Draw(t, label+"Off")
		return c13NanoQty(k*1e9+off, dec)
	case 6:
		return c13NanoQty(rapid.Int64Range(1, 256000).Draw(t, label+"Milli")*1e6, dec)
	case 7:
		return c13NanoQty(rapid.Int64Range(1, 4e9).Draw(t, label+"Nano"), dec)
	case 8:
		return c13NanoQty(rapid.Int64Range(1, 1024).Draw(t, label+"K")*1e9, dec)
	case 9:
		return c13NanoQty(rapid.Int64Range(1, 4e6).Draw(t, label+"Micro")*1e3, dec)
	default:
		s := rapid.SampledFrom([]struct {
			S        string
			Num, Den int64
		}{{"1e-3", 1, 1000}, {"100e-3", 1, 10}, {"0.1", 1, 10}, {"999m", 999, 1000}, {"1001m", 1001, 1000}, {"0.000000001", 1, 1e9}, {"1M", 1e6, 1},
			{"1E3", 1000, 1}, {"1k", 1000, 1}, {"2Ki", 2048, 1}, {"2.000", 2, 1}, {"1.0005", 10005, 10000}}).Draw(t, label+"Odd")
		return c13Qty{s.S, big.NewRat(s.Num, s.Den)}
	}
}

var c13MemSuffix = []struct {
	S        string
	Num, Den int64
}{{"", 1, 1}, {"", 1, 1}, {"k", 1e3, 1}, {"M", 1e6, 1}, {"G", 1e9, 1}, {"T", 1e12, 1}, {"Ki", 1 << 10, 1}, {"Mi", 1 << 20, 1}, {"Mi", 1 << 20, 1},
	{"Gi", 1 << 30, 1}, {"Gi", 1 << 30, 1}, {"Ti", 1 << 40, 1}, {"m", 1, 1000}, {"e3", 1000, 1}, {"e6", 1e6, 1}}

func c13GenMem(t *rapid.T, label string) c13Qty {
	if rapid.IntRange(0, 11).Draw(t, label+"Zero") == 0 {
		return c13Qty{"0", new(big.Rat)}
	}
	mant := rapid.OneOf(rapid.Int64Range(1, 64), rapid.Int64Range(1, 99999)).Draw(t, label+"Mant")
	suf := rapid.SampledFrom(c13MemSuffix).Draw(t, label+"Suf")
	f := 0
	if suf.S != "m" {
		f = rapid.SampledFrom([]int{0, 0, 0, 1, 2, 3}).Draw(t, label+"FracDigits")
	}
	val := new(big.Rat).Mul(big.NewRat(mant, c13Pow10[f]), big.NewRat(suf.Num, suf.Den))
	var s string
	if f == 0 {
		s = fmt.Sprintf("%d%s", mant, suf.S)
	} else {
		s = fmt.Sprintf("%d.%0*d%s", mant/c13Pow10[f], f, mant%c13Pow10[f], suf.S)
	}
	return c13Qty{s, val}
}

// milliCeil = the amount in thousandths rounded up (the documented rounding of Quantity.MilliValue)
func c13MilliCeil(v *big.Rat) *big.Rat {
	num := new(big.Int).Mul(v.Num(), big.NewInt(1000))
	q, m := new(big.Int).DivMod(num, v.Denom(), new(big.Int))
	if m.Sign() > 0 {
		q.Add(q, big.NewInt(1))
	}
	return new(big.Rat).SetInt(q)
}

// exact value of a Quantity found in an object
func c13QRat(q resource.Quantity) *big.Rat {
	cp := q.DeepCopy()
	d := cp.AsDec()
	r := new(big.Rat).SetInt(d.UnscaledBig())
	sc := int64(d.Scale()) // value = unscaled * 10^-scale
	p := new(big.Int).Exp(big.NewInt(10), big.NewInt(abs64(sc)), nil)
	if sc > 0 {
		r.Quo(r, new(big.Rat).SetInt(p))
	} else if sc < 0 {
		r.Mul(r, new(big.Rat).SetInt(p))
	}
	return r
}

func abs64(v int64) int64 {
	if v < 0 {
		return -v
	}
	return v
}

// ---------------------------------------------------------------- pod model

type c13RLModel map[corev1.ResourceName]c13Qty

type c13Cont struct {
	Name     string
	Req, Lim c13RLModel
}

type c13Pod struct {
	Labels      map[string]string
	Annotations map[string]string
	Priority    *int32
	Conts       []c13Cont
	Inits       []c13Cont
	Overhead    c13RLModel
}

func c13RL(m c13RLModel) corev1.ResourceList {
	if m == nil {
		return nil
	}
	rl := corev1.ResourceList{}
	for k, v := range m {
		rl[k] = v.Q()
	}
	return rl
}

func c13RLStr(m c13RLModel) map[string]string {
	out := map[string]string{}
	for k, v := range m {
		out[string(k)] = v.Str
	}
	return out
}

func (p *c13Pod) build() *corev1.Pod {
	pod := &corev1.Pod{}
	pod.Name = "p"
	pod.Namespace = "default"
	pod.Labels = p.Labels
	pod.Annotations = p.Annotations
	pod.Spec.Priority = p.Priority
	mk := func(in []c13Cont) []corev1.Container {
		var out []corev1.Container
		for _, c := range in {
			out = append(out, corev1.Container{Name: c.Name, Image: "img", Resources: corev1.ResourceRequirements{Requests: c13RL(c.Req), Limits: c13RL(c.Lim)}})
		}
		return out
	}
	pod.Spec.Containers = mk(p.Conts)
	pod.Spec.InitContainers = mk(p.Inits)
	pod.Spec.Overhead = c13RL(p.Overhead)
	return pod
}

func (p *c13Pod) render() map[string]any {
	rc := func(in []c13Cont) []map[string]any {
		var out []map[string]any
		for _, c := range in {
			out = append(out, map[string]any{"name": c.Name, "requests": c13RLStr(c.Req), "limits": c13RLStr(c.Lim)})
		}
		return out
	}
	m := map[string]any{"labels": p.Labels, "annotations": p.Annotations, "containers": rc(p.Conts), "initContainers": rc(p.Inits), "overhead": c13RLStr(p.Overhead)}
	if p.Priority != nil {
		m["priority"] = *p.Priority
	}
	return m
}

func c13JSON(v any) string {
	b, err := json.Marshal(v)
	if err != nil {
		panic(err)
	}
	return string(b)
}

// ---------------------------------------------------------------- generators

// c13Rare is true in about one case out of n. (rapid's small integer ranges favour their low end far beyond 1/n, so a rare
// switch is taken from the residue of a wide draw; 0 — where shrinking ends — means "off".)
func c13Rare(t *rapid.T, label string, n int) bool {
	return rapid.IntRange(0, 1<<30).Draw(t, label)%n == n/2
}

// shape: which of request / limit carry the resource
func c13GenPair(t *rapid.T, label string, gen func(*rapid.T, string) c13Qty, rn corev1.ResourceName, req, lim c13RLModel) {
	switch rapid.IntRange(0, 6).Draw(t, label+"Shape") {
	case 0: // absent
	case 1, 2: // limit without a request
		lim[rn] = gen(t, label+"L")
	case 3: // request only
		req[rn] = gen(t, label+"R")
	case 4: // different amounts
		req[rn] = gen(t, label+"R")
		lim[rn] = gen(t, label+"L")
	default:
		q := gen(t, label)
		req[rn], lim[rn] = q, q
	}
}

func c13GenExtCPU(t *rapid.T, label string) c13Qty { // extended cpu is a count of milli-cores
	if rapid.IntRange(0, 7).Draw(t, label+"Zero") == 0 {
		return c13Qty{"0", new(big.Rat)}
	}
	m := rapid.Int64Range(1, 64000).Draw(t, label+"Milli")
	return c13Qty{fmt.Sprintf("%d", m), big.NewRat(m, 1)}
}

func c13GenResources(t *rapid.T, label string, extMode int) (req, lim c13RLModel) {
	req, lim = c13RLModel{}, c13RLModel{}
	c13GenPair(t, label+"CPU", c13GenCPU, corev1.ResourceCPU, req, lim)
	c13GenPair(t, label+"Mem", c13GenMem, corev1.ResourceMemory, req, lim)
	if extMode > 0 { // batch / mid resources requested directly
		cpuN, memN := c13BatchCPU, c13BatchMem
		if extMode == 2 {
			cpuN, memN = c13MidCPU, c13MidMem
		}
		c13GenPair(t, label+"ExtCPU", c13GenExtCPU, cpuN, req, lim)
		c13GenPair(t, label+"ExtMem", c13GenMem, memN, req, lim)
	}
	if rapid.IntRange(0, 7).Draw(t, label+"Other") == 0 { // something the translation must leave alone
		q := c13Qty{"1", big.NewRat(1, 1)}
		rn := rapid.SampledFrom([]corev1.ResourceName{"nvidia.com/gpu", corev1.ResourceEphemeralStorage, "hugepages-2Mi"}).Draw(t, label+"OtherName")
		req[rn], lim[rn] = q, q
	}
	if len(req) == 0 && rapid.Bool().Draw(t, label+"NilReq") {
		req = nil
	}
	if len(lim) == 0 && rapid.Bool().Draw(t, label+"NilLim") {
		lim = nil
	}
	return req, lim
}

func c13GenPod(t *rapid.T) *c13Pod {
	p := &c13Pod{Labels: map[string]string{c13SelKey: "a", "app": "x"}}
	switch q := rapid.SampledFrom([]string{"BE", "BE", "BE", "LS", "LS", "LSR", "LSE", "SYSTEM", "-", "-", "", "be"}).Draw(t, "qosLabel"); q {
	case "-":
	default:
		p.Labels[c13LabelQoS] = q
	}
	// priority: mostly batch / mid, expressed through the value, the class label, or left to a profile
	switch rapid.IntRange(0, 9).Draw(t, "prioHow") {
	case 0, 1: // nothing on the pod
	case 2: // class label (value arbitrary, possibly disagreeing)
		p.Labels[c13LabelPrioClass] = rapid.SampledFrom([]string{"koord-batch", "koord-batch", "koord-mid", "koord-mid", "koord-prod", "koord-free", "", "junk"}).Draw(t, "prioLabel")
		if rapid.Bool().Draw(t, "prioLabelWithValue") {
			v := rapid.SampledFrom([]int32{0, 3500, 5500, 7500, 9500}).Draw(t, "prioLabelValue")
			p.Priority = &v
		}
	case 3: // between / outside the ranges
		v := rapid.SampledFrom([]int32{0, -1, 2999, 4000, 4999, 6000, 6999, 8000, 8999, 10000, 2000000000}).Draw(t, "prioOutside")
		p.Priority = &v
	case 4: // prod / free
		v := rapid.SampledFrom([]int32{9000, 9999, 9500, 3000, 3999}).Draw(t, "prioProdFree")
		p.Priority = &v
	default: // batch / mid, on and inside the range boundaries
		v := rapid.SampledFrom([]int32{5000, 5999, 5500, 5001, 7000, 7999, 7500, 7998}).Draw(t, "prioTier")
		p.Priority = &v
	}
	extMode := rapid.SampledFrom([]int{0, 0, 0, 0, 0, 1, 1, 2}).Draw(t, "extMode")
	nC := rapid.SampledFrom([]int{1, 1, 2, 2, 3}).Draw(t, "nContainers")
	for i := 0; i < nC; i++ {
		req, lim := c13GenResources(t, fmt.Sprintf("c%d", i), extMode)
		p.Conts = append(p.Conts, c13Cont{Name: fmt.Sprintf("c%d", i), Req: req, Lim: lim})
	}
	nI := rapid.SampledFrom([]int{0, 0, 0, 1, 2}).Draw(t, "nInit")
	for i := 0; i < nI; i++ {
		req, lim := c13GenResources(t, fmt.Sprintf("i%d", i), extMode)
		p.Inits = append(p.Inits, c13Cont{Name: fmt.Sprintf("i%d", i), Req: req, Lim: lim})
	}
	if rapid.IntRange(0, 3).Draw(t, "hasOverhead") == 0 {
		p.Overhead = c13RLModel{}
		if rapid.IntRange(0, 3).Draw(t, "ohCPU") > 0 {
			p.Overhead[corev1.ResourceCPU] = c13GenCPU(t, "ohCPU")
		}
		if rapid.Bool().Draw(t, "ohMem") {
			p.Overhead[corev1.ResourceMemory] = c13GenMem(t, "ohMem")
		}
	}
	// a summary annotation already on the object (stale, empty, or for a container that does not exist)
	if rapid.IntRange(0, 7).Draw(t, "hasStaleAnnotation") == 0 {
		p.Annotations = map[string]string{c13AnnoExtSpec: rapid.SampledFrom([]string{
			`{}`,
			`{"containers":{"c0":{"requests":{"kubernetes.io/batch-cpu":"123"},"limits":{"kubernetes.io/batch-cpu":"123"}}}}`,
			`{"containers":{"gone":{"requests":{"kubernetes.io/batch-memory":"1Gi"}}}}`,
			`{"containers":{"c0":{"limits":{"kubernetes.io/batch-cpu":"1k","kubernetes.io/batch-memory":"1024Mi"}}}}`,
		}).Draw(t, "staleAnnotation")}
	}
	return p
}

type c13PC struct {
	Name  string
	Value int32
}

type c13Profile struct {
	Obj      *configv1alpha1.ClusterColocationProfile
	Matching bool
	SkipRes  bool
}

func c13GenProfile(t *rapid.T, name string, matching bool, pcs []c13PC) c13Profile {
	l := "prof-" + name + "-"
	pr := &configv1alpha1.ClusterColocationProfile{}
	pr.Name = name
	out := c13Profile{Obj: pr, Matching: matching}
	selMatch := func() *metav1.LabelSelector {
		switch rapid.IntRange(0, 4).Draw(t, l+"sel") {
		case 0:
			return nil
		case 1:
			return &metav1.LabelSelector{}
		case 2:
			return &metav1.LabelSelector{MatchLabels: map[string]string{c13SelKey: "a"}}
		case 3:
			return &metav1.LabelSelector{MatchExpressions: []metav1.LabelSelectorRequirement{{Key: c13SelKey, Operator: metav1.LabelSelectorOpIn, Values: []string{"a", "b"}}}}
		}
		return &metav1.LabelSelector{MatchLabels: map[string]string{"app": "x"}, MatchExpressions: []metav1.LabelSelectorRequirement{{Key: c13SelKey, Operator: metav1.LabelSelectorOpExists}}}
	}
	nsMatch := func() *metav1.LabelSelector {
		switch rapid.IntRange(0, 2).Draw(t, l+"nsSel") {
		case 0:
			return nil
		case 1:
			return &metav1.LabelSelector{}
		}
		return &metav1.LabelSelector{MatchLabels: map[string]string{c13NsKey: "true"}}
	}
	if matching {
		pr.Spec.Selector, pr.Spec.NamespaceSelector = selMatch(), nsMatch()
	} else {
		switch rapid.IntRange(0, 2).Draw(t, l+"miss") {
		case 0:
			pr.Spec.Selector, pr.Spec.NamespaceSelector = &metav1.LabelSelector{MatchLabels: map[string]string{c13SelKey: "other"}}, nsMatch()
		case 1:
			pr.Spec.Selector = &metav1.LabelSelector{MatchExpressions: []metav1.LabelSelectorRequirement{{Key: c13SelKey, Operator: metav1.LabelSelectorOpNotIn, Values: []string{"a"}}}}
		default:
			pr.Spec.Selector, pr.Spec.NamespaceSelector = selMatch(), &metav1.LabelSelector{MatchLabels: map[string]string{c13NsKey: "false"}}
		}
	}
	if rapid.IntRange(0, 3).Draw(t, l+"hasQoS") == 0 {
		pr.Spec.QoSClass = rapid.SampledFrom([]string{"BE", "BE", "LS", "LSR", "LSE", "SYSTEM"}).Draw(t, l+"qos")
	}
	if rapid.IntRange(0, 2).Draw(t, l+"hasPC") == 0 {
		pr.Spec.PriorityClassName = rapid.SampledFrom(pcs).Draw(t, l+"pc").Name
	}
	if rapid.IntRange(0, 2).Draw(t, l+"hasLabels") == 0 {
		pr.Spec.Labels = map[string]string{"injected-by-" + name: "v"}
		if rapid.IntRange(0, 2).Draw(t, l+"setsClassLabel") == 0 {
			pr.Spec.Labels = map[string]string{c13LabelPrioClass: rapid.SampledFrom([]string{"koord-batch", "koord-mid", "koord-prod", "koord-free", "junk"}).Draw(t, l+"classLabel")}
		}
	}
	if rapid.IntRange(0, 5).Draw(t, l+"hasAnno") == 0 {
		pr.Spec.Annotations = map[string]string{"injected-anno": name}
	}
	if rapid.IntRange(0, 5).Draw(t, l+"hasKoordPrio") == 0 {
		v := rapid.Int32Range(0, 9999).Draw(t, l+"koordPrio")
		pr.Spec.KoordinatorPriority = &v
	}
	if rapid.IntRange(0, 5).Draw(t, l+"hasSched") == 0 {
		pr.Spec.SchedulerName = "koord-scheduler"
	}
	if rapid.IntRange(0, 9).Draw(t, l+"hasKeyMap") == 0 {
		pr.Spec.LabelKeysMapping = map[string]string{"app": "app-copy"}
		pr.Spec.AnnotationKeysMapping = map[string]string{"orig-anno": "anno-copy"} // a key no profile injects: mappings between profiles are outside this property
	}
	// LabelSuffixes is not generated: it appends to the label on every admission by design, so re-admission differs at the
	// label level (and in which selectors match) whatever the resource translation does.
	if rapid.IntRange(0, 3).Draw(t, l+"hasProb") == 0 {
		v := rapid.SampledFrom([]intstr.IntOrString{intstr.FromInt32(100), intstr.FromString("100%"), intstr.FromInt32(0), intstr.FromString("0%"),
			intstr.FromInt32(50), intstr.FromString("30%")}).Draw(t, l+"prob")
		pr.Spec.Probability = &v
	}
	if c13Rare(t, l+"skipRes", 25) {
		pr.Annotations = map[string]string{c13AnnoSkipRes: "true"}
		out.SkipRes = true
	}
	if rapid.IntRange(0, 11).Draw(t, l+"hasPatch") == 0 {
		pr.Spec.Patch = runtime.RawExtension{Raw: []byte(`{"metadata":{"labels":{"patched-by":"` + name + `"}}}`)}
	}
	return out
}

func (p c13Profile) render() map[string]any {
	var spec map[string]any
	_ = json.Unmarshal([]byte(c13JSON(p.Obj.Spec)), &spec)
	if raw := p.Obj.Spec.Patch.Raw; raw != nil {
		spec["patch"] = string(raw)
	}
	return map[string]any{"name": p.Obj.Name, "matching": p.Matching, "skipUpdateResources": p.SkipRes, "spec": spec}
}

// ---------------------------------------------------------------- oracle

type c13Want struct {
	Any []*big.Rat // acceptable amounts
	Why string
}

// c13Expect states what one resource list must look like afterwards. tier == "" : no translation.
func c13Expect(orig c13RLModel, tier string) map[corev1.ResourceName]c13Want {
	extCPU, extMem := c13ExtNames(tier)
	want := map[corev1.ResourceName]c13Want{}
	for rn, q := range orig {
		if tier != "" && (rn == corev1.ResourceCPU || rn == corev1.ResourceMemory) {
			continue
		}
		want[rn] = c13Want{Any: []*big.Rat{q.Val}, Why: "declared " + q.Str}
	}
	if tier == "" {
		return want
	}
	if q, ok := orig[corev1.ResourceCPU]; ok {
		w := c13Want{Any: []*big.Rat{c13MilliCeil(q.Val)}, Why: "cpu " + q.Str + " in milli-cores"}
		if prev, both := want[extCPU]; both { // the translated cpu amount must survive, whatever the list said under the extended name
			w.Why += " (the list also " + prev.Why + " under the extended name)"
		}
		want[extCPU] = w
	}
	if q, ok := orig[corev1.ResourceMemory]; ok {
		w := c13Want{Any: []*big.Rat{q.Val}, Why: "memory " + q.Str}
		if prev, both := want[extMem]; both {
			w.Why += " (the list also " + prev.Why + " under the extended name)"
		}
		want[extMem] = w
	}
	return want
}

func c13Names(m map[corev1.ResourceName]c13Want, rl corev1.ResourceList) []corev1.ResourceName {
	set := map[string]struct{}{}
	for k := range m {
		set[string(k)] = struct{}{}
	}
	for k := range rl {
		set[string(k)] = struct{}{}
	}
	var out []corev1.ResourceName
	for _, k := range vk.SortedKeys(set) {
		out = append(out, corev1.ResourceName(k))
	}
	return out
}

// c13CheckList compares a final resource list with what is wanted. Returns ("","") when it agrees.
func c13CheckList(where string, want map[corev1.ResourceName]c13Want, got corev1.ResourceList, tier string) (sig, msg string) {
	extCPU, extMem := c13ExtNames(tier)
	for _, rn := range c13Names(want, got) {
		w, wanted := want[rn]
		g, present := got[rn]
		native := rn == corev1.ResourceCPU || rn == corev1.ResourceMemory
		ext := tier != "" && (rn == extCPU || rn == extMem)
		switch {
		case present && !wanted && tier != "" && native:
			return "mutating:native-entry-not-removed", fmt.Sprintf("%s still holds native %s=%s after translation to %s", where, rn, g.String(), tier)
		case present && !wanted:
			return "mutating:entry-invented", fmt.Sprintf("%s holds %s=%s that nothing declared", where, rn, g.String())
		case !present && wanted && ext:
			return "mutating:amount-lost", fmt.Sprintf("%s lacks %s (%s)", where, rn, w.Why)
		case !present && wanted:
			return "mutating:entry-dropped", fmt.Sprintf("%s lacks %s (%s)", where, rn, w.Why)
		}
		gv := c13QRat(g)
		ok := false
		for _, a := range w.Any {
			if a.Cmp(gv) == 0 {
				ok = true
			}
		}
		if !ok {
			kind := "unrelated-resource-changed"
			switch {
			case tier == "":
				kind = "untranslated-resources-changed"
			case rn == extCPU:
				kind = "cpu-amount-changed"
			case rn == extMem:
				kind = "memory-amount-changed"
			}
			return "mutating:" + kind, fmt.Sprintf("%s %s=%s (exactly %s), wanted %s = %s", where, rn, g.String(), gv.FloatString(9), w.Why, w.Any[0].FloatString(9))
		}
	}
	return "", ""
}

// c13CheckPod: the whole pod against the model, for one assumed tier ("" = untouched).
func c13CheckPod(p *c13Pod, final *corev1.Pod, tier string) (sig, msg string) {
	extCPU, extMem := c13ExtNames(tier)
	groups := []struct {
		kind  string
		model []c13Cont
		got   []corev1.Container
	}{{"initContainer", p.Inits, final.Spec.InitContainers}, {"container", p.Conts, final.Spec.Containers}}
	for _, g := range groups {
		if len(g.model) != len(g.got) {
			return "mutating:container-set-changed", fmt.Sprintf("%d %ss became %d", len(g.model), g.kind, len(g.got))
		}
		for i, mc := range g.model {
			gc := g.got[i]
			if gc.Name != mc.Name {
				return "mutating:container-set-changed", fmt.Sprintf("%s %d is %q, was %q", g.kind, i, gc.Name, mc.Name)
			}
			wantLim := c13Expect(mc.Lim, tier)
			wantReq := c13Expect(mc.Req, tier)
			copied := map[corev1.ResourceName]bool{}
			if tier != "" { // a limit without a request: the request takes the limit's amount
				for _, rn := range []corev1.ResourceName{extCPU, extMem} {
					if _, has := wantReq[rn]; has {
						continue
					}
					if lw, has := wantLim[rn]; has {
						wantReq[rn] = c13Want{Any: lw.Any, Why: "no request declared, limit is " + lw.Why}
						copied[rn] = true
					}
				}
			}
			if s, m := c13CheckList(fmt.Sprintf("%s %s limits", g.kind, mc.Name), wantLim, gc.Resources.Limits, tier); s != "" {
				return s, m
			}
			if s, m := c13CheckList(fmt.Sprintf("%s %s requests", g.kind, mc.Name), wantReq, gc.Resources.Requests, tier); s != "" {
				for rn := range copied {
					if _, has := gc.Resources.Requests[rn]; !has && s == "mutating:amount-lost" {
						return "mutating:limit-without-request-not-copied", m
					}
				}
				return s, m
			}
			// where both were checked against a two-valued expectation the copied request must still equal the final limit
			for rn := range copied {
				a, b := gc.Resources.Requests[rn], gc.Resources.Limits[rn]
				if c13QRat(a).Cmp(c13QRat(b)) != 0 {
					return "mutating:limit-without-request-not-copied", fmt.Sprintf("%s %s: request %s=%s differs from limit %s", g.kind, mc.Name, rn, a.String(), b.String())
				}
			}
		}
	}
	if s, m := c13CheckList("overhead", c13Expect(p.Overhead, tier), final.Spec.Overhead, tier); s != "" {
		return s, m
	}
	return "", ""
}

// c13CheckAnnotation: the summary annotation decodes to exactly the batch entries of the final spec's containers.
func c13CheckAnnotation(final *corev1.Pod) (sig, msg string, midNotSummarised bool) {
	type contSpec struct {
		Requests map[string]string `json:"requests"`
		Limits   map[string]string `json:"limits"`
	}
	var doc struct {
		Containers map[string]contSpec `json:"containers"`
	}
	raw, has := final.Annotations[c13AnnoExtSpec]
	if has {
		if err := json.Unmarshal([]byte(raw), &doc); err != nil {
			return "annotation:undecodable", fmt.Sprintf("annotation %q: %v", raw, err), false
		}
	}
	seen := map[string]bool{}
	for _, ct := range final.Spec.Containers {
		seen[ct.Name] = true
		a := doc.Containers[ct.Name]
		for _, side := range []struct {
			name string
			spec corev1.ResourceList
			anno map[string]string
		}{{"requests", ct.Resources.Requests, a.Requests}, {"limits", ct.Resources.Limits, a.Limits}} {
			for _, rn := range []corev1.ResourceName{c13BatchCPU, c13BatchMem} {
				sq, inSpec := side.spec[rn]
				as, inA := side.anno[string(rn)]
				switch {
				case inSpec && !inA:
					return "annotation:" + side.name + "-entry-missing", fmt.Sprintf("container %s %s %s=%s is not in the annotation %q", ct.Name, side.name, rn, sq.String(), raw), false
				case !inSpec && inA:
					return "annotation:stale-entry", fmt.Sprintf("annotation has %s %s %s=%s, the spec has none (annotation %q)", ct.Name, side.name, rn, as, raw), false
				case inSpec && inA:
					aq, err := resource.ParseQuantity(as)
					if err != nil {
						return "annotation:undecodable", fmt.Sprintf("annotation quantity %q: %v", as, err), false
					}
					if c13QRat(aq).Cmp(c13QRat(sq)) != 0 {
						return "annotation:amount-differs", fmt.Sprintf("container %s %s %s: annotation %s, spec %s", ct.Name, side.name, rn, as, sq.String()), false
					}
				}
			}
			for k, as := range side.anno { // anything else the annotation lists must be in the spec too
				if k == string(c13BatchCPU) || k == string(c13BatchMem) {
					continue
				}
				sq, inSpec := side.spec[corev1.ResourceName(k)]
				if !inSpec {
					return "annotation:stale-entry", fmt.Sprintf("annotation has %s %s %s=%s, the spec has none", ct.Name, side.name, k, as), false
				}
				if aq, err := resource.ParseQuantity(as); err != nil || c13QRat(aq).Cmp(c13QRat(sq)) != 0 {
					return "annotation:amount-differs", fmt.Sprintf("container %s %s %s: annotation %s, spec %s", ct.Name, side.name, k, as, sq.String()), false
				}
			}
			for _, rn := range []corev1.ResourceName{c13MidCPU, c13MidMem} {
				if _, inSpec := side.spec[rn]; inSpec {
					if _, inA := side.anno[string(rn)]; !inA {
						midNotSummarised = true
					}
				}
			}
		}
	}
	for _, name := range vk.SortedKeys(doc.Containers) {
		if !seen[name] {
			return "annotation:stale-entry", fmt.Sprintf("annotation lists container %q which the spec does not have (annotation %q)", name, raw), midNotSummarised
		}
	}
	return "", "", midNotSummarised
}

// c13Summary: container -> "requests"/"limits" -> resource name -> amount, the layout of the summary annotation
type c13Summary map[string]map[string]map[string]string

// c13SummaryOf restates what the annotation of this pod has to say: the batch entries of every container that has any.
func c13SummaryOf(pod *corev1.Pod) c13Summary {
	sum := c13Summary{}
	for _, ct := range pod.Spec.Containers {
		for side, rl := range map[string]corev1.ResourceList{"requests": ct.Resources.Requests, "limits": ct.Resources.Limits} {
			for _, rn := range []corev1.ResourceName{c13BatchCPU, c13BatchMem} {
				if q, ok := rl[rn]; ok {
					if sum[ct.Name] == nil {
						sum[ct.Name] = map[string]map[string]string{}
					}
					if sum[ct.Name][side] == nil {
						sum[ct.Name][side] = map[string]string{}
					}
					sum[ct.Name][side][string(rn)] = q.String()
				}
			}
		}
	}
	return sum
}

// c13Tamper turns the true summary into the annotation a pod might arrive with: a superset (an extra entry in an existing
// container), a changed amount, a missing entry, an extra container, another spelling of the same amounts, or the truth itself.
func c13Tamper(t *rapid.T, sum c13Summary) (shape, annotation string) {
	type slot struct{ cont, side, rn string }
	var free, used []slot // batch entries a listed container does not / does have
	for _, cn := range vk.SortedKeys(sum) {
		for _, side := range []string{"requests", "limits"} {
			for _, rn := range []string{string(c13BatchCPU), string(c13BatchMem)} {
				if _, ok := sum[cn][side][rn]; ok {
					used = append(used, slot{cn, side, rn})
				} else {
					free = append(free, slot{cn, side, rn})
				}
			}
		}
	}
	set := func(sl slot, v string) {
		if sum[sl.cont] == nil {
			sum[sl.cont] = map[string]map[string]string{}
		}
		if sum[sl.cont][sl.side] == nil {
			sum[sl.cont][sl.side] = map[string]string{}
		}
		sum[sl.cont][sl.side][sl.rn] = v
	}
	shape = rapid.SampledFrom([]string{"superset:extra-batch-entry", "superset:extra-foreign-entry", "superset:extra-batch-entry", "amount-changed",
		"entry-removed", "extra-container", "respelled", "true-summary", "undecodable"}).Draw(t, "carriedShape")
	if shape == "undecodable" { // an annotation nobody can read: truncated, wrong type, not JSON, a quantity that is none
		truth := c13JSON(map[string]any{"containers": sum})
		kind := rapid.SampledFrom([]string{"truncated", "containers-is-a-list", "bad-quantity", "not-json", "container-is-a-string", "empty"}).Draw(t, "carriedGarbage")
		if kind == "bad-quantity" && len(used) == 0 {
			kind = "truncated"
		}
		switch kind {
		case "truncated":
			return shape + ":" + kind, truth[:len(truth)-1]
		case "containers-is-a-list":
			return shape + ":" + kind, `{"containers":[]}`
		case "bad-quantity":
			set(rapid.SampledFrom(used).Draw(t, "carriedSlot"), "1.5.0Qx")
			return shape + ":" + kind, c13JSON(map[string]any{"containers": sum})
		case "not-json":
			return shape + ":" + kind, "containers: {}"
		case "container-is-a-string":
			return shape + ":" + kind, `{"containers":{"c0":"1"}}`
		}
		return shape + ":" + kind, ""
	}
	if len(sum) == 0 && shape != "true-summary" {
		shape = "extra-container" // nothing to be a superset of: the pod has no batch entries at all
	}
	if shape == "superset:extra-batch-entry" && len(free) == 0 {
		shape = "superset:extra-foreign-entry"
	}
	switch shape {
	case "superset:extra-batch-entry":
		sl := rapid.SampledFrom(free).Draw(t, "carriedSlot")
		set(sl, rapid.SampledFrom([]string{"2Gi", "1", "1000", "0"}).Draw(t, "carriedExtra"))
	case "superset:extra-foreign-entry":
		sl := rapid.SampledFrom(used).Draw(t, "carriedSlot")
		set(slot{sl.cont, sl.side, "example.com/stale"}, "1")
	case "amount-changed":
		set(rapid.SampledFrom(used).Draw(t, "carriedSlot"), "987654321")
	case "entry-removed":
		sl := rapid.SampledFrom(used).Draw(t, "carriedSlot")
		delete(sum[sl.cont][sl.side], sl.rn)
		if len(sum[sl.cont][sl.side]) == 0 {
			delete(sum[sl.cont], sl.side)
		}
		if len(sum[sl.cont]) == 0 {
			delete(sum, sl.cont)
		}
	case "extra-container":
		set(slot{"ghost", "limits", string(c13BatchMem)}, "2Gi")
	case "respelled": // whole multiples of 1000 written with the k suffix; nothing else changes
		for _, sl := range used {
			v := sum[sl.cont][sl.side][sl.rn]
			if strings.HasSuffix(v, "000") && strings.Trim(v, "0123456789") == "" {
				set(sl, strings.TrimSuffix(v, "000")+"k")
			}
		}
	}
	return shape, c13JSON(map[string]any{"containers": sum})
}

// ---------------------------------------------------------------- the check

func c13Admit(h *PodMutatingHandler, op admissionv1.Operation, raw []byte) (*corev1.Pod, error) {
	var oldRaw runtime.RawExtension
	if op == admissionv1.Update {
		oldRaw = runtime.RawExtension{Raw: raw}
	}
	req := newAdmission(op, runtime.RawExtension{Raw: raw}, oldRaw, "")
	req.Namespace = "default"
	obj := &corev1.Pod{}
	if err := h.Decoder.Decode(req, obj); err != nil {
		return nil, fmt.Errorf("decode: %w", err)
	}
	if obj.Namespace == "" {
		obj.Namespace = req.Namespace
	}
	if _, err := h.clusterColocationProfileMutatingPod(context.TODO(), req, obj); err != nil {
		return obj, fmt.Errorf("clusterColocationProfileMutatingPod: %w", err)
	}
	if _, err := h.extendedResourceSpecMutatingPod(context.TODO(), req, obj); err != nil {
		return obj, fmt.Errorf("extendedResourceSpecMutatingPod: %w", err)
	}
	return obj, nil
}

func c13Decode(h *PodMutatingHandler, raw []byte) *corev1.Pod {
	obj := &corev1.Pod{}
	if err := h.Decoder.DecodeRaw(runtime.RawExtension{Raw: raw}, obj); err != nil {
		panic(err)
	}
	return obj
}

func TestVerifC13Mutating(t *testing.T) {
	rec := vk.New(t, "C13", "mutating")
	// a scheme with just the kinds the webhook touches: the fake client builds a REST mapper over the whole scheme for every
	// fresh client (20+ ms with client-go's full scheme), and every case gets a fresh client
	sch := runtime.NewScheme()
	sch.AddKnownTypes(corev1.SchemeGroupVersion, &corev1.Pod{}, &corev1.PodList{}, &corev1.Namespace{}, &corev1.NamespaceList{})
	metav1.AddToGroupVersion(sch, corev1.SchemeGroupVersion)
	sch.AddKnownTypes(schedulingv1.SchemeGroupVersion, &schedulingv1.PriorityClass{}, &schedulingv1.PriorityClassList{})
	metav1.AddToGroupVersion(sch, schedulingv1.SchemeGroupVersion)
	if err := configv1alpha1.AddToScheme(sch); err != nil {
		t.Fatal(err)
	}
	decoder := admission.NewDecoder(sch)
	gate := string(features.ColocationProfileSkipMutatingResources)
	profileNames := []string{"a-prof", "b-prof", "c-prof", "k-prof", "m-prof", "z-prof"}
	rapid.Check(t, func(t *rapid.T) {
		c := rec.Begin()
		defer c.End()

		// the cluster: one namespace, priority classes on and between the class ranges, 0..3 matching and 0..2 other profiles
		client := fake.NewClientBuilder().WithScheme(sch).Build()
		h := &PodMutatingHandler{Client: client, Decoder: decoder}
		ctx := context.TODO()
		ns := &corev1.Namespace{}
		ns.Name = "default"
		ns.Labels = map[string]string{c13NsKey: "true"}
		if err := client.Create(ctx, ns); err != nil {
			t.Fatalf("create namespace: %v", err)
		}
		pcs := []c13PC{
			{"pc-batch", rapid.SampledFrom([]int32{5000, 5999, 5500}).Draw(t, "pcBatch")},
			{"pc-mid", rapid.SampledFrom([]int32{7000, 7999, 7500}).Draw(t, "pcMid")},
			{"pc-prod", rapid.SampledFrom([]int32{9000, 9999}).Draw(t, "pcProd")},
			{"pc-free", rapid.SampledFrom([]int32{3000, 3999}).Draw(t, "pcFree")},
			{"pc-between", rapid.SampledFrom([]int32{0, 2999, 4000, 4999, 6000, 6999, 8000, 8999, 10000}).Draw(t, "pcBetween")},
		}
		// profiles favour the two tiers the statement is about
		pcPick := []c13PC{pcs[0], pcs[0], pcs[0], pcs[1], pcs[1], pcs[1], pcs[2], pcs[3], pcs[4]}
		for _, pc := range pcs {
			obj := &schedulingv1.PriorityClass{Value: pc.Value}
			obj.Name = pc.Name
			if err := client.Create(ctx, obj); err != nil {
				t.Fatalf("create priority class: %v", err)
			}
		}
		p := c13GenPod(t)
		nMatch := rapid.SampledFrom([]int{0, 1, 1, 1, 2, 2, 3}).Draw(t, "matchingProfiles")
		nOther := rapid.SampledFrom([]int{0, 0, 1, 2}).Draw(t, "otherProfiles")
		names := rapid.Permutation(profileNames).Draw(t, "profileNames")
		var profiles []c13Profile
		for i := 0; i < nMatch+nOther; i++ {
			pr := c13GenProfile(t, names[i], i < nMatch, pcPick)
			profiles = append(profiles, pr)
			if err := client.Create(ctx, pr.Obj.DeepCopy()); err != nil {
				t.Fatalf("create profile: %v", err)
			}
		}
		// the probability draw of the webhook is an input of the case
		roll := rapid.IntRange(0, 99).Draw(t, "probabilityRoll")
		defer SetRandIntnFnWhenTest(func(int) int { return roll })()
		skipGate := c13Rare(t, "skipMutatingResourcesGate", 25)
		if err := utilfeature.DefaultMutableFeatureGate.SetFromMap(map[string]bool{gate: skipGate}); err != nil {
			t.Fatalf("cannot set feature gate: %v", err)
		}
		defer func() { _ = utilfeature.DefaultMutableFeatureGate.SetFromMap(map[string]bool{gate: false}) }()

		input := []byte(c13JSON(p.build()))
		final, err := c13Admit(h, admissionv1.Create, input)

		renderCase := func() string {
			var prs []map[string]any
			for _, pr := range profiles {
				prs = append(prs, pr.render())
			}
			return c13JSON(map[string]any{"pod": p.render(), "profiles": prs, "priorityClasses": pcs, "probabilityRoll": roll, "skipMutatingResourcesGate": skipGate})
		}
		if err != nil {
			// not an admitted pod; the generator is built so that this does not happen (counted, not asserted)
			c.Class("~error(not asserted)")
			c.Sample(map[string]any{"error": err.Error(), "case": renderCase()})
			return
		}

		// which tier the admitted pod belongs to, read off the admitted object with the documented classifier
		qos, prio := c13QoSOf(final.Labels), c13PrioOf(final.Labels, final.Spec.Priority)
		skipRes := skipGate
		for _, pr := range profiles {
			if pr.Matching {
				skipRes = skipRes || pr.SkipRes
			}
		}
		tier := "" // the tier whose translation is required
		optional := false
		if nMatch > 0 && !skipRes {
			switch {
			case prio == "koord-batch" || prio == "koord-mid":
				tier = prio
			case prio == "" && (qos == "BE" || qos == ""):
				// no priority class at all: the webhook derives one from the QoS class (BE -> batch), and a missing QoS class
				// from the Kubernetes QoS (BestEffort -> BE -> batch). The statement speaks of mid/batch pods, so for such a
				// pod both outcomes (translated as batch, or left alone) are accepted.
				tier, optional = "koord-batch", true
			}
		}

		qosCell, prioCell := qos, prio
		if qos == "" {
			qosCell = "none"
			if lv, ok := final.Labels[c13LabelQoS]; ok && lv != "" {
				qosCell = "junk"
			}
		}
		if prio == "" {
			prioCell = "none"
		}
		c.Class("cell:" + qosCell + "/" + prioCell)
		c.Class(fmt.Sprintf("matching-profiles:%d", nMatch))
		c.ClassIf(nOther > 0, "has-non-matching-profile")
		c.ClassIf(skipRes, "skip-update-resources")
		c.ClassIf(tier != "" && !optional, "translation-required:"+tier)
		c.ClassIf(optional, "translation-optional(no priority class, QoS BE or none)")
		c.ClassIf(tier == "", "no-translation-expected")
		c.ClassIf(p.Annotations != nil, "stale-annotation-on-input")

		sig, msg := c13CheckPod(p, final, tier)
		translated := tier != ""
		if sig != "" && optional {
			if s2, _ := c13CheckPod(p, final, ""); s2 == "" {
				sig, msg, translated = "", "", false
			}
		}
		c.ClassIf(optional && translated, "translation-optional:translated")
		if sig != "" {
			c.Violation(t, sig, "%s; tier=%q qos=%q priorityClass=%q final=%s case=%s", msg, tier, qos, prio, c13JSON(final), renderCase())
			return
		}

		// shapes
		fractional, subMilli, limitNoReq, bothNames, initOrOverhead := false, false, false, false, len(p.Inits) > 0 && translated
		thousand := big.NewRat(1000, 1)
		scan := func(req, lim c13RLModel) {
			for _, m := range []c13RLModel{req, lim} {
				if q, ok := m[corev1.ResourceCPU]; ok {
					if !q.Val.IsInt() {
						fractional = true
					}
					if !new(big.Rat).Mul(q.Val, thousand).IsInt() {
						subMilli = true
					}
				}
			}
			for _, rn := range []corev1.ResourceName{corev1.ResourceCPU, corev1.ResourceMemory} {
				_, r := req[rn]
				_, l := lim[rn]
				if l && !r {
					limitNoReq = true
				}
			}
			eC, eM := c13ExtNames(tier)
			for _, m := range []c13RLModel{req, lim} {
				_, a := m[corev1.ResourceCPU]
				_, b := m[eC]
				_, x := m[corev1.ResourceMemory]
				_, y := m[eM]
				if (a && b) || (x && y) {
					bothNames = true
				}
			}
		}
		for _, ct := range append(append([]c13Cont{}, p.Conts...), p.Inits...) {
			scan(ct.Req, ct.Lim)
		}
		if p.Overhead != nil {
			scan(p.Overhead, nil)
			initOrOverhead = initOrOverhead || (translated && len(p.Overhead) > 0)
		}
		c.ClassIf(translated && fractional, "translated:fractional-cpu")
		c.ClassIf(translated && subMilli, "translated:sub-milli-cpu")
		c.ClassIf(translated && limitNoReq, "translated:limit-without-request")
		c.ClassIf(translated && bothNames, "translated:native-and-extended-in-one-list")
		c.ClassIf(initOrOverhead, "translated:init-container-or-overhead")
		if translated && (fractional || subMilli || limitNoReq) {
			c.NonTrivial(renderCase())
		}

		// the summary annotation against the final spec
		asig, amsg, midNotSummarised := c13CheckAnnotation(final)
		c.ClassIf(midNotSummarised, "mid-entries-not-in-annotation(not asserted)")
		if _, has := final.Annotations[c13AnnoExtSpec]; has {
			c.Class("annotation-present")
		}
		if asig != "" {
			c.Violation(t, asig, "%s; final=%s case=%s", amsg, c13JSON(final), renderCase())
			return
		}

		// admitting the result again (as a create, and as an update of itself) changes nothing
		firstJSON := c13JSON(final)
		baseline := c13Decode(h, []byte(firstJSON))
		for _, op := range []admissionv1.Operation{admissionv1.Create, admissionv1.Update} {
			again, err := c13Admit(h, op, []byte(firstJSON))
			if err != nil {
				c.Class("~error-on-readmission(not asserted)")
				break
			}
			if c13JSON(again) == c13JSON(baseline) {
				continue
			}
			what := "other"
			switch {
			case c13JSON(again.Spec.Containers) != c13JSON(baseline.Spec.Containers) || c13JSON(again.Spec.InitContainers) != c13JSON(baseline.Spec.InitContainers) ||
				c13JSON(again.Spec.Overhead) != c13JSON(baseline.Spec.Overhead):
				what = "resources"
			case again.Annotations[c13AnnoExtSpec] != baseline.Annotations[c13AnnoExtSpec]:
				what = "annotation"
			}
			c.Violation(t, "readmission:"+what+"-changed", "admitting the admitted pod again (%s) changed it:\n first: %s\n again: %s\n case=%s", op, c13JSON(baseline), c13JSON(again), renderCase())
			return
		}

		// a pod that already carries a summary annotation (a manifest copied from an admitted pod, a previous revision ...): the
		// true summary of the final spec, tampered with. Admitted as a create — once as the original object carrying it, once as
		// the admitted object carrying it — the annotation must again match the final spec.
		shape, carried := c13Tamper(t, c13SummaryOf(final))
		c.Class("carried-annotation:" + shape)
		origWith := p.build()
		if origWith.Annotations == nil {
			origWith.Annotations = map[string]string{}
		} else {
			cp := map[string]string{}
			for k, v := range origWith.Annotations {
				cp[k] = v
			}
			origWith.Annotations = cp
		}
		origWith.Annotations[c13AnnoExtSpec] = carried
		admittedWith := c13Decode(h, []byte(firstJSON))
		if admittedWith.Annotations == nil {
			admittedWith.Annotations = map[string]string{}
		}
		admittedWith.Annotations[c13AnnoExtSpec] = carried
		for _, in := range []struct {
			what string
			pod  *corev1.Pod
		}{{"original object", origWith}, {"admitted object", admittedWith}} {
			got, err := c13Admit(h, admissionv1.Create, []byte(c13JSON(in.pod)))
			if err != nil {
				if strings.HasPrefix(shape, "undecodable") { // refusing such a pod is fine; admitting it with the annotation as it is, is not
					c.Class("carried-annotation:undecodable:refused")
					continue
				}
				c.Class("~error-with-carried-annotation(not asserted)")
				break
			}
			c.ClassIf(strings.HasPrefix(shape, "undecodable"), "carried-annotation:undecodable:admitted")
			if s2, m2, _ := c13CheckAnnotation(got); s2 != "" {
				c.Violation(t, s2+":carried-annotation", "%s admitted while carrying the annotation %s (shape %s): %s; result=%s case=%s", in.what, carried, shape, m2, c13JSON(got), renderCase())
				return
			}
		}

		if c.WantSample() {
			var prs []map[string]any
			for _, pr := range profiles {
				prs = append(prs, pr.render())
			}
			final2 := map[string]any{}
			_ = json.Unmarshal([]byte(firstJSON), &final2)
			c.Sample(map[string]any{"pod": p.render(), "profiles": prs, "tier": tier, "translated": translated, "qos": qos, "priorityClass": prio, "final": final2})
		}
	})
}
