//go:build verif

// C13 (validating half) — a pod is admitted only if QoS x priority class form a permitted pair, LSR/LSE pods request a
// whole number of CPUs, batch resources are only requested by BE pods, and QoS / priority class never change on update.
// See /verif/DESIGN.md §1 C13. In-package harness (injected with -overlay).
package validating

import (
	"context"
	"encoding/json"
	"fmt"
	"math/big"
	"strings"
	"testing"
	"time"

	admissionv1 "k8s.io/api/admission/v1"
	corev1 "k8s.io/api/core/v1"
	"k8s.io/apimachinery/pkg/api/resource"
	metav1 "k8s.io/apimachinery/pkg/apis/meta/v1"
	"k8s.io/apimachinery/pkg/runtime"
	"k8s.io/client-go/kubernetes/scheme"
	"pgregory.net/rapid"
	"sigs.k8s.io/controller-runtime/pkg/client/fake"
	"sigs.k8s.io/controller-runtime/pkg/webhook/admission"

	"github.com/koordinator-sh/koordinator/pkg/features"
	utilfeature "github.com/koordinator-sh/koordinator/pkg/util/feature"
	"github.com/koordinator-sh/koordinator/pkg/verifkit/vk"
)

// ---------------------------------------------------------------- names restated from the documentation (not taken from the code)

const (
	c13LabelQoS       = "koordinator.sh/qosClass"
	c13LabelPrioClass = "koordinator.sh/priority-class"
	c13LabelSubPrio   = "koordinator.sh/priority"
	c13BatchCPU       = corev1.ResourceName("kubernetes.io/batch-cpu")
	c13BatchMem       = corev1.ResourceName("kubernetes.io/batch-memory")
	c13MidCPU         = corev1.ResourceName("kubernetes.io/mid-cpu")
	c13MidMem         = corev1.ResourceName("kubernetes.io/mid-memory")
)

// priority ranges, https://koordinator.sh/docs/architecture/priority/
var c13Ranges = []struct {
	Class    string
	Min, Max int32
}{{"koord-prod", 9000, 9999}, {"koord-mid", 7000, 7999}, {"koord-batch", 5000, 5999}, {"koord-free", 3000, 3999}}

var c13QoSCells = []string{"LSE", "LSR", "LS", "BE", "SYSTEM", "none", "junk"}
var c13PrioCells = []string{"koord-prod", "koord-mid", "koord-batch", "koord-free", "none"}

// independent statement of the two classifiers
func c13QoSOf(labels map[string]string) string {
	switch v := labels[c13LabelQoS]; v {
	case "LSE", "LSR", "LS", "BE", "SYSTEM":
		return v
	}
	return ""
}

func c13PrioOf(labels map[string]string, prio *int32) string {
	if v, ok := labels[c13LabelPrioClass]; ok { // an explicit class label decides; an unknown name is no class
		switch v {
		case "koord-prod", "koord-mid", "koord-batch", "koord-free":
			return v
		}
		return ""
	}
	if prio == nil {
		return ""
	}
	for _, r := range c13Ranges {
		if *prio >= r.Min && *prio <= r.Max {
			return r.Class
		}
	}
	return ""
}

// ---------------------------------------------------------------- quantities with an exact model

type c13Qty struct {
	Str string
	Val *big.Rat // exact value (cores / bytes)
}

func (q c13Qty) Q() resource.Quantity { return resource.MustParse(q.Str) }

var c13Pow10 = []int64{1, 10, 100, 1000, 10000, 100000, 1000000, 10000000, 100000000, 1000000000}

// c13FmtNano renders n nano-units either with the smallest fitting SI suffix or as a plain decimal.
func c13FmtNano(n int64, decimal bool) string {
	if n == 0 {
		return "0"
	}
	if decimal {
		ip, fp := n/1e9, n%1e9
		if fp == 0 {
			return fmt.Sprintf("%d", ip)
		}
		return strings.TrimRight(fmt.Sprintf("%d.%09d", ip, fp), "0")
	}
	switch {
	case n%1e9 == 0:
		return fmt.Sprintf("%d", n/1e9)
	case n%1e6 == 0:
		return fmt.Sprintf("%dm", n/1e6)
	case n%1e3 == 0:
		return fmt.Sprintf("%du", n/1e3)
	}
	return fmt.Sprintf("%dn", n)
}

func c13NanoQty(n int64, decimal bool) c13Qty {
	return c13Qty{Str: c13FmtNano(n, decimal), Val: big.NewRat(n, 1e9)}
}

// cpuIntent: 0 anything, 1 whole cores, 2 fractional
func c13GenCPU(t *rapid.T, label string, intent int) c13Qty {
	dec := rapid.Bool().Draw(t, label+"Dec")
	kind := rapid.IntRange(0, 9).Draw(t, label+"Kind")
	if intent == 1 {
		kind = 100 + rapid.IntRange(0, 2).Draw(t, label+"WholeKind")
	} else if intent == 2 && (kind == 0 || kind == 3 || kind == 8) {
		kind = 5
	}
	switch kind {
	case 0:
		return c13Qty{"0", new(big.Rat)}
	case 1:
		return c13NanoQty(1e6, dec) // 1m
	case 2:
		return c13NanoQty(5e5, dec) // 0.0005 : below one milli-core
	case 3, 100:
		k := rapid.SampledFrom([]int64{1, 1, 2, 3, 4, 8, 16, 64}).Draw(t, label+"Whole")
		if rapid.Bool().Draw(t, label+"AsMilli") {
			return c13Qty{fmt.Sprintf("%dm", k*1000), big.NewRat(k, 1)}
		}
		return c13NanoQty(k*1e9, dec)
	case 4:
		return c13NanoQty(rapid.SampledFrom([]int64{5e8, 15e8, 25e7, 1e8}).Draw(t, label+"Frac"), dec)
	case 5: // just off a whole number, on both sides of the milli rounding
		k := rapid.Int64Range(1, 4).Draw(t, label+"Near")
		off := rapid.SampledFrom([]int64{-1, 1, -5e5, 5e5, -1e6, 1e6, -999999, 999999, -1e5, 1e5}).Draw(t, label+"Off")
		return c13NanoQty(k*1e9+off, dec)
	case 6:
		return c13NanoQty(rapid.Int64Range(1, 256000).Draw(t, label+"Milli")*1e6, dec)
	case 7:
		return c13NanoQty(rapid.Int64Range(1, 4e9).Draw(t, label+"Nano"), dec)
	case 8, 101:
		return c13NanoQty(rapid.Int64Range(1, 1024).Draw(t, label+"K")*1e9, dec)
	case 102: // other spellings of whole numbers
		s := rapid.SampledFrom([]struct {
			S string
			V int64
		}{{"1E3", 1000}, {"1k", 1000}, {"2Ki", 2048}, {"1e0", 1}, {"3000000u", 3}, {"2.000", 2}}).Draw(t, label+"Spell")
		return c13Qty{s.S, big.NewRat(s.V, 1)}
	default:
		s := rapid.SampledFrom([]struct {
			S        string
			Num, Den int64
		}{{"1e-3", 1, 1000}, {"100e-3", 1, 10}, {"0.1", 1, 10}, {"999m", 999, 1000}, {"1001m", 1001, 1000}, {"0.000000001", 1, 1e9}, {"1M", 1e6, 1}}).Draw(t, label+"Odd")
		return c13Qty{s.S, big.NewRat(s.Num, s.Den)}
	}
}

var c13MemSuffix = []struct {
	S        string
	Num, Den int64
}{{"", 1, 1}, {"", 1, 1}, {"k", 1e3, 1}, {"M", 1e6, 1}, {"G", 1e9, 1}, {"T", 1e12, 1}, {"Ki", 1 << 10, 1}, {"Mi", 1 << 20, 1}, {"Mi", 1 << 20, 1},
	{"Gi", 1 << 30, 1}, {"Gi", 1 << 30, 1}, {"Ti", 1 << 40, 1}, {"m", 1, 1000}, {"e3", 1000, 1}, {"e6", 1e6, 1}}

func c13GenMem(t *rapid.T, label string) c13Qty {
	if rapid.IntRange(0, 9).Draw(t, label+"Zero") == 0 {
		return c13Qty{"0", new(big.Rat)}
	}
	mant := rapid.OneOf(rapid.Int64Range(1, 64), rapid.Int64Range(1, 99999)).Draw(t, label+"Mant")
	suf := rapid.SampledFrom(c13MemSuffix).Draw(t, label+"Suf")
	f := 0
	if suf.S != "m" {
		f = rapid.SampledFrom([]int{0, 0, 0, 1, 2, 3}).Draw(t, label+"FracDigits")
	}
	val := new(big.Rat).Mul(big.NewRat(mant, c13Pow10[f]), big.NewRat(suf.Num, suf.Den))
	var s string
	if f == 0 {
		s = fmt.Sprintf("%d%s", mant, suf.S)
	} else {
		s = fmt.Sprintf("%d.%0*d%s", mant/c13Pow10[f], f, mant%c13Pow10[f], suf.S)
	}
	return c13Qty{s, val}
}

// ---------------------------------------------------------------- pod model

type c13Cont struct {
	Name    string
	Sidecar bool                           // init container with restartPolicy=Always
	Req     map[corev1.ResourceName]c13Qty // exact model
	Lim     map[corev1.ResourceName]c13Qty
}

// c13Meta: lifecycle metadata of the object in an UPDATE request. None of it is mentioned by the statement, so none of it may
// matter for the verdict (in particular: a terminating pod's labels stay writable, and QoS / priority class stay immutable).
type c13Meta struct {
	Terminating bool   // metadata.deletionTimestamp set (a fixed instant, never the wall clock)
	Grace       *int64 // metadata.deletionGracePeriodSeconds
	Finalizers  []string
	Owner       bool // controlled by a ReplicaSet
	Phase       corev1.PodPhase
	NodeName    string
}

type c13Pod struct {
	Meta     c13Meta
	Labels   map[string]string
	Priority *int32
	Conts    []c13Cont
	Inits    []c13Cont
	Overhead map[corev1.ResourceName]c13Qty
	PodReq   map[corev1.ResourceName]c13Qty // spec.resources.requests (pod-level resources), usually nil
}

func c13RL(m map[corev1.ResourceName]c13Qty) corev1.ResourceList {
	if m == nil {
		return nil
	}
	rl := corev1.ResourceList{}
	for k, v := range m {
		rl[k] = v.Q()
	}
	return rl
}

func c13RLStr(m map[corev1.ResourceName]c13Qty) map[string]string {
	out := map[string]string{}
	for k, v := range m {
		out[string(k)] = v.Str
	}
	return out
}

func (p *c13Pod) clone() *c13Pod {
	cp := func(m map[corev1.ResourceName]c13Qty) map[corev1.ResourceName]c13Qty {
		if m == nil {
			return nil
		}
		o := map[corev1.ResourceName]c13Qty{}
		for k, v := range m {
			o[k] = v
		}
		return o
	}
	cc := func(in []c13Cont) []c13Cont {
		var out []c13Cont
		for _, c := range in {
			out = append(out, c13Cont{Name: c.Name, Sidecar: c.Sidecar, Req: cp(c.Req), Lim: cp(c.Lim)})
		}
		return out
	}
	q := &c13Pod{Meta: p.Meta, Labels: map[string]string{}, Conts: cc(p.Conts), Inits: cc(p.Inits), Overhead: cp(p.Overhead), PodReq: cp(p.PodReq)}
	for k, v := range p.Labels {
		q.Labels[k] = v
	}
	if p.Labels == nil {
		q.Labels = nil
	}
	q.Meta.Finalizers = append([]string(nil), p.Meta.Finalizers...)
	if p.Meta.Grace != nil {
		g := *p.Meta.Grace
		q.Meta.Grace = &g
	}
	if p.Priority != nil {
		v := *p.Priority
		q.Priority = &v
	}
	return q
}

func (p *c13Pod) build() *corev1.Pod {
	pod := &corev1.Pod{}
	pod.Name, pod.Namespace = "p", "default"
	pod.Labels = p.Labels
	pod.Spec.Priority = p.Priority
	if p.Meta.Terminating {
		ts := metav1.NewTime(time.Date(2024, 1, 1, 0, 0, 0, 0, time.UTC))
		pod.DeletionTimestamp = &ts
		pod.DeletionGracePeriodSeconds = p.Meta.Grace
	}
	pod.Finalizers = p.Meta.Finalizers
	if p.Meta.Owner {
		yes := true
		pod.OwnerReferences = []metav1.OwnerReference{{APIVersion: "apps/v1", Kind: "ReplicaSet", Name: "rs", UID: "rs-uid", Controller: &yes, BlockOwnerDeletion: &yes}}
	}
	pod.Status.Phase = p.Meta.Phase
	pod.Spec.NodeName = p.Meta.NodeName
	mk := func(in []c13Cont) []corev1.Container {
		var out []corev1.Container
		for _, c := range in {
			cc := corev1.Container{Name: c.Name, Image: "img", Resources: corev1.ResourceRequirements{Requests: c13RL(c.Req), Limits: c13RL(c.Lim)}}
			if c.Sidecar {
				always := corev1.ContainerRestartPolicyAlways
				cc.RestartPolicy = &always
			}
			out = append(out, cc)
		}
		return out
	}
	pod.Spec.Containers = mk(p.Conts)
	pod.Spec.InitContainers = mk(p.Inits)
	pod.Spec.Overhead = c13RL(p.Overhead)
	if p.PodReq != nil {
		pod.Spec.Resources = &corev1.ResourceRequirements{Requests: c13RL(p.PodReq)}
	}
	return pod
}

func (p *c13Pod) render() map[string]any {
	rc := func(in []c13Cont) []map[string]any {
		var out []map[string]any
		for _, c := range in {
			out = append(out, map[string]any{"name": c.Name, "sidecar": c.Sidecar, "requests": c13RLStr(c.Req), "limits": c13RLStr(c.Lim)})
		}
		return out
	}
	m := map[string]any{"labels": p.Labels, "containers": rc(p.Conts), "initContainers": rc(p.Inits), "overhead": c13RLStr(p.Overhead)}
	if p.Priority != nil {
		m["priority"] = *p.Priority
	}
	if p.PodReq != nil {
		m["podLevelRequests"] = c13RLStr(p.PodReq)
	}
	if mt := p.Meta; mt.Terminating || mt.Owner || len(mt.Finalizers) > 0 || mt.Phase != "" || mt.NodeName != "" {
		mm := map[string]any{"terminating": mt.Terminating, "finalizers": mt.Finalizers, "ownerReference": mt.Owner, "phase": string(mt.Phase), "nodeName": mt.NodeName}
		if mt.Grace != nil {
			mm["deletionGracePeriodSeconds"] = *mt.Grace
		}
		m["lifecycle"] = mm
	}
	return m
}

func (p *c13Pod) String() string {
	if p == nil {
		return "<none>"
	}
	b, _ := json.Marshal(p.render())
	return string(b)
}

// podRequest: the pod's effective request of one resource, by the Kubernetes rule (KEP-753):
// max( sum(containers)+sum(sidecars), max_i( init_i + sum(sidecars before i) ) ), replaced by the pod-level request where one is
// declared for cpu/memory, plus overhead. Exact arithmetic.
func (p *c13Pod) podRequest(rn corev1.ResourceName) *big.Rat {
	get := func(m map[corev1.ResourceName]c13Qty) *big.Rat {
		if q, ok := m[rn]; ok {
			return q.Val
		}
		return new(big.Rat)
	}
	total := new(big.Rat)
	for _, c := range p.Conts {
		total.Add(total, get(c.Req))
	}
	side := new(big.Rat)
	peak := new(big.Rat)
	for _, c := range p.Inits {
		if c.Sidecar {
			side.Add(side, get(c.Req))
			total.Add(total, get(c.Req))
			if side.Cmp(peak) > 0 {
				peak.Set(side)
			}
			continue
		}
		use := new(big.Rat).Add(side, get(c.Req))
		if use.Cmp(peak) > 0 {
			peak = use
		}
	}
	if peak.Cmp(total) > 0 {
		total.Set(peak)
	}
	if rn == corev1.ResourceCPU || rn == corev1.ResourceMemory {
		if q, ok := p.PodReq[rn]; ok {
			total.Set(q.Val)
		}
	}
	total.Add(total, get(p.Overhead))
	return total
}

// milliCeil = the amount in thousandths, rounded up (the documented rounding of Quantity.MilliValue)
func c13MilliCeil(v *big.Rat) *big.Int {
	num := new(big.Int).Mul(v.Num(), big.NewInt(1000))
	q, m := new(big.Int).DivMod(num, v.Denom(), new(big.Int))
	if m.Sign() > 0 {
		q.Add(q, big.NewInt(1))
	}
	return q
}

// ---------------------------------------------------------------- generator

func c13GenPriority(t *rapid.T, cell string, labels map[string]string) (prio *int32, how string) {
	inRange := func(class string) int32 {
		for _, r := range c13Ranges {
			if r.Class == class {
				switch rapid.IntRange(0, 3).Draw(t, "prioPos") {
				case 0:
					return r.Min
				case 1:
					return r.Max
				case 2:
					return (r.Min + r.Max) / 2
				}
				return rapid.Int32Range(r.Min, r.Max).Draw(t, "prioVal")
			}
		}
		panic(class)
	}
	outside := func() *int32 {
		v := rapid.SampledFrom([]int32{0, -1, 1, 2999, 4000, 4999, 6000, 6999, 8000, 8999, 10000, 2000000000, -2147483648,
			4500, 6500, 8500}).Draw(t, "prioOutside")
		return &v
	}
	anyValue := func() *int32 {
		switch rapid.IntRange(0, 2).Draw(t, "prioAny") {
		case 0:
			return nil
		case 1:
			return outside()
		}
		v := inRange(rapid.SampledFrom(c13PrioCells[:4]).Draw(t, "prioAnyClass"))
		return &v
	}
	if cell == "none" {
		switch rapid.IntRange(0, 4).Draw(t, "noneHow") {
		case 0:
			return nil, "absent"
		case 1, 2:
			return outside(), "value-between-ranges"
		case 3:
			labels[c13LabelPrioClass] = rapid.SampledFrom([]string{"", "koord-Prod", "prod", "koord-batch ", "system-cluster-critical"}).Draw(t, "junkPrioLabel")
			return anyValue(), "unknown-class-label"
		}
		return nil, "absent"
	}
	switch rapid.IntRange(0, 3).Draw(t, "prioHow") {
	case 0: // label only / label disagreeing with the value
		labels[c13LabelPrioClass] = cell
		return anyValue(), "class-label(value-arbitrary)"
	default:
		v := inRange(cell)
		return &v, "value-in-range"
	}
}

func c13GenResources(t *rapid.T, label string, cpuIntent int, extMode int) (req, lim map[corev1.ResourceName]c13Qty) {
	req, lim = map[corev1.ResourceName]c13Qty{}, map[corev1.ResourceName]c13Qty{}
	// native cpu
	switch rapid.IntRange(0, 5).Draw(t, label+"CPUShape") {
	case 0: // nothing
	case 1: // limit only
		lim[corev1.ResourceCPU] = c13GenCPU(t, label+"CPUL", cpuIntent)
	case 2: // request only
		req[corev1.ResourceCPU] = c13GenCPU(t, label+"CPUR", cpuIntent)
	case 3: // different request and limit
		req[corev1.ResourceCPU] = c13GenCPU(t, label+"CPUR", cpuIntent)
		lim[corev1.ResourceCPU] = c13GenCPU(t, label+"CPUL", cpuIntent)
	default:
		q := c13GenCPU(t, label+"CPU", cpuIntent)
		req[corev1.ResourceCPU], lim[corev1.ResourceCPU] = q, q
	}
	switch rapid.IntRange(0, 3).Draw(t, label+"MemShape") {
	case 0:
	case 1:
		lim[corev1.ResourceMemory] = c13GenMem(t, label+"MemL")
	default:
		q := c13GenMem(t, label+"Mem")
		req[corev1.ResourceMemory], lim[corev1.ResourceMemory] = q, q
	}
	// extended (batch / mid) resources requested directly
	if extMode > 0 {
		cpuN, memN := c13BatchCPU, c13BatchMem
		if extMode == 2 {
			cpuN, memN = c13MidCPU, c13MidMem
		}
		shape := rapid.IntRange(0, 4).Draw(t, label+"ExtShape")
		if shape != 0 { // cpu, as a whole number of milli-cores
			q := c13Qty{"0", new(big.Rat)}
			if rapid.IntRange(0, 5).Draw(t, label+"ExtZero") > 0 {
				m := rapid.Int64Range(1, 64000).Draw(t, label+"ExtMilli")
				q = c13Qty{fmt.Sprintf("%d", m), big.NewRat(m, 1)}
			}
			if shape != 4 {
				req[cpuN] = q
			}
			lim[cpuN] = q
		}
		if shape == 0 || shape >= 2 {
			q := c13GenMem(t, label+"ExtMem")
			if shape != 4 {
				req[memN] = q
			}
			lim[memN] = q
		}
	}
	if len(req) == 0 && rapid.Bool().Draw(t, label+"NilReq") {
		req = nil
	}
	if len(lim) == 0 && rapid.Bool().Draw(t, label+"NilLim") {
		lim = nil
	}
	return req, lim
}

func c13GenPod(t *rapid.T, c *vk.Case) *c13Pod {
	p := &c13Pod{Labels: map[string]string{"app": "x"}}
	qosCell := rapid.SampledFrom(c13QoSCells).Draw(t, "qosCell")
	switch qosCell {
	case "none":
		if rapid.Bool().Draw(t, "qosEmptyLabel") {
			p.Labels[c13LabelQoS] = ""
		}
	case "junk":
		p.Labels[c13LabelQoS] = rapid.SampledFrom([]string{"be", "Lsr", "BestEffort", "Guaranteed", "LSRR", " BE"}).Draw(t, "qosJunk")
	default:
		p.Labels[c13LabelQoS] = qosCell
	}
	prioCell := rapid.SampledFrom(c13PrioCells).Draw(t, "prioCell")
	var how string
	p.Priority, how = c13GenPriority(t, prioCell, p.Labels)
	c.Class("priority-via:" + how)
	if rapid.IntRange(0, 3).Draw(t, "hasSubPrio") == 0 {
		p.Labels[c13LabelSubPrio] = rapid.SampledFrom([]string{"", "0", "1", "100", "9999"}).Draw(t, "subPrio")
	}

	// cpu intent: LSR/LSE pods aim at whole numbers more often so that the integer rule is decisive in both directions
	cpuIntent := rapid.SampledFrom([]int{0, 0, 1, 2}).Draw(t, "cpuIntent")
	if qosCell == "LSR" || qosCell == "LSE" {
		cpuIntent = rapid.SampledFrom([]int{0, 1, 1, 1, 2}).Draw(t, "cpuIntentLS")
	}
	// extended resources requested directly: mostly by BE pods, sometimes by anybody
	extMode := 0
	if w := rapid.IntRange(0, 9).Draw(t, "extMode"); (qosCell == "BE" && w < 6) || w == 0 {
		extMode = 1
	} else if w == 1 {
		extMode = 2
	}
	nC := rapid.SampledFrom([]int{1, 1, 1, 2, 2, 3}).Draw(t, "nContainers")
	for i := 0; i < nC; i++ {
		req, lim := c13GenResources(t, fmt.Sprintf("c%d", i), cpuIntent, extMode)
		p.Conts = append(p.Conts, c13Cont{Name: fmt.Sprintf("c%d", i), Req: req, Lim: lim})
	}
	nI := rapid.SampledFrom([]int{0, 0, 0, 1, 2}).Draw(t, "nInit")
	for i := 0; i < nI; i++ {
		req, lim := c13GenResources(t, fmt.Sprintf("i%d", i), cpuIntent, extMode)
		p.Inits = append(p.Inits, c13Cont{Name: fmt.Sprintf("i%d", i), Req: req, Lim: lim, Sidecar: rapid.IntRange(0, 2).Draw(t, "sidecar") == 0})
	}
	if rapid.IntRange(0, 4).Draw(t, "hasOverhead") == 0 {
		p.Overhead = map[corev1.ResourceName]c13Qty{}
		if rapid.Bool().Draw(t, "ohCPU") {
			p.Overhead[corev1.ResourceCPU] = c13GenCPU(t, "ohCPU", cpuIntent)
		}
		if rapid.Bool().Draw(t, "ohMem") {
			p.Overhead[corev1.ResourceMemory] = c13GenMem(t, "ohMem")
		}
	}
	if rapid.IntRange(0, 11).Draw(t, "hasPodLevel") == 0 {
		p.PodReq = map[corev1.ResourceName]c13Qty{}
		if rapid.IntRange(0, 3).Draw(t, "plCPU") > 0 {
			p.PodReq[corev1.ResourceCPU] = c13GenCPU(t, "plCPU", cpuIntent)
		}
		if rapid.Bool().Draw(t, "plMem") {
			p.PodReq[corev1.ResourceMemory] = c13GenMem(t, "plMem")
		}
	}
	return p
}

// c13Mutate derives the "new" object of an update from the old one.
func c13Mutate(t *rapid.T, old *c13Pod, c *vk.Case) *c13Pod {
	p := old.clone()
	n := rapid.SampledFrom([]int{0, 1, 1, 1, 2}).Draw(t, "nEdits")
	for i := 0; i < n; i++ {
		switch rapid.IntRange(0, 6).Draw(t, "edit") {
		case 0: // QoS label
			c.Class("edit:qos-label")
			v := rapid.SampledFrom([]string{"LSE", "LSR", "LS", "BE", "SYSTEM", "", "be", "Guaranteed", "-"}).Draw(t, "newQoS")
			if v == "-" {
				delete(p.Labels, c13LabelQoS)
			} else {
				p.Labels[c13LabelQoS] = v
			}
		case 1: // priority-class label
			c.Class("edit:priority-class-label")
			v := rapid.SampledFrom([]string{"koord-prod", "koord-mid", "koord-batch", "koord-free", "", "junk", "-", "-"}).Draw(t, "newPrioLabel")
			if v == "-" {
				delete(p.Labels, c13LabelPrioClass)
			} else {
				p.Labels[c13LabelPrioClass] = v
			}
		case 2: // spec.priority: stay in the class range, step over a boundary, or anything
			c.Class("edit:priority-value")
			switch rapid.IntRange(0, 3).Draw(t, "prioEdit") {
			case 0:
				p.Priority = nil
			case 1:
				if p.Priority != nil {
					v := *p.Priority + rapid.SampledFrom([]int32{-1, 1, -1000, 1000}).Draw(t, "prioDelta")
					p.Priority = &v
				}
			case 2: // another value of the same class, when there is one
				cls := c13PrioOf(nil, p.Priority)
				for _, r := range c13Ranges {
					if r.Class == cls {
						v := rapid.Int32Range(r.Min, r.Max).Draw(t, "prioSameClass")
						p.Priority = &v
					}
				}
			default:
				v := rapid.SampledFrom([]int32{0, 2999, 3000, 3999, 4000, 4999, 5000, 5999, 6000, 6999, 7000, 7999, 8000, 8999, 9000, 9999, 10000}).Draw(t, "prioBoundary")
				p.Priority = &v
			}
		case 3: // sub-priority label (not in the statement; an extra rule of the validator)
			c.Class("edit:sub-priority-label")
			v := rapid.SampledFrom([]string{"", "0", "1", "5", "-"}).Draw(t, "newSubPrio")
			if v == "-" {
				delete(p.Labels, c13LabelSubPrio)
			} else {
				p.Labels[c13LabelSubPrio] = v
			}
		case 4: // resources of one container
			c.Class("edit:resources")
			i := rapid.IntRange(0, len(p.Conts)-1).Draw(t, "editCont")
			p.Conts[i].Req, p.Conts[i].Lim = c13GenResources(t, "edit", rapid.IntRange(0, 2).Draw(t, "editIntent"), rapid.SampledFrom([]int{0, 0, 1, 2}).Draw(t, "editExt"))
		default: // unrelated label
			c.Class("edit:unrelated-label")
			p.Labels["app"] = "y"
		}
	}
	return p
}

// c13Lifecycle decorates the two objects of an UPDATE with lifecycle metadata the statement does not mention: deletion in
// progress (on both objects — the usual label/finalizer update of a terminating pod — or appearing with this update), grace period,
// finalizers (kept, removed, added), an owner reference, a status phase, an assigned node.
func c13Lifecycle(t *rapid.T, oldP, newP *c13Pod) {
	switch rapid.SampledFrom([]string{"live", "both", "live", "both", "new-only", "live"}).Draw(t, "terminating") {
	case "both":
		oldP.Meta.Terminating, newP.Meta.Terminating = true, true
	case "new-only":
		newP.Meta.Terminating = true
	}
	if newP.Meta.Terminating {
		switch g := rapid.SampledFrom([]int64{30, 0, -1, 1, 3600}).Draw(t, "gracePeriod"); {
		case g >= 0:
			newP.Meta.Grace = &g
			if oldP.Meta.Terminating {
				og := g
				oldP.Meta.Grace = &og
			}
		}
	}
	switch rapid.IntRange(0, 3).Draw(t, "finalizers") {
	case 1: // kept
		oldP.Meta.Finalizers, newP.Meta.Finalizers = []string{"example.com/guard"}, []string{"example.com/guard"}
	case 2: // one removed by this update
		oldP.Meta.Finalizers, newP.Meta.Finalizers = []string{"example.com/guard", "koordinator.sh/cleanup"}, []string{"example.com/guard"}
	case 3: // the last one removed / one added
		if rapid.Bool().Draw(t, "finalizerAdded") {
			newP.Meta.Finalizers = []string{"example.com/guard"}
		} else {
			oldP.Meta.Finalizers = []string{"example.com/guard"}
		}
	}
	if rapid.Bool().Draw(t, "ownerReference") {
		oldP.Meta.Owner, newP.Meta.Owner = true, true
	}
	phases := []corev1.PodPhase{"", corev1.PodRunning, corev1.PodPending, corev1.PodSucceeded, corev1.PodFailed}
	oldP.Meta.Phase = rapid.SampledFrom(phases).Draw(t, "oldPhase")
	newP.Meta.Phase = oldP.Meta.Phase
	if rapid.IntRange(0, 2).Draw(t, "phaseChanges") == 0 {
		newP.Meta.Phase = rapid.SampledFrom(phases).Draw(t, "newPhase")
	}
	switch rapid.IntRange(0, 3).Draw(t, "nodeName") {
	case 1, 2:
		oldP.Meta.NodeName, newP.Meta.NodeName = "node-1", "node-1"
	case 3:
		newP.Meta.NodeName = "node-1"
	}
}

// ---------------------------------------------------------------- oracle

type c13Verdict struct {
	Failed []string // names of the statement rules the object(s) break
	Extra  []string // further documented rules of this validator that are not part of the statement
}

func c13Judge(newP, oldP *c13Pod, skipSubPrioGate bool) c13Verdict {
	var v c13Verdict
	qos, prio := c13QoSOf(newP.Labels), c13PrioOf(newP.Labels, newP.Priority)
	if qos == "BE" && (prio == "koord-prod" || prio == "") {
		v.Failed = append(v.Failed, "be-with-prod-or-none")
	}
	if qos == "LSR" && prio != "koord-prod" {
		v.Failed = append(v.Failed, "lsr-without-prod")
	}
	if qos == "LSR" || qos == "LSE" {
		cpu := newP.podRequest(corev1.ResourceCPU)
		if cpu.Sign() == 0 {
			v.Failed = append(v.Failed, "lsr-lse-zero-cpu")
		} else if m := c13MilliCeil(cpu); new(big.Int).Mod(m, big.NewInt(1000)).Sign() != 0 {
			v.Failed = append(v.Failed, "lsr-lse-fractional-cpu")
		}
	}
	if qos != "BE" && (newP.podRequest(c13BatchCPU).Sign() != 0 || newP.podRequest(c13BatchMem).Sign() != 0) {
		v.Failed = append(v.Failed, "batch-resource-non-be")
	}
	if oldP != nil {
		if c13QoSOf(oldP.Labels) != qos {
			v.Failed = append(v.Failed, "qos-changed-on-update")
		}
		if c13PrioOf(oldP.Labels, oldP.Priority) != prio {
			v.Failed = append(v.Failed, "priority-class-changed-on-update")
		}
		if !skipSubPrioGate && oldP.Labels[c13LabelSubPrio] != newP.Labels[c13LabelSubPrio] {
			v.Extra = append(v.Extra, "sub-priority-label-changed-on-update")
		}
	}
	return v
}

func c13Raw(pod *corev1.Pod) runtime.RawExtension {
	b, err := json.Marshal(pod)
	if err != nil {
		panic(err)
	}
	return runtime.RawExtension{Raw: b}
}

func TestVerifC13Validating(t *testing.T) {
	rec := vk.New(t, "C13", "validating")
	client := fake.NewClientBuilder().Build()
	h := &PodValidatingHandler{Client: client, Decoder: admission.NewDecoder(scheme.Scheme)}
	gate := string(features.ColocationProfileSkipValidatingPriority)
	rapid.Check(t, func(t *rapid.T) {
		c := rec.Begin()
		defer c.End()

		isUpdate := rapid.Bool().Draw(t, "isUpdate")
		var oldP, newP *c13Pod
		if isUpdate {
			oldP = c13GenPod(t, c)
			newP = c13Mutate(t, oldP, c)
			c13Lifecycle(t, oldP, newP)
		} else {
			newP = c13GenPod(t, c)
		}
		skipGate := rapid.IntRange(0, 4).Draw(t, "skipValidatingPriorityGate") == 0
		if err := utilfeature.DefaultMutableFeatureGate.SetFromMap(map[string]bool{gate: skipGate}); err != nil {
			t.Fatalf("cannot set feature gate: %v", err)
		}
		defer func() { _ = utilfeature.DefaultMutableFeatureGate.SetFromMap(map[string]bool{gate: false}) }()

		// the request as the API server sends it; the handler's entry point decodes both objects once and hands them to the unit
		op := admissionv1.Create
		req := admission.Request{AdmissionRequest: newAdmissionRequest(op, c13Raw(newP.build()), runtime.RawExtension{}, "")}
		if isUpdate {
			op = admissionv1.Update
			req = admission.Request{AdmissionRequest: newAdmissionRequest(op, c13Raw(newP.build()), c13Raw(oldP.build()), "")}
		}
		newObj := &corev1.Pod{}
		if err := h.Decoder.DecodeRaw(req.Object, newObj); err != nil {
			t.Fatalf("decode new: %v", err)
		}
		var oldObj *corev1.Pod
		if isUpdate {
			oldObj = &corev1.Pod{}
			if err := h.Decoder.DecodeRaw(req.OldObject, oldObj); err != nil {
				t.Fatalf("decode old: %v", err)
			}
		}
		allowed, reason, err := h.clusterColocationProfileValidatingPod(context.TODO(), req, newObj, oldObj)
		admitted := allowed && err == nil

		v := c13Judge(newP, oldP, skipGate)
		qos, prio := c13QoSOf(newP.Labels), c13PrioOf(newP.Labels, newP.Priority)
		qosCell := qos
		if qos == "" {
			qosCell = "none"
			if lv, ok := newP.Labels[c13LabelQoS]; ok && lv != "" {
				qosCell = "junk"
			}
		}
		prioCell := prio
		if prio == "" {
			prioCell = "none"
		}
		c.Class("cell:" + qosCell + "/" + prioCell)
		c.ClassIf(isUpdate, "op:update")
		c.ClassIf(!isUpdate, "op:create")
		c.ClassIf(admitted, "admitted")
		c.ClassIf(!admitted, "denied")
		c.ClassIf(skipGate, "gate:skip-validating-priority")
		for _, f := range v.Failed {
			c.Class("breaks:" + f)
		}
		for _, f := range v.Extra {
			c.Class("breaks(extra rule):" + f)
		}
		c.ClassIf(len(v.Failed) == 1 && len(v.Extra) == 0, "exactly-one-rule-broken")
		if _, ok := newP.Labels[c13LabelPrioClass]; ok && newP.Priority != nil && c13PrioOf(nil, newP.Priority) != prio {
			c.Class("class-label-disagrees-with-value")
		}
		cpuTotal := newP.podRequest(corev1.ResourceCPU)
		constrained := qos == "BE" || qos == "LSR" || qos == "LSE"
		if qos == "LSR" || qos == "LSE" {
			c.ClassIf(len(newP.Conts)+len(newP.Inits) > 1, "ls*-multi-container-cpu-sum")
			c.ClassIf(!cpuTotal.IsInt() && new(big.Int).Mod(c13MilliCeil(cpuTotal), big.NewInt(1000)).Sign() == 0, "ls*-whole-only-after-milli-rounding")
			c.ClassIf(newP.PodReq != nil, "ls*-pod-level-resources")
		}
		c.ClassIf(newP.podRequest(c13BatchCPU).Sign() != 0 || newP.podRequest(c13BatchMem).Sign() != 0, "requests-batch-resources")
		if isUpdate {
			classChanged := c13QoSOf(oldP.Labels) != qos || c13PrioOf(oldP.Labels, oldP.Priority) != prio
			c.ClassIf(newP.Meta.Terminating, "update:new-object-terminating")
			c.ClassIf(oldP.Meta.Terminating, "update:old-object-terminating")
			c.ClassIf(newP.Meta.Terminating && classChanged, "update:terminating+qos-or-priority-class-changed")
			c.ClassIf(newP.Meta.Terminating && !classChanged && len(v.Failed) == 0 && len(v.Extra) == 0, "update:terminating+nothing-broken")
			c.ClassIf(len(oldP.Meta.Finalizers) > 0 || len(newP.Meta.Finalizers) > 0, "update:finalizers")
			c.ClassIf(len(oldP.Meta.Finalizers) != len(newP.Meta.Finalizers), "update:finalizers-changed")
			c.ClassIf(newP.Meta.Owner, "update:owner-reference")
			c.ClassIf(newP.Meta.NodeName != "", "update:node-assigned")
			c.ClassIf(newP.Meta.Phase != "", "update:status-phase-set")
			c.ClassIf(newP.Meta.Phase != oldP.Meta.Phase, "update:status-phase-changed")
			c.ClassIf(c13QoSOf(oldP.Labels) == qos && oldP.Labels[c13LabelQoS] != newP.Labels[c13LabelQoS], "update:qos-label-text-changed-class-same")
			c.ClassIf(c13PrioOf(oldP.Labels, oldP.Priority) == prio && oldP.Priority != nil && newP.Priority != nil && *oldP.Priority != *newP.Priority, "update:priority-value-changed-class-same")
		}
		// non-trivial: a rule is decisive — exactly one rule broken, or an admitted pod of a constrained QoS class / with batch resources
		if (len(v.Failed) == 1 && len(v.Extra) == 0) || (len(v.Failed) == 0 && len(v.Extra) == 0 && (constrained || newP.podRequest(c13BatchCPU).Sign() != 0 || newP.podRequest(c13BatchMem).Sign() != 0)) {
			c.NonTrivial(newP.String(), oldP.String(), skipGate)
		}
		if c.WantSample() {
			s := map[string]any{"op": string(op), "new": newP.render(), "admitted": admitted, "reason": reason, "brokenRules": v.Failed, "extraRules": v.Extra,
				"qos": qos, "priorityClass": prio, "podCPURequest": cpuTotal.FloatString(9)}
			if oldP != nil {
				s["old"] = oldP.render()
			}
			c.Sample(s)
		}

		desc := func() string {
			return fmt.Sprintf("op=%s gate(skipValidatingPriority)=%v qos=%q priorityClass=%q podCPURequest=%s new=%s old=%v verdict: allowed=%v reason=%q",
				op, skipGate, qos, prio, cpuTotal.FloatString(9), newP, oldP, allowed, reason)
		}
		if admitted && len(v.Failed) > 0 {
			// the statement: admitted only if every rule holds. One signature per rule.
			c.Violation(t, "validating:admitted:"+v.Failed[0], "pod admitted although it breaks %v; %s", v.Failed, desc())
			return
		}
		if !admitted && len(v.Failed) == 0 && len(v.Extra) == 0 {
			// every rule of this validator is modelled, so a denial needs one of them to be broken
			c.Violation(t, "validating:denied-though-permitted", "pod denied although no rule is broken; %s", desc())
			return
		}
	})
}
