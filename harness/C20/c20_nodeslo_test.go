//go:build verif

// C20 — Node SLO settings are layered default < cluster < first matching node override.
// See /verif/DESIGN.md §1 C20. In-package harness (injected with -overlay).
//
// Shape: rapid generates a history of slo-controller ConfigMap events (startup sync / create / update / delete).
// Every section of every ConfigMap is absent / empty / valid / malformed / textually unchanged. Valid sections are
// built from a reflection-derived schema of the strategy structs: a random subset of leaf paths is set at cluster
// level and in 0-4 node entries with overlapping / nil / empty / invalid selectors. After every event the spec of
// three nodes is computed with NodeSLOReconciler.getNodeSLOSpec (as Reconcile does) and compared, leaf by leaf,
// with an oracle that works on the JSON *text* only (it never calls MergeCfg, json.Unmarshal into koordinator
// types, or label-selector code).
package nodeslo

import (
	"bytes"
	"context"
	"encoding/json"
	"flag"
	"fmt"
	"io"
	"reflect"
	"sort"
	"strconv"
	"strings"
	"sync"
	"testing"

	corev1 "k8s.io/api/core/v1"
	apierrors "k8s.io/apimachinery/pkg/api/errors"
	"k8s.io/apimachinery/pkg/api/resource"
	metav1 "k8s.io/apimachinery/pkg/apis/meta/v1"
	"k8s.io/apimachinery/pkg/runtime/schema"
	"k8s.io/apimachinery/pkg/types"
	"k8s.io/apimachinery/pkg/util/intstr"
	"k8s.io/client-go/kubernetes/scheme"
	"k8s.io/client-go/tools/record"
	"k8s.io/client-go/util/workqueue"
	"k8s.io/klog/v2"
	"pgregory.net/rapid"
	"sigs.k8s.io/controller-runtime/pkg/client"
	"sigs.k8s.io/controller-runtime/pkg/event"
	"sigs.k8s.io/controller-runtime/pkg/reconcile"

	"github.com/koordinator-sh/koordinator/apis/configuration"
	"github.com/koordinator-sh/koordinator/apis/extension"
	slov1alpha1 "github.com/koordinator-sh/koordinator/apis/slo/v1alpha1"
	"github.com/koordinator-sh/koordinator/pkg/util/sloconfig"
	"github.com/koordinator-sh/koordinator/pkg/verifkit/vk"
)

// ---------------------------------------------------------------- schema (reflection over the strategy structs)

type c20Kind int

const (
	c20KObj      c20Kind = iota // struct or *struct: nested JSON object
	c20KBool                    // *bool
	c20KInt                     // *int64 / *int32
	c20KStrPtr                  // *string-kind: any string sets it
	c20KStrVal                  // string-kind by value: "" is the zero value = not set
	c20KIntOrStr                // *intstr.IntOrString
	c20KQuantity                // resource.Quantity by value
	c20KMapBool                 // map[string]bool: merged per key
	c20KSlice                   // []*struct / []struct
)

func (k c20Kind) String() string {
	return [...]string{"object", "bool", "int", "strptr", "enum", "intorstr", "quantity", "mapkey", "slice"}[k]
}

type c20Schema struct {
	name     string
	kind     c20Kind
	bits     int
	children []*c20Schema // c20KObj: fields; c20KSlice: fields of one element
}

var (
	c20TypeIntOrStr = reflect.TypeOf(intstr.IntOrString{})
	c20TypeQuantity = reflect.TypeOf(resource.Quantity{})
)

// c20BuildSchema lists the JSON fields of struct type t the way encoding/json sees them (tag names, anonymous
// structs inlined). Field types the harness has no generator for are skipped and reported through skipped.
func c20BuildSchema(t reflect.Type, path string, skipped *[]string) []*c20Schema {
	for t.Kind() == reflect.Ptr {
		t = t.Elem()
	}
	var out []*c20Schema
	for i := 0; i < t.NumField(); i++ {
		f := t.Field(i)
		tag := f.Tag.Get("json")
		if tag == "-" {
			continue
		}
		name, _, _ := strings.Cut(tag, ",")
		ft := f.Type
		if f.Anonymous && name == "" {
			et := ft
			if et.Kind() == reflect.Ptr {
				et = et.Elem()
			}
			if et.Kind() == reflect.Struct {
				out = append(out, c20BuildSchema(et, path, skipped)...)
				continue
			}
		}
		if !f.IsExported() {
			continue
		}
		if name == "" {
			name = f.Name
		}
		n := &c20Schema{name: name}
		p := path + "/" + name
		ok := true
		switch ft.Kind() {
		case reflect.Ptr:
			et := ft.Elem()
			switch {
			case et == c20TypeIntOrStr:
				n.kind = c20KIntOrStr
			case et.Kind() == reflect.Bool:
				n.kind = c20KBool
			case et.Kind() == reflect.Int64:
				n.kind, n.bits = c20KInt, 64
			case et.Kind() == reflect.Int32:
				n.kind, n.bits = c20KInt, 32
			case et.Kind() == reflect.String:
				n.kind = c20KStrPtr
			case et.Kind() == reflect.Struct:
				n.kind = c20KObj
				n.children = c20BuildSchema(et, p, skipped)
			default:
				ok = false
			}
		case reflect.Struct:
			if ft == c20TypeQuantity {
				n.kind = c20KQuantity
			} else {
				n.kind = c20KObj
				n.children = c20BuildSchema(ft, p, skipped)
			}
		case reflect.String:
			n.kind = c20KStrVal
		case reflect.Map:
			if ft.Key().Kind() == reflect.String && ft.Elem().Kind() == reflect.Bool {
				n.kind = c20KMapBool
			} else {
				ok = false
			}
		case reflect.Slice:
			et := ft.Elem()
			if et.Kind() == reflect.Ptr {
				et = et.Elem()
			}
			if et.Kind() == reflect.Struct {
				n.kind = c20KSlice
				n.children = c20BuildSchema(et, p+"[]", skipped)
			} else {
				ok = false
			}
		default:
			ok = false
		}
		if !ok {
			*skipped = append(*skipped, p+" ("+ft.String()+")")
			continue
		}
		out = append(out, n)
	}
	return out
}

// one settable position of a strategy: a scalar leaf, a whole map or a whole slice
type c20Slot struct {
	segs []string
	sch  *c20Schema
}

func c20Slots(sch []*c20Schema, prefix []string, out *[]c20Slot) {
	for _, n := range sch {
		segs := append(append([]string{}, prefix...), n.name)
		if n.kind == c20KObj {
			c20Slots(n.children, segs, out)
			continue
		}
		*out = append(*out, c20Slot{segs: segs, sch: n})
	}
}

// ---------------------------------------------------------------- leaves: the oracle's view of a JSON value

// c20Val is the value of one leaf path. For slices v is []c20Leaves (one leaf map per element).
type c20Val struct {
	kind c20Kind
	v    any
}
type c20Leaves map[string]c20Val

// c20Flatten collects the leaves that the JSON value v SETS, according to the text-level rule the statement is
// read with: a key that is absent, null, an empty string for a by-value string field, an empty map or an empty
// list does not set anything; unknown keys are ignored.
func c20Flatten(v any, sch []*c20Schema, prefix string, out c20Leaves) {
	m, ok := v.(map[string]any)
	if !ok {
		return
	}
	for _, n := range sch {
		x, present := m[n.name]
		if !present || x == nil {
			continue
		}
		p := prefix + "/" + n.name
		switch n.kind {
		case c20KObj:
			c20Flatten(x, n.children, p, out)
		case c20KStrVal:
			if s, _ := x.(string); s != "" {
				out[p] = c20Val{n.kind, s}
			}
		case c20KMapBool:
			if mm, ok := x.(map[string]any); ok {
				for _, k := range vk.SortedKeys(mm) {
					if mm[k] != nil {
						out[p+"/"+k] = c20Val{n.kind, mm[k]}
					}
				}
			}
		case c20KSlice:
			if arr, ok := x.([]any); ok && len(arr) > 0 {
				elems := make([]c20Leaves, len(arr))
				for i, e := range arr {
					elems[i] = c20Leaves{}
					c20Flatten(e, n.children, "", elems[i])
				}
				out[p] = c20Val{n.kind, elems}
			}
		default:
			out[p] = c20Val{n.kind, x}
		}
	}
}

func c20ScalarEq(kind c20Kind, a, b any) bool {
	if kind == c20KQuantity {
		qa, ea := resource.ParseQuantity(fmt.Sprint(a))
		qb, eb := resource.ParseQuantity(fmt.Sprint(b))
		return ea == nil && eb == nil && qa.Cmp(qb) == 0
	}
	switch x := a.(type) {
	case json.Number:
		y, ok := b.(json.Number)
		return ok && x.String() == y.String()
	case string:
		y, ok := b.(string)
		return ok && x == y
	case bool:
		y, ok := b.(bool)
		return ok && x == y
	}
	return false
}

func c20LeavesEq(a, b c20Leaves) bool {
	if len(a) != len(b) {
		return false
	}
	for k, x := range a {
		y, ok := b[k]
		if !ok || !c20ValEq(x, y) {
			return false
		}
	}
	return true
}

// exact equality (slices element by element, leaf by leaf)
func c20ValEq(a, b c20Val) bool {
	if a.kind != b.kind {
		return false
	}
	if a.kind != c20KSlice {
		return c20ScalarEq(a.kind, a.v, b.v)
	}
	x, y := a.v.([]c20Leaves), b.v.([]c20Leaves)
	if len(x) != len(y) {
		return false
	}
	for i := range x {
		if !c20LeavesEq(x[i], y[i]) {
			return false
		}
	}
	return true
}

// c20SliceOK: the statement does not say whether a list set at a more specific layer replaces the less specific
// list as a whole or is laid over it element by element (which is what the JSON overlay does for lists of
// objects). Both readings are accepted: length and every leaf the top layer sets are binding; a leaf the top
// layer's element leaves unset may be absent or carry the value of the lower layer's element at the same index.
var c20InheritedOtherName bool // set by c20SliceOK, read and reset by the (single-goroutine) caller for a class counter

func c20SliceOK(top, under []c20Leaves, act c20Val) (bool, bool) {
	got, ok := act.v.([]c20Leaves)
	if act.kind != c20KSlice || !ok || len(got) != len(top) {
		return false, false
	}
	inherited := false
	for i := range top {
		for p, want := range top[i] {
			if g, ok := got[i][p]; !ok || !c20ValEq(want, g) {
				return false, false
			}
		}
		for p, g := range got[i] {
			if _, set := top[i][p]; set {
				continue
			}
			if i < len(under) {
				if u, ok := under[i][p]; ok && c20ValEq(u, g) {
					inherited = true
					if tn, ok1 := top[i]["/name"]; ok1 {
						if un, ok2 := under[i]["/name"]; ok2 && !c20ValEq(tn, un) {
							c20InheritedOtherName = true // observation only, see the class counter
						}
					}
					continue
				}
			}
			return false, false
		}
	}
	return true, inherited
}

func c20ValStr(v c20Val, ok bool) string {
	if !ok {
		return "<absent>"
	}
	if v.kind == c20KSlice {
		var parts []string
		for _, e := range v.v.([]c20Leaves) {
			parts = append(parts, c20LeavesStr(e))
		}
		return "[" + strings.Join(parts, ", ") + "]"
	}
	return fmt.Sprintf("%#v", v.v)
}

func c20LeavesStr(l c20Leaves) string {
	var parts []string
	for _, k := range vk.SortedKeys(l) {
		parts = append(parts, k+"="+c20ValStr(l[k], true))
	}
	return "{" + strings.Join(parts, " ") + "}"
}

func c20Decode(b []byte) any {
	d := json.NewDecoder(bytes.NewReader(b))
	d.UseNumber()
	var v any
	if err := d.Decode(&v); err != nil {
		panic(fmt.Sprintf("harness: cannot decode %s: %v", b, err))
	}
	return v
}

func c20Marshal(v any) string {
	b, err := json.Marshal(v)
	if err != nil {
		panic(err)
	}
	return string(b)
}

// ---------------------------------------------------------------- sections

type c20Section struct {
	id       string
	key      string // ConfigMap key
	list     bool   // host applications: the section is one list, node entries carry a whole list
	sch      []*c20Schema
	slots    []c20Slot
	skipped  []string
	defaults c20Leaves
	get      func(*slov1alpha1.NodeSLOSpec) any
}

const c20ListPath = "/applications"

var (
	c20SectionsOnce sync.Once
	c20Sections     []*c20Section
)

func c20AllSections() []*c20Section {
	c20SectionsOnce.Do(func() {
		mk := func(id, key string, typ any, def any, get func(*slov1alpha1.NodeSLOSpec) any) *c20Section {
			s := &c20Section{id: id, key: key, get: get}
			s.sch = c20BuildSchema(reflect.TypeOf(typ), "", &s.skipped)
			c20Slots(s.sch, nil, &s.slots)
			s.defaults = c20Leaves{}
			if def != nil { // the built-in default is data of pkg/util/sloconfig; it is only marshalled here
				c20Flatten(c20Decode([]byte(c20Marshal(def))), s.sch, "", s.defaults)
			}
			return s
		}
		c20Sections = []*c20Section{
			mk("threshold", configuration.ResourceThresholdConfigKey, slov1alpha1.ResourceThresholdStrategy{}, sloconfig.DefaultResourceThresholdStrategy(),
				func(s *slov1alpha1.NodeSLOSpec) any { return s.ResourceUsedThresholdWithBE }),
			// the controller's built-in default for the QoS section is the empty strategy (koordlet applies the per-class defaults)
			mk("qos", configuration.ResourceQOSConfigKey, slov1alpha1.ResourceQOSStrategy{}, nil,
				func(s *slov1alpha1.NodeSLOSpec) any { return s.ResourceQOSStrategy }),
			mk("cpuburst", configuration.CPUBurstConfigKey, slov1alpha1.CPUBurstStrategy{}, sloconfig.DefaultCPUBurstStrategy(),
				func(s *slov1alpha1.NodeSLOSpec) any { return s.CPUBurstStrategy }),
			mk("system", configuration.SystemConfigKey, slov1alpha1.SystemStrategy{}, sloconfig.DefaultSystemStrategy(),
				func(s *slov1alpha1.NodeSLOSpec) any { return s.SystemStrategy }),
			mk("hostapp", configuration.HostApplicationConfigKey, slov1alpha1.HostApplicationSpec{}, nil,
				func(s *slov1alpha1.NodeSLOSpec) any { return s.HostApplications }),
		}
		c20Sections[4].list = true
	})
	return c20Sections
}

// leaves of the section as delivered in a computed NodeSLOSpec
func (s *c20Section) actual(spec *slov1alpha1.NodeSLOSpec) c20Leaves {
	out := c20Leaves{}
	v := c20Decode([]byte(c20Marshal(s.get(spec))))
	if s.list {
		if arr, ok := v.([]any); ok && len(arr) > 0 {
			elems := make([]c20Leaves, len(arr))
			for i, e := range arr {
				elems[i] = c20Leaves{}
				c20Flatten(e, s.sch, "", elems[i])
			}
			out[c20ListPath] = c20Val{c20KSlice, elems}
		}
		return out
	}
	c20Flatten(v, s.sch, "", out)
	return out
}

// ---------------------------------------------------------------- generated configuration of one section

type c20Entry struct {
	name   string
	hasSel bool
	sel    any            // JSON value of nodeSelector (nil = JSON null)
	layer  map[string]any // strategy fields (inlined into the entry); for list sections {"applications": [...]}
}

type c20SecCfg struct {
	hasCluster  bool
	cluster     any // JSON value of clusterStrategy; list sections: the cluster-wide layer {"applications": [...]}
	hasEntries  bool
	nullEntries bool // the entries key is written as null (only without entries)
	entries     []c20Entry
}

func (s *c20Section) text(cfg *c20SecCfg) string {
	top := map[string]any{}
	var arr []any
	for _, e := range cfg.entries {
		m := map[string]any{}
		for k, v := range e.layer {
			m[k] = v
		}
		if e.name != "" {
			m["name"] = e.name
		}
		if e.hasSel {
			m["nodeSelector"] = e.sel
		}
		arr = append(arr, m)
	}
	if s.list {
		if cfg.hasCluster {
			for k, v := range cfg.cluster.(map[string]any) {
				top[k] = v
			}
		}
		if cfg.hasEntries {
			if arr == nil {
				arr = []any{}
			}
			top["nodeConfigs"] = arr
			if cfg.nullEntries && len(arr) == 0 {
				top["nodeConfigs"] = nil
			}
		}
		return c20Marshal(top)
	}
	if cfg.hasCluster {
		top["clusterStrategy"] = cfg.cluster
	}
	if cfg.hasEntries {
		if arr == nil {
			arr = []any{}
		}
		top["nodeStrategies"] = arr
		if cfg.nullEntries && len(arr) == 0 {
			top["nodeStrategies"] = nil
		}
	}
	return c20Marshal(top)
}

// what a layer sets (text-level)
func (s *c20Section) layerLeaves(layer any) c20Leaves {
	out := c20Leaves{}
	if s.list {
		m, _ := layer.(map[string]any)
		if arr, ok := m["applications"].([]any); ok { // an explicit [] sets the list: no applications
			elems := make([]c20Leaves, len(arr))
			for i, e := range arr {
				elems[i] = c20Leaves{}
				c20Flatten(e, s.sch, "", elems[i])
			}
			out[c20ListPath] = c20Val{c20KSlice, elems}
		}
		return out
	}
	c20Flatten(layer, s.sch, "", out)
	return out
}

// ---------------------------------------------------------------- label selectors: generator + independent matcher

var (
	c20LabelKeys = []string{"a", "b", "c"}
	c20LabelVals = []string{"x", "y"}
)

func c20GenLabels(t *rapid.T, label string, pPercent int) map[string]string {
	out := map[string]string{}
	for _, k := range c20LabelKeys {
		if rapid.IntRange(0, 99).Draw(t, label+"Has"+k) >= 100-pPercent {
			out[k] = rapid.SampledFrom(c20LabelVals).Draw(t, label+"Val"+k)
		}
	}
	return out
}

// c20GenSelector returns (present, JSON value, shape). With a hint it prefers selectors the hinted label set satisfies,
// so that several entries match the same node (overlap) without filtering.
func c20GenSelector(t *rapid.T, hint map[string]string) (bool, any, string) {
	hintKeys := vk.SortedKeys(hint)
	shape := rapid.SampledFrom([]string{"labels", "labels", "labels", "labels", "labels", "expr", "expr", "expr", "both", "empty", "nil", "absent", "invalid", "invalid"}).Draw(t, "selShape")
	useHint := len(hintKeys) > 0 && rapid.IntRange(0, 9).Draw(t, "selFromNode") < 8
	pair := func() (string, string) {
		if useHint {
			k := rapid.SampledFrom(hintKeys).Draw(t, "selKey")
			return k, hint[k]
		}
		return rapid.SampledFrom(c20LabelKeys).Draw(t, "selKey"), rapid.SampledFrom(c20LabelVals).Draw(t, "selVal")
	}
	genLabels := func() map[string]any {
		m := map[string]any{}
		n := rapid.IntRange(1, 2).Draw(t, "selPairs")
		for i := 0; i < n; i++ {
			k, v := pair()
			m[k] = v
		}
		return m
	}
	genExprs := func() []any {
		var out []any
		n := rapid.IntRange(1, 2).Draw(t, "selExprs")
		for i := 0; i < n; i++ {
			k, v := pair()
			op := rapid.SampledFrom([]string{"In", "In", "NotIn", "Exists", "DoesNotExist"}).Draw(t, "selOp")
			e := map[string]any{"key": k, "operator": op}
			switch op {
			case "In":
				vals := []any{v}
				if rapid.Bool().Draw(t, "selTwoVals") {
					vals = append(vals, rapid.SampledFrom(c20LabelVals).Draw(t, "selVal2"))
				}
				e["values"] = vals
			case "NotIn":
				other := rapid.SampledFrom(append([]string{"z"}, c20LabelVals...)).Draw(t, "selNotVal")
				e["values"] = []any{other}
			case "DoesNotExist":
				if useHint { // something the hinted node satisfies
					e["key"] = "nokey"
				}
			}
			out = append(out, e)
		}
		return out
	}
	switch shape {
	case "labels":
		return true, map[string]any{"matchLabels": genLabels()}, shape
	case "expr":
		return true, map[string]any{"matchExpressions": genExprs()}, shape
	case "both":
		return true, map[string]any{"matchLabels": genLabels(), "matchExpressions": genExprs()}, shape
	case "empty": // an empty selector selects every node
		return true, map[string]any{}, shape
	case "nil": // a null selector selects no node
		return true, nil, shape
	case "absent":
		return false, nil, shape
	default: // selectors LabelSelectorAsSelector rejects: the entry can select no node
		k, v := pair()
		var e map[string]any
		switch rapid.IntRange(0, 3).Draw(t, "selBad") {
		case 0:
			e = map[string]any{"key": k, "operator": "In", "values": []any{}}
		case 1:
			e = map[string]any{"key": k, "operator": "Exists", "values": []any{v}}
		case 2:
			e = map[string]any{"key": k, "operator": "Bogus", "values": []any{v}}
		default:
			return true, map[string]any{"matchLabels": map[string]any{k: "not a valid label value!"}}, "invalid"
		}
		sel := map[string]any{"matchExpressions": []any{e}}
		if rapid.Bool().Draw(t, "selBadPlusLabels") {
			sel["matchLabels"] = genLabels()
		}
		return true, sel, "invalid"
	}
}

func c20ValidLabelValue(s string) bool {
	if len(s) > 63 {
		return false
	}
	for i, r := range s {
		alnum := (r >= 'a' && r <= 'z') || (r >= 'A' && r <= 'Z') || (r >= '0' && r <= '9')
		if !(alnum || ((r == '-' || r == '_' || r == '.') && i != 0 && i != len(s)-1)) {
			return false
		}
	}
	return true
}

// c20SelMatches re-states label-selector semantics on the JSON value (only the shapes the generator emits).
func c20SelMatches(present bool, sel any, labels map[string]string) (match, valid bool) {
	if !present || sel == nil {
		return false, true
	}
	m := sel.(map[string]any)
	match = true
	if ml, ok := m["matchLabels"].(map[string]any); ok {
		for k, v := range ml {
			s := v.(string)
			if !c20ValidLabelValue(s) {
				return false, false
			}
			if got, has := labels[k]; !has || got != s {
				match = false
			}
		}
	}
	if me, ok := m["matchExpressions"].([]any); ok {
		for _, x := range me {
			e := x.(map[string]any)
			key, op := e["key"].(string), e["operator"].(string)
			vals, _ := e["values"].([]any)
			got, has := labels[key]
			in := false
			for _, v := range vals {
				if has && v.(string) == got {
					in = true
				}
			}
			switch op {
			case "In":
				if len(vals) == 0 {
					return false, false
				}
				match = match && in
			case "NotIn":
				if len(vals) == 0 {
					return false, false
				}
				match = match && !in
			case "Exists":
				if len(vals) != 0 {
					return false, false
				}
				match = match && has
			case "DoesNotExist":
				if len(vals) != 0 {
					return false, false
				}
				match = match && !has
			default:
				return false, false
			}
		}
	}
	return match, true
}

// ---------------------------------------------------------------- value and layer generators

var (
	c20StrPool      = []string{"cpuset", "cfsQuota", "evictByRealLimit", "evictByAllocatable", "auto", "none", "groupIdentity", "coreSched", "tc", "device", "/dev/vda", "x"}
	c20QuantityPool = []any{"0", "1", "100M", "1G", "10G", "1500M", "1Gi", json.Number("1000")}
	c20MapKeys      = []string{"f1", "f2", "f3"}
)

func c20Num(i int64) json.Number { return json.Number(strconv.FormatInt(i, 10)) }

type c20Flags struct{ null, emptyEnum, unknown, outOfRange, emptyObj, emptyList bool }

func c20GenScalar(t *rapid.T, n *c20Schema, fl *c20Flags) any {
	switch n.kind {
	case c20KBool:
		return rapid.Bool().Draw(t, "b")
	case c20KInt:
		switch rapid.IntRange(0, 9).Draw(t, "intKind") {
		case 9:
			fl.outOfRange = true
			if n.bits == 32 {
				return c20Num(int64(rapid.SampledFrom([]int32{-2147483648, 2147483647, -1, 100000}).Draw(t, "i32")))
			}
			return c20Num(rapid.SampledFrom([]int64{-9223372036854775808, 9223372036854775807, 9007199254740993, -7, 101, 100000}).Draw(t, "i64"))
		case 7, 8:
			return c20Num(int64(rapid.IntRange(-1, 2).Draw(t, "iSmall")))
		default:
			return c20Num(int64(rapid.IntRange(0, 100).Draw(t, "iPct")))
		}
	case c20KStrPtr:
		return rapid.SampledFrom(append([]string{""}, c20StrPool...)).Draw(t, "sp")
	case c20KStrVal:
		if rapid.IntRange(0, 11).Draw(t, "emptyEnum") == 11 {
			fl.emptyEnum = true
			return ""
		}
		return rapid.SampledFrom(c20StrPool).Draw(t, "sv")
	case c20KIntOrStr:
		if rapid.Bool().Draw(t, "iosInt") {
			return c20Num(int64(rapid.IntRange(0, 10000).Draw(t, "iosI")))
		}
		return rapid.SampledFrom([]string{"50M", "30%", "1G", "0", "100"}).Draw(t, "iosS")
	case c20KQuantity:
		return rapid.SampledFrom(c20QuantityPool).Draw(t, "q")
	case c20KMapBool:
		m := map[string]any{}
		for _, k := range c20MapKeys {
			if rapid.IntRange(0, 1).Draw(t, "mk"+k) == 0 {
				m[k] = rapid.Bool().Draw(t, "mv"+k)
			}
		}
		return m
	case c20KSlice:
		n0 := rapid.IntRange(0, 9).Draw(t, "sliceLen")
		if n0 == 9 {
			fl.emptyList = true
			return []any{}
		}
		ln := 1 + n0%3
		arr := make([]any, ln)
		for i := range arr {
			arr[i] = c20GenObject(t, n.children, 45, fl)
		}
		return arr
	}
	panic("harness: no generator for kind " + n.kind.String())
}

// an object with each slot of sch set with probability pct/100
func c20GenObject(t *rapid.T, sch []*c20Schema, pct int, fl *c20Flags) map[string]any {
	var slots []c20Slot
	c20Slots(sch, nil, &slots)
	m := map[string]any{}
	for _, sl := range slots {
		if rapid.IntRange(0, 99).Draw(t, "set") >= 100-pct {
			c20Put(m, sl.segs, c20GenScalar(t, sl.sch, fl))
		}
	}
	return m
}

func c20Put(m map[string]any, segs []string, v any) {
	for _, s := range segs[:len(segs)-1] {
		nx, ok := m[s].(map[string]any)
		if !ok {
			nx = map[string]any{}
			m[s] = nx
		}
		m = nx
	}
	m[segs[len(segs)-1]] = v
}

// c20GenLayer builds the strategy object of one layer. hot = indexes of the slots this case concentrates on, so that
// different layers often set the same and neighbouring paths.
func (s *c20Section) genLayer(t *rapid.T, hot []int, fl *c20Flags) map[string]any {
	m := map[string]any{}
	if s.list {
		switch rapid.IntRange(0, 9).Draw(t, "appsKind") {
		case 0, 1: // the layer does not mention the list
		case 8:
			m["applications"] = nil
			fl.null = true
		case 9:
			m["applications"] = []any{}
			fl.emptyList = true
		default:
			n := rapid.IntRange(1, 3).Draw(t, "apps")
			arr := make([]any, n)
			for i := range arr {
				app := c20GenObject(t, s.sch, 50, fl)
				app["name"] = rapid.SampledFrom([]string{"nginx", "sshd", "agent", "db"}).Draw(t, "appName")
				arr[i] = app
			}
			m["applications"] = arr
		}
		return m
	}
	mode := rapid.SampledFrom([]string{"none", "hot", "hot", "hot", "hot", "hot+", "hot+", "full"}).Draw(t, "layerMode")
	isHot := map[int]bool{}
	for _, h := range hot {
		isHot[h] = true
	}
	for i, sl := range s.slots {
		set := false
		switch mode {
		case "hot":
			set = isHot[i] && rapid.IntRange(0, 9).Draw(t, "hotSet") >= 4
		case "hot+":
			if isHot[i] {
				set = rapid.IntRange(0, 9).Draw(t, "hotSet") >= 4
			} else {
				set = rapid.IntRange(0, 99).Draw(t, "coldSet") >= 94
			}
		case "full":
			set = true
		}
		if !set {
			continue
		}
		var v any
		if mode != "full" && rapid.IntRange(0, 24).Draw(t, "null") == 24 {
			fl.null = true // an explicit null does not set the field
		} else {
			v = c20GenScalar(t, sl.sch, fl)
		}
		c20Put(m, sl.segs, v)
	}
	if rapid.IntRange(0, 9).Draw(t, "unknownKey") == 9 {
		m["zzUnknownField"] = c20Num(7)
		fl.unknown = true
	}
	if rapid.IntRange(0, 9).Draw(t, "emptyObj") == 9 { // an empty nested object sets nothing
		for _, n := range s.sch {
			if n.kind == c20KObj {
				if _, has := m[n.name]; !has {
					m[n.name] = map[string]any{}
					fl.emptyObj = true
					break
				}
			}
		}
	}
	return m
}

// full = the focused section (0-4 entries, all selector shapes); otherwise a small configuration used as background
func (s *c20Section) genCfg(t *rapid.T, full bool, hot []int, hints []map[string]string, fl *c20Flags) *c20SecCfg {
	cfg := &c20SecCfg{}
	switch rapid.IntRange(0, 9).Draw(t, "clusterKind") {
	case 0: // no cluster level at all
	case 1:
		if !s.list {
			cfg.hasCluster, cfg.cluster = true, nil // "clusterStrategy": null
		}
	default:
		cfg.hasCluster, cfg.cluster = true, s.genLayer(t, hot, fl)
	}
	maxE := 4
	if !full {
		maxE = 1
	}
	n := rapid.IntRange(0, maxE).Draw(t, "entries")
	if full {
		n = rapid.SampledFrom([]int{0, 1, 2, 2, 3, 3, 4, 4}).Draw(t, "entriesFull")
	}
	cfg.hasEntries = n > 0 || rapid.Bool().Draw(t, "emptyEntriesKey")
	for i := 0; i < n; i++ {
		e := c20Entry{}
		if rapid.Bool().Draw(t, "named") {
			e.name = fmt.Sprintf("e%d", i)
		}
		e.hasSel, e.sel, _ = c20GenSelector(t, hints[rapid.SampledFrom([]int{0, 0, 0, 0, 1, 2}).Draw(t, "hintNode")%len(hints)])
		e.layer = s.genLayer(t, hot, fl)
		cfg.entries = append(cfg.entries, e)
	}
	return cfg
}

// ---------------------------------------------------------------- targeted mutation: absent vs [] / {} vs null

func c20Clone(v any) any {
	switch x := v.(type) {
	case map[string]any:
		m := make(map[string]any, len(x))
		for k, e := range x {
			m[k] = c20Clone(e)
		}
		return m
	case []any:
		a := make([]any, len(x))
		for i, e := range x {
			a[i] = c20Clone(e)
		}
		return a
	}
	return v
}

func c20CloneCfg(cfg *c20SecCfg) *c20SecCfg {
	out := &c20SecCfg{hasCluster: cfg.hasCluster, cluster: c20Clone(cfg.cluster), hasEntries: cfg.hasEntries, nullEntries: cfg.nullEntries}
	for _, e := range cfg.entries {
		l, _ := c20Clone(e.layer).(map[string]any)
		out.entries = append(out.entries, c20Entry{name: e.name, hasSel: e.hasSel, sel: c20Clone(e.sel), layer: l})
	}
	return out
}

// state of a list/map-valued key inside a layer: 0 absent (its parent object exists), 1 empty ([] or {}), 2 null,
// -1 anything else (non-empty value, or the parent object is missing)
func c20EmptyState(layer map[string]any, segs []string) int {
	m := layer
	for _, sg := range segs[:len(segs)-1] {
		nx, ok := m[sg].(map[string]any)
		if !ok {
			return -1
		}
		m = nx
	}
	v, present := m[segs[len(segs)-1]]
	switch x := v.(type) {
	case nil:
		if present {
			return 2
		}
		return 0
	case []any:
		if len(x) == 0 {
			return 1
		}
	case map[string]any:
		if len(x) == 0 {
			return 1
		}
	}
	return -1
}

// toggle returns a copy of prev that differs ONLY in how "nothing" is written for some list/map-valued keys: the key
// absent, an explicit empty list/map, or null - in the cluster level, in node entries, and for the entries key itself.
// ok=false when prev offers no such key.
func (s *c20Section) toggle(t *rapid.T, prev *c20SecCfg) (cfg *c20SecCfg, where []string, ok bool) {
	cfg = c20CloneCfg(prev)
	type site struct {
		name  string
		layer map[string]any
		segs  []string
		empty func() any
		state int
	}
	var sites []site
	addLayer := func(name string, layer map[string]any) {
		if s.list {
			sites = append(sites, site{name: name, layer: layer, segs: []string{"applications"}, empty: func() any { return []any{} }})
			return
		}
		for _, sl := range s.slots {
			switch sl.sch.kind {
			case c20KSlice:
				sites = append(sites, site{name: name, layer: layer, segs: sl.segs, empty: func() any { return []any{} }})
			case c20KMapBool:
				sites = append(sites, site{name: name, layer: layer, segs: sl.segs, empty: func() any { return map[string]any{} }})
			}
		}
	}
	if s.list && !cfg.hasCluster {
		cfg.hasCluster, cfg.cluster = true, map[string]any{} // the cluster level of a list section is the top-level object itself
	}
	if cl, isMap := cfg.cluster.(map[string]any); cfg.hasCluster && isMap {
		addLayer("cluster", cl)
	}
	for i := range cfg.entries {
		addLayer(fmt.Sprintf("entry%d", i), cfg.entries[i].layer)
	}
	var cand []site
	for _, st := range sites {
		if st.state = c20EmptyState(st.layer, st.segs); st.state >= 0 {
			cand = append(cand, st)
		}
	}
	entriesKey := len(cfg.entries) == 0
	if len(cand) == 0 && !entriesKey {
		return nil, nil, false
	}
	// either 1-2 chosen keys, or every such key at once (each to a drawn state, possibly the one it has)
	all := rapid.Bool().Draw(t, "toggleAll")
	n := len(cand) + 1
	if !all {
		n = rapid.IntRange(1, 2).Draw(t, "toggles")
	}
	for k := 0; k < n; k++ {
		pick, minStep := k, 0
		if !all {
			pick, minStep = rapid.IntRange(0, len(cand)).Draw(t, "toggleSite"), 1 // len(cand) = the entries key
		}
		if pick == len(cand) && !entriesKey {
			if all {
				continue
			}
			pick = 0
		}
		step := rapid.IntRange(minStep, 2).Draw(t, "toggleTo")
		if step == 0 {
			continue
		}
		if pick == len(cand) {
			cur := 0
			if cfg.hasEntries {
				cur = 1
				if cfg.nullEntries {
					cur = 2
				}
			}
			next := (cur + step) % 3
			cfg.hasEntries, cfg.nullEntries = next != 0, next == 2
			where = append(where, "entries-key")
			continue
		}
		st := cand[pick]
		next := (c20EmptyState(st.layer, st.segs) + step) % 3
		switch next {
		case 0:
			m := st.layer
			for _, sg := range st.segs[:len(st.segs)-1] {
				m = m[sg].(map[string]any)
			}
			delete(m, st.segs[len(st.segs)-1])
		case 1:
			c20Put(st.layer, st.segs, st.empty())
		default:
			c20Put(st.layer, st.segs, nil)
		}
		loc := "entry"
		if st.name == "cluster" {
			loc = "cluster"
		}
		where = append(where, loc)
	}
	return cfg, where, true
}

// ---------------------------------------------------------------- malformed section texts

// c20Malformed returns a text json.Unmarshal into the section's configuration type must reject (syntax error or a
// value of the wrong JSON type for its field), and the name of the variant.
func (s *c20Section) malformed(t *rapid.T, base *c20SecCfg) (string, string) {
	valid := s.text(base)
	variants := []string{"garbage", "empty-string", "truncated", "trailing", "top-array", "top-string", "top-number",
		"entries-not-array", "selector-not-object", "leaf-type", "leaf-type", "leaf-type", "int-overflow",
		"byte-mutation", "byte-mutation", "byte-mutation"}
	if !s.list {
		variants = append(variants, "cluster-not-object")
	}
	v := rapid.SampledFrom(variants).Draw(t, "malformedVariant")
	entriesKey := "nodeStrategies"
	if s.list {
		entriesKey = "nodeConfigs"
	}
	reencode := func(mut func(top map[string]any)) string {
		top := c20Decode([]byte(valid)).(map[string]any)
		mut(top)
		return c20Marshal(top)
	}
	// the object a wrong-typed leaf is planted in: the cluster level or a (new) node entry
	plant := func(segs []string, bad any) string {
		return reencode(func(top map[string]any) {
			if s.list {
				app := map[string]any{"name": "ok"}
				c20Put(app, segs, bad)
				top["applications"] = []any{app}
				return
			}
			if arr, ok := top[entriesKey].([]any); ok && len(arr) > 0 && rapid.Bool().Draw(t, "plantInEntry") {
				c20Put(arr[rapid.IntRange(0, len(arr)-1).Draw(t, "plantEntry")].(map[string]any), segs, bad)
				return
			}
			cl, ok := top["clusterStrategy"].(map[string]any)
			if !ok {
				cl = map[string]any{}
				top["clusterStrategy"] = cl
			}
			c20Put(cl, segs, bad)
		})
	}
	pick := func(kinds ...c20Kind) (c20Slot, bool) {
		var cand []c20Slot
		for _, sl := range s.slots {
			for _, k := range kinds {
				if sl.sch.kind == k {
					cand = append(cand, sl)
				}
			}
		}
		if len(cand) == 0 {
			return c20Slot{}, false
		}
		return cand[rapid.IntRange(0, len(cand)-1).Draw(t, "badSlot")], true
	}
	switch v {
	case "garbage":
		return "invalid_content", v
	case "empty-string":
		return "", v
	case "truncated":
		return valid[:len(valid)-1], v
	case "byte-mutation": // 1-3 random byte edits of a valid text, kept when the result is not JSON at all (encoding/json.Valid)
		b := []byte(valid)
		n := rapid.IntRange(1, 3).Draw(t, "edits")
		for i := 0; i < n && len(b) > 0; i++ {
			pos := rapid.IntRange(0, len(b)-1).Draw(t, "editPos")
			ch := rapid.SampledFrom([]byte("{}[]\":,x0 \\")).Draw(t, "editByte")
			switch rapid.IntRange(0, 2).Draw(t, "editKind") {
			case 0:
				b = append(b[:pos:pos], b[pos+1:]...)
			case 1:
				b[pos] = ch
			default:
				b = append(b[:pos:pos], append([]byte{ch}, b[pos:]...)...)
			}
		}
		if !json.Valid(b) {
			return string(b), v
		}
		return "invalid_content", "garbage"
	case "trailing":
		return valid + "x", v
	case "top-array":
		return "[" + valid + "]", v
	case "top-string":
		return `"` + "clusterStrategy" + `"`, v
	case "top-number":
		return "42", v
	case "entries-not-array":
		return reencode(func(top map[string]any) { top[entriesKey] = map[string]any{"name": "e0"} }), v
	case "cluster-not-object":
		return reencode(func(top map[string]any) { top["clusterStrategy"] = []any{c20Num(1)} }), v
	case "selector-not-object":
		return reencode(func(top map[string]any) {
			arr, _ := top[entriesKey].([]any)
			top[entriesKey] = append(arr, map[string]any{"nodeSelector": "a=x"})
		}), v
	case "int-overflow":
		if sl, ok := pick(c20KInt); ok {
			bad := json.Number("9223372036854775808")
			if sl.sch.bits == 32 {
				bad = json.Number("2147483648")
			}
			return plant(sl.segs, bad), v
		}
	}
	// leaf-type (also the fallback): a string where a number/bool is expected, a number where a string is expected
	if sl, ok := pick(c20KInt, c20KBool, c20KStrVal, c20KStrPtr); ok {
		var bad any
		switch sl.sch.kind {
		case c20KInt:
			bad = rapid.SampledFrom([]any{"60", json.Number("1.5"), true}).Draw(t, "badInt")
		case c20KBool:
			bad = rapid.SampledFrom([]any{"true", json.Number("1")}).Draw(t, "badBool")
		default:
			bad = rapid.SampledFrom([]any{json.Number("5"), false}).Draw(t, "badStr")
		}
		return plant(sl.segs, bad), "leaf-type"
	}
	return "invalid_content", "garbage"
}

// ---------------------------------------------------------------- oracle: the layered value of every leaf for one node

type c20Exp struct {
	val   c20Val
	src   string      // "default" | "cluster" | "entry"
	under []c20Leaves // slices only: the list of the next lower layer (element-wise overlay is tolerated)
	// by-value quantity explicitly written as zero: Go cannot tell it from "not set"; the value of the next lower
	// layer is tolerated as well
	zeroAlt *c20Val
}

type c20NodeView struct {
	// list sections: the first matching entry writes the list explicitly as null. Go decodes that like an absent key
	// (not set: cluster list), but "set to nothing" is a defensible reading too; both are tolerated.
	explicitNull bool
	exp          map[string]c20Exp
	matching     []int // indexes of entries whose (valid) selector matches, in list order
	invalid      []int
	entryLeaf    []c20Leaves
	cluster      c20Leaves
}

func (s *c20Section) expect(cfg *c20SecCfg, labels map[string]string) *c20NodeView {
	v := &c20NodeView{exp: map[string]c20Exp{}, cluster: c20Leaves{}}
	for p, x := range s.defaults {
		v.exp[p] = c20Exp{val: x, src: "default"}
	}
	lay := func(l c20Leaves, src string) {
		for p, x := range l {
			e := c20Exp{val: x, src: src}
			if low, ok := v.exp[p]; ok {
				if x.kind == c20KSlice {
					e.under, _ = low.val.v.([]c20Leaves)
				}
				if x.kind == c20KQuantity && c20ScalarEq(c20KQuantity, x.v, "0") {
					alt := low.val
					if low.zeroAlt != nil {
						alt = *low.zeroAlt
					}
					e.zeroAlt = &alt
				}
			}
			v.exp[p] = e
		}
	}
	if cfg.hasCluster {
		v.cluster = s.layerLeaves(cfg.cluster)
		lay(v.cluster, "cluster")
	}
	for i, e := range cfg.entries {
		v.entryLeaf = append(v.entryLeaf, s.layerLeaves(e.layer))
		m, valid := c20SelMatches(e.hasSel, e.sel, labels)
		if !valid {
			v.invalid = append(v.invalid, i)
		} else if m {
			v.matching = append(v.matching, i)
		}
	}
	if len(v.matching) > 0 { // the FIRST matching entry, and only that one
		first := cfg.entries[v.matching[0]]
		lay(v.entryLeaf[v.matching[0]], "entry")
		if x, mentioned := first.layer["applications"]; s.list && mentioned && x == nil {
			v.explicitNull = true
		}
	}
	return v
}

// c20Diff compares the delivered leaves with the expectation; returns the differing paths in path order.
func c20Diff(exp map[string]c20Exp, act c20Leaves) (bad []string, inherited bool) {
	seen := map[string]bool{}
	var paths []string
	for p := range exp {
		paths, seen[p] = append(paths, p), true
	}
	for p := range act {
		if !seen[p] {
			paths = append(paths, p)
		}
	}
	sort.Strings(paths)
	for _, p := range paths {
		e, hasE := exp[p]
		a, hasA := act[p]
		switch {
		case hasE && e.val.kind == c20KSlice && len(e.val.v.([]c20Leaves)) == 0: // set to the empty list
			if hasA {
				bad = append(bad, p)
			}
		case hasE != hasA:
			bad = append(bad, p)
		case e.val.kind == c20KSlice:
			ok, inh := c20SliceOK(e.val.v.([]c20Leaves), e.under, a)
			if !ok {
				bad = append(bad, p)
			}
			inherited = inherited || inh
		case !c20ValEq(e.val, a) && !(e.zeroAlt != nil && c20ValEq(*e.zeroAlt, a)):
			bad = append(bad, p)
		}
	}
	return bad, inherited
}

// where does the delivered value of path p come from? (only used to give the violation a specific signature)
func (v *c20NodeView) origin(s *c20Section, p string, a c20Val, has bool) string {
	if !has {
		return "none"
	}
	eq := func(l c20Leaves) bool { x, ok := l[p]; return ok && c20ValEq(x, a) }
	if eq(v.cluster) {
		return "cluster"
	}
	if eq(s.defaults) {
		return "default"
	}
	isMatch := map[int]bool{}
	for k, i := range v.matching {
		isMatch[i] = true
		if eq(v.entryLeaf[i]) {
			if k == 0 {
				return "first-matching-entry"
			}
			return "later-matching-entry"
		}
	}
	for _, i := range v.invalid {
		isMatch[i] = true
		if eq(v.entryLeaf[i]) {
			return "invalid-selector-entry"
		}
	}
	for i := range v.entryLeaf {
		if !isMatch[i] && eq(v.entryLeaf[i]) {
			return "unselected-entry"
		}
	}
	return "other"
}

// ---------------------------------------------------------------- driving the real handler / reconciler

// c20Client stands for the manager's cache-backed client: the handler only reads the slo-controller ConfigMap
// (start-up sync) and lists the nodes (enqueue after a change). Building controller-runtime's fake client for every
// case costs more than the rest of the case.
type c20Client struct {
	client.Client
	cm    *corev1.ConfigMap
	nodes []*corev1.Node
	// delivered mode: the NodeSLO objects as an API server keeps them - serialized; every Get decodes into a fresh
	// object, so what Reconcile reads is what an earlier Reconcile stored, not a shared Go pointer
	nodeSLOs map[string][]byte
	writes   int
	// start-up race test: called inside the Get of the ConfigMap (the window between IsCfgAvailable's check and its sync)
	onConfigMapGet func()
}

func (c *c20Client) Get(_ context.Context, key client.ObjectKey, obj client.Object, _ ...client.GetOption) error {
	switch out := obj.(type) {
	case *corev1.ConfigMap:
		if c.onConfigMapGet != nil {
			hook := c.onConfigMapGet
			c.onConfigMapGet = nil
			defer hook() // the object read is the one present BEFORE the hook delivers a newer version
		}
		if c.cm != nil && key.Name == c.cm.Name && key.Namespace == c.cm.Namespace {
			c.cm.DeepCopyInto(out)
			return nil
		}
		return apierrors.NewNotFound(schema.GroupResource{Resource: "configmaps"}, key.Name)
	case *corev1.Node:
		for _, n := range c.nodes {
			if n.Name == key.Name {
				n.DeepCopyInto(out)
				return nil
			}
		}
		return apierrors.NewNotFound(schema.GroupResource{Resource: "nodes"}, key.Name)
	case *slov1alpha1.NodeSLO:
		if raw, ok := c.nodeSLOs[key.Name]; ok {
			*out = slov1alpha1.NodeSLO{}
			return json.Unmarshal(raw, out)
		}
		return apierrors.NewNotFound(schema.GroupResource{Group: "slo.koordinator.sh", Resource: "nodeslos"}, key.Name)
	}
	return apierrors.NewNotFound(schema.GroupResource{Resource: "unknown"}, key.Name)
}

func (c *c20Client) put(obj client.Object, mustExist bool) error {
	nodeSLO, ok := obj.(*slov1alpha1.NodeSLO)
	if !ok {
		return fmt.Errorf("harness client: unexpected write of %T", obj)
	}
	gr := schema.GroupResource{Group: "slo.koordinator.sh", Resource: "nodeslos"}
	_, exists := c.nodeSLOs[nodeSLO.Name]
	if mustExist && !exists {
		return apierrors.NewNotFound(gr, nodeSLO.Name)
	}
	if !mustExist && exists {
		return apierrors.NewAlreadyExists(gr, nodeSLO.Name)
	}
	raw, err := json.Marshal(nodeSLO)
	if err != nil {
		return err
	}
	if c.nodeSLOs == nil {
		c.nodeSLOs = map[string][]byte{}
	}
	c.nodeSLOs[nodeSLO.Name] = raw
	c.writes++
	return nil
}

func (c *c20Client) Create(_ context.Context, obj client.Object, _ ...client.CreateOption) error {
	return c.put(obj, false)
}

func (c *c20Client) Update(_ context.Context, obj client.Object, _ ...client.UpdateOption) error {
	return c.put(obj, true)
}

func (c *c20Client) List(_ context.Context, list client.ObjectList, _ ...client.ListOption) error {
	if nl, ok := list.(*corev1.NodeList); ok {
		for _, n := range c.nodes {
			nl.Items = append(nl.Items, *n.DeepCopy())
		}
	}
	return nil
}

type c20Queue struct {
	workqueue.TypedRateLimitingInterface[reconcile.Request]
	n int
}

func (q *c20Queue) Add(reconcile.Request) { q.n++ }

var c20QuietOnce sync.Once

func c20Quiet() {
	c20QuietOnce.Do(func() {
		fs := flag.NewFlagSet("c20klog", flag.ContinueOnError)
		klog.InitFlags(fs)
		_ = fs.Set("logtostderr", "false")
		_ = fs.Set("alsologtostderr", "false")
		_ = fs.Set("stderrthreshold", "FATAL")
		klog.SetOutput(io.Discard)
	})
}

type c20SecState struct {
	present   bool
	text      string
	malformed bool
	mode      string
	cfg       *c20SecCfg
}

func c20ConfigMap(data map[string]string, rv int) *corev1.ConfigMap {
	cm := &corev1.ConfigMap{}
	cm.Name, cm.Namespace = sloconfig.SLOCtrlConfigMap, sloconfig.ConfigNameSpace
	cm.ResourceVersion = strconv.Itoa(rv)
	if data != nil {
		cm.Data = map[string]string{}
		for k, v := range data {
			cm.Data[k] = v
		}
	}
	return cm
}

// c20Run is the engine of all C20 tests. focusID names the judged section; with restore=true (unit "reapply") the
// judged section is drawn per case, histories are longer and aim at removing a section (or the whole ConfigMap) and
// bringing an EARLIER text of it back byte for byte. All draws added for restore mode are guarded by the flag, so the
// draw sequence (and the recorded fail files) of the five per-section tests does not change.
//
// mode "delivered" (unit "delivered"): the observable is the NodeSLO object STORED in the API (controller-runtime fake
// client) after the real NodeSLOReconciler.Reconcile ran for the node - first reconcile creates it, later ones take the
// update path against the previously stored object - and histories also relabel nodes. Judged section drawn per case.
func c20Run(t *testing.T, focusID string, runMode string) {
	// mode "annotated" = "delivered" for the system section, plus: nodes may carry the node.koordinator.sh/network-bandwidth
	// annotation (documented to override totalNetworkBandwidth for THAT node only) and the order in which the nodes are
	// reconciled after an event is drawn.
	annotated := runMode == "annotated"
	restore, delivered := runMode == "reapply", runMode == "delivered" || annotated
	c20Quiet()
	secs := c20AllSections()
	var fixedFocus *c20Section
	for _, s := range secs {
		if s.id == focusID {
			fixedFocus = s
		}
	}
	unit := focusID
	if runMode != "" {
		unit = runMode
	}
	rec := vk.New(t, "C20", unit)
	if fixedFocus != nil {
		rec.Note("slots", fmt.Sprintf("%d settable field paths derived by reflection", len(fixedFocus.slots)))
		if len(fixedFocus.skipped) > 0 {
			rec.Note("fields-without-generator", strings.Join(fixedFocus.skipped, "; "))
		}
	}
	rapid.Check(t, func(t *rapid.T) {
		c := rec.Begin()
		defer c.End()
		focus := fixedFocus
		if focus == nil {
			focus = secs[rapid.IntRange(0, len(secs)-1).Draw(t, "focusSection")]
			c.Class("focus:" + focus.id)
		}

		// three nodes: two with (many) random labels, one without labels
		nodeLabels := []map[string]string{c20GenLabels(t, "n0", 80), c20GenLabels(t, "n1", 50), {}}
		nodes := make([]*corev1.Node, len(nodeLabels))
		for i, l := range nodeLabels {
			nodes[i] = &corev1.Node{ObjectMeta: metav1.ObjectMeta{Name: fmt.Sprintf("node%d", i), Labels: l}}
		}
		annotation := make([]string, len(nodes)) // "" = the node has no bandwidth annotation
		order := []int{0, 1, 2}                  // order in which the nodes are reconciled after an event
		if annotated {
			nAnn := 0
			for i := range nodes {
				if rapid.IntRange(0, 9).Draw(t, "hasBandwidthAnnotation") >= 5 {
					annotation[i] = rapid.SampledFrom([]string{"7G", "300M", "42"}).Draw(t, "bandwidthAnnotation") // values no ConfigMap uses
					nodes[i].Annotations = map[string]string{extension.AnnotationNodeBandwidth: annotation[i]}
					nAnn++
				}
			}
			c.Class(fmt.Sprintf("annotated:nodes-with-bandwidth-annotation=%d", nAnn))
		}
		ntAnnotated := false
		// the paths this case concentrates on, per section
		hot := map[string][]int{}
		for _, s := range secs {
			if s.list {
				continue
			}
			n := rapid.IntRange(2, 5).Draw(t, "hotN_"+s.id)
			for i := 0; i < n; i++ {
				hot[s.id] = append(hot[s.id], rapid.IntRange(0, len(s.slots)-1).Draw(t, "hot_"+s.id))
			}
		}

		var nEvents int
		if restore {
			nEvents = rapid.IntRange(3, 7).Draw(t, "events")
		} else if delivered {
			nEvents = rapid.IntRange(2, 6).Draw(t, "events")
		} else {
			nEvents = rapid.IntRange(1, 5).Draw(t, "events")
		}
		state := map[string]*c20SecState{}
		earlier := map[string][]*c20SecState{} // restore mode: every distinct text a section had in an earlier version
		for _, s := range secs {
			state[s.id] = &c20SecState{}
		}
		// an earlier version of section id whose text differs from the current one; "" texts excluded (nothing to re-apply)
		earlierOther := func(id string) []*c20SecState {
			var out []*c20SecState
			for _, e := range earlier[id] {
				if !(state[id].present && state[id].text == e.text) {
					out = append(out, e)
				}
			}
			return out
		}
		ntRestore := false
		prev := make([]c20Leaves, len(nodes)) // previously effective settings of the focused section, per node
		for i := range prev {
			prev[i] = focus.defaults
			if annotated && annotation[i] != "" { // effective at start-up: the defaults plus the node's own annotation
				prev[i] = c20Leaves{}
				for p, x := range focus.defaults {
					prev[i][p] = x
				}
				prev[i]["/totalNetworkBandwidth"] = c20Val{c20KQuantity, annotation[i]}
			}
		}
		oldSpecs := make([]*slov1alpha1.NodeSLOSpec, len(nodes))

		var handler *SLOCfgHandlerForConfigMapEvent
		var reconciler *NodeSLOReconciler
		var apiClient *c20Client                  // holds the nodes and (delivered mode) the stored NodeSLO objects
		build := func(cached *corev1.ConfigMap) { // as SetupWithManager does
			cl := &c20Client{cm: cached, nodes: nodes}
			apiClient = cl
			handler = NewSLOCfgHandlerForConfigMapEvent(cl, DefaultSLOCfg(), &record.FakeRecorder{})
			reconciler = &NodeSLOReconciler{Client: cl, sloCfgCache: handler, Scheme: scheme.Scheme, Recorder: &record.FakeRecorder{}}
		}
		q := &c20Queue{}
		ctx := context.Background()
		// what is delivered to node i now: the computed spec, or (delivered mode) the spec of the NodeSLO object stored
		// after the real Reconcile
		observe := func(i int, old *slov1alpha1.NodeSLOSpec) *slov1alpha1.NodeSLOSpec {
			if delivered {
				req := reconcile.Request{NamespacedName: types.NamespacedName{Name: nodes[i].Name}}
				if _, err := reconciler.Reconcile(ctx, req); err != nil {
					t.Fatalf("Reconcile(%s): %v", nodes[i].Name, err)
				}
				stored := &slov1alpha1.NodeSLO{}
				if err := apiClient.Get(ctx, req.NamespacedName, stored); err != nil {
					t.Fatalf("stored NodeSLO %s: %v", nodes[i].Name, err)
				}
				return &stored.Spec
			}
			spec, err := reconciler.getNodeSLOSpec(nodes[i], old)
			if err != nil {
				t.Fatalf("getNodeSLOSpec: %v", err)
			}
			return spec
		}
		ntDelivered := false
		var lastCM *corev1.ConfigMap // the object the informer delivered last (nil: none / deleted)
		var hist []string
		var fl c20Flags
		sawMalformed, sawFixAfterMalformed, sawMalformedNonDefault, nt := false, false, false, false
		var ntKey []string

		for ev := 0; ev < nEvents; ev++ {
			kind := "update"
			if ev == 0 {
				kind = rapid.SampledFrom([]string{"create", "create", "create", "create", "startup-with-cm", "startup-no-cm"}).Draw(t, "firstEvent")
			} else if lastCM == nil {
				kind = "create"
			} else if !restore && rapid.IntRange(0, 9).Draw(t, "delete") == 9 {
				kind = "delete"
			} else if restore && rapid.IntRange(0, 9).Draw(t, "deleteR") >= 8 {
				kind = "delete"
			}
			if delivered && kind == "update" && !state[focus.id].malformed && rapid.IntRange(0, 9).Draw(t, "relabel") >= 7 {
				kind = "relabel"
			}
			c.Class("event:" + kind)

			if kind == "relabel" { // a node's labels change; the ConfigMap does not
				i := rapid.IntRange(0, len(nodes)-1).Draw(t, "relabelNode")
				before := -1
				if st := state[focus.id]; st.present {
					if m := focus.expect(st.cfg, nodeLabels[i]).matching; len(m) > 0 {
						before = m[0]
					}
				}
				nodeLabels[i] = c20GenLabels(t, "relabel", 50)
				nodes[i].Labels = nodeLabels[i]
				after := -1
				if st := state[focus.id]; st.present {
					if m := focus.expect(st.cfg, nodeLabels[i]).matching; len(m) > 0 {
						after = m[0]
					}
				}
				c.ClassIf(before >= 0 && after < 0, "relabel:node-leaves-every-entry")
				c.ClassIf(before >= 0 && after >= 0 && before != after, "relabel:node-moves-to-another-entry")
				c.ClassIf(before < 0 && after >= 0, "relabel:node-enters-an-entry")
				hist = append(hist, fmt.Sprintf("#%d relabel node%d -> %v", ev, i, nodeLabels[i]))
			}

			if kind == "delete" {
				handler.Delete(ctx, event.TypedDeleteEvent[client.Object]{Object: lastCM}, q)
				lastCM = nil
				hist = append(hist, fmt.Sprintf("#%d delete", ev))
				// the statement says nothing about a deleted ConfigMap: only observe what is effective now
				for i := range nodes {
					spec := observe(i, oldSpecs[i])
					act := focus.actual(spec)
					c.ClassIf(c20LeavesEq(act, prev[i]), "after-delete:unchanged")
					prev[i], oldSpecs[i] = act, spec
				}
				for _, s := range secs {
					state[s.id] = &c20SecState{}
				}
				continue
			}

			// ---- the new ConfigMap content
			focusWasPresent := state[focus.id].present
			var data map[string]string
			var summary []string
			if kind != "startup-no-cm" && kind != "relabel" {
				data = map[string]string{}
				// the focused section's mode is drawn first: a "toggle" version leaves the other sections textually
				// unchanged (most of the time), so that the two ConfigMap versions differ in nothing else
				focusModes := []string{"absent", "valid", "valid", "valid", "valid", "valid", "valid", "malformed", "malformed", "empty", "same"}
				if old := state[focus.id]; old.present && !old.malformed {
					focusModes = append(focusModes, "malformed", "malformed", "toggle", "toggle", "toggle", "toggle")
				}
				if restore { // remove / bring back verbatim / replace
					old, back := state[focus.id], len(earlierOther(focus.id)) > 0
					switch {
					case old.present:
						focusModes = []string{"absent", "absent", "absent", "absent", "valid", "valid", "malformed", "same"}
						if !old.malformed {
							focusModes = append(focusModes, "toggle")
						}
						if back {
							focusModes = append(focusModes, "restore", "restore")
						}
					case back:
						focusModes = []string{"restore", "restore", "restore", "restore", "restore", "restore", "valid", "valid", "absent"}
					default:
						focusModes = []string{"valid", "valid", "valid", "valid", "valid", "malformed", "empty", "absent"}
					}
				}
				focusMode := rapid.SampledFrom(focusModes).Draw(t, "mode_"+focus.id)
				freezeOthers := focusMode == "toggle" && rapid.IntRange(0, 9).Draw(t, "freezeOthers") < 8
				for _, s := range secs {
					full := s == focus
					old := state[s.id]
					mode := focusMode
					if !full {
						mode = "same"
						if !freezeOthers && !restore {
							mode = rapid.SampledFrom([]string{"absent", "absent", "valid", "valid", "malformed", "same"}).Draw(t, "mode_"+s.id)
						}
						if !freezeOthers && restore {
							mode = rapid.SampledFrom([]string{"absent", "absent", "same", "same", "same", "valid", "malformed", "restore", "restore"}).Draw(t, "modeR_"+s.id)
							if mode == "restore" && len(earlierOther(s.id)) == 0 {
								mode = "absent"
							}
						}
					}
					if mode == "same" && !old.present {
						mode = "absent"
					}
					st := &c20SecState{mode: mode}
					if mode == "toggle" { // the previous version, rewritten only in absent / [] / {} / null
						if cfg, where, ok := s.toggle(t, old.cfg); ok {
							st.present, st.cfg = true, cfg
							st.text = s.text(cfg)
							for _, w := range where {
								c.Class("toggle-absent-empty-null:" + w)
							}
							c.ClassIf(st.text != old.text, "toggle-absent-empty-null")
							c.ClassIf(st.text != old.text && freezeOthers, "toggle-absent-empty-null:nothing-else-changes")
						} else {
							mode, st.mode = "valid", "valid"
						}
					}
					switch mode {
					case "absent":
					case "restore": // an earlier text of this section, byte for byte
						cand := earlierOther(s.id)
						*st = *cand[len(cand)-1-rapid.IntRange(0, len(cand)-1).Draw(t, "restoreWhich")]
						st.mode = "restore"
						if full {
							c.Class("reapply:identical-earlier-text")
							c.ClassIf(!old.present && kind == "update", "reapply:after-section-key-removed")
							c.ClassIf(kind == "create" && ev > 0, "reapply:after-configmap-delete-and-recreate")
							c.ClassIf(old.present, "reapply:over-a-different-text")
							c.ClassIf(st.malformed, "reapply:of-a-malformed-text")
						}
					case "same":
						*st = *old
						st.mode = "same"
					case "empty":
						st.present = true
						st.text = rapid.SampledFrom([]string{"{}", "null", `{"clusterStrategy":{}}`, `{"nodeStrategies":[]}`, ` { } `}).Draw(t, "emptyText")
						st.cfg = &c20SecCfg{}
					case "valid":
						st.present = true
						flags := &c20Flags{}
						if full {
							flags = &fl
						}
						st.cfg = s.genCfg(t, full, hot[s.id], nodeLabels, flags)
						st.text = s.text(st.cfg)
					case "malformed":
						st.present, st.malformed = true, true
						var variant string
						st.text, variant = s.malformed(t, s.genCfg(t, false, hot[s.id], nodeLabels, &c20Flags{}))
						if full {
							c.Class("malformed:" + variant)
						}
					}
					state[s.id] = st
					if st.present {
						data[s.key] = st.text
					}
					if restore && st.present && st.text != "" {
						known := false
						for _, e := range earlier[s.id] {
							known = known || e.text == st.text
						}
						if !known {
							earlier[s.id] = append(earlier[s.id], st)
						}
					}
					if full {
						c.Class("section:" + mode)
						summary = append(summary, fmt.Sprintf("%s[%s]=%q", s.key, mode, st.text))
					} else {
						summary = append(summary, fmt.Sprintf("%s[%s]", s.id, mode))
					}
				}
				if len(data) == 0 && rapid.Bool().Draw(t, "nilData") {
					data = nil
				}
			}
			if kind != "relabel" {
				hist = append(hist, fmt.Sprintf("#%d %s %s", ev, kind, strings.Join(summary, " ")))
			}

			// ---- deliver it
			switch kind {
			case "startup-no-cm": // first reconcile before any event, no ConfigMap in the informer cache
				build(nil)
			case "startup-with-cm": // first reconcile before any event, ConfigMap already in the informer cache
				lastCM = c20ConfigMap(data, ev+1)
				build(lastCM.DeepCopy())
			case "create":
				if handler == nil {
					build(nil)
				}
				lastCM = c20ConfigMap(data, ev+1)
				handler.Create(ctx, event.TypedCreateEvent[client.Object]{Object: lastCM.DeepCopy()}, q)
			case "update":
				newCM := c20ConfigMap(data, ev+1)
				handler.Update(ctx, event.TypedUpdateEvent[client.Object]{ObjectOld: lastCM.DeepCopy(), ObjectNew: newCM.DeepCopy()}, q)
				lastCM = newCM
			}
			if !reconciler.sloCfgCache.IsCfgAvailable() { // Reconcile's first step
				t.Fatalf("configuration cache not available after %v", hist)
			}

			// ---- observe and judge the focused section for every node
			st := state[focus.id]
			if st.malformed {
				sawMalformed = true
			} else if sawMalformed && st.present && st.mode != "same" {
				sawFixAfterMalformed = true
			}
			if annotated {
				order = rapid.Permutation([]int{0, 1, 2}).Draw(t, "reconcileOrder")
				hist = append(hist, fmt.Sprintf("   reconcile order %v; bandwidth annotations of node0..2 = %q", order, annotation))
				if st := state[focus.id]; !st.malformed { // an annotated node is reconciled before a plain node that resolves to the same strategy?
					first := func(i int) int {
						if st.present {
							if m := focus.expect(st.cfg, nodeLabels[i]).matching; len(m) > 0 {
								return m[0]
							}
						}
						return -1
					}
					for x, a := range order {
						for _, b := range order[x+1:] {
							if annotation[a] != "" && annotation[b] == "" && first(a) == first(b) {
								ntAnnotated = true
								c.Class("annotated:annotated-node-reconciled-before-plain-node-of-same-strategy")
							}
						}
					}
				}
			}
			for _, i := range order {
				var old *slov1alpha1.NodeSLOSpec
				if !delivered && oldSpecs[i] != nil && rapid.Bool().Draw(t, "passOldSpec") {
					old = oldSpecs[i].DeepCopy() // Reconcile passes the spec of the existing NodeSLO
				}
				spec := observe(i, old)
				act := focus.actual(spec)
				where := func() string {
					return fmt.Sprintf("node labels=%v after event #%d; delivered %s=%s; history:\n  %s", nodeLabels[i], ev, focus.id, c20LeavesStr(act), strings.Join(hist, "\n  "))
				}
				switch {
				case !st.present && !annotated: // absent section (or no ConfigMap at all): built-in defaults
					if !c20LeavesEq(act, focus.defaults) {
						sig := "absent:" + focus.id + ":not-default"
						if c20LeavesEq(act, prev[i]) {
							sig += ":kept-previous"
						}
						c.Violation(t, sig, "section absent, expected the built-in default %s; %s", c20LeavesStr(focus.defaults), where())
					}
				case st.malformed: // cannot be parsed: what was effective before stays
					if !c20LeavesEq(prev[i], focus.defaults) {
						sawMalformedNonDefault = true
					}
					if !c20LeavesEq(act, prev[i]) {
						sig := "malformed:" + focus.id + ":previous-not-kept"
						if c20LeavesEq(act, focus.defaults) {
							sig += ":reset-to-default"
						}
						c.Violation(t, sig, "section text cannot be parsed, expected the previously effective %s; %s", c20LeavesStr(prev[i]), where())
					}
				default:
					cfgNow := st.cfg
					if !st.present { // annotated mode: an absent section is the layering of nothing, i.e. the defaults
						cfgNow = &c20SecCfg{}
					}
					view := focus.expect(cfgNow, nodeLabels[i])
					if annotated && annotation[i] != "" { // the node's OWN annotation, documented to take precedence
						view.exp["/totalNetworkBandwidth"] = c20Exp{val: c20Val{c20KQuantity, annotation[i]}, src: "own-annotation"}
					}
					bad, inherited := c20Diff(view.exp, act)
					if len(bad) > 0 && view.explicitNull && len(act) == 0 {
						bad = nil
						c.Class("explicit-null-list-in-entry(read as set-to-empty, tolerated)")
					}
					for _, p := range bad {
						e, hasE := view.exp[p]
						a, hasA := act[p]
						kindName, want := "", "none"
						if hasE {
							kindName, want = e.val.kind.String(), e.src
						} else {
							kindName = a.kind.String()
						}
						if focus.list {
							kindName = "list"
						}
						sig := fmt.Sprintf("layer:%s:%s:want-%s:got-%s", focus.id, kindName, want, view.origin(focus, p, a, hasA))
						if st.mode == "restore" { // only in the re-apply histories
							sig += ":on-reapplied-identical-text"
						}
						for j, ann := range annotation {
							if annotated && hasA && j != i && ann != "" && a.kind == c20KQuantity && c20ScalarEq(c20KQuantity, a.v, ann) {
								sig += ":bandwidth-annotation-of-another-node"
								break
							}
						}
						if old, had := prev[i][p]; delivered && oldSpecs[i] != nil && had == hasA && (!had || c20ValEq(old, a)) {
							sig += ":stored-nodeslo-keeps-previous-value"
						}
						// a known (recorded) finding is counted by vk; the remaining paths and events are still judged,
						// because everything later is compared with what the real code delivered
						c.Violation(t, sig, "path %s: expected %s (from %s), delivered %s; matching entries %v, entries with invalid selector %v; %s",
							p, c20ValStr(e.val, hasE), want, c20ValStr(a, hasA), view.matching, view.invalid, where())
					}
					c.ClassIf(inherited, "list-overlaid-elementwise(tolerated)")
					c.ClassIf(inherited && c20InheritedOtherName, "list-overlaid-elementwise:element-inherits-from-differently-named-element(tolerated)")
					c20InheritedOtherName = false
					// classes
					switch len(view.matching) {
					case 0:
						c.Class("node-matches:0")
						for _, l := range view.entryLeaf {
							if len(l) > 0 {
								c.Class("leak-candidate(unselected entry sets fields)")
							}
						}
					case 1:
						c.Class("node-matches:1")
					default:
						c.Class("node-matches:2+")
						first, second := view.entryLeaf[view.matching[0]], view.entryLeaf[view.matching[1]]
						differ, clusterTouches, laterOnly := false, false, false
						for p := range second {
							if _, ok := first[p]; !ok {
								differ, laterOnly = true, true
							}
						}
						for p := range first {
							if _, ok := second[p]; !ok {
								differ = true
							}
						}
						if focus.list {
							differ = !c20LeavesEq(first, second)
						}
						for p, cv := range view.cluster {
							_, a := first[p]
							_, b := second[p]
							if focus.list {
								a, b = len(cv.v.([]c20Leaves)) > 0, false
							}
							if a || b {
								clusterTouches = true
							}
						}
						c.ClassIf(laterOnly, "later-match-sets-path-first-does-not")
						c.ClassIf(len(first) == 0, "first-match-sets-nothing")
						if differ && clusterTouches {
							nt = true
						}
					}
					c.ClassIf(len(view.invalid) > 0, "invalid-selector-entry")
				}
				if delivered && oldSpecs[i] != nil { // update path: a NodeSLO was stored before
					for p := range prev[i] {
						if _, still := act[p]; !still { // the stored object had to LOSE a value
							ntDelivered = true
							c.Class("delivered:stored-spec-loses-a-leaf")
						}
					}
					c.ClassIf(!c20LeavesEq(prev[i], act), "delivered:stored-spec-changes")
				}
				if restore && st.mode == "restore" && !st.malformed && !focusWasPresent && !c20LeavesEq(act, focus.defaults) {
					// the section was gone (key removed or ConfigMap deleted) and its earlier text, which yields
					// non-default settings for this node, is back
					ntRestore = true
					c.Class("reapply:after-removal-with-non-default-effect")
				}
				prev[i], oldSpecs[i] = act, spec
			}
			ntKey = append(ntKey, st.text)
		}
		c.ClassIf(sawMalformed, "malformed-seen")
		c.ClassIf(sawFixAfterMalformed, "malformed-then-fixed")
		c.ClassIf(sawMalformedNonDefault, "malformed-while-nondefault-effective")
		c.ClassIf(fl.null, "explicit-null")
		c.ClassIf(fl.emptyEnum, "empty-string-enum")
		c.ClassIf(fl.unknown, "unknown-field")
		c.ClassIf(fl.outOfRange, "value-outside-webhook-range")
		c.ClassIf(fl.emptyObj, "empty-nested-object")
		c.ClassIf(fl.emptyList, "empty-list")
		c.ClassIf(q.n > 0, "nodes-enqueued")
		if restore {
			nt = ntRestore
		}
		if delivered {
			nt = ntDelivered
		}
		if annotated {
			nt = ntAnnotated
		}
		if nt {
			c.NonTrivial(nodeLabels, ntKey, focus.id)
		}
		if c.WantSample() {
			c.Sample(map[string]any{"nodeLabels": nodeLabels, "history": hist})
		}
	})
}

func TestVerifC20Threshold(t *testing.T)   { c20Run(t, "threshold", "") }
func TestVerifC20ResourceQOS(t *testing.T) { c20Run(t, "qos", "") }
func TestVerifC20CPUBurst(t *testing.T)    { c20Run(t, "cpuburst", "") }
func TestVerifC20System(t *testing.T)      { c20Run(t, "system", "") }
func TestVerifC20HostApp(t *testing.T)     { c20Run(t, "hostapp", "") }

// Longer histories in which a section key (or the whole ConfigMap) is removed and an earlier text of the section is
// applied again byte for byte; the judged section is drawn per case. Same oracle: after EVERY event the layering is
// computed from the current ConfigMap text only.
func TestVerifC20Reapply(t *testing.T) { c20Run(t, "", "reapply") }

// The delivered object: real Reconcile against a client that keeps the stored NodeSLO between reconciles; the spec READ
// BACK from the stored object is judged after every ConfigMap event and every node relabel. Same oracle.
func TestVerifC20Delivered(t *testing.T) { c20Run(t, "", "delivered") }

// As Delivered, for the system section, with nodes that carry the network-bandwidth annotation and a drawn order of
// node reconciles: a node's delivered settings are the layering of the current ConfigMap plus ITS OWN annotation only.
func TestVerifC20Annotated(t *testing.T) { c20Run(t, "system", "annotated") }

// ---------------------------------------------------------------- start-up: first reconcile vs. a ConfigMap event

// c20GenVersion draws one ConfigMap version (all five sections). The judged section of the SECOND version is never
// malformed (its expectation would depend on which version counts as "previous").
func c20GenVersion(t *rapid.T, secs []*c20Section, focus *c20Section, hot map[string][]int, nodeLabels []map[string]string,
	prev map[string]*c20SecState, fl *c20Flags) (map[string]*c20SecState, map[string]string) {
	states, data := map[string]*c20SecState{}, map[string]string{}
	for _, s := range secs {
		full := s == focus
		var modes []string
		switch {
		case prev == nil && full:
			modes = []string{"valid", "valid", "valid", "absent", "malformed", "empty"}
		case prev == nil:
			modes = []string{"absent", "valid", "malformed"}
		case full:
			modes = []string{"valid", "valid", "valid", "absent", "empty"}
			if old := prev[s.id]; old.present && !old.malformed {
				modes = append(modes, "toggle", "toggle")
			}
		default:
			modes = []string{"absent", "valid", "malformed", "same", "same"}
		}
		mode := rapid.SampledFrom(modes).Draw(t, "raceMode_"+s.id)
		st := &c20SecState{mode: mode}
		flags := &c20Flags{}
		if full {
			flags = fl
		}
		switch mode {
		case "same":
			*st = *prev[s.id]
			st.mode = "same"
		case "toggle":
			if cfg, _, ok := s.toggle(t, prev[s.id].cfg); ok {
				st.present, st.cfg, st.text = true, cfg, s.text(cfg)
				break
			}
			st.mode = "valid"
			fallthrough
		case "valid":
			st.present = true
			st.cfg = s.genCfg(t, full, hot[s.id], nodeLabels, flags)
			st.text = s.text(st.cfg)
		case "empty":
			st.present, st.text, st.cfg = true, "{}", &c20SecCfg{}
		case "malformed":
			st.present, st.malformed = true, true
			st.text, _ = s.malformed(t, s.genCfg(t, false, hot[s.id], nodeLabels, &c20Flags{}))
		}
		states[s.id] = st
		if st.present {
			data[s.key] = st.text
		}
	}
	return states, data
}

// TestVerifC20StartupRace: at controller start-up the first Reconcile finds the cache "not available" and
// IsCfgAvailable reads the ConfigMap from the informer cache and syncs it. A ConfigMap create/update event can arrive
// exactly between that read and the sync. The harness owns the interleaving: the client's Get (called by
// IsCfgAvailable) first returns the OLD object, then the informer cache moves to the NEW version and the real event
// handler is invoked - inline if nobody holds the cache lock at that moment (the handler could run), otherwise in a
// goroutine that is joined after IsCfgAvailable returned (the handler has to wait for the lock). At quiescence the
// settings delivered to every node must be the layering of the NEWEST ConfigMap version.
func TestVerifC20StartupRace(t *testing.T) {
	c20Quiet()
	secs := c20AllSections()
	rec := vk.New(t, "C20", "startuprace")
	rapid.Check(t, func(t *rapid.T) {
		c := rec.Begin()
		defer c.End()
		focus := secs[rapid.IntRange(0, len(secs)-1).Draw(t, "focusSection")]
		c.Class("focus:" + focus.id)
		nodeLabels := []map[string]string{c20GenLabels(t, "n0", 80), c20GenLabels(t, "n1", 50), {}}
		nodes := make([]*corev1.Node, len(nodeLabels))
		for i, l := range nodeLabels {
			nodes[i] = &corev1.Node{ObjectMeta: metav1.ObjectMeta{Name: fmt.Sprintf("node%d", i), Labels: l}}
		}
		hot := map[string][]int{}
		for _, s := range secs {
			if s.list {
				continue
			}
			n := rapid.IntRange(2, 5).Draw(t, "hotN_"+s.id)
			for i := 0; i < n; i++ {
				hot[s.id] = append(hot[s.id], rapid.IntRange(0, len(s.slots)-1).Draw(t, "hot_"+s.id))
			}
		}
		var fl c20Flags
		// version 1: what the informer cache holds when the first reconcile starts (possibly no ConfigMap at all)
		hasV1 := rapid.IntRange(0, 4).Draw(t, "hasV1") > 0
		var st1 map[string]*c20SecState
		var cm1 *corev1.ConfigMap
		if hasV1 {
			var data map[string]string
			st1, data = c20GenVersion(t, secs, focus, hot, nodeLabels, nil, &fl)
			cm1 = c20ConfigMap(data, 1)
		} else {
			st1 = map[string]*c20SecState{}
			for _, s := range secs {
				st1[s.id] = &c20SecState{mode: "absent"}
			}
		}
		// version 2: created / updated while the first reconcile is between its check and its sync
		st2, data2 := c20GenVersion(t, secs, focus, hot, nodeLabels, st1, &fl)
		cm2 := c20ConfigMap(data2, 2)
		interleave := rapid.IntRange(0, 9).Draw(t, "interleave") > 0

		cl := &c20Client{cm: cm1, nodes: nodes}
		handler := NewSLOCfgHandlerForConfigMapEvent(cl, DefaultSLOCfg(), &record.FakeRecorder{})
		reconciler := &NodeSLOReconciler{Client: cl, sloCfgCache: handler, Scheme: scheme.Scheme, Recorder: &record.FakeRecorder{}}
		q := &c20Queue{}
		ctx := context.Background()
		deliver := func() { // the informer: store first, then notify the handler
			cl.cm = cm2
			if hasV1 {
				handler.Update(ctx, event.TypedUpdateEvent[client.Object]{ObjectOld: cm1.DeepCopy(), ObjectNew: cm2.DeepCopy()}, q)
			} else {
				handler.Create(ctx, event.TypedCreateEvent[client.Object]{Object: cm2.DeepCopy()}, q)
			}
		}
		var wg sync.WaitGroup
		inline := false
		if interleave {
			cl.onConfigMapGet = func() {
				if handler.cfgCache.lock.TryLock() { // nobody holds the cache lock: the event handler runs right now
					handler.cfgCache.lock.Unlock()
					inline = true
					deliver()
					return
				}
				wg.Add(1) // the lock is held across the read: the event handler has to wait until it is released
				go func() {
					defer wg.Done()
					deliver()
				}()
			}
		}
		if !reconciler.sloCfgCache.IsCfgAvailable() { // Reconcile's first step
			t.Fatalf("configuration cache not available")
		}
		wg.Wait()
		if !interleave {
			deliver() // control: the event arrives after the first reconcile
		}
		c.ClassIf(!hasV1, "v1:no-configmap")
		c.ClassIf(hasV1, "v1:configmap-in-informer-cache")
		c.Class("v1-section:" + st1[focus.id].mode)
		c.Class("v2-section:" + st2[focus.id].mode)
		c.ClassIf(!interleave, "event-after-first-reconcile(control)")
		c.ClassIf(interleave && inline, "event-inside-window:handler-ran-at-once(lock free)")
		c.ClassIf(interleave && !inline, "event-inside-window:handler-waited-for-the-lock")

		differs := false
		for i, node := range nodes {
			spec, err := reconciler.getNodeSLOSpec(node, nil)
			if err != nil {
				t.Fatalf("getNodeSLOSpec: %v", err)
			}
			act := focus.actual(spec)
			want := func(st *c20SecState) map[string]c20Exp {
				if !st.present || st.malformed { // absent, or unparsable at start-up: built-in defaults
					out := map[string]c20Exp{}
					for p, x := range focus.defaults {
						out[p] = c20Exp{val: x, src: "default"}
					}
					return out
				}
				return focus.expect(st.cfg, nodeLabels[i]).exp
			}
			exp2 := want(st2[focus.id])
			view := focus.expect(&c20SecCfg{}, nodeLabels[i])
			if st := st2[focus.id]; st.present {
				view = focus.expect(st.cfg, nodeLabels[i])
			}
			bad, _ := c20Diff(exp2, act)
			if len(bad) > 0 && view.explicitNull && len(act) == 0 {
				bad = nil
			}
			old, _ := c20Diff(want(st1[focus.id]), act)
			if len(old) > 0 {
				differs = true
			}
			if len(bad) > 0 {
				sig := "startup-race:" + focus.id + ":not-the-newest-configmap"
				if len(old) == 0 {
					sig += ":older-version-in-force"
				}
				p := bad[0]
				e, hasE := exp2[p]
				a, hasA := act[p]
				c.Violation(t, sig, "path %s: the newest ConfigMap version gives %s, delivered %s; node labels=%v; interleaved=%v (handler ran inside the window=%v)\n  v1 (read by the first reconcile): %v %q\n  v2 (event during the first reconcile): %q\n  delivered %s=%s",
					p, c20ValStr(e.val, hasE), c20ValStr(a, hasA), nodeLabels[i], interleave, inline, hasV1, st1[focus.id].text, st2[focus.id].text, focus.id, c20LeavesStr(act))
			}
		}
		// non-trivial: the event fell into the window and the two versions give some node different settings
		if interleave && differs {
			c.NonTrivial(nodeLabels, st1[focus.id].text, st2[focus.id].text, focus.id)
		}
		if c.WantSample() {
			c.Sample(map[string]any{"nodeLabels": nodeLabels, "v1": st1[focus.id].text, "hasV1": hasV1, "v2": st2[focus.id].text, "interleave": interleave})
		}
	})
}
