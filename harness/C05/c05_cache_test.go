//go:build verif

// C05 — Reservations are never over-allocated and only serve their owners.
// (a) ledger + per-node index state machine on reservationCache through the real event handlers,
// (b) fit arithmetic of fitsReservation / fitsNodeAndReservation against an exact integer oracle.
// See /verif/DESIGN.md §1 C05. In-package harness (injected with -overlay).
package reservation

import (
	"context"
	"encoding/json"
	"fmt"
	"io"
	"math/big"
	"sort"
	"strings"
	"testing"
	"time"

	corev1 "k8s.io/api/core/v1"
	"k8s.io/apimachinery/pkg/api/resource"
	metav1 "k8s.io/apimachinery/pkg/apis/meta/v1"
	"k8s.io/apimachinery/pkg/types"
	toolscache "k8s.io/client-go/tools/cache"
	"k8s.io/klog/v2"
	fwktype "k8s.io/kube-scheduler/framework"
	"k8s.io/kubernetes/pkg/scheduler/framework"
	"pgregory.net/rapid"

	apiext "github.com/koordinator-sh/koordinator/apis/extension"
	schedulingv1alpha1 "github.com/koordinator-sh/koordinator/apis/scheduling/v1alpha1"
	"github.com/koordinator-sh/koordinator/pkg/scheduler/apis/config"
	"github.com/koordinator-sh/koordinator/pkg/scheduler/frameworkext"
	reservationutil "github.com/koordinator-sh/koordinator/pkg/util/reservation"
	"github.com/koordinator-sh/koordinator/pkg/verifkit/vk"
)

// ---------------------------------------------------------------- shared helpers

func c05Quiet() {
	// the handlers log a warning for every duplicate event; keep the captured output small
	klog.LogToStderr(false)
	klog.SetOutput(io.Discard)
}

const (
	c05ExtA = corev1.ResourceName("ext.io/a")
	c05ExtB = corev1.ResourceName("ext.io/b")
)

var c05Universe = []corev1.ResourceName{corev1.ResourceCPU, corev1.ResourceMemory, c05ExtA, c05ExtB}

// c05Req holds amounts in native integer units: cpu in milli-cores, memory in bytes, extended resources in pieces.
type c05Req map[corev1.ResourceName]int64

func c05Q(d corev1.ResourceName, v int64) resource.Quantity {
	switch d {
	case corev1.ResourceCPU:
		return *resource.NewMilliQuantity(v, resource.DecimalSI)
	case corev1.ResourceMemory:
		return *resource.NewQuantity(v, resource.BinarySI)
	default:
		return *resource.NewQuantity(v, resource.DecimalSI)
	}
}

// c05Milli converts a native amount to milli-units (the common exact scale of the oracle).
func c05Milli(d corev1.ResourceName, v int64) int64 {
	if d == corev1.ResourceCPU {
		return v
	}
	return v * 1000
}

func c05RL(r c05Req) corev1.ResourceList {
	if r == nil {
		return nil
	}
	rl := corev1.ResourceList{}
	for d, v := range r {
		rl[d] = c05Q(d, v)
	}
	return rl
}

func c05ReqStr(r c05Req) string {
	var parts []string
	for _, d := range c05SortedNames(r) {
		parts = append(parts, fmt.Sprintf("%s=%d", d, r[d]))
	}
	return "{" + strings.Join(parts, ",") + "}"
}

func c05SortedNames[V any](m map[corev1.ResourceName]V) []corev1.ResourceName {
	out := make([]corev1.ResourceName, 0, len(m))
	for k := range m {
		out = append(out, k)
	}
	sort.Slice(out, func(i, j int) bool { return out[i] < out[j] })
	return out
}

func c05SortedUIDs[V any](m map[types.UID]V) []types.UID {
	out := make([]types.UID, 0, len(m))
	for k := range m {
		out = append(out, k)
	}
	sort.Slice(out, func(i, j int) bool { return out[i] < out[j] })
	return out
}

func c05GenAmount(t *rapid.T, d corev1.ResourceName, small bool, label string) int64 {
	switch d {
	case corev1.ResourceCPU:
		if small {
			return rapid.Int64Range(0, 4000).Draw(t, label)
		}
		return rapid.OneOf(rapid.Int64Range(0, 8), rapid.Int64Range(0, 64000)).Draw(t, label)
	case corev1.ResourceMemory:
		if small {
			return rapid.Int64Range(0, 1<<20).Draw(t, label)
		}
		return rapid.OneOf(rapid.Int64Range(0, 8), rapid.Int64Range(0, 1<<36)).Draw(t, label)
	default:
		return rapid.Int64Range(0, 8).Draw(t, label)
	}
}

// c05GenPodSpec draws 1-2 containers with requests over a subset of the universe and returns the containers together
// with the pod's total request (sum over containers — the pod has no init containers and no overhead).
func c05GenPodSpec(t *rapid.T, small bool) ([]corev1.Container, c05Req) {
	n := rapid.SampledFrom([]int{1, 1, 1, 2}).Draw(t, "containers")
	total := c05Req{}
	var cs []corev1.Container
	for i := 0; i < n; i++ {
		r := c05Req{}
		for _, d := range c05Universe {
			if rapid.IntRange(0, 2).Draw(t, "has:"+string(d)) > 0 {
				r[d] = c05GenAmount(t, d, small, "req:"+string(d))
			}
		}
		cs = append(cs, corev1.Container{Name: fmt.Sprintf("c%d", i), Resources: corev1.ResourceRequirements{Requests: c05RL(r)}})
		for d, v := range r {
			total[d] += v
		}
	}
	return cs, total
}

// c05ModelNames is the independent statement of "the reservation's reserved dimensions": every dimension the
// reservation reserves; for the Restricted policy with a restricted-resources option, the listed ones that are
// reserved (all reserved dimensions when none of the listed ones is).
func c05ModelNames(allocatable []corev1.ResourceName, policy schedulingv1alpha1.ReservationAllocatePolicy, opts []corev1.ResourceName) map[corev1.ResourceName]bool {
	names := map[corev1.ResourceName]bool{}
	if policy == schedulingv1alpha1.ReservationAllocatePolicyRestricted && len(opts) > 0 {
		for _, d := range allocatable {
			for _, o := range opts {
				if d == o {
					names[d] = true
				}
			}
		}
		if len(names) > 0 {
			return names
		}
	}
	for _, d := range allocatable {
		names[d] = true
	}
	return names
}

// c05ObjNames restates, from the object alone, which dimensions the ledger of this reservation counts NOW: what the
// reservation reserves (status.allocatable once it is Available on a node, the template's requests before), narrowed by
// the restricted-resources annotation for the Restricted policy.
func c05ObjNames(o *schedulingv1alpha1.Reservation) map[corev1.ResourceName]bool {
	var dims []corev1.ResourceName
	if o.Status.NodeName != "" && o.Status.Phase == schedulingv1alpha1.ReservationAvailable {
		for d := range o.Status.Allocatable {
			dims = append(dims, d)
		}
	} else if o.Spec.Template != nil {
		for _, ct := range o.Spec.Template.Spec.Containers {
			for d := range ct.Resources.Requests {
				dims = append(dims, d)
			}
		}
	}
	var opts []corev1.ResourceName
	if a := o.Annotations[apiext.AnnotationReservationRestrictedOptions]; a != "" {
		var v struct {
			Resources []corev1.ResourceName `json:"resources"`
		}
		if json.Unmarshal([]byte(a), &v) == nil {
			opts = v.Resources
		}
	}
	return c05ModelNames(dims, o.Spec.AllocatePolicy, opts)
}

func c05SetReservedAnnotation(obj metav1.Object, reserved c05Req) {
	if reserved == nil {
		return
	}
	b, _ := json.Marshal(apiext.NodeReservation{Resources: c05RL(reserved)})
	a := obj.GetAnnotations()
	if a == nil {
		a = map[string]string{}
	}
	a[apiext.AnnotationNodeReservation] = string(b)
	obj.SetAnnotations(a)
}

func c05SetRestrictedOptions(obj metav1.Object, opts []corev1.ResourceName) {
	if opts == nil {
		return
	}
	_ = apiext.SetReservationRestrictedOptions(obj, &apiext.ReservationRestrictedOptions{Resources: opts})
}

var c05Policies = []schedulingv1alpha1.ReservationAllocatePolicy{
	schedulingv1alpha1.ReservationAllocatePolicyDefault, schedulingv1alpha1.ReservationAllocatePolicyAligned,
	schedulingv1alpha1.ReservationAllocatePolicyRestricted, schedulingv1alpha1.ReservationAllocatePolicyRestricted,
}

// ---------------------------------------------------------------- (a) ledger + index state machine

type c05Res struct {
	idx       int
	uid       types.UID
	obj       *schedulingv1alpha1.Reservation // current API object
	dims      []corev1.ResourceName           // dimensions of the template
	names     map[corev1.ResourceName]bool    // model: dimensions the ledger counts now (follows the object given to the cache)
	widened   map[corev1.ResourceName]bool    // dimension started to be counted while an assigned pod already requested it
	cycle     fwktype.CycleState              // scheduling cycle of the reservation's own reserve pod (between Reserve and bind/Unreserve)
	allocOnce bool
	node      string // node the reservation is placed on ("" = none yet)
	assumed   bool   // in the cache only through assumeReservation (API object still pending)
	gone      bool   // deleted from the API; the uid never comes back

	inCache      bool
	everAvail    bool // was Available in the cache at some point (only such a reservation can ever have been nominated)
	cacheAvail   bool // the object last given to the cache is Available on a node
	cacheTermin  bool // the object last given to the cache carries a deletionTimestamp
	pods         map[types.UID]c05Req
	pendingDel   *schedulingv1alpha1.Reservation // global handler's DeleteReservation(old) not yet executed
	unavailWithP bool                            // became unavailable/unmatchable while holding pods (for the non-trivial rule)
	removals     int                             // pods taken off this reservation so far (model)
}

func (r *c05Res) bound() bool {
	return !r.gone && r.obj.Status.NodeName != "" &&
		(r.obj.Status.Phase == schedulingv1alpha1.ReservationAvailable || r.obj.Status.Phase == schedulingv1alpha1.ReservationWaiting)
}
func (r *c05Res) pending() bool { return !r.gone && r.obj.Status.NodeName == "" && r.obj.Status.Phase == schedulingv1alpha1.ReservationPending }
func (r *c05Res) matchable() bool {
	return r.inCache && r.cacheAvail && !(r.allocOnce && len(r.pods) > 0)
}

type c05Pod struct {
	idx       int
	uid       types.UID
	obj       *corev1.Pod
	reqs      c05Req
	assumedOn types.UID // reservation the unbound pod is assumed on ("" = none)
	bound     bool
	deleted   bool
}

func c05Annot(p *corev1.Pod) types.UID {
	ra, err := apiext.GetReservationAllocated(p)
	if err != nil || ra == nil {
		return ""
	}
	return ra.UID
}

var c05LabelKeys = []string{"tenant-a", "tenant-b", "app", "zone"}
var c05LabelVals = []string{"x", "y"}

func c05GenLabels(t *rapid.T) map[string]string {
	var m map[string]string
	for _, k := range c05LabelKeys {
		if rapid.IntRange(0, 2).Draw(t, "lbl:"+k) == 0 {
			if m == nil {
				m = map[string]string{}
			}
			m[k] = rapid.SampledFrom(c05LabelVals).Draw(t, "lblv:"+k)
		}
	}
	return m
}

func TestVerifC05CacheHistory(t *testing.T) {
	c05Quiet()
	rec := vk.New(t, "C05", "cacheHistory")
	// One real Plugin for the whole test function (expensive to build); every case gives it a fresh cache and nominator and
	// an emptied reservation lister. Informers are never started: the lister is fed through the informer's indexer.
	suit := newPluginTestSuitWith(t, nil, nil)
	plg, err := suit.pluginFactory()
	if err != nil {
		t.Fatalf("plugin factory: %v", err)
	}
	pl := plg.(*Plugin)
	rIndexer := suit.extenderFactory.KoordinatorSharedInformerFactory().Scheduling().V1alpha1().Reservations().Informer().GetIndexer()
	ctx := context.TODO()
	rapid.Check(t, func(t *rapid.T) {
		c := rec.Begin()
		defer c.End()
		if err := rIndexer.Replace(nil, "0"); err != nil {
			t.Fatalf("reset lister: %v", err)
		}

		nNodes := rapid.IntRange(1, 3).Draw(t, "nodes")
		nodes := make([]string, nNodes)
		for i := range nodes {
			nodes[i] = fmt.Sprintf("n%d", i)
		}
		cache := newReservationCache(nil)
		indexOn := rapid.Bool().Draw(t, "selectorIndex")
		if indexOn {
			cache.setReservationSelectorIndexConfig(&config.ReservationSelectorIndexArgs{Enabled: true, KeyPrefixes: []string{"tenant"}, Keys: []string{"app"}})
		}
		nm := newNominator(nil, nil)
		pl.reservationCache, pl.nominator = cache, nm
		rh := &reservationEventHandler{cache: cache, rrNominator: nm}
		ph := &podEventHandler{cache: cache, nominator: nm}

		var ress []*c05Res
		var pods []*c05Pod
		byUID := map[types.UID]*c05Res{}
		var hist []string
		dead := false
		logf := func(f string, a ...any) { hist = append(hist, fmt.Sprintf(f, a...)) }
		// flags for classes / the non-trivial rule
		var ntUnassignAfterUnavail, ntDeleteWithPods, sawMasked, sawGhost, sawMove, sawResize, sawDelayed, sawRematch, sawMulti, sawAssumeErr, sawDouble bool
		var sawNarrowHeld, sawWidenHeld, sawDimsChange, sawReserveCycle, sawUnreserve, sawUnreserveGone bool
		// Snapshots the cache hands out (getReservationInfoByUID; the same Clone() is what BeforePreFilter, the nominator and
		// state.assumed hold while a cycle is in flight) are what the fit check reads. One is taken of every reservation after
		// every operation, together with what the model says it must report at that moment, and is re-examined after the
		// next operations: a handed-out snapshot must keep reporting exactly that, whatever happens to the cache afterwards.
		type c05Snap struct {
			uid      types.UID
			info     *frameworkext.ReservationInfo
			want     map[corev1.ResourceName]int64
			pods     []types.UID
			takenAt  int
			removals int
		}
		var snaps []c05Snap
		sawSnapOutlivedRemoval, sawSnapOutlivedAdd := false, false
		// the reservation lister follows the API objects
		listerSet := func(o *schedulingv1alpha1.Reservation) {
			if err := rIndexer.Update(o); err != nil {
				t.Fatalf("lister update: %v", err)
			}
		}

		// ---- model transitions (a plain restatement of "who is assigned where", independent of koordinator's ledger code)
		mAdd := func(uid types.UID, p *c05Pod, reqs c05Req) {
			r := byUID[uid]
			if r == nil || !r.inCache {
				return
			}
			if _, ok := r.pods[p.uid]; ok {
				return
			}
			cp := c05Req{}
			for d, v := range reqs {
				cp[d] = v
				if !r.names[d] && v > 0 {
					sawMasked = true
				}
			}
			if r.allocOnce && len(r.pods) > 0 {
				sawDouble = true
			}
			r.pods[p.uid] = cp
			if len(r.pods) > 1 {
				sawMulti = true
			}
		}
		mRemove := func(uid types.UID, p *c05Pod) {
			r := byUID[uid]
			if r == nil || !r.inCache {
				return
			}
			if _, ok := r.pods[p.uid]; !ok {
				return
			}
			delete(r.pods, p.uid)
			r.removals++
			if len(r.pods) == 0 {
				r.widened = map[corev1.ResourceName]bool{}
			}
			if r.unavailWithP {
				ntUnassignAfterUnavail = true
			}
			if r.allocOnce && len(r.pods) == 0 && r.cacheAvail {
				sawRematch = true
			}
		}
		mDeleteRes := func(r *c05Res) {
			if r.inCache && len(r.pods) > 0 {
				ntDeleteWithPods = true
			}
			r.inCache, r.cacheAvail, r.cacheTermin, r.unavailWithP = false, false, false, false
			r.pods = map[types.UID]c05Req{}
			r.widened = map[corev1.ResourceName]bool{}
		}
		// the cache was handed object o for reservation r (create or refresh)
		mGive := func(r *c05Res, o *schedulingv1alpha1.Reservation, create bool) {
			fresh := !r.inCache
			if !r.inCache {
				if !create {
					return
				}
				r.inCache = true
				r.pods = map[types.UID]c05Req{}
				r.widened = map[corev1.ResourceName]bool{}
				r.names = map[corev1.ResourceName]bool{}
			}
			// the dimensions counted from now on are those of the object just handed over
			newNames := c05ObjNames(o)
			for _, d := range c05Universe {
				held := false
				for _, req := range r.pods {
					if req[d] > 0 {
						held = true
					}
				}
				if newNames[d] != r.names[d] && !fresh {
					sawDimsChange = true
				}
				if newNames[d] && !r.names[d] && held {
					r.widened[d] = true
					sawWidenHeld = true
				}
				if !newNames[d] {
					if r.names[d] && held {
						sawNarrowHeld = true
					}
					delete(r.widened, d)
				}
			}
			r.names = newNames
			r.cacheAvail = o.Status.NodeName != "" && o.Status.Phase == schedulingv1alpha1.ReservationAvailable
			r.everAvail = r.everAvail || r.cacheAvail
			r.cacheTermin = o.DeletionTimestamp != nil
			if len(r.pods) > 0 && (!r.cacheAvail || r.allocOnce) {
				r.unavailWithP = true
			}
		}

		// ---- the oracle, evaluated after every operation
		check := func() bool {
			where := fmt.Sprintf("after %d ops", len(hist))
			// 1. ledger
			live := 0
			for _, r := range ress {
				rInfo := cache.reservationInfos[r.uid]
				if !r.inCache {
					if rInfo != nil {
						return c.Violation(t, "ledger:deleted-reservation-still-in-cache", "%s: reservation %s was deleted from the cache but is still in reservationInfos; history=%v", where, r.uid, hist)
					}
					continue
				}
				live++
				if rInfo == nil {
					return c.Violation(t, "ledger:live-reservation-missing", "%s: reservation %s should be in the cache but reservationInfos has no entry; history=%v", where, r.uid, hist)
				}
				if len(rInfo.AssignedPods) != len(r.pods) {
					return c.Violation(t, "ledger:assigned-set-mismatch", "%s: reservation %s ledger lists pods %v, model %v; history=%v", where, r.uid, c05SortedUIDs(rInfo.AssignedPods), c05SortedUIDs(r.pods), hist)
				}
				want := map[corev1.ResourceName]int64{}
				for puid, req := range r.pods {
					if _, ok := rInfo.AssignedPods[puid]; !ok {
						return c.Violation(t, "ledger:assigned-set-mismatch", "%s: reservation %s ledger lists pods %v, model %v; history=%v", where, r.uid, c05SortedUIDs(rInfo.AssignedPods), c05SortedUIDs(r.pods), hist)
					}
					for d, v := range req {
						if r.names[d] {
							want[d] += c05Milli(d, v)
						}
					}
				}
				dimsSeen := map[corev1.ResourceName]bool{}
				for d := range want {
					dimsSeen[d] = true
				}
				for d := range rInfo.Allocated {
					dimsSeen[d] = true
				}
				for _, d := range c05SortedNames(dimsSeen) {
					q := rInfo.Allocated[d]
					if q.MilliValue() != want[d] {
						sig := "ledger:allocated-ne-sum-of-assigned"
						if r.widened[d] {
							sig = "ledger:allocated-ne-sum-of-assigned:dimension-counted-after-pod-assigned"
						}
						return c.Violation(t, sig, "%s: reservation %s (currently counted dims %v) reports allocated %s=%d milli, assigned pods %v sum to %d milli in that dimension; history=%v",
							where, r.uid, c05SortedNames(r.names), d, q.MilliValue(), c05PodsStr(r.pods), want[d], hist)
					}
				}
				// the pre-calculated view handed to the node-restore code must say the same
				ar, _, _ := rInfo.Clone().GetAllocatedResource()
				got := map[corev1.ResourceName]int64{corev1.ResourceCPU: ar.MilliCPU, corev1.ResourceMemory: ar.Memory * 1000}
				for d, v := range ar.ScalarResources {
					got[d] = v * 1000
				}
				for _, d := range c05Universe {
					if got[d] != want[d] {
						sig := "ledger:precalculated-allocated-stale"
						if r.widened[d] {
							sig = "ledger:allocated-ne-sum-of-assigned:dimension-counted-after-pod-assigned"
						}
						return c.Violation(t, sig, "%s: reservation %s AllocatedResource %s=%d milli, assigned pods %v sum to %d milli; history=%v",
							where, r.uid, d, got[d], c05PodsStr(r.pods), want[d], hist)
					}
				}
			}
			if len(cache.reservationInfos) != live {
				return c.Violation(t, "ledger:unknown-reservation-in-cache", "%s: reservationInfos has %d entries, model %d; history=%v", where, len(cache.reservationInfos), live, hist)
			}
			// 2. no index entry may dangle or sit under the wrong node
			for _, ix := range []struct {
				name string
				m    map[string]map[types.UID]struct{}
			}{{"reservationsOnNode", cache.reservationsOnNode}, {"matchableOnNode", cache.matchableOnNode}, {"allocatedOnNode", cache.allocatedOnNode}} {
				for _, n := range vk.SortedKeys(ix.m) {
					for _, uid := range c05SortedUIDs(ix.m[n]) {
						rInfo := cache.reservationInfos[uid]
						if rInfo == nil {
							return c.Violation(t, "index:dangling-"+ix.name, "%s: %s[%s] references %s which is not in the cache; history=%v", where, ix.name, n, uid, hist)
						}
						if r := byUID[uid]; r != nil && r.node != n {
							return c.Violation(t, "index:wrong-node-"+ix.name, "%s: %s[%s] lists %s which is placed on %q; history=%v", where, ix.name, n, uid, r.node, hist)
						}
					}
				}
			}
			// 3. every live reservation placed on a node is listed
			for _, r := range ress {
				if !r.inCache || r.node == "" {
					continue
				}
				if _, ok := cache.reservationsOnNode[r.node][r.uid]; !ok {
					return c.Violation(t, "index:live-missing-reservationsOnNode", "%s: live reservation %s on %s not in reservationsOnNode; history=%v", where, r.uid, r.node, hist)
				}
				if r.matchable() {
					if _, ok := cache.matchableOnNode[r.node][r.uid]; !ok {
						sig := "index:matchable-missing-matchableOnNode"
						if r.allocOnce {
							sig = "index:allocate-once-freed-missing-matchableOnNode"
						}
						return c.Violation(t, sig, "%s: reservation %s on %s is Available, allocateOnce=%v, holds %d pods, but is not in matchableOnNode (ListAllNodes/ForEachMatchableReservationOnNode do not see it); history=%v",
							where, r.uid, r.node, r.allocOnce, len(r.pods), hist)
					}
					if len(r.pods) > 0 {
						if _, ok := cache.allocatedOnNode[r.node][r.uid]; !ok {
							return c.Violation(t, "index:allocated-missing-allocatedOnNode", "%s: matchable reservation %s on %s holds %d pods but is not in allocatedOnNode; history=%v", where, r.uid, r.node, len(r.pods), hist)
						}
					}
				}
			}
			// 4. the read API agrees
			matchNodes := map[string]bool{}
			for _, n := range cache.ListAllNodes(true) {
				matchNodes[n] = true
			}
			allocNodes := map[string]bool{}
			for _, n := range cache.ListAllNodes(false) {
				allocNodes[n] = true
			}
			for _, n := range nodes {
				wantAll := map[types.UID]bool{}
				wantMatch := map[types.UID]bool{}
				wantAlloc := false
				for _, r := range ress {
					if r.inCache && r.node == n {
						wantAll[r.uid] = true
						if r.matchable() {
							wantMatch[r.uid] = true
							if len(r.pods) > 0 {
								wantAlloc = true
							}
						}
					}
				}
				if len(wantMatch) > 0 && !matchNodes[n] {
					return c.Violation(t, "read:listallnodes-misses-node", "%s: node %s has matchable reservations %v but ListAllNodes(true)=%v; history=%v", where, n, c05SortedUIDs(wantMatch), vk.SortedKeys(matchNodes), hist)
				}
				if wantAlloc && !allocNodes[n] {
					return c.Violation(t, "read:listallnodes-misses-allocated-node", "%s: node %s has an allocated matchable reservation but ListAllNodes(false)=%v; history=%v", where, n, vk.SortedKeys(allocNodes), hist)
				}
				gotAll := map[types.UID]bool{}
				for _, ri := range cache.ListAvailableReservationInfosOnNode(n, true) {
					gotAll[ri.UID()] = true
				}
				for uid := range wantAll {
					if !gotAll[uid] {
						return c.Violation(t, "read:list-on-node-misses-live", "%s: ListAvailableReservationInfosOnNode(%s,true)=%v misses live %s; history=%v", where, n, c05SortedUIDs(gotAll), uid, hist)
					}
				}
				for uid := range gotAll {
					if !wantAll[uid] {
						return c.Violation(t, "read:list-on-node-returns-nonexistent", "%s: ListAvailableReservationInfosOnNode(%s,true) returns %s which does not exist on that node; history=%v", where, n, uid, hist)
					}
				}
				gotMatch := map[types.UID]bool{}
				nilSeen := false
				cache.ForEachMatchableReservationOnNode(n, func(ri *frameworkext.ReservationInfo) (bool, *fwktype.Status) {
					if ri == nil {
						nilSeen = true
						return true, nil
					}
					gotMatch[ri.UID()] = true
					return true, nil
				})
				if nilSeen {
					return c.Violation(t, "read:foreach-hands-nil", "%s: ForEachMatchableReservationOnNode(%s) handed a nil ReservationInfo; history=%v", where, n, hist)
				}
				for uid := range wantMatch {
					if !gotMatch[uid] {
						return c.Violation(t, "read:foreach-misses-matchable", "%s: ForEachMatchableReservationOnNode(%s)=%v misses %s; history=%v", where, n, c05SortedUIDs(gotMatch), uid, hist)
					}
				}
			}
			// 5. the label (selector) index: nothing dangling, every live labelled reservation findable
			if indexOn {
				if issues := cache.checkReservationSelectorIndexConsistency(); len(issues) > 0 {
					sort.Strings(issues)
					return c.Violation(t, "selector-index:inconsistent", "%s: %v; history=%v", where, issues, hist)
				}
				for _, r := range ress {
					if !r.inCache || r.node == "" {
						continue
					}
					lbls := cache.reservationInfos[r.uid].GetObject().GetLabels()
					for _, k := range vk.SortedKeys(lbls) {
						if k != "app" && !strings.HasPrefix(k, "tenant") {
							continue
						}
						got, hit := cache.FilterByReservationSelector(map[string]string{k: lbls[k]})
						found := false
						for _, n := range got {
							if n == r.node {
								found = true
							}
						}
						if !hit || !found {
							return c.Violation(t, "selector-index:live-reservation-not-found", "%s: reservation %s on %s carries %s=%s but FilterByReservationSelector -> %v hit=%v; history=%v", where, r.uid, r.node, k, lbls[k], got, hit, hist)
						}
					}
				}
				for p, byNode := range cache.nodesByPrefix {
					for n, uids := range byNode {
						for uid := range uids {
							if cache.reservationInfos[uid] == nil {
								return c.Violation(t, "selector-index:dangling", "%s: nodesByPrefix[%s][%s] references %s which is not in the cache; history=%v", where, p, n, uid, hist)
							}
						}
					}
				}
				for k, byVal := range cache.nodesByExactKV {
					for v, byNode := range byVal {
						for n, uids := range byNode {
							for uid := range uids {
								if cache.reservationInfos[uid] == nil {
									return c.Violation(t, "selector-index:dangling", "%s: nodesByExactKV[%s][%s][%s] references %s which is not in the cache; history=%v", where, k, v, n, uid, hist)
								}
							}
						}
					}
				}
			}
			// 6. snapshots handed out earlier still report what they reported when taken
			for _, sn := range snaps {
				got := c05SortedUIDs(sn.info.AssignedPods)
				same := len(got) == len(sn.pods)
				for i := 0; same && i < len(got); i++ {
					same = got[i] == sn.pods[i]
				}
				if !same {
					return c.Violation(t, "snapshot:assigned-pods-changed-after-handed-out", "%s: the snapshot of %s taken after %d ops listed pods %v, now lists %v; history=%v", where, sn.uid, sn.takenAt, sn.pods, got, hist)
				}
				for _, d := range c05Universe {
					q := sn.info.Allocated[d]
					if q.MilliValue() != sn.want[d] {
						return c.Violation(t, "snapshot:allocated-ne-sum-of-its-assigned-pods", "%s: the snapshot of %s taken after %d ops lists pods %v (their counted requests sum to %s=%d milli) but now reports allocated %s=%d milli; history=%v",
							where, sn.uid, sn.takenAt, sn.pods, d, sn.want[d], d, q.MilliValue(), hist)
					}
				}
				if r := byUID[sn.uid]; r != nil && len(sn.pods) > 0 {
					if r.removals > sn.removals {
						sawSnapOutlivedRemoval = true
					} else if r.inCache && len(r.pods) > len(sn.pods) {
						sawSnapOutlivedAdd = true
					}
				}
			}
			// keep the snapshots of the last three operations, take fresh ones
			kept := snaps[:0]
			for _, sn := range snaps {
				if sn.takenAt+3 > len(hist) {
					kept = append(kept, sn)
				}
			}
			snaps = kept
			for _, r := range ress {
				if !r.inCache {
					continue
				}
				info := cache.getReservationInfoByUID(r.uid)
				if info == nil {
					continue
				}
				want := map[corev1.ResourceName]int64{}
				for _, req := range r.pods {
					for d, v := range req {
						if r.names[d] {
							want[d] += c05Milli(d, v)
						}
					}
				}
				snaps = append(snaps, c05Snap{uid: r.uid, info: info, want: want, pods: c05SortedUIDs(r.pods), takenAt: len(hist), removals: r.removals})
			}
			return false
		}

		// ---- object constructors
		newRes := func(t *rapid.T) *c05Res {
			idx := len(ress)
			r := &c05Res{idx: idx, uid: types.UID(fmt.Sprintf("r%d", idx)), pods: map[types.UID]c05Req{}, widened: map[corev1.ResourceName]bool{}, names: map[corev1.ResourceName]bool{}}
			for len(r.dims) == 0 {
				for _, d := range c05Universe[:3] { // ext.io/b is never reserved: requests for it are always masked out
					if rapid.Bool().Draw(t, "dim:"+string(d)) {
						r.dims = append(r.dims, d)
					}
				}
			}
			tmpl := c05Req{}
			for _, d := range r.dims {
				tmpl[d] = 1 + c05GenAmount(t, d, true, "tmpl:"+string(d))
			}
			policy := rapid.SampledFrom(c05Policies).Draw(t, "policy")
			var opts []corev1.ResourceName
			if policy == schedulingv1alpha1.ReservationAllocatePolicyRestricted && rapid.Bool().Draw(t, "hasRestrictedOptions") {
				opts = []corev1.ResourceName{}
				for _, d := range c05Universe {
					if rapid.Bool().Draw(t, "opt:"+string(d)) {
						opts = append(opts, d)
					}
				}
			}
			obj := &schedulingv1alpha1.Reservation{}
			obj.Name, obj.UID = fmt.Sprintf("res-%d", idx), r.uid
			obj.Labels = c05GenLabels(t)
			obj.Spec.Template = &corev1.PodTemplateSpec{Spec: corev1.PodSpec{Containers: []corev1.Container{{Name: "main", Resources: corev1.ResourceRequirements{Requests: c05RL(tmpl)}}}}}
			obj.Spec.Owners = []schedulingv1alpha1.ReservationOwner{{LabelSelector: &metav1.LabelSelector{MatchLabels: map[string]string{"owner": "x"}}}}
			obj.Spec.TTL = &metav1.Duration{Duration: time.Hour}
			obj.Spec.AllocatePolicy = policy
			switch rapid.IntRange(0, 4).Draw(t, "allocateOnce") {
			case 0:
				r.allocOnce = true // unset means allocate-once
			case 1:
				b := true
				obj.Spec.AllocateOnce, r.allocOnce = &b, true
			default:
				b := false
				obj.Spec.AllocateOnce = &b
			}
			obj.Spec.Unschedulable = rapid.IntRange(0, 5).Draw(t, "unschedulable") == 0
			c05SetRestrictedOptions(obj, opts)
			if rapid.IntRange(0, 3).Draw(t, "hasInnerReserved") == 0 {
				res := c05Req{}
				for _, d := range r.dims {
					res[d] = c05GenAmount(t, d, true, "reserved:"+string(d))
				}
				c05SetReservedAnnotation(obj, res)
			}
			obj.Status.Phase = schedulingv1alpha1.ReservationPending
			r.obj = obj
			ress = append(ress, r)
			byUID[r.uid] = r
			return r
		}
		// what the reservation holds once scheduled: mostly the template's dimensions, sometimes resized to another set
		genAlloc := func(t *rapid.T, r *c05Res) c05Req {
			dims := r.dims
			if rapid.IntRange(0, 3).Draw(t, "allocDimsDiffer") == 0 {
				dims = nil
				for len(dims) == 0 {
					for _, d := range c05Universe[:3] {
						if rapid.Bool().Draw(t, "adim:"+string(d)) {
							dims = append(dims, d)
						}
					}
				}
			}
			alloc := c05Req{}
			for _, d := range dims {
				alloc[d] = 1 + c05GenAmount(t, d, true, "alloc:"+string(d))
			}
			return alloc
		}
		bind := func(t *rapid.T, o *schedulingv1alpha1.Reservation, r *c05Res, node string) {
			o.Status.NodeName = node
			if rapid.IntRange(0, 5).Draw(t, "waiting") == 0 {
				o.Status.Phase = schedulingv1alpha1.ReservationWaiting
			} else {
				o.Status.Phase = schedulingv1alpha1.ReservationAvailable
			}
			o.Status.Allocatable = c05RL(genAlloc(t, r))
		}
		newPod := func(t *rapid.T) *c05Pod {
			idx := len(pods)
			cs, total := c05GenPodSpec(t, true)
			p := &c05Pod{idx: idx, uid: types.UID(fmt.Sprintf("p%d", idx)), reqs: total}
			p.obj = &corev1.Pod{}
			p.obj.Name, p.obj.Namespace, p.obj.UID = fmt.Sprintf("pod-%d", idx), "default", p.uid
			p.obj.Spec.Containers = cs
			p.obj.Status.Phase = corev1.PodPending
			pods = append(pods, p)
			return p
		}
		pickRes := func(t *rapid.T, pred func(*c05Res) bool) *c05Res {
			var cand []*c05Res
			for _, r := range ress {
				if pred(r) {
					cand = append(cand, r)
				}
			}
			if len(cand) == 0 {
				return nil
			}
			return cand[rapid.IntRange(0, len(cand)-1).Draw(t, "res")]
		}
		pickPod := func(t *rapid.T, pred func(*c05Pod) bool) *c05Pod {
			var cand []*c05Pod
			for _, p := range pods {
				if pred(p) {
					cand = append(cand, p)
				}
			}
			if len(cand) == 0 {
				return nil
			}
			return cand[rapid.IntRange(0, len(cand)-1).Draw(t, "pod")]
		}
		// target of an assignment: a reservation in the cache that is or was Available (it may have changed since the
		// nomination), sometimes one that is not in the cache at all (ghost)
		pickTarget := func(t *rapid.T) (types.UID, string, metav1.Object) {
			var r *c05Res
			if rapid.IntRange(0, 14).Draw(t, "ghostTarget") > 0 {
				if rapid.IntRange(0, 3).Draw(t, "preferAvailable") > 0 {
					r = pickRes(t, func(r *c05Res) bool { return r.inCache && r.cacheAvail })
				}
				if r == nil {
					r = pickRes(t, func(r *c05Res) bool { return r.inCache && r.everAvail })
				}
			}
			if r == nil {
				sawGhost = true
				g := &schedulingv1alpha1.Reservation{}
				g.Name, g.UID = "ghost", "ghost"
				return "ghost", nodes[0], g
			}
			return r.uid, r.node, r.obj
		}
		hasRes := func(pred func(*c05Res) bool) bool {
			for _, r := range ress {
				if pred(r) {
					return true
				}
			}
			return false
		}
		hasPod := func(pred func(*c05Pod) bool) bool {
			for _, p := range pods {
				if pred(p) {
					return true
				}
			}
			return false
		}
		isAssumedUnbound := func(p *c05Pod) bool { return !p.deleted && !p.bound && p.assumedOn != "" }
		isBound := func(p *c05Pod) bool { return !p.deleted && p.bound }
		canUpdate := func(r *c05Res) bool { return r.bound() && r.pendingDel == nil }
		delObj := func(t *rapid.T, o any) any {
			if rapid.IntRange(0, 4).Draw(t, "finalStateUnknown") == 0 {
				return toolscache.DeletedFinalStateUnknown{Key: "k", Obj: o}
			}
			return o
		}
		flushGlobal := func(r *c05Res) {
			if r.pendingDel != nil {
				cache.DeleteReservation(r.pendingDel)
				mDeleteRes(r)
				r.pendingDel = nil
				logf("global handler: DeleteReservation(%s)", r.uid)
			}
		}

		// ---- operations
		type op struct {
			name    string
			weight  int
			enabled func() bool
			run     func(t *rapid.T)
		}
		ops := []op{
			{"resCreate", 3, func() bool { return len(ress) < 5 }, func(t *rapid.T) {
				r := newRes(t)
				switch rapid.IntRange(0, 9).Draw(t, "initial") {
				case 0, 1, 2, 3: // already scheduled when first seen (initial list / scheduled by another replica)
					r.node = rapid.SampledFrom(nodes).Draw(t, "node")
					bind(t, r.obj, r, r.node)
				}
				listerSet(r.obj)
				rh.OnAdd(r.obj, false)
				if r.bound() {
					mGive(r, r.obj, true)
				}
				logf("reservation add %s phase=%s node=%q allocOnce=%v policy=%q dims=%v counted=%v alloc=%v labels=%v", r.uid, r.obj.Status.Phase, r.node, r.allocOnce, r.obj.Spec.AllocatePolicy, r.dims, c05SortedNames(r.names), c05RLStr(r.obj.Status.Allocatable), r.obj.Labels)
			}},
			{"resAssume", 2, func() bool { return hasRes(func(r *c05Res) bool { return r.pending() && !r.assumed }) }, func(t *rapid.T) {
				r := pickRes(t, func(r *c05Res) bool { return r.pending() && !r.assumed })
				r.node = rapid.SampledFrom(nodes).Draw(t, "node")
				// the reservation's own scheduling cycle reaches Reserve with its reserve pod
				r.cycle = framework.NewCycleState()
				if st := pl.Reserve(ctx, r.cycle, reservationutil.NewReservePod(r.obj), r.node); !st.IsSuccess() {
					t.Fatalf("Reserve of the reserve pod of %s failed: %v", r.uid, st.Message())
				}
				cp := r.obj.DeepCopy()
				cp.Status.NodeName = r.node
				r.assumed = true
				mGive(r, cp, true)
				sawReserveCycle = true
				logf("reservation %s: Reserve(reserve pod) on %s", r.uid, r.node)
			}},
			{"resForget", 1, func() bool { return hasRes(func(r *c05Res) bool { return r.pending() && r.assumed }) }, func(t *rapid.T) {
				r := pickRes(t, func(r *c05Res) bool { return r.pending() && r.assumed })
				// binding failed (or a later Reserve/Permit plugin refused): Unreserve while the lister still holds the pending object
				pl.Unreserve(ctx, r.cycle, reservationutil.NewReservePod(r.obj), r.node)
				mDeleteRes(r)
				logf("reservation %s: Unreserve(reserve pod) from %s", r.uid, r.node)
				r.assumed, r.node, r.cycle = false, "", nil
				sawUnreserve = true
			}},
			{"resBind", 4, func() bool { return hasRes(func(r *c05Res) bool { return r.pending() }) }, func(t *rapid.T) {
				r := pickRes(t, func(r *c05Res) bool { return r.pending() })
				if !r.assumed {
					r.node = rapid.SampledFrom(nodes).Draw(t, "node")
				}
				old := r.obj
				nw := old.DeepCopy()
				bind(t, nw, r, r.node)
				r.obj, r.assumed, r.cycle = nw, false, nil
				listerSet(nw)
				rh.OnUpdate(old, nw)
				mGive(r, nw, true)
				logf("reservation update %s -> %s on %s alloc=%v counted=%v", r.uid, nw.Status.Phase, r.node, c05RLStr(nw.Status.Allocatable), c05SortedNames(r.names))
			}},
			{"resUpdate", 5, func() bool { return hasRes(canUpdate) }, func(t *rapid.T) {
				r := pickRes(t, canUpdate)
				old := r.obj
				nw := old.DeepCopy()
				what := ""
				switch rapid.IntRange(0, 9).Draw(t, "updateKind") {
				case 7, 8: // the restricted-resources option is narrowed, widened or removed
					if rapid.IntRange(0, 3).Draw(t, "dropRestrictedOptions") == 0 {
						delete(nw.Annotations, apiext.AnnotationReservationRestrictedOptions)
						what = "restricted-options removed"
					} else {
						opts := []corev1.ResourceName{}
						for _, d := range c05Universe {
							if rapid.Bool().Draw(t, "opt:"+string(d)) {
								opts = append(opts, d)
							}
						}
						c05SetRestrictedOptions(nw, opts)
						what = fmt.Sprintf("restricted-options=%v", opts)
					}
				case 9: // resized to another set of dimensions
					dims := []corev1.ResourceName{}
					for len(dims) == 0 {
						for _, d := range c05Universe[:3] {
							if rapid.Bool().Draw(t, "adim:"+string(d)) {
								dims = append(dims, d)
							}
						}
					}
					alloc := c05Req{}
					for _, d := range dims {
						alloc[d] = 1 + c05GenAmount(t, d, true, "alloc:"+string(d))
					}
					nw.Status.Allocatable = c05RL(alloc)
					what = "allocatable (dimensions changed)=" + c05RLStr(nw.Status.Allocatable)
				case 0:
					what = "resync"
					nw = old
				case 1:
					nw.Labels = c05GenLabels(t)
					what = fmt.Sprintf("labels=%v", nw.Labels)
				case 2: // resized, same dimensions
					alloc := c05Req{}
					for _, d := range c05SortedNames(old.Status.Allocatable) {
						alloc[d] = 1 + c05GenAmount(t, d, true, "alloc:"+string(d))
					}
					nw.Status.Allocatable = c05RL(alloc)
					what = "allocatable=" + c05RLStr(nw.Status.Allocatable)
				case 3:
					nw.Spec.Unschedulable = !nw.Spec.Unschedulable
					what = fmt.Sprintf("unschedulable=%v", nw.Spec.Unschedulable)
				case 4:
					if nw.Status.Phase == schedulingv1alpha1.ReservationWaiting {
						nw.Status.Phase = schedulingv1alpha1.ReservationAvailable
					}
					what = "phase=" + string(nw.Status.Phase)
				case 5:
					if nw.DeletionTimestamp == nil {
						ts := metav1.NewTime(time.Unix(1700000000, 0))
						nw.DeletionTimestamp = &ts
					}
					what = "deletionTimestamp set"
				default:
					nw.Status.CurrentOwners = []corev1.ObjectReference{{Name: "someone"}}
					what = "status.currentOwners"
				}
				r.obj = nw
				listerSet(nw)
				rh.OnUpdate(old, nw)
				mGive(r, nw, true)
				logf("reservation update %s %s (policy %q, counted now %v)", r.uid, what, nw.Spec.AllocatePolicy, c05SortedNames(r.names))
			}},
			{"resTerminate", 3, func() bool { return hasRes(canUpdate) }, func(t *rapid.T) {
				r := pickRes(t, canUpdate)
				old := r.obj
				nw := old.DeepCopy()
				nw.Status.Phase = rapid.SampledFrom([]schedulingv1alpha1.ReservationPhase{schedulingv1alpha1.ReservationSucceeded, schedulingv1alpha1.ReservationFailed}).Draw(t, "terminalPhase")
				r.obj = nw
				listerSet(nw)
				globalDeletes := old.Status.Phase == schedulingv1alpha1.ReservationAvailable // eventhandlers/reservation_handler.go case 3
				order := rapid.IntRange(0, 2).Draw(t, "handlerOrder")
				if globalDeletes && order == 0 {
					cache.DeleteReservation(old)
					mDeleteRes(r)
				}
				rh.OnUpdate(old, nw)
				mGive(r, nw, false)
				if globalDeletes && order == 1 {
					cache.DeleteReservation(old)
					mDeleteRes(r)
				}
				if globalDeletes && order == 2 {
					r.pendingDel = old
					sawDelayed = true
				}
				logf("reservation update %s -> %s (global handler delete: %v, order %d)", r.uid, nw.Status.Phase, globalDeletes, order)
			}},
			{"resDeleteAPI", 2, func() bool { return hasRes(func(r *c05Res) bool { return !r.gone }) }, func(t *rapid.T) {
				r := pickRes(t, func(r *c05Res) bool { return !r.gone })
				pluginFirst := rapid.Bool().Draw(t, "pluginFirst")
				if err := rIndexer.Delete(r.obj); err != nil {
					t.Fatalf("lister delete: %v", err)
				}
				if !pluginFirst {
					flushGlobal(r)
					if r.obj.Status.NodeName != "" {
						cache.DeleteReservation(r.obj)
						mDeleteRes(r)
					}
				}
				rh.OnDelete(delObj(t, r.obj))
				if r.inCache {
					cp := r.obj
					if cp.Status.NodeName != "" && cp.Status.Phase == schedulingv1alpha1.ReservationAvailable {
						cp = cp.DeepCopy()
						cp.Status.Phase = schedulingv1alpha1.ReservationFailed
					}
					if r.assumed {
						// the API object of an assumed reservation has no node; its binding cycle fails next and Unreserve
						// runs when the lister no longer has the object
						pl.Unreserve(ctx, r.cycle, reservationutil.NewReservePod(r.obj), r.node)
						mDeleteRes(r)
						sawUnreserveGone = true
					} else {
						mGive(r, cp, false)
					}
				}
				if pluginFirst {
					flushGlobal(r)
					if r.obj.Status.NodeName != "" {
						cache.DeleteReservation(r.obj)
						mDeleteRes(r)
					}
				}
				r.gone, r.assumed = true, false
				logf("reservation delete %s (pluginFirst=%v)", r.uid, pluginFirst)
			}},
			{"globalFlush", 3, func() bool { return hasRes(func(r *c05Res) bool { return r.pendingDel != nil }) }, func(t *rapid.T) {
				flushGlobal(pickRes(t, func(r *c05Res) bool { return r.pendingDel != nil }))
			}},
			{"podAssume", 6, func() bool { return len(pods) < 10 && hasRes(func(r *c05Res) bool { return r.inCache && r.everAvail }) }, func(t *rapid.T) {
				p := newPod(t)
				uid, _, _ := pickTarget(t)
				err := cache.assumePod(uid, p.obj)
				if err == nil {
					p.assumedOn = uid
					mAdd(uid, p, p.reqs)
				} else {
					sawAssumeErr = true
					if r := byUID[uid]; r != nil && r.inCache && !r.cacheTermin {
						if c.Violation(t, "assume:refused-on-live-reservation", "assumePod(%s,%s) failed with %v though the reservation is in the cache and not terminating; history=%v", uid, p.uid, err, hist) {
							dead = true
						}
					}
				}
				logf("pod assume %s req=%s on %s -> err=%v", p.uid, c05ReqStr(p.reqs), uid, err)
			}},
			{"podForget", 3, func() bool { return hasPod(isAssumedUnbound) }, func(t *rapid.T) {
				p := pickPod(t, isAssumedUnbound)
				cache.forgetPods(p.assumedOn, []*corev1.Pod{p.obj})
				ph.deletePod(p.obj) // the scheduler cache's forget hook
				mRemove(p.assumedOn, p)
				logf("pod forget %s from %s", p.uid, p.assumedOn)
				p.assumedOn = ""
			}},
			{"podBind", 5, func() bool { return hasPod(isAssumedUnbound) }, func(t *rapid.T) {
				p := pickPod(t, isAssumedUnbound)
				r := byUID[p.assumedOn]
				old := p.obj
				nw := old.DeepCopy()
				nw.Spec.NodeName = nodes[0]
				if r != nil && r.node != "" {
					nw.Spec.NodeName = r.node
				}
				if r != nil {
					apiext.SetReservationAllocated(nw, r.obj)
				} else {
					g := &schedulingv1alpha1.Reservation{}
					g.Name, g.UID = "ghost", p.assumedOn
					apiext.SetReservationAllocated(nw, g)
				}
				nw.Status.Phase = corev1.PodRunning
				p.obj, p.bound = nw, true
				ph.OnUpdate(old, nw)
				mAdd(p.assumedOn, p, p.reqs)
				logf("pod update %s bound to %s with reservation %s", p.uid, nw.Spec.NodeName, p.assumedOn)
				p.assumedOn = ""
			}},
			{"podAddBound", 4, func() bool { return len(pods) < 10 && hasRes(func(r *c05Res) bool { return r.inCache && r.everAvail }) }, func(t *rapid.T) {
				p := newPod(t)
				uid, node, robj := pickTarget(t)
				if node == "" {
					node = nodes[0]
				}
				p.obj.Spec.NodeName = node
				p.obj.Status.Phase = corev1.PodRunning
				if rapid.IntRange(0, 7).Draw(t, "noAnnotation") > 0 {
					apiext.SetReservationAllocated(p.obj, robj)
				} else {
					uid = ""
				}
				p.bound = true
				ph.OnAdd(p.obj, rapid.Bool().Draw(t, "initialList"))
				mAdd(uid, p, p.reqs)
				logf("pod add %s req=%s on %s reservation=%q", p.uid, c05ReqStr(p.reqs), node, uid)
			}},
			{"podUpdate", 6, func() bool { return hasPod(isBound) }, func(t *rapid.T) {
				p := pickPod(t, isBound)
				old := p.obj
				nw := old.DeepCopy()
				what := ""
				terminated := old.Status.Phase == corev1.PodSucceeded || old.Status.Phase == corev1.PodFailed
				switch rapid.IntRange(0, 5).Draw(t, "podUpdateKind") {
				case 0:
					nw = old
					what = "resync"
				case 1:
					if nw.Labels == nil {
						nw.Labels = map[string]string{}
					}
					nw.Labels["rev"] = fmt.Sprint(len(hist))
					what = "label"
				case 2:
					uid, _, robj := pickTarget(t)
					if rapid.IntRange(0, 4).Draw(t, "dropAnnotation") == 0 {
						delete(nw.Annotations, apiext.AnnotationReservationAllocated)
						uid = ""
					} else {
						apiext.SetReservationAllocated(nw, robj)
					}
					if uid != c05Annot(old) {
						sawMove = true
					}
					what = fmt.Sprintf("reservation-allocated -> %q", uid)
				case 3:
					nw.Status.Phase = rapid.SampledFrom([]corev1.PodPhase{corev1.PodSucceeded, corev1.PodFailed}).Draw(t, "podTerminalPhase")
					what = "phase=" + string(nw.Status.Phase)
				case 4:
					cs, total := c05GenPodSpec(t, true)
					nw.Spec.Containers = cs
					p.reqs = total
					sawResize = true
					what = "resize req=" + c05ReqStr(total)
				default:
					// re-delivered add (relist)
					ph.OnAdd(old, false)
					if !terminated {
						mAdd(c05Annot(old), p, p.reqs)
					} else {
						mRemove(c05Annot(old), p)
					}
					logf("pod add (again) %s", p.uid)
					return
				}
				p.obj = nw
				ph.OnUpdate(old, nw)
				if nw.Status.Phase == corev1.PodSucceeded || nw.Status.Phase == corev1.PodFailed {
					mRemove(c05Annot(nw), p) // a terminated pod is released from the reservation it names
				} else {
					mRemove(c05Annot(old), p)
					mAdd(c05Annot(nw), p, p.reqs)
				}
				logf("pod update %s %s", p.uid, what)
			}},
			{"podDelete", 5, func() bool { return hasPod(func(p *c05Pod) bool { return !p.deleted && (p.bound || p.assumedOn != "") }) }, func(t *rapid.T) {
				p := pickPod(t, func(p *c05Pod) bool { return !p.deleted && (p.bound || p.assumedOn != "") })
				ph.OnDelete(delObj(t, p.obj))
				if p.bound {
					mRemove(c05Annot(p.obj), p)
				} else {
					// an assumed pod that disappears fails its binding cycle: Unreserve follows
					cache.forgetPods(p.assumedOn, []*corev1.Pod{p.obj})
					mRemove(p.assumedOn, p)
					p.assumedOn = ""
				}
				p.deleted = true
				logf("pod delete %s", p.uid)
			}},
			{"podNoise", 1, func() bool { return hasPod(func(p *c05Pod) bool { return !p.deleted && !p.bound }) }, func(t *rapid.T) {
				p := pickPod(t, func(p *c05Pod) bool { return !p.deleted && !p.bound })
				nw := p.obj.DeepCopy()
				if nw.Labels == nil {
					nw.Labels = map[string]string{}
				}
				nw.Labels["rev"] = fmt.Sprint(len(hist))
				ph.OnUpdate(p.obj, nw)
				p.obj = nw
				logf("pod update (unbound) %s", p.uid)
			}},
		}

		t.Repeat(map[string]func(*rapid.T){
			"op": func(t *rapid.T) {
				if dead {
					return
				}
				var names []string
				for _, o := range ops {
					if o.enabled() {
						for i := 0; i < o.weight; i++ {
							names = append(names, o.name)
						}
					}
				}
				if len(names) == 0 {
					return
				}
				name := rapid.SampledFrom(names).Draw(t, "opKind")
				for _, o := range ops {
					if o.name == name {
						o.run(t)
					}
				}
			},
			"": func(t *rapid.T) {
				if !dead && check() {
					dead = true
				}
			},
		})

		c.ClassIf(indexOn, "selector-index-enabled")
		c.ClassIf(ntUnassignAfterUnavail, "assign->unavailable->unassign")
		c.ClassIf(ntDeleteWithPods, "delete-reservation-with-pods")
		c.ClassIf(sawMasked, "request-outside-reserved-dims")
		c.ClassIf(sawGhost, "annotation-names-unknown-reservation")
		c.ClassIf(sawMove, "pod-moved-between-reservations")
		c.ClassIf(sawResize, "pod-resized")
		c.ClassIf(sawDelayed, "terminate-with-delayed-global-delete")
		c.ClassIf(sawRematch, "allocate-once-freed-again")
		c.ClassIf(sawMulti, "reservation-with-2+-pods")
		c.ClassIf(sawAssumeErr, "assume-refused")
		c.ClassIf(sawDouble, "second-pod-on-allocate-once(forced)")
		c.ClassIf(sawSnapOutlivedRemoval, "snapshot-with-pods-outlived-a-pod-removal")
		c.ClassIf(sawSnapOutlivedAdd, "snapshot-with-pods-outlived-a-pod-add")
		c.ClassIf(sawDimsChange, "counted-dims-changed-by-update")
		c.ClassIf(sawNarrowHeld, "counted-dims-narrowed-while-held")
		c.ClassIf(sawWidenHeld, "counted-dims-widened-while-held")
		c.ClassIf(sawReserveCycle, "reservation-reserve-cycle")
		c.ClassIf(sawUnreserve, "reservation-unreserve")
		c.ClassIf(sawUnreserveGone, "reservation-unreserve-after-api-delete")
		c.ClassIf(len(hist) >= 20, "history>=20")
		if ntUnassignAfterUnavail || ntDeleteWithPods {
			c.NonTrivial(hist)
		}
		c.Sample(map[string]any{"nodes": nNodes, "selectorIndex": indexOn, "history": hist})
	})
}

func c05PodsStr(m map[types.UID]c05Req) string {
	var parts []string
	for _, uid := range c05SortedUIDs(m) {
		parts = append(parts, string(uid)+c05ReqStr(m[uid]))
	}
	return "[" + strings.Join(parts, " ") + "]"
}

func c05RLStr(rl corev1.ResourceList) string {
	var parts []string
	for _, d := range c05SortedNames(rl) {
		q := rl[d]
		parts = append(parts, fmt.Sprintf("%s=%s", d, q.String()))
	}
	return "{" + strings.Join(parts, ",") + "}"
}

// ---------------------------------------------------------------- (b) fit arithmetic

func TestVerifC05Fit(t *testing.T) {
	c05Quiet()
	rec := vk.New(t, "C05", "fit")
	rapid.Check(t, func(t *rapid.T) {
		c := rec.Begin()
		defer c.End()

		// reservation: reserved dimensions and amounts
		alloc := c05Req{}
		for len(alloc) == 0 {
			for _, d := range c05Universe {
				if rapid.IntRange(0, 2).Draw(t, "dim:"+string(d)) > 0 {
					alloc[d] = c05GenAmount(t, d, false, "alloc:"+string(d))
				}
			}
		}
		allocRL := c05RL(alloc)
		maxPods := int64(-1)
		if rapid.IntRange(0, 3).Draw(t, "reservesPods") == 0 {
			maxPods = rapid.Int64Range(0, 4).Draw(t, "maxPods")
			allocRL[corev1.ResourcePods] = *resource.NewQuantity(maxPods, resource.DecimalSI)
		}
		policy := rapid.SampledFrom([]schedulingv1alpha1.ReservationAllocatePolicy{schedulingv1alpha1.ReservationAllocatePolicyRestricted,
			schedulingv1alpha1.ReservationAllocatePolicyRestricted, schedulingv1alpha1.ReservationAllocatePolicyRestricted,
			schedulingv1alpha1.ReservationAllocatePolicyAligned, schedulingv1alpha1.ReservationAllocatePolicyDefault}).Draw(t, "policy")
		var opts []corev1.ResourceName
		if rapid.IntRange(0, 2).Draw(t, "hasRestrictedOptions") == 0 {
			opts = []corev1.ResourceName{}
			for _, d := range c05Universe {
				if rapid.Bool().Draw(t, "opt:"+string(d)) {
					opts = append(opts, d)
				}
			}
		}
		var reserved c05Req
		if rapid.IntRange(0, 2).Draw(t, "hasInnerReserved") == 0 {
			reserved = c05Req{}
			for _, d := range c05Universe {
				if rapid.Bool().Draw(t, "reservedHas:"+string(d)) {
					reserved[d] = rapid.Int64Range(0, alloc[d]+2).Draw(t, "reserved:"+string(d))
				}
			}
		}
		r := &schedulingv1alpha1.Reservation{}
		r.Name, r.UID = "r", "r"
		tmpl := c05Req{}
		for d := range alloc {
			tmpl[d] = 1
		}
		r.Spec.Template = &corev1.PodTemplateSpec{Spec: corev1.PodSpec{Containers: []corev1.Container{{Name: "main", Resources: corev1.ResourceRequirements{Requests: c05RL(tmpl)}}}}}
		r.Spec.Owners = []schedulingv1alpha1.ReservationOwner{{LabelSelector: &metav1.LabelSelector{}}}
		r.Spec.AllocatePolicy = policy
		b := false
		r.Spec.AllocateOnce = &b
		r.Status.Phase, r.Status.NodeName, r.Status.Allocatable = schedulingv1alpha1.ReservationAvailable, "n0", allocRL
		c05SetRestrictedOptions(r, opts)
		c05SetReservedAnnotation(r, reserved)

		rInfo := frameworkext.NewReservationInfo(r)
		var allocNames []corev1.ResourceName
		for d := range allocRL {
			allocNames = append(allocNames, d)
		}
		names := c05ModelNames(allocNames, policy, opts)

		// pods already assigned, through the real ledger
		nAssigned := rapid.IntRange(0, 3).Draw(t, "assigned")
		allocated := map[corev1.ResourceName]*big.Int{}
		var assignedStr []string
		for i := 0; i < nAssigned; i++ {
			req := c05Req{}
			for _, d := range c05Universe {
				if rapid.IntRange(0, 2).Draw(t, "aHas:"+string(d)) > 0 {
					req[d] = rapid.Int64Range(0, alloc[d]/2+2).Draw(t, "aReq:"+string(d))
				}
			}
			p := &corev1.Pod{}
			p.Name, p.Namespace, p.UID = fmt.Sprintf("a%d", i), "default", types.UID(fmt.Sprintf("a%d", i))
			p.Spec.Containers = []corev1.Container{{Name: "c", Resources: corev1.ResourceRequirements{Requests: c05RL(req)}}}
			rInfo.AddAssignedPod(p)
			assignedStr = append(assignedStr, c05ReqStr(req))
			for d, v := range req {
				if names[d] {
					if allocated[d] == nil {
						allocated[d] = new(big.Int)
					}
					allocated[d].Add(allocated[d], big.NewInt(c05Milli(d, v)))
				}
			}
		}
		if rapid.Bool().Draw(t, "refreshedByUpdate") {
			rInfo.UpdateReservation(r) // what an informer update of the same object does
		}
		get := func(d corev1.ResourceName) *big.Int {
			if allocated[d] == nil {
				return new(big.Int)
			}
			return allocated[d]
		}

		// preemptible amounts inside the reservation
		var preempt c05Req
		preemptPods := int64(-1)
		if rapid.IntRange(0, 2).Draw(t, "hasPreemptible") == 0 {
			preempt = c05Req{}
			for _, d := range c05Universe {
				if rapid.Bool().Draw(t, "pHas:"+string(d)) {
					hi := new(big.Int).Div(get(d), big.NewInt(c05Milli(d, 1))).Int64() + 2
					preempt[d] = rapid.Int64Range(0, hi).Draw(t, "preempt:"+string(d))
				}
			}
			if rapid.IntRange(0, 2).Draw(t, "pHasPods") == 0 {
				preemptPods = rapid.Int64Range(0, int64(nAssigned)+1).Draw(t, "preemptPods")
			}
		}
		preemptRL := c05RL(preempt)
		if preemptPods >= 0 {
			preemptRL[corev1.ResourcePods] = *resource.NewQuantity(preemptPods, resource.DecimalSI)
		}

		// remaining room per dimension, exact: allocatable - reserved - max(0, allocated - preemptible), in milli-units
		remained := map[corev1.ResourceName]*big.Int{}
		for _, d := range c05Universe {
			capM := big.NewInt(c05Milli(d, alloc[d])) // 0 when the dimension is not reserved
			if v, ok := reserved[d]; ok {
				capM.Sub(capM, big.NewInt(c05Milli(d, v)))
			}
			used := new(big.Int).Set(get(d))
			if v, ok := preempt[d]; ok {
				used.Sub(used, big.NewInt(c05Milli(d, v)))
			}
			if used.Sign() < 0 {
				used.SetInt64(0)
			}
			remained[d] = capM.Sub(capM, used)
		}

		// the pod's request, aimed at the boundary
		req := c05Req{}
		boundary := false
		for _, d := range c05Universe {
			if rapid.IntRange(0, 3).Draw(t, "rHas:"+string(d)) == 0 {
				continue
			}
			unit := big.NewInt(c05Milli(d, 1))
			room := new(big.Int).Div(remained[d], unit) // floor towards zero is fine: amounts are whole units
			if remained[d].Sign() < 0 {
				room.SetInt64(0)
			}
			rm := room.Int64()
			var v int64
			switch rapid.IntRange(0, 5).Draw(t, "rKind:"+string(d)) {
			case 0:
				v = rm
			case 1:
				v = rm + 1
			case 2:
				v = rm - 1
			case 3:
				v = 0
			case 4:
				v = rapid.Int64Range(0, rm+1).Draw(t, "r:"+string(d))
			default:
				v = c05GenAmount(t, d, false, "r:"+string(d))
			}
			if v < 0 {
				v = 0
			}
			req[d] = v
			if names[d] && v > 0 {
				diff := new(big.Int).Sub(big.NewInt(c05Milli(d, v)), remained[d])
				if diff.CmpAbs(unit) <= 0 {
					boundary = true
				}
			}
		}
		reqRL := c05RL(req)

		// ---- oracle
		var short []string
		for _, d := range c05Universe {
			if !names[d] || req[d] == 0 {
				continue
			}
			if big.NewInt(c05Milli(d, req[d])).Cmp(remained[d]) > 0 {
				short = append(short, string(d))
			}
		}
		podsShort := false
		if maxPods >= 0 {
			held := int64(nAssigned)
			if preemptPods >= 0 {
				held -= preemptPods
			}
			podsShort = held+1 > maxPods
		}
		fits := len(short) == 0 && !podsShort

		detailed := rapid.Bool().Draw(t, "detailedReasons")
		reasons := fitsReservation(reqRL, rInfo, preemptRL, detailed, nil, nil)
		byNode, byRes := fitsNodeAndReservation(framework.NewResource(reqRL), nil, nil, nil, rInfo.GetAvailable(), reqRL, preemptRL, &corev1.Pod{}, rInfo, nil, 1, detailed, true, nil, nil)

		restricted := policy == schedulingv1alpha1.ReservationAllocatePolicyRestricted
		c.ClassIf(fits, "fits")
		c.ClassIf(!fits, "does-not-fit")
		c.ClassIf(podsShort, "pods-dimension-full")
		c.ClassIf(boundary, "within-1-unit-of-boundary")
		c.ClassIf(reserved != nil, "inner-reserved")
		c.ClassIf(preempt != nil, "preemptible")
		c.ClassIf(opts != nil && restricted, "restricted-options")
		c.ClassIf(len(names) < len(allocRL), "counted-dims-subset-of-reserved")
		c.ClassIf(nAssigned > 0, "has-assigned")
		c.Class("policy:" + string(policy))
		if boundary {
			c.NonTrivial(c05ReqStr(alloc), maxPods, policy, opts, c05ReqStr(reserved), assignedStr, c05ReqStr(preempt), preemptPods, c05ReqStr(req))
		}
		desc := fmt.Sprintf("allocatable=%s policy=%q restrictedOptions=%v innerReserved=%s assigned=%v preemptible=%s request=%s countedDims=%v remainedMilli=%v",
			c05RLStr(allocRL), policy, opts, c05ReqStr(reserved), assignedStr, c05RLStr(preemptRL), c05ReqStr(req), c05SortedNames(names), c05BigStr(remained))
		c.Sample(map[string]any{"case": desc, "fits": fits, "reasons": reasons})

		if len(reasons) == 0 && !fits {
			sig := "fit:accepted-beyond-reserved"
			if podsShort && len(short) == 0 {
				sig = "fit:accepted-beyond-reserved-pods"
			}
			if c.Violation(t, sig, "fitsReservation accepted although short of %v podsFull=%v: %s", short, podsShort, desc) {
				return
			}
		}
		if len(reasons) > 0 && fits {
			if c.Violation(t, "fit:refused-though-within-reserved", "fitsReservation refused (%v) although every counted dimension fits: %s", reasons, desc) {
				return
			}
		}
		if restricted && len(byNode) == 0 && len(byRes) == 0 && !fits {
			if c.Violation(t, "fit:restricted-admitted-beyond-reserved", "fitsNodeAndReservation (Restricted) succeeded although short of %v podsFull=%v: %s", short, podsShort, desc) {
				return
			}
		}
	})
}

func c05BigStr(m map[corev1.ResourceName]*big.Int) string {
	var parts []string
	for _, d := range c05SortedNames(m) {
		parts = append(parts, fmt.Sprintf("%s=%s", d, m[d].String()))
	}
	return "{" + strings.Join(parts, ",") + "}"
}
