//go:build verif

// C05 (c, owner part) — "a pod is only ever matched to a reservation whose owner specification it satisfies".
// Differential: ParseReservationOwnerMatchers + MatchReservationOwners against an independent statement of the
// documented DNF (object ref AND controller ref AND label selector; OR over owners; no owners match nothing).
// See /verif/DESIGN.md §1 C05. In-package harness (injected with -overlay).
package reservation

import (
	"fmt"
	"testing"

	corev1 "k8s.io/api/core/v1"
	metav1 "k8s.io/apimachinery/pkg/apis/meta/v1"
	"k8s.io/apimachinery/pkg/types"
	"pgregory.net/rapid"

	schedulingv1alpha1 "github.com/koordinator-sh/koordinator/apis/scheduling/v1alpha1"
	"github.com/koordinator-sh/koordinator/pkg/verifkit/vk"
)

var (
	c05oNames      = []string{"", "a", "b"}
	c05oNamespaces = []string{"", "ns1", "ns2"}
	c05oUIDs       = []types.UID{"", "u1", "u2"}
	c05oAPIVers    = []string{"", "v1", "apps/v1"}
	c05oKinds      = []string{"", "ReplicaSet", "StatefulSet"}
	c05oKeys       = []string{"app", "tier", "team"}
	c05oVals       = []string{"x", "y", "z"}
)

func c05oGenSelector(t *rapid.T) *metav1.LabelSelector {
	sel := &metav1.LabelSelector{}
	nl := rapid.IntRange(0, 2).Draw(t, "nMatchLabels")
	for i := 0; i < nl; i++ {
		if sel.MatchLabels == nil {
			sel.MatchLabels = map[string]string{}
		}
		sel.MatchLabels[rapid.SampledFrom(c05oKeys).Draw(t, "mlKey")] = rapid.SampledFrom(c05oVals).Draw(t, "mlVal")
	}
	ne := rapid.IntRange(0, 2).Draw(t, "nExpr")
	for i := 0; i < ne; i++ {
		op := rapid.SampledFrom([]metav1.LabelSelectorOperator{metav1.LabelSelectorOpIn, metav1.LabelSelectorOpNotIn,
			metav1.LabelSelectorOpExists, metav1.LabelSelectorOpDoesNotExist}).Draw(t, "op")
		req := metav1.LabelSelectorRequirement{Key: rapid.SampledFrom(c05oKeys).Draw(t, "exKey"), Operator: op}
		if op == metav1.LabelSelectorOpIn || op == metav1.LabelSelectorOpNotIn {
			nv := rapid.IntRange(1, 2).Draw(t, "nVals")
			for j := 0; j < nv; j++ {
				req.Values = append(req.Values, rapid.SampledFrom(c05oVals).Draw(t, "exVal"))
			}
		}
		sel.MatchExpressions = append(sel.MatchExpressions, req)
	}
	return sel
}

func c05oGenOwner(t *rapid.T) schedulingv1alpha1.ReservationOwner {
	var o schedulingv1alpha1.ReservationOwner
	// which of the three selectors are present (0 = the "{}" owner that matches everything)
	mask := rapid.SampledFrom([]int{1, 2, 4, 1, 2, 4, 3, 5, 6, 7, 0}).Draw(t, "ownerFields")
	if mask&1 != 0 {
		o.Object = &corev1.ObjectReference{
			UID:        rapid.SampledFrom(c05oUIDs).Draw(t, "objUID"),
			Name:       rapid.SampledFrom(c05oNames).Draw(t, "objName"),
			Namespace:  rapid.SampledFrom(c05oNamespaces).Draw(t, "objNS"),
			APIVersion: rapid.SampledFrom([]string{"", "", "v1"}).Draw(t, "objAPIVersion"),
			Kind:       rapid.SampledFrom([]string{"", "Pod", "Other"}).Draw(t, "objKind"), // documented as ignored
		}
	}
	if mask&2 != 0 {
		c := &schedulingv1alpha1.ReservationControllerReference{
			OwnerReference: metav1.OwnerReference{
				APIVersion: rapid.SampledFrom(c05oAPIVers).Draw(t, "ctlAPIVersion"),
				Kind:       rapid.SampledFrom(c05oKinds).Draw(t, "ctlKind"),
				Name:       rapid.SampledFrom(c05oNames).Draw(t, "ctlName"),
				UID:        rapid.SampledFrom(c05oUIDs).Draw(t, "ctlUID"),
			},
			Namespace: rapid.SampledFrom(c05oNamespaces).Draw(t, "ctlNS"),
		}
		switch rapid.IntRange(0, 2).Draw(t, "ctlController") {
		case 1:
			b := true
			c.Controller = &b
		case 2:
			b := false
			c.Controller = &b
		}
		o.Controller = c
	}
	if mask&4 != 0 {
		o.LabelSelector = c05oGenSelector(t)
	}
	return o
}

func c05oGenPod(t *rapid.T) *corev1.Pod {
	pod := &corev1.Pod{}
	pod.Name = rapid.SampledFrom(c05oNames[1:]).Draw(t, "podName")
	pod.Namespace = rapid.SampledFrom(c05oNamespaces[1:]).Draw(t, "podNS")
	pod.UID = rapid.SampledFrom(c05oUIDs[1:]).Draw(t, "podUID")
	if rapid.IntRange(0, 3).Draw(t, "podHasTypeMeta") == 0 { // informer objects normally carry no TypeMeta
		pod.APIVersion = "v1"
		pod.Kind = "Pod"
	}
	nl := rapid.IntRange(0, 3).Draw(t, "nPodLabels")
	for i := 0; i < nl; i++ {
		if pod.Labels == nil {
			pod.Labels = map[string]string{}
		}
		pod.Labels[rapid.SampledFrom(c05oKeys).Draw(t, "plKey")] = rapid.SampledFrom(c05oVals).Draw(t, "plVal")
	}
	no := rapid.IntRange(0, 2).Draw(t, "nOwnerRefs")
	for i := 0; i < no; i++ {
		ref := metav1.OwnerReference{
			APIVersion: rapid.SampledFrom(c05oAPIVers[1:]).Draw(t, "orAPIVersion"),
			Kind:       rapid.SampledFrom(c05oKinds[1:]).Draw(t, "orKind"),
			Name:       rapid.SampledFrom(c05oNames[1:]).Draw(t, "orName"),
			UID:        rapid.SampledFrom(c05oUIDs[1:]).Draw(t, "orUID"),
		}
		switch rapid.IntRange(0, 2).Draw(t, "orController") {
		case 1:
			b := true
			ref.Controller = &b
		case 2:
			b := false
			ref.Controller = &b
		}
		pod.OwnerReferences = append(pod.OwnerReferences, ref)
	}
	return pod
}

// ---- the independent statement of the rule (no koordinator / apimachinery selector code involved)

func c05oRefSelector(sel *metav1.LabelSelector, lbls map[string]string) bool {
	if sel == nil {
		return true
	}
	for k, v := range sel.MatchLabels {
		got, ok := lbls[k]
		if !ok || got != v {
			return false
		}
	}
	for _, e := range sel.MatchExpressions {
		got, present := lbls[e.Key]
		in := false
		for _, v := range e.Values {
			if present && v == got {
				in = true
			}
		}
		switch e.Operator {
		case metav1.LabelSelectorOpIn:
			if !in {
				return false
			}
		case metav1.LabelSelectorOpNotIn:
			if in {
				return false
			}
		case metav1.LabelSelectorOpExists:
			if !present {
				return false
			}
		case metav1.LabelSelectorOpDoesNotExist:
			if present {
				return false
			}
		}
	}
	return true
}

func c05oRefObject(ref *corev1.ObjectReference, pod *corev1.Pod) bool {
	if ref == nil {
		return true
	}
	if ref.UID != "" && ref.UID != pod.UID {
		return false
	}
	if ref.Name != "" && ref.Name != pod.Name {
		return false
	}
	if ref.Namespace != "" && ref.Namespace != pod.Namespace {
		return false
	}
	if ref.APIVersion != "" && ref.APIVersion != pod.APIVersion {
		return false
	}
	return true // kind, resourceVersion, fieldPath are documented as ignored
}

func c05oRefController(c *schedulingv1alpha1.ReservationControllerReference, pod *corev1.Pod) bool {
	if c == nil {
		return true
	}
	if c.Namespace != "" && c.Namespace != pod.Namespace {
		return false
	}
	for _, or := range pod.OwnerReferences {
		ok := true
		if c.Controller != nil && (or.Controller == nil || *or.Controller != *c.Controller) {
			ok = false
		}
		if c.UID != "" && c.UID != or.UID {
			ok = false
		}
		if c.Name != "" && c.Name != or.Name {
			ok = false
		}
		if c.Kind != "" && c.Kind != or.Kind {
			ok = false
		}
		if c.APIVersion != "" && c.APIVersion != or.APIVersion {
			ok = false
		}
		if ok {
			return true
		}
	}
	return false
}

func c05oRefOwners(owners []schedulingv1alpha1.ReservationOwner, pod *corev1.Pod) (bool, int) {
	for i, o := range owners {
		if c05oRefObject(o.Object, pod) && c05oRefController(o.Controller, pod) && c05oRefSelector(o.LabelSelector, pod.Labels) {
			return true, i
		}
	}
	return false, -1
}

func TestVerifC05OwnerMatch(t *testing.T) {
	rec := vk.New(t, "C05", "ownerMatch")
	rapid.Check(t, func(t *rapid.T) {
		c := rec.Begin()
		defer c.End()
		n := rapid.SampledFrom([]int{0, 1, 1, 1, 2, 2, 3}).Draw(t, "nOwners")
		var owners []schedulingv1alpha1.ReservationOwner
		for i := 0; i < n; i++ {
			owners = append(owners, c05oGenOwner(t))
		}
		pod := c05oGenPod(t)

		matchers, err := ParseReservationOwnerMatchers(owners)
		if err != nil {
			// only syntactically valid selectors are generated
			c.Violation(t, "owner:valid-owners-rejected", "ParseReservationOwnerMatchers(%s) failed: %v", c05oOwnersStr(owners), err)
			return
		}
		got := MatchReservationOwners(pod, matchers)
		want, which := c05oRefOwners(owners, pod)

		multi := 0
		for _, o := range owners {
			k := 0
			if o.Object != nil {
				k++
			}
			if o.Controller != nil {
				k++
			}
			if o.LabelSelector != nil {
				k++
			}
			if k >= 2 {
				multi++
			}
		}
		c.ClassIf(n == 0, "no-owners")
		c.ClassIf(want, "match")
		c.ClassIf(!want, "no-match")
		c.ClassIf(multi > 0, "conjunctive-owner")
		c.ClassIf(n >= 2, "disjunction")
		c.ClassIf(want && which > 0, "matched-by-later-owner")
		// non-trivial: at least one owner with two or more selectors ANDed, or two or more owners ORed
		if multi > 0 || n >= 2 {
			c.NonTrivial(c05oOwnersStr(owners), c05oPodStr(pod))
		}
		c.Sample(map[string]any{"owners": c05oOwnersStr(owners), "pod": c05oPodStr(pod), "match": got})
		if got && !want {
			c.Violation(t, "owner:matched-without-satisfying-owners", "pod %s matched owners %s but satisfies none of them", c05oPodStr(pod), c05oOwnersStr(owners))
			return
		}
		if !got && want {
			c.Violation(t, "owner:satisfying-pod-not-matched", "pod %s satisfies owner #%d of %s but was not matched", c05oPodStr(pod), which, c05oOwnersStr(owners))
			return
		}
	})
}

func c05oOwnersStr(owners []schedulingv1alpha1.ReservationOwner) string {
	s := "["
	for i, o := range owners {
		if i > 0 {
			s += " | "
		}
		s += "{"
		if o.Object != nil {
			s += fmt.Sprintf("object(uid=%q name=%q ns=%q apiVersion=%q kind=%q) ", o.Object.UID, o.Object.Name, o.Object.Namespace, o.Object.APIVersion, o.Object.Kind)
		}
		if o.Controller != nil {
			ctl := "nil"
			if o.Controller.Controller != nil {
				ctl = fmt.Sprint(*o.Controller.Controller)
			}
			s += fmt.Sprintf("controller(uid=%q name=%q kind=%q apiVersion=%q ns=%q controller=%s) ", o.Controller.UID, o.Controller.Name, o.Controller.Kind, o.Controller.APIVersion, o.Controller.Namespace, ctl)
		}
		if o.LabelSelector != nil {
			s += "selector(" + metav1.FormatLabelSelector(o.LabelSelector) + ")"
		}
		s += "}"
	}
	return s + "]"
}

func c05oPodStr(pod *corev1.Pod) string {
	s := fmt.Sprintf("pod(uid=%q name=%q ns=%q apiVersion=%q labels=%v owners=[", pod.UID, pod.Name, pod.Namespace, pod.APIVersion, pod.Labels)
	for _, or := range pod.OwnerReferences {
		ctl := "nil"
		if or.Controller != nil {
			ctl = fmt.Sprint(*or.Controller)
		}
		s += fmt.Sprintf("(uid=%q name=%q kind=%q apiVersion=%q controller=%s)", or.UID, or.Name, or.Kind, or.APIVersion, ctl)
	}
	return s + "])"
}
