//go:build verif

// C05 (owner clause, pre-allocation) — a pre-allocation reservation (default mode) is scheduled while running pods are
// matched to it as pre-allocatable pods and assumed into it at Reserve. Owners are a DNF (object ref AND controller ref AND
// label selector inside one term, terms ORed); whatever pod is matched as pre-allocatable in BeforePreFilter or ends up
// assigned to the reservation after Reserve must satisfy at least one whole term (independent matcher).
// See /verif/DESIGN.md §1 C05. In-package harness (injected with -overlay).
package reservation

import (
	"context"
	"fmt"
	"sort"
	"testing"
	"time"

	corev1 "k8s.io/api/core/v1"
	"k8s.io/apimachinery/pkg/api/resource"
	metav1 "k8s.io/apimachinery/pkg/apis/meta/v1"
	"k8s.io/apimachinery/pkg/types"
	"k8s.io/kubernetes/pkg/scheduler/framework"
	"pgregory.net/rapid"

	apiext "github.com/koordinator-sh/koordinator/apis/extension"
	schedulingv1alpha1 "github.com/koordinator-sh/koordinator/apis/scheduling/v1alpha1"
	reservationutil "github.com/koordinator-sh/koordinator/pkg/util/reservation"
	"github.com/koordinator-sh/koordinator/pkg/verifkit/vk"
)

var (
	c05pApps = []string{"web", "batch", "other"}
	c05pRS   = []string{"rs-1", "rs-2"}
)

// the two halves of one owner term, for the shapes this test generates (independent of koordinator's matchers)
func c05pSelectorOK(o schedulingv1alpha1.ReservationOwner, pod *corev1.Pod) bool {
	if o.LabelSelector == nil {
		return true
	}
	for k, v := range o.LabelSelector.MatchLabels {
		if got, has := pod.Labels[k]; !has || got != v {
			return false
		}
	}
	return true
}

func c05pRefsOK(o schedulingv1alpha1.ReservationOwner, pod *corev1.Pod) bool {
	if o.Object != nil {
		if o.Object.Name != "" && o.Object.Name != pod.Name {
			return false
		}
		if o.Object.Namespace != "" && o.Object.Namespace != pod.Namespace {
			return false
		}
	}
	if o.Controller != nil {
		found := false
		for _, ref := range pod.OwnerReferences {
			if (o.Controller.Kind == "" || o.Controller.Kind == ref.Kind) && (o.Controller.Name == "" || o.Controller.Name == ref.Name) {
				found = true
			}
		}
		if !found {
			return false
		}
	}
	return true
}

func c05pOwnerOK(owners []schedulingv1alpha1.ReservationOwner, pod *corev1.Pod) bool {
	for _, o := range owners {
		if c05pSelectorOK(o, pod) && c05pRefsOK(o, pod) {
			return true
		}
	}
	return false
}

func c05pPodStr(p *corev1.Pod) string {
	ctl := ""
	if len(p.OwnerReferences) > 0 {
		ctl = p.OwnerReferences[0].Name
	}
	q := p.Spec.Containers[0].Resources.Requests[corev1.ResourceCPU]
	return fmt.Sprintf("%s(node=%s app=%q ctl=%q cpu=%s allocated=%v)", p.Name, p.Spec.NodeName, p.Labels["app"], ctl, q.String(), p.Annotations[apiext.AnnotationReservationAllocated] != "")
}

func TestVerifC05PreAllocation(t *testing.T) {
	c05Quiet()
	rec := vk.New(t, "C05", "preAllocation")
	nodeNames := []string{"n0", "n1"}
	var nodeObjs []*corev1.Node
	for _, n := range nodeNames {
		nodeObjs = append(nodeObjs, &corev1.Node{ObjectMeta: metav1.ObjectMeta{Name: n}, Status: corev1.NodeStatus{Allocatable: corev1.ResourceList{
			corev1.ResourceCPU: resource.MustParse("64"), corev1.ResourceMemory: resource.MustParse("256Gi"), corev1.ResourcePods: resource.MustParse("200")}}})
	}
	// one framework and plugin for the whole test; informers are never started, the listers are fed through the indexers
	suit := newPluginTestSuitWith(t, nil, nodeObjs)
	plg, err := suit.pluginFactory()
	if err != nil {
		t.Fatalf("plugin factory: %v", err)
	}
	pl := plg.(*Plugin)
	rIndexer := suit.extenderFactory.KoordinatorSharedInformerFactory().Scheduling().V1alpha1().Reservations().Informer().GetIndexer()
	podIndexer := suit.fw.SharedInformerFactory().Core().V1().Pods().Informer().GetIndexer()
	ctx := context.TODO()

	rapid.Check(t, func(t *rapid.T) {
		c := rec.Begin()
		defer c.End()
		if err := rIndexer.Replace(nil, "0"); err != nil {
			t.Fatalf("reset reservation lister: %v", err)
		}
		if err := podIndexer.Replace(nil, "0"); err != nil {
			t.Fatalf("reset pod lister: %v", err)
		}
		pl.reservationCache = newReservationCache(pl.rLister)
		pl.nominator = newNominator(pl.podLister, pl.rLister)

		// ---- the reservation: pre-allocation, Restricted (the only policy pre-allocation supports), 1-3 owner terms
		rCPU := rapid.Int64Range(2, 4).Draw(t, "reservationCores")
		r := &schedulingv1alpha1.Reservation{}
		r.Name, r.UID = "prealloc-r", "prealloc-r-uid"
		r.Spec.Template = &corev1.PodTemplateSpec{Spec: corev1.PodSpec{Containers: []corev1.Container{{Name: "main",
			Resources: corev1.ResourceRequirements{Requests: c05RL(c05Req{corev1.ResourceCPU: rCPU * 1000})}}}}}
		r.Spec.TTL = &metav1.Duration{Duration: time.Hour}
		r.Spec.PreAllocation = true
		r.Spec.AllocatePolicy = schedulingv1alpha1.ReservationAllocatePolicyRestricted
		once := rapid.Bool().Draw(t, "allocateOnce")
		r.Spec.AllocateOnce = &once
		multiple := rapid.Bool().Draw(t, "enableMultiple")
		if multiple || rapid.Bool().Draw(t, "explicitPolicy") {
			r.Spec.PreAllocationPolicy = &schedulingv1alpha1.PreAllocationPolicy{Mode: schedulingv1alpha1.PreAllocationModeDefault, EnableMultiple: multiple}
		}
		required := rapid.IntRange(0, 2).Draw(t, "preAllocationRequired") > 0
		if required {
			r.Labels = map[string]string{apiext.LabelPreAllocationRequired: "true"}
		}
		nTerms := rapid.SampledFrom([]int{1, 2, 2, 2, 3}).Draw(t, "ownerTerms")
		// aimed cases construct the boundary of the DNF: term 0 ANDs a selector with a controller, term 1 is a bare selector
		// on another label value, and pod 0 carries term 0's label but another (or no) controller; everything else is random
		aimed := rapid.IntRange(0, 2).Draw(t, "aimed") == 0
		aimApp, aimRS := "", ""
		if aimed {
			if nTerms < 2 {
				nTerms = 2
			}
			aimApp = rapid.SampledFrom(c05pApps).Draw(t, "aimApp")
			aimRS = rapid.SampledFrom(c05pRS).Draw(t, "aimController")
		}
		var ownerStr []string
		for i := 0; i < nTerms; i++ {
			var o schedulingv1alpha1.ReservationOwner
			// 1 selector only, 2 selector+controller, 3 controller only, 4 selector+object, 5 object only
			shape := rapid.SampledFrom([]int{1, 1, 2, 2, 2, 3, 4, 5}).Draw(t, "termShape")
			if aimed && i == 0 {
				shape = 2
			}
			if aimed && i == 1 {
				shape = 1
			}
			s := "{"
			if shape == 1 || shape == 2 || shape == 4 {
				app := rapid.SampledFrom(c05pApps).Draw(t, "termApp")
				if aimed && i == 0 {
					app = aimApp
				}
				if aimed && i == 1 && app == aimApp {
					for _, a := range c05pApps {
						if a != aimApp {
							app = a
							break
						}
					}
				}
				o.LabelSelector = &metav1.LabelSelector{MatchLabels: map[string]string{"app": app}}
				s += "app=" + app + " "
			}
			if shape == 2 || shape == 3 {
				rs := rapid.SampledFrom(c05pRS).Draw(t, "termController")
				if aimed && i == 0 {
					rs = aimRS
				}
				o.Controller = &schedulingv1alpha1.ReservationControllerReference{OwnerReference: metav1.OwnerReference{Kind: "ReplicaSet", Name: rs}}
				s += "controller=" + rs + " "
			}
			if shape == 4 || shape == 5 {
				name := fmt.Sprintf("pod-%d", rapid.IntRange(0, 3).Draw(t, "termObject"))
				o.Object = &corev1.ObjectReference{Namespace: "default", Name: name}
				s += "object=default/" + name + " "
			}
			r.Spec.Owners = append(r.Spec.Owners, o)
			ownerStr = append(ownerStr, s+"}")
		}
		r.Status.Phase = schedulingv1alpha1.ReservationPending
		if err := rIndexer.Add(r); err != nil {
			t.Fatalf("lister add: %v", err)
		}

		// ---- running pods on the nodes
		nPods := rapid.IntRange(1, 5).Draw(t, "runningPods")
		var pods []*corev1.Pod
		var podStr []string
		for i := 0; i < nPods; i++ {
			p := &corev1.Pod{}
			p.Name, p.Namespace, p.UID = fmt.Sprintf("pod-%d", i), "default", types.UID(fmt.Sprintf("pod-%d-uid", i))
			app := rapid.SampledFrom(append([]string{""}, c05pApps...)).Draw(t, "podApp")
			rs := rapid.SampledFrom(append([]string{""}, c05pRS...)).Draw(t, "podController")
			if aimed && i == 0 {
				app = aimApp
				if rs == aimRS {
					rs = ""
				}
			}
			if app != "" {
				p.Labels = map[string]string{"app": app}
			}
			if rs != "" {
				yes := true
				p.OwnerReferences = []metav1.OwnerReference{{APIVersion: "apps/v1", Kind: "ReplicaSet", Name: rs, UID: types.UID("uid-" + rs), Controller: &yes}}
			}
			p.Spec.NodeName = rapid.SampledFrom(nodeNames).Draw(t, "podNode")
			p.Spec.Containers = []corev1.Container{{Name: "c", Resources: corev1.ResourceRequirements{Requests: c05RL(c05Req{corev1.ResourceCPU: rapid.Int64Range(1, rCPU+1).Draw(t, "podCores") * 1000})}}}
			p.Status.Phase = corev1.PodRunning
			if rapid.IntRange(0, 7).Draw(t, "alreadyAllocated") == 0 && !(aimed && i == 0) { // consumes some other reservation already: never a candidate
				g := &schedulingv1alpha1.Reservation{}
				g.Name, g.UID = "other-r", "other-r-uid"
				apiext.SetReservationAllocated(p, g)
			}
			pods = append(pods, p)
			podStr = append(podStr, c05pPodStr(p))
			if err := podIndexer.Add(p); err != nil {
				t.Fatalf("pod lister add: %v", err)
			}
		}
		for i, n := range nodeNames {
			nii, err := suit.fw.SnapshotSharedLister().NodeInfos().Get(n)
			if err != nil {
				t.Fatalf("node info: %v", err)
			}
			fresh := framework.NewNodeInfo()
			fresh.SetNode(nodeObjs[i])
			for _, p := range pods {
				if p.Spec.NodeName == n {
					fresh.AddPod(p)
				}
			}
			*(nii.(*framework.NodeInfo)) = *fresh
		}

		// ---- classes from the inputs alone
		byUID := map[types.UID]*corev1.Pod{}
		owners, crossTerm, selectorOnlyHit := 0, 0, 0
		for _, p := range pods {
			byUID[p.UID] = p
			candidate := p.Annotations[apiext.AnnotationReservationAllocated] == ""
			if c05pOwnerOK(r.Spec.Owners, p) {
				if candidate {
					owners++
				}
				continue
			}
			if !candidate {
				continue
			}
			anySel, anyRefs := false, false
			for _, o := range r.Spec.Owners {
				if o.LabelSelector != nil && c05pSelectorOK(o, p) {
					anySel = true
				}
				if c05pRefsOK(o, p) {
					anyRefs = true
				}
			}
			if anySel {
				selectorOnlyHit++ // listed through a term's selector, but no term is satisfied
				if anyRefs {
					crossTerm++ // satisfies the selector of one term and the references of another, but no whole term
				}
			}
		}
		desc := fmt.Sprintf("reservation cpu=%d allocateOnce=%v multiple=%v required=%v owners=%v pods=%v", rCPU, once, multiple, required, ownerStr, podStr)

		// ---- the reservation's scheduling cycle
		reservePod := reservationutil.NewReservePod(r)
		cs := framework.NewCycleState()
		_, _, st := pl.BeforePreFilter(ctx, cs, reservePod)
		if !st.IsSuccess() {
			t.Fatalf("BeforePreFilter of the reserve pod failed: %v (%s)", st.Message(), desc)
		}
		sd := getStateData(cs)
		matchedTotal := 0
		for _, n := range nodeNames {
			ns := sd.nodeReservationStates[n]
			if ns == nil {
				continue
			}
			var names []string
			for _, cand := range ns.preAllocatablePods {
				names = append(names, cand.Name)
			}
			sort.Strings(names)
			matchedTotal += len(names)
			for _, cand := range ns.preAllocatablePods {
				orig := byUID[cand.UID]
				if orig == nil || !c05pOwnerOK(r.Spec.Owners, orig) {
					c.Violation(t, "prealloc:non-owner-matched-as-pre-allocatable", "pod %s is matched as pre-allocatable pod of the reservation on %s (all matched there: %v) but satisfies none of the owner terms; %s", cand.Name, n, names, desc)
					return
				}
			}
		}
		reserved, assigned := false, 0
		if _, pst := pl.PreFilter(ctx, cs, reservePod, nil); pst.IsSuccess() || pst.IsSkip() {
			var feasible []string
			for _, n := range nodeNames {
				ni, _ := suit.fw.SnapshotSharedLister().NodeInfos().Get(n)
				if fs := pl.Filter(ctx, cs, reservePod, ni); fs.IsSuccess() {
					feasible = append(feasible, n)
				}
			}
			if len(feasible) > 0 {
				node := feasible[rapid.IntRange(0, len(feasible)-1).Draw(t, "chosenNode")]
				if rs := pl.Reserve(ctx, cs, reservePod, node); rs.IsSuccess() {
					reserved = true
					if rInfo := pl.reservationCache.reservationInfos[r.UID]; rInfo != nil {
						var names []string
						for uid := range rInfo.AssignedPods {
							if p := byUID[uid]; p != nil {
								names = append(names, p.Name)
							} else {
								names = append(names, string(uid))
							}
						}
						sort.Strings(names)
						assigned = len(names)
						for uid := range rInfo.AssignedPods {
							if p := byUID[uid]; p == nil || !c05pOwnerOK(r.Spec.Owners, p) {
								c.Violation(t, "prealloc:non-owner-assigned", "after Reserve on %s the reservation holds %v, of which %v satisfies none of the owner terms; %s", node, names, uid, desc)
								return
							}
						}
					}
				}
			}
		}

		c.Class(fmt.Sprintf("owner-terms:%d", nTerms))
		c.ClassIf(aimed, "aimed-at-term-boundary")
		c.ClassIf(multiple, "multiple-pre-allocation")
		c.ClassIf(required, "pre-allocation-required")
		c.ClassIf(owners > 0, "an-owner-pod-is-candidate")
		c.ClassIf(selectorOnlyHit > 0, "non-owner-listed-by-a-selector")
		c.ClassIf(crossTerm > 0, "non-owner-with-selector-of-one-term-and-refs-of-another")
		c.ClassIf(matchedTotal > 0, "some-pod-matched-as-pre-allocatable")
		c.ClassIf(reserved, "reserve-succeeded")
		c.ClassIf(reserved && assigned > 0, "pods-assumed-into-reservation")
		if crossTerm > 0 {
			c.NonTrivial(desc)
		}
		c.Sample(map[string]any{"case": desc, "matched": matchedTotal, "reserved": reserved})
	})
}
