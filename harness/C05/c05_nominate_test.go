//go:build verif

// C05 (c, end-to-end part) — scheduling cycles BeforePreFilter -> PreFilter -> Filter -> [PreScore] -> Reserve for a few
// pods against a few reservations, with informer events in between. Whatever reservation a pod ends up assumed on must
// (1) have an owner specification the pod satisfies, (2) not be an allocate-once reservation that already holds a pod,
// (3) for the Restricted policy, still be within what it reserved.
// See /verif/DESIGN.md §1 C05. In-package harness (injected with -overlay).
package reservation

import (
	"context"
	"fmt"
	"testing"
	"time"

	corev1 "k8s.io/api/core/v1"
	"k8s.io/apimachinery/pkg/api/resource"
	metav1 "k8s.io/apimachinery/pkg/apis/meta/v1"
	"k8s.io/apimachinery/pkg/types"
	fwktype "k8s.io/kube-scheduler/framework"
	"k8s.io/kubernetes/pkg/scheduler/framework"
	"pgregory.net/rapid"

	apiext "github.com/koordinator-sh/koordinator/apis/extension"
	schedulingv1alpha1 "github.com/koordinator-sh/koordinator/apis/scheduling/v1alpha1"
	reservationutil "github.com/koordinator-sh/koordinator/pkg/util/reservation"
	"github.com/koordinator-sh/koordinator/pkg/verifkit/vk"
)

type c05nRes struct {
	uid       types.UID
	obj       *schedulingv1alpha1.Reservation
	node      string
	allocOnce bool
	alloc     c05Req
	names     map[corev1.ResourceName]bool
	inCache   bool
	pods      map[types.UID]c05Req
	refreshed bool // an update of the reservation object reached the cache after its current holder was assigned
}

type c05nPod struct {
	uid     types.UID
	obj     *corev1.Pod
	reqs    c05Req
	node    string
	onRes   types.UID
	state   fwktype.CycleState
	bound   bool
	settled bool // unreserved or deleted
}

// independent owner check, for the owner shapes this test generates
func c05nOwnerOK(owners []schedulingv1alpha1.ReservationOwner, pod *corev1.Pod) bool {
	for _, o := range owners {
		ok := true
		if o.Object != nil {
			if o.Object.Name != "" && o.Object.Name != pod.Name {
				ok = false
			}
			if o.Object.Namespace != "" && o.Object.Namespace != pod.Namespace {
				ok = false
			}
		}
		if o.Controller != nil {
			found := false
			for _, ref := range pod.OwnerReferences {
				if (o.Controller.Kind == "" || o.Controller.Kind == ref.Kind) && (o.Controller.Name == "" || o.Controller.Name == ref.Name) {
					found = true
				}
			}
			if !found {
				ok = false
			}
		}
		if o.LabelSelector != nil {
			for k, v := range o.LabelSelector.MatchLabels {
				if got, has := pod.Labels[k]; !has || got != v {
					ok = false
				}
			}
		}
		if ok {
			return true
		}
	}
	return false
}

func TestVerifC05Nominate(t *testing.T) {
	c05Quiet()
	rec := vk.New(t, "C05", "nominate")
	nodeNames := []string{"n0", "n1"}
	var nodeObjs []*corev1.Node
	for _, n := range nodeNames {
		nodeObjs = append(nodeObjs, &corev1.Node{ObjectMeta: metav1.ObjectMeta{Name: n}, Status: corev1.NodeStatus{Allocatable: corev1.ResourceList{
			corev1.ResourceCPU: resource.MustParse("1000"), corev1.ResourceMemory: resource.MustParse("4Ti"), corev1.ResourcePods: resource.MustParse("1000")}}})
	}
	// one framework for the whole test (expensive); cache and nominator are replaced per case, informers are never started
	suit := newPluginTestSuitWith(t, nil, nodeObjs)
	p, err := suit.pluginFactory()
	if err != nil {
		t.Fatalf("plugin factory: %v", err)
	}
	pl := p.(*Plugin)
	ctx := context.TODO()

	rapid.Check(t, func(t *rapid.T) {
		c := rec.Begin()
		defer c.End()
		pl.reservationCache = newReservationCache(pl.rLister)
		pl.nominator = newNominator(nil, nil)
		ph := &podEventHandler{cache: pl.reservationCache, nominator: pl.nominator}

		var hist []string
		logf := func(f string, a ...any) { hist = append(hist, fmt.Sprintf(f, a...)) }
		var ress []*c05nRes
		byUID := map[types.UID]*c05nRes{}
		var pods []*c05nPod

		// Which of several equally scored candidates gets nominated depends on Go map iteration inside koordinator. To keep a
		// run a function of the seed, candidates on one node always carry distinct reservation-order labels (the documented
		// deterministic preference), or there is at most one reservation per node.
		ordered := rapid.IntRange(0, 3).Draw(t, "orderLabels") > 0
		nRes := rapid.IntRange(1, 3).Draw(t, "reservations")
		if !ordered && nRes > len(nodeNames) {
			nRes = len(nodeNames)
		}
		firstNode := rapid.IntRange(0, len(nodeNames)-1).Draw(t, "firstNode")
		for i := 0; i < nRes; i++ {
			r := &c05nRes{uid: types.UID(fmt.Sprintf("r%d", i)), pods: map[types.UID]c05Req{}, inCache: true}
			if ordered {
				r.node = rapid.SampledFrom(nodeNames).Draw(t, "node")
			} else {
				r.node = nodeNames[(firstNode+i)%len(nodeNames)]
			}
			r.alloc = c05Req{corev1.ResourceCPU: rapid.Int64Range(1, 4).Draw(t, "cpuCores") * 1000}
			if rapid.Bool().Draw(t, "reservesMemory") {
				r.alloc[corev1.ResourceMemory] = rapid.Int64Range(1, 4).Draw(t, "memGi") << 30
			}
			policy := rapid.SampledFrom(c05Policies).Draw(t, "policy")
			var dims []corev1.ResourceName
			for d := range r.alloc {
				dims = append(dims, d)
			}
			r.names = c05ModelNames(dims, policy, nil)
			obj := &schedulingv1alpha1.Reservation{}
			obj.Name, obj.UID = "res-"+string(r.uid), r.uid
			obj.Labels = map[string]string{"pool": rapid.SampledFrom([]string{"a", "a", "b"}).Draw(t, "pool")}
			if ordered {
				obj.Labels[apiext.LabelReservationOrder] = fmt.Sprint(i + 1)
			}
			obj.Spec.Template = &corev1.PodTemplateSpec{Spec: corev1.PodSpec{Containers: []corev1.Container{{Name: "main", Resources: corev1.ResourceRequirements{Requests: c05RL(r.alloc)}}}}}
			switch rapid.IntRange(0, 5).Draw(t, "ownerShape") {
			case 0:
				obj.Spec.Owners = []schedulingv1alpha1.ReservationOwner{{Object: &corev1.ObjectReference{Namespace: "default", Name: rapid.SampledFrom([]string{"pod-0", "pod-1"}).Draw(t, "ownerPodName")}}}
			case 1:
				obj.Spec.Owners = []schedulingv1alpha1.ReservationOwner{{Controller: &schedulingv1alpha1.ReservationControllerReference{OwnerReference: metav1.OwnerReference{Kind: "ReplicaSet", Name: rapid.SampledFrom([]string{"rs-x", "rs-y"}).Draw(t, "ownerCtl")}}}}
			default:
				obj.Spec.Owners = []schedulingv1alpha1.ReservationOwner{{LabelSelector: &metav1.LabelSelector{MatchLabels: map[string]string{"owner": rapid.SampledFrom([]string{"x", "x", "x", "y"}).Draw(t, "ownerLabel")}}}}
			}
			obj.Spec.TTL = &metav1.Duration{Duration: time.Hour}
			obj.Spec.AllocatePolicy = policy
			onceBias := 2 // allocate-once in 2 of 4
			if policy == schedulingv1alpha1.ReservationAllocatePolicyRestricted {
				onceBias = 1 // Restricted reservations are mostly shared, so that later pods meet a partly used one
			}
			if rapid.IntRange(0, 3).Draw(t, "allocateOnce") < onceBias {
				r.allocOnce = true
				if rapid.Bool().Draw(t, "allocateOnceExplicit") {
					b := true
					obj.Spec.AllocateOnce = &b
				}
			} else {
				b := false
				obj.Spec.AllocateOnce = &b
			}
			obj.Status.Phase, obj.Status.NodeName, obj.Status.Allocatable = schedulingv1alpha1.ReservationAvailable, r.node, c05RL(r.alloc)
			r.obj = obj
			ress = append(ress, r)
			byUID[r.uid] = r
			pl.reservationCache.updateReservation(obj)
			logf("reservation %s on %s allocOnce=%v policy=%q alloc=%s pool=%s owners=%s", r.uid, r.node, r.allocOnce, policy, c05ReqStr(r.alloc), obj.Labels["pool"], c05nOwnersStr(obj.Spec.Owners))
		}

		resetNodeInfos := func() {
			for i, n := range nodeNames {
				nii, err := suit.fw.SnapshotSharedLister().NodeInfos().Get(n)
				if err != nil {
					t.Fatalf("node info: %v", err)
				}
				fresh := framework.NewNodeInfo()
				fresh.SetNode(nodeObjs[i])
				for _, r := range ress {
					if r.inCache && r.node == n {
						fresh.AddPod(reservationutil.NewReservePod(r.obj))
					}
				}
				for _, p := range pods {
					if !p.settled && p.node == n {
						cp := p.obj.DeepCopy()
						cp.Spec.NodeName = n
						fresh.AddPod(cp)
					}
				}
				*(nii.(*framework.NodeInfo)) = *fresh
			}
		}

		sawShortcut, sawShortcutOnHeld, sawOnRes, sawSecondCycleSameRes, sawUnresolvable := false, false, false, false, false
		sawUnreserveBeforePreBind, sawUnreserveAfterPreBind := false, false
		unreserved := map[types.UID]bool{}
		// the ledger clause over the pods' own cycles: after every cycle and event, what each reservation reports as assigned and
		// allocated equals the pods the model has on it (assumed by Reserve and not rolled back by Unreserve / deleted)
		ledger := func() bool {
			for _, r := range ress {
				rInfo := pl.reservationCache.reservationInfos[r.uid]
				if !r.inCache || rInfo == nil {
					continue
				}
				for _, uid := range c05SortedUIDs(rInfo.AssignedPods) {
					if _, ok := r.pods[uid]; !ok {
						sig := "cycle:ledger-holds-unassigned-pod"
						if unreserved[uid] {
							sig = "cycle:unreserved-pod-still-in-ledger"
						}
						return c.Violation(t, sig, "reservation %s still lists pod %s (ledger %v, model %v); history=%v", r.uid, uid, c05SortedUIDs(rInfo.AssignedPods), c05SortedUIDs(r.pods), hist)
					}
				}
				want := map[corev1.ResourceName]int64{}
				for uid, req := range r.pods {
					if _, ok := rInfo.AssignedPods[uid]; !ok {
						return c.Violation(t, "cycle:ledger-misses-assigned-pod", "reservation %s does not list pod %s (ledger %v, model %v); history=%v", r.uid, uid, c05SortedUIDs(rInfo.AssignedPods), c05SortedUIDs(r.pods), hist)
					}
					for d, v := range req {
						if r.names[d] {
							want[d] += c05Milli(d, v)
						}
					}
				}
				for _, d := range []corev1.ResourceName{corev1.ResourceCPU, corev1.ResourceMemory} {
					q := rInfo.Allocated[d]
					if q.MilliValue() != want[d] {
						return c.Violation(t, "cycle:allocated-ne-sum-of-assigned", "reservation %s reports allocated %s=%d milli, assigned pods %s sum to %d milli; history=%v", r.uid, d, q.MilliValue(), c05PodsStr(r.pods), want[d], hist)
					}
				}
			}
			return false
		}
		dead := false

		schedule := func(t *rapid.T) {
			idx := len(pods)
			p := &c05nPod{uid: types.UID(fmt.Sprintf("p%d", idx))}
			p.reqs = c05Req{corev1.ResourceCPU: rapid.Int64Range(1, 6).Draw(t, "podCPUHalfCores") * 500}
			if rapid.Bool().Draw(t, "podWantsMemory") {
				p.reqs[corev1.ResourceMemory] = rapid.Int64Range(1, 6).Draw(t, "podMemHalfGi") << 29
			}
			p.obj = &corev1.Pod{}
			p.obj.Name, p.obj.Namespace, p.obj.UID = fmt.Sprintf("pod-%d", idx), "default", p.uid
			p.obj.Labels = map[string]string{"owner": rapid.SampledFrom([]string{"x", "x", "x", "y"}).Draw(t, "podOwnerLabel")}
			p.obj.OwnerReferences = []metav1.OwnerReference{{Kind: "ReplicaSet", Name: rapid.SampledFrom([]string{"rs-x", "rs-y"}).Draw(t, "podCtl"), UID: "u"}}
			p.obj.Spec.Containers = []corev1.Container{{Name: "c", Resources: corev1.ResourceRequirements{Requests: c05RL(p.reqs)}}}
			affinity := ""
			if rapid.IntRange(0, 2).Draw(t, "hasAffinity") > 0 {
				affinity = rapid.SampledFrom([]string{"a", "a", "b"}).Draw(t, "affinityPool")
				_ = apiext.SetReservationAffinity(p.obj, &apiext.ReservationAffinity{ReservationSelector: map[string]string{"pool": affinity}})
			}
			pods = append(pods, p)
			p.settled = true // until reserved

			resetNodeInfos()
			cs := framework.NewCycleState()
			p.state = cs
			_, _, st := pl.BeforePreFilter(ctx, cs, p.obj)
			if !st.IsSuccess() {
				logf("cycle %s req=%s affinity=%q: BeforePreFilter %v", p.uid, c05ReqStr(p.reqs), affinity, st.Message())
				return
			}
			sd := getStateData(cs)
			_, st = pl.PreFilter(ctx, cs, p.obj, nil)
			if !st.IsSuccess() && !st.IsSkip() {
				sawUnresolvable = true
				logf("cycle %s req=%s affinity=%q: PreFilter %v", p.uid, c05ReqStr(p.reqs), affinity, st.Message())
				return
			}
			var feasible []string
			var feasibleInfos []fwktype.NodeInfo
			for _, n := range nodeNames {
				ni, _ := suit.fw.SnapshotSharedLister().NodeInfos().Get(n)
				if fs := pl.Filter(ctx, cs, p.obj, ni); fs.IsSuccess() {
					feasible = append(feasible, n)
					feasibleInfos = append(feasibleInfos, ni)
				}
			}
			if len(feasible) == 0 {
				logf("cycle %s req=%s affinity=%q: no feasible node", p.uid, c05ReqStr(p.reqs), affinity)
				return
			}
			// the scheduler skips scoring (and with it the nomination in PreScore) when only one node is feasible
			if len(feasible) > 1 || rapid.Bool().Draw(t, "preScoreAnyway") {
				if ps := pl.PreScore(ctx, cs, p.obj, feasibleInfos); !ps.IsSuccess() && !ps.IsSkip() {
					logf("cycle %s: PreScore %v", p.uid, ps.Message())
					pl.nominator.DeleteNominatedReservePodOrReservation(p.obj)
					return
				}
			}
			node := feasible[rapid.IntRange(0, len(feasible)-1).Draw(t, "chosenNode")]
			matched := 0
			var only *c05nRes
			if ns := sd.nodeReservationStates[node]; ns != nil {
				matched = len(ns.matchedOrIgnored)
				if matched == 1 {
					only = byUID[ns.matchedOrIgnored[0].UID()]
				}
			}
			if affinity != "" && matched == 1 {
				sawShortcut = true
				if only != nil && len(only.pods) > 0 {
					sawShortcutOnHeld = true
				}
			}
			rs := pl.Reserve(ctx, cs, p.obj, node)
			pl.nominator.DeleteNominatedReservePodOrReservation(p.obj) // frameworkExtenderImpl.RunReservePluginsReserve
			if !rs.IsSuccess() {
				logf("cycle %s req=%s affinity=%q node=%s: Reserve %v", p.uid, c05ReqStr(p.reqs), affinity, node, rs.Message())
				return
			}
			p.settled, p.node = false, node
			assumed := getStateData(cs).assumed
			if assumed == nil {
				logf("cycle %s req=%s affinity=%q labels=%v ctl=%s -> node %s without reservation", p.uid, c05ReqStr(p.reqs), affinity, p.obj.Labels, p.obj.OwnerReferences[0].Name, node)
				return
			}
			sawOnRes = true
			r := byUID[assumed.UID()]
			logf("cycle %s req=%s affinity=%q labels=%v ctl=%s -> node %s reservation %s (matched on node: %d)", p.uid, c05ReqStr(p.reqs), affinity, p.obj.Labels, p.obj.OwnerReferences[0].Name, node, assumed.UID(), matched)
			if r == nil || !r.inCache {
				if c.Violation(t, "nominate:nonexistent-reservation", "pod %s assumed on reservation %s which does not exist; history=%v", p.uid, assumed.UID(), hist) {
					dead = true
				}
				return
			}
			if len(r.pods) > 0 {
				sawSecondCycleSameRes = true
			}
			if !c05nOwnerOK(r.obj.Spec.Owners, p.obj) {
				if c.Violation(t, "nominate:owner-not-satisfied", "pod %s (labels %v, controller %s) assumed on reservation %s whose owners are %s; history=%v", p.uid, p.obj.Labels, p.obj.OwnerReferences[0].Name, r.uid, c05nOwnersStr(r.obj.Spec.Owners), hist) {
					dead = true
					return
				}
			}
			if r.allocOnce && len(r.pods) > 0 {
				sig := "nominate:allocate-once-reused"
				if r.refreshed {
					// the cache saw the reservation object again after the holder was assigned and still offered it
					sig = "nominate:allocate-once-reused:after-index-refresh"
				} else if affinity != "" && matched == 1 {
					sig = "nominate:allocate-once-reused:single-affinity-shortcut"
				}
				if c.Violation(t, sig, "pod %s assumed on allocate-once reservation %s which already holds %v; history=%v", p.uid, r.uid, c05SortedUIDs(r.pods), hist) {
					dead = true
					return
				}
			}
			if r.obj.Spec.AllocatePolicy == schedulingv1alpha1.ReservationAllocatePolicyRestricted {
				for d := range r.names {
					sum := p.reqs[d]
					for _, q := range r.pods {
						sum += q[d]
					}
					if p.reqs[d] > 0 && sum > r.alloc[d] {
						if c.Violation(t, "nominate:restricted-over-allocated", "pod %s req=%s assumed on Restricted reservation %s: %s would be %d > reserved %d (held %s); history=%v", p.uid, c05ReqStr(p.reqs), r.uid, d, sum, r.alloc[d], c05PodsStr(r.pods), hist) {
							dead = true
							return
						}
					}
				}
			}
			c.ClassIf(r.obj.Spec.AllocatePolicy == schedulingv1alpha1.ReservationAllocatePolicyRestricted && len(r.pods) > 0, "restricted-reservation-takes-another-pod")
			p.onRes = r.uid
			r.pods[p.uid] = p.reqs
			r.refreshed = false
		}

		event := func(t *rapid.T) {
			var open []*c05nPod
			for _, p := range pods {
				if !p.settled {
					open = append(open, p)
				}
			}
			kind := rapid.IntRange(0, 5).Draw(t, "eventKind")
			switch {
			case kind <= 1: // any update of a reservation object reaches the plugin's OnUpdate -> updateReservation
				var live []*c05nRes
				for _, r := range ress {
					if r.inCache {
						live = append(live, r)
					}
				}
				if len(live) == 0 {
					return
				}
				r := live[rapid.IntRange(0, len(live)-1).Draw(t, "res")]
				nw := r.obj.DeepCopy()
				nw.Status.CurrentOwners = nil
				for _, uid := range c05SortedUIDs(r.pods) {
					nw.Status.CurrentOwners = append(nw.Status.CurrentOwners, corev1.ObjectReference{UID: uid})
				}
				r.obj = nw
				pl.reservationCache.updateReservation(nw)
				if len(r.pods) > 0 {
					r.refreshed = true
				}
				logf("reservation update %s", r.uid)
			case kind == 2 && len(open) > 0: // bind: node name and reservation-allocated annotation appear on the pod
				p := open[rapid.IntRange(0, len(open)-1).Draw(t, "pod")]
				if p.bound {
					return
				}
				old := p.obj
				nw := old.DeepCopy()
				nw.Spec.NodeName = p.node
				if r := byUID[p.onRes]; r != nil {
					apiext.SetReservationAllocated(nw, r.obj)
				}
				p.obj, p.bound = nw, true
				ph.OnUpdate(old, nw)
				logf("pod %s bound", p.uid)
			case kind == 3 && len(open) > 0: // binding failed: Unreserve
				p := open[rapid.IntRange(0, len(open)-1).Draw(t, "pod")]
				if p.bound {
					return
				}
				// The cycle aborts either before this plugin's PreBind (a later Reserve plugin, Permit or an earlier PreBind plugin
				// failed) or after it (bind failed). Alternating on the history length keeps the draw sequence of the test unchanged.
				afterPreBind := len(hist)%2 == 1
				if afterPreBind {
					if st := pl.PreBind(ctx, p.state, p.obj, p.node); !st.IsSuccess() {
						afterPreBind = false
					}
				}
				pl.Unreserve(ctx, p.state, p.obj, p.node)
				if r := byUID[p.onRes]; r != nil && r.inCache {
					delete(r.pods, p.uid)
				}
				if p.onRes != "" {
					unreserved[p.uid] = true
					sawUnreserveAfterPreBind = sawUnreserveAfterPreBind || afterPreBind
					sawUnreserveBeforePreBind = sawUnreserveBeforePreBind || !afterPreBind
				}
				p.settled = true
				logf("pod %s unreserved (after PreBind: %v)", p.uid, afterPreBind)
			case kind == 4 && len(open) > 0: // a bound pod goes away
				p := open[rapid.IntRange(0, len(open)-1).Draw(t, "pod")]
				if !p.bound {
					return
				}
				ph.OnDelete(p.obj)
				if r := byUID[p.onRes]; r != nil && r.inCache {
					delete(r.pods, p.uid)
				}
				p.settled = true
				logf("pod %s deleted", p.uid)
			case kind == 5: // the controller completes an allocate-once reservation that has an owner
				for _, r := range ress {
					if r.inCache && r.allocOnce && len(r.pods) > 0 {
						old := r.obj
						nw := old.DeepCopy()
						nw.Status.Phase = schedulingv1alpha1.ReservationSucceeded
						r.obj = nw
						pl.reservationCache.updateReservationIfExists(nw)
						pl.reservationCache.DeleteReservation(old)
						r.inCache = false
						r.pods = map[types.UID]c05Req{}
						logf("reservation %s succeeded and removed", r.uid)
						break
					}
				}
			}
		}

		nCycles := rapid.IntRange(2, 6).Draw(t, "cycles")
		for i := 0; i < nCycles && !dead; i++ {
			schedule(t)
			if dead || ledger() {
				dead = true
				break
			}
			nEv := rapid.SampledFrom([]int{0, 0, 1, 1, 2}).Draw(t, "eventsBetween")
			for j := 0; j < nEv && !dead; j++ {
				event(t)
				if ledger() {
					dead = true
				}
			}
		}

		c.ClassIf(ordered, "reservation-order-labels")
		c.ClassIf(sawOnRes, "pod-assumed-on-reservation")
		c.ClassIf(sawShortcut, "affinity-with-exactly-one-matched")
		c.ClassIf(sawShortcutOnHeld, "affinity-one-matched-already-holding-a-pod")
		c.ClassIf(sawSecondCycleSameRes, "reservation-reused-by-later-pod")
		c.ClassIf(sawUnresolvable, "prefilter-rejected")
		c.ClassIf(sawUnreserveBeforePreBind, "reserved-on-reservation-then-unreserve-before-prebind")
		c.ClassIf(sawUnreserveAfterPreBind, "reserved-on-reservation-then-prebind-then-unreserve")
		if sawShortcut {
			c.NonTrivial(hist)
		}
		c.Sample(map[string]any{"history": hist})
	})
}

func c05nOwnersStr(owners []schedulingv1alpha1.ReservationOwner) string {
	s := ""
	for _, o := range owners {
		if o.Object != nil {
			s += fmt.Sprintf("{object %s/%s}", o.Object.Namespace, o.Object.Name)
		}
		if o.Controller != nil {
			s += fmt.Sprintf("{controller %s/%s}", o.Controller.Kind, o.Controller.Name)
		}
		if o.LabelSelector != nil {
			s += fmt.Sprintf("{labels %v}", o.LabelSelector.MatchLabels)
		}
	}
	return s
}
