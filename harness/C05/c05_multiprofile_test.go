//go:build verif

// C05 (index clause, several scheduler profiles) — every scheduler profile that enables the Reservation plugin has its own
// reservationCache; all of them are fed by the same informers, and the REAL removal of a reservation from them is done
// by the global handler in pkg/scheduler/frameworkext/eventhandlers for every registered cache. Generated
// add/update/delete histories of reservations (and a few assigned pods) are delivered to 1-3 real Plugins' own handlers
// and to the real global handler (captured from eventhandlers.AddScheduleEventHandler); after every event no profile's
// cache or per-node index may mention a reservation that was deleted from the API, and every profile must list every
// reservation that is Available on a node.
// See /verif/DESIGN.md §1 C05. In-package harness (injected with -overlay).
package reservation

import (
	"context"
	"fmt"
	"testing"
	"time"

	corev1 "k8s.io/api/core/v1"
	metav1 "k8s.io/apimachinery/pkg/apis/meta/v1"
	"k8s.io/apimachinery/pkg/types"
	"k8s.io/client-go/informers"
	kubefake "k8s.io/client-go/kubernetes/fake"
	toolscache "k8s.io/client-go/tools/cache"
	"k8s.io/client-go/tools/record"
	"k8s.io/kubernetes/pkg/scheduler"
	"k8s.io/kubernetes/pkg/scheduler/framework/plugins/defaultbinder"
	"k8s.io/kubernetes/pkg/scheduler/framework/plugins/queuesort"
	frameworkruntime "k8s.io/kubernetes/pkg/scheduler/framework/runtime"
	"k8s.io/kubernetes/pkg/scheduler/profile"
	schedulertesting "k8s.io/kubernetes/pkg/scheduler/testing/framework"
	"pgregory.net/rapid"

	apiext "github.com/koordinator-sh/koordinator/apis/extension"
	schedulingv1alpha1 "github.com/koordinator-sh/koordinator/apis/scheduling/v1alpha1"
	koordfake "github.com/koordinator-sh/koordinator/pkg/client/clientset/versioned/fake"
	koordinatorinformers "github.com/koordinator-sh/koordinator/pkg/client/informers/externalversions"
	koordschedinf "github.com/koordinator-sh/koordinator/pkg/client/informers/externalversions/scheduling"
	koordschedinfv1alpha1 "github.com/koordinator-sh/koordinator/pkg/client/informers/externalversions/scheduling/v1alpha1"
	"github.com/koordinator-sh/koordinator/pkg/scheduler/apis/config"
	configv1 "github.com/koordinator-sh/koordinator/pkg/scheduler/apis/config/v1"
	"github.com/koordinator-sh/koordinator/pkg/scheduler/frameworkext"
	"github.com/koordinator-sh/koordinator/pkg/scheduler/frameworkext/eventhandlers"
	frameworkexthelper "github.com/koordinator-sh/koordinator/pkg/scheduler/frameworkext/helper"
	"github.com/koordinator-sh/koordinator/pkg/verifkit/vk"
)

// ---- a koordinator informer factory whose reservation informer hands the registered handler to the test instead of
// queueing it behind a running informer: this is how the test gets the real, unexported global reservation handler.

type c05mFactory struct {
	koordinatorinformers.SharedInformerFactory
	captured *toolscache.ResourceEventHandler
}

func (f *c05mFactory) Scheduling() koordschedinf.Interface {
	return &c05mGroup{Interface: f.SharedInformerFactory.Scheduling(), captured: f.captured}
}

type c05mGroup struct {
	koordschedinf.Interface
	captured *toolscache.ResourceEventHandler
}

func (g *c05mGroup) V1alpha1() koordschedinfv1alpha1.Interface {
	return &c05mVersion{Interface: g.Interface.V1alpha1(), captured: g.captured}
}

type c05mVersion struct {
	koordschedinfv1alpha1.Interface
	captured *toolscache.ResourceEventHandler
}

func (v *c05mVersion) Reservations() koordschedinfv1alpha1.ReservationInformer {
	return &c05mResInformer{ReservationInformer: v.Interface.Reservations(), captured: v.captured}
}

type c05mResInformer struct {
	koordschedinfv1alpha1.ReservationInformer
	captured *toolscache.ResourceEventHandler
}

func (r *c05mResInformer) Informer() toolscache.SharedIndexInformer {
	return &c05mInformer{SharedIndexInformer: r.ReservationInformer.Informer(), captured: r.captured}
}

type c05mInformer struct {
	toolscache.SharedIndexInformer
	captured *toolscache.ResourceEventHandler
}

func (i *c05mInformer) AddEventHandler(h toolscache.ResourceEventHandler) (toolscache.ResourceEventHandlerRegistration, error) {
	*i.captured = h
	return nil, nil
}

type c05mRes struct {
	uid     types.UID
	obj     *schedulingv1alpha1.Reservation
	node    string
	gone    bool // deleted from the API
	inCache bool // Available on a node right now: every profile must list it
	pods    map[types.UID]bool
}

type c05mPod struct {
	uid     types.UID
	obj     *corev1.Pod
	deleted bool
}

func TestVerifC05MultiProfile(t *testing.T) {
	c05Quiet()
	rec := vk.New(t, "C05", "multiProfile")
	frameworkexthelper.ResetRegistrations()
	frameworkext.ClearReservationCache()
	defer frameworkext.ClearReservationCache()
	ctx := context.TODO()

	var v1args configv1.ReservationArgs
	configv1.SetDefaults_ReservationArgs(&v1args)
	var reservationArgs config.ReservationArgs
	if err := configv1.Convert_v1_ReservationArgs_To_config_ReservationArgs(&v1args, &reservationArgs, nil); err != nil {
		t.Fatal(err)
	}
	koordClientSet := koordfake.NewSimpleClientset()
	koordSharedInformerFactory := koordinatorinformers.NewSharedInformerFactory(koordClientSet, 0)
	extenderFactory, err := frameworkext.NewFrameworkExtenderFactory(
		frameworkext.WithKoordinatorClientSet(koordClientSet),
		frameworkext.WithKoordinatorSharedInformerFactory(koordSharedInformerFactory),
	)
	if err != nil {
		t.Fatal(err)
	}
	schedAdapter := frameworkext.NewFakeScheduler()
	extenderFactory.InitScheduler(schedAdapter)
	proxyNew := frameworkext.PluginFactoryProxy(extenderFactory, New)
	cs := kubefake.NewSimpleClientset()
	informerFactory := informers.NewSharedInformerFactory(cs, 0)
	eventRecorder := record.NewEventRecorderAdapter(record.NewFakeRecorder(1024))

	// three profiles, each with its own real Reservation plugin (expensive: once per test function)
	profileNames := []string{"koord-scheduler", "koord-scheduler-batch", "koord-scheduler-third"}
	var plugins []*Plugin
	allProfiles := profile.Map{}
	for _, name := range profileNames {
		fw, err := schedulertesting.NewFramework(ctx,
			[]schedulertesting.RegisterPluginFunc{
				schedulertesting.RegisterQueueSortPlugin(queuesort.Name, queuesort.New),
				schedulertesting.RegisterBindPlugin(defaultbinder.Name, defaultbinder.New),
			},
			name,
			frameworkruntime.WithClientSet(cs),
			frameworkruntime.WithInformerFactory(informerFactory),
			frameworkruntime.WithSnapshotSharedLister(newFakeSharedLister(nil, nil, false)),
			frameworkruntime.WithEventRecorder(eventRecorder),
			frameworkruntime.WithWaitingPods(frameworkruntime.NewWaitingPodsMap()), // the global handler rejects a waiting reserve pod on delete
		)
		if err != nil {
			t.Fatal(err)
		}
		p, err := proxyNew(ctx, &reservationArgs, fw)
		if err != nil {
			t.Fatal(err)
		}
		plugins = append(plugins, p.(*Plugin))
		allProfiles[name] = fw
	}
	if got := len(frameworkext.GetAllReservationCaches()); got != len(profileNames) {
		t.Fatalf("expected one registered reservation cache per profile, got %d", got)
	}
	// the real global handler, exactly as cmd/koord-scheduler wires it
	sched := &scheduler.Scheduler{Profiles: profile.Map{}}
	var global toolscache.ResourceEventHandler
	eventhandlers.AddScheduleEventHandler(sched, schedAdapter, informerFactory, &c05mFactory{SharedInformerFactory: koordSharedInformerFactory, captured: &global}, nil)
	if global == nil {
		t.Fatal("global reservation handler was not registered")
	}

	nodes := []string{"n0", "n1"}

	rapid.Check(t, func(t *rapid.T) {
		c := rec.Begin()
		defer c.End()

		// ---- fresh state for the case: k profiles in use, each with an empty cache
		k := rapid.SampledFrom([]int{1, 2, 2, 3, 3}).Draw(t, "profiles")
		frameworkext.ClearReservationCache()
		sched.Profiles = profile.Map{}
		fresh := frameworkext.NewFakeScheduler()
		schedAdapter.Pods, schedAdapter.AssumedPod, schedAdapter.Queue, schedAdapter.NodeInfos = fresh.Pods, fresh.AssumedPod, fresh.Queue, fresh.NodeInfos
		var rhs []*reservationEventHandler
		var phs []*podEventHandler
		for i := 0; i < k; i++ {
			pl := plugins[i]
			pl.reservationCache = newReservationCache(pl.rLister)
			pl.nominator = newNominator(nil, nil)
			frameworkext.SetReservationCache(pl, profileNames[i])
			sched.Profiles[profileNames[i]] = allProfiles[profileNames[i]]
			rhs = append(rhs, &reservationEventHandler{cache: pl.reservationCache, rrNominator: pl.nominator})
			phs = append(phs, &podEventHandler{cache: pl.reservationCache, nominator: pl.nominator})
		}

		var ress []*c05mRes
		var pods []*c05mPod
		var hist []string
		logf := func(f string, a ...any) { hist = append(hist, fmt.Sprintf(f, a...)) }
		dead := false
		var sawDeleteCached, sawDeleteWithPods, sawTerminate, sawRollback, sawGlobalFirst, sawGlobalLast, sawRebind bool
		lingering := 0

		// every handler of the shared informer sees every event; the handlers run independently, so their relative
		// order is arbitrary
		deliver := func(t *rapid.T, kind string, old, nw *schedulingv1alpha1.Reservation, delObj any) {
			pos := rapid.IntRange(0, k).Draw(t, "globalHandlerPosition")
			sawGlobalFirst = sawGlobalFirst || pos == 0
			sawGlobalLast = sawGlobalLast || pos == k
			call := func(h toolscache.ResourceEventHandler) {
				switch kind {
				case "add":
					h.OnAdd(nw, false)
				case "update":
					h.OnUpdate(old, nw)
				case "delete":
					h.OnDelete(delObj)
				}
			}
			for i := 0; i <= k; i++ {
				switch {
				case i == pos:
					call(global)
				case i < pos:
					call(rhs[i])
				default:
					call(rhs[i-1])
				}
			}
		}

		check := func() bool {
			where := fmt.Sprintf("after %d events", len(hist))
			for pi := 0; pi < k; pi++ {
				cache := plugins[pi].reservationCache
				for _, r := range ress {
					_, inInfos := cache.reservationInfos[r.uid]
					var listed []string
					for _, ix := range []struct {
						name string
						m    map[string]map[types.UID]struct{}
					}{{"reservationsOnNode", cache.reservationsOnNode}, {"matchableOnNode", cache.matchableOnNode}, {"allocatedOnNode", cache.allocatedOnNode}} {
						for _, n := range nodes {
							if _, ok := ix.m[n][r.uid]; ok {
								listed = append(listed, ix.name+"["+n+"]")
							}
						}
					}
					for _, n := range nodes {
						for _, ri := range cache.ListAvailableReservationInfosOnNode(n, true) {
							if ri.UID() == r.uid {
								listed = append(listed, "ListAvailableReservationInfosOnNode("+n+")")
							}
						}
					}
					switch {
					case r.gone:
						if len(listed) > 0 {
							return c.Violation(t, "multi-profile:index-references-deleted-reservation", "%s: %d profiles; profile %q still lists %s, which was deleted from the API, in %v; history=%v", where, k, profileNames[pi], r.uid, listed, hist)
						}
						if inInfos {
							return c.Violation(t, "multi-profile:deleted-reservation-still-in-cache", "%s: %d profiles; profile %q still holds the ReservationInfo of %s, which was deleted from the API; history=%v", where, k, profileNames[pi], r.uid, hist)
						}
					case r.inCache:
						if !inInfos {
							return c.Violation(t, "multi-profile:live-reservation-missing", "%s: %d profiles; profile %q has no ReservationInfo for %s, which is Available on %s; history=%v", where, k, profileNames[pi], r.uid, r.node, hist)
						}
						if _, ok := cache.reservationsOnNode[r.node][r.uid]; !ok {
							return c.Violation(t, "multi-profile:live-reservation-not-listed", "%s: %d profiles; profile %q does not list %s (Available on %s) in reservationsOnNode; history=%v", where, k, profileNames[pi], r.uid, r.node, hist)
						}
						if _, ok := cache.matchableOnNode[r.node][r.uid]; !ok {
							return c.Violation(t, "multi-profile:live-reservation-not-listed", "%s: %d profiles; profile %q does not list %s (Available on %s, shared) in matchableOnNode; history=%v", where, k, profileNames[pi], r.uid, r.node, hist)
						}
						if len(r.pods) > 0 {
							if _, ok := cache.allocatedOnNode[r.node][r.uid]; !ok {
								return c.Violation(t, "multi-profile:live-reservation-not-listed", "%s: %d profiles; profile %q does not list %s (Available on %s, %d pods) in allocatedOnNode; history=%v", where, k, profileNames[pi], r.uid, r.node, len(r.pods), hist)
							}
						}
					default:
						// exists in the API but is not Available on a node (pending, rolled back, terminated): the statement does
						// not say whether a profile may still know it; only counted
						if inInfos || len(listed) > 0 {
							lingering++
						}
					}
				}
			}
			return false
		}

		has := func(pred func(*c05mRes) bool) bool {
			for _, r := range ress {
				if pred(r) {
					return true
				}
			}
			return false
		}
		pick := func(t *rapid.T, pred func(*c05mRes) bool) *c05mRes {
			var cand []*c05mRes
			for _, r := range ress {
				if pred(r) {
					cand = append(cand, r)
				}
			}
			return cand[rapid.IntRange(0, len(cand)-1).Draw(t, "res")]
		}
		isPending := func(r *c05mRes) bool { return !r.gone && r.obj.Status.Phase == schedulingv1alpha1.ReservationPending }
		isAvail := func(r *c05mRes) bool { return !r.gone && r.inCache }
		exists := func(r *c05mRes) bool { return !r.gone }
		makeAvailable := func(t *rapid.T, o *schedulingv1alpha1.Reservation, r *c05mRes) {
			r.node = rapid.SampledFrom(nodes).Draw(t, "node")
			o.Status.NodeName, o.Status.Phase = r.node, schedulingv1alpha1.ReservationAvailable
			o.Status.Allocatable = c05RL(c05Req{corev1.ResourceCPU: 4000})
		}

		type op struct {
			name    string
			weight  int
			enabled func() bool
			run     func(t *rapid.T)
		}
		ops := []op{
			{"create", 4, func() bool { return len(ress) < 4 }, func(t *rapid.T) {
				idx := len(ress)
				r := &c05mRes{uid: types.UID(fmt.Sprintf("r%d", idx)), pods: map[types.UID]bool{}}
				o := &schedulingv1alpha1.Reservation{}
				o.Name, o.UID = fmt.Sprintf("res-%d", idx), r.uid
				o.Spec.Template = &corev1.PodTemplateSpec{Spec: corev1.PodSpec{
					// which profile (if any) is responsible for scheduling the reservation itself
					SchedulerName: rapid.SampledFrom(append([]string{"", "someone-else"}, profileNames...)).Draw(t, "schedulerName"),
					Containers:    []corev1.Container{{Name: "main", Resources: corev1.ResourceRequirements{Requests: c05RL(c05Req{corev1.ResourceCPU: 4000})}}}}}
				o.Spec.Owners = []schedulingv1alpha1.ReservationOwner{{LabelSelector: &metav1.LabelSelector{MatchLabels: map[string]string{"owner": "x"}}}}
				o.Spec.TTL = &metav1.Duration{Duration: time.Hour}
				shared := false
				o.Spec.AllocateOnce = &shared
				o.Status.Phase = schedulingv1alpha1.ReservationPending
				if rapid.IntRange(0, 2).Draw(t, "alreadyAvailable") == 0 {
					makeAvailable(t, o, r)
					r.inCache = true
				}
				r.obj = o
				ress = append(ress, r)
				deliver(t, "add", nil, o, nil)
				logf("add %s phase=%s node=%q scheduler=%q", r.uid, o.Status.Phase, r.node, o.Spec.Template.Spec.SchedulerName)
			}},
			{"bind", 5, func() bool { return has(isPending) }, func(t *rapid.T) {
				r := pick(t, isPending)
				old, nw := r.obj, r.obj.DeepCopy()
				if r.node != "" {
					sawRebind = true
				}
				makeAvailable(t, nw, r)
				r.obj, r.inCache = nw, true
				deliver(t, "update", old, nw, nil)
				logf("update %s -> Available on %s", r.uid, r.node)
			}},
			{"update", 3, func() bool { return has(isAvail) }, func(t *rapid.T) {
				r := pick(t, isAvail)
				old, nw := r.obj, r.obj.DeepCopy()
				if rapid.Bool().Draw(t, "resync") {
					nw = old
				} else {
					nw.Labels = map[string]string{"rev": fmt.Sprint(len(hist))}
				}
				r.obj = nw
				deliver(t, "update", old, nw, nil)
				logf("update %s (still Available)", r.uid)
			}},
			{"terminate", 2, func() bool { return has(isAvail) }, func(t *rapid.T) {
				r := pick(t, isAvail)
				old, nw := r.obj, r.obj.DeepCopy()
				nw.Status.Phase = rapid.SampledFrom([]schedulingv1alpha1.ReservationPhase{schedulingv1alpha1.ReservationSucceeded, schedulingv1alpha1.ReservationFailed}).Draw(t, "terminalPhase")
				r.obj, r.inCache, r.pods = nw, false, map[types.UID]bool{}
				sawTerminate = true
				deliver(t, "update", old, nw, nil)
				logf("update %s -> %s", r.uid, nw.Status.Phase)
			}},
			{"rollback", 1, func() bool { return has(isAvail) }, func(t *rapid.T) {
				// the extended multi-scheduler case 4 of the global handler: an assumed binding is rolled back
				r := pick(t, isAvail)
				old, nw := r.obj, r.obj.DeepCopy()
				nw.Status.NodeName, nw.Status.Phase, nw.Status.Allocatable = "", schedulingv1alpha1.ReservationPending, nil
				r.obj, r.inCache, r.pods = nw, false, map[types.UID]bool{}
				sawRollback = true
				deliver(t, "update", old, nw, nil)
				logf("update %s -> Pending, unassigned (rolled back from %s)", r.uid, r.node)
			}},
			{"delete", 5, func() bool { return has(exists) }, func(t *rapid.T) {
				r := pick(t, exists)
				if rapid.IntRange(0, 2).Draw(t, "preferAvailable") > 0 && has(isAvail) {
					r = pick(t, isAvail)
				}
				if r.inCache {
					sawDeleteCached = true
					if len(r.pods) > 0 {
						sawDeleteWithPods = true
					}
				}
				var obj any = r.obj
				if rapid.IntRange(0, 4).Draw(t, "finalStateUnknown") == 0 {
					obj = toolscache.DeletedFinalStateUnknown{Key: r.obj.Name, Obj: r.obj}
				}
				wasAvail := r.inCache
				r.gone, r.inCache, r.pods = true, false, map[types.UID]bool{}
				deliver(t, "delete", nil, nil, obj)
				logf("delete %s (was Available: %v, phase %s, node %q)", r.uid, wasAvail, r.obj.Status.Phase, r.obj.Status.NodeName)
			}},
			{"podAdd", 3, func() bool { return len(pods) < 4 && has(isAvail) }, func(t *rapid.T) {
				r := pick(t, isAvail)
				idx := len(pods)
				p := &c05mPod{uid: types.UID(fmt.Sprintf("p%d", idx))}
				p.obj = &corev1.Pod{}
				p.obj.Name, p.obj.Namespace, p.obj.UID = fmt.Sprintf("pod-%d", idx), "default", p.uid
				p.obj.Spec.NodeName = r.node
				p.obj.Spec.Containers = []corev1.Container{{Name: "c", Resources: corev1.ResourceRequirements{Requests: c05RL(c05Req{corev1.ResourceCPU: 500})}}}
				p.obj.Status.Phase = corev1.PodRunning
				apiext.SetReservationAllocated(p.obj, r.obj)
				pods = append(pods, p)
				for _, ph := range phs {
					ph.OnAdd(p.obj, false)
				}
				r.pods[p.uid] = true
				logf("pod add %s on %s assigned to %s", p.uid, r.node, r.uid)
			}},
			{"podDelete", 1, func() bool {
				for _, p := range pods {
					if !p.deleted {
						return true
					}
				}
				return false
			}, func(t *rapid.T) {
				var cand []*c05mPod
				for _, p := range pods {
					if !p.deleted {
						cand = append(cand, p)
					}
				}
				p := cand[rapid.IntRange(0, len(cand)-1).Draw(t, "pod")]
				for _, ph := range phs {
					ph.OnDelete(p.obj)
				}
				p.deleted = true
				for _, r := range ress {
					delete(r.pods, p.uid)
				}
				logf("pod delete %s", p.uid)
			}},
		}

		t.Repeat(map[string]func(*rapid.T){
			"event": func(t *rapid.T) {
				if dead {
					return
				}
				var names []string
				for _, o := range ops {
					if o.enabled() {
						for i := 0; i < o.weight; i++ {
							names = append(names, o.name)
						}
					}
				}
				if len(names) == 0 {
					return
				}
				name := rapid.SampledFrom(names).Draw(t, "eventKind")
				for _, o := range ops {
					if o.name == name {
						o.run(t)
					}
				}
			},
			"": func(t *rapid.T) {
				if !dead && check() {
					dead = true
				}
			},
		})

		c.Class(fmt.Sprintf("profiles:%d", k))
		c.ClassIf(sawDeleteCached, "delete-of-available-reservation")
		c.ClassIf(sawDeleteCached && k >= 2, "delete-of-available-reservation-with-2+-profiles")
		c.ClassIf(sawDeleteWithPods, "delete-of-reservation-holding-pods")
		c.ClassIf(sawTerminate, "terminated-by-update")
		c.ClassIf(sawRollback, "rolled-back-to-unassigned")
		c.ClassIf(sawRebind, "scheduled-again-after-rollback")
		c.ClassIf(sawGlobalFirst, "global-handler-first")
		c.ClassIf(sawGlobalLast, "global-handler-last")
		c.ClassIf(lingering > 0, "non-available-reservation-still-known(not asserted)")
		if sawDeleteCached && k >= 2 {
			c.NonTrivial(k, hist)
		}
		c.Sample(map[string]any{"profiles": k, "history": hist})
	})
}
