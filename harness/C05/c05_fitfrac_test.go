//go:build verif

// C05 (b') — fit arithmetic of fitsReservation on amounts that are NOT whole units.
// The API server admits fractional memory requests ("1500m" bytes, with a warning) and nothing validates a Reservation's
// status.allocatable or template, so a Restricted reservation may reserve e.g. 2500m of an extended resource. The
// statement "lets a pod in only if allocated + request stays within what was reserved" must hold on those exactly:
// every amount here is drawn in milli-units and the oracle is exact integer arithmetic in milli-units. Pod requests of
// extended resources stay whole pieces (what the API server admits); memory and cpu requests are arbitrary milli amounts.
// Added for seeded change C05-22 (per-operand rounding of the final comparison). See /verif/DESIGN.md §4.0 wave 8.
package reservation

import (
	"fmt"
	"testing"

	corev1 "k8s.io/api/core/v1"
	"k8s.io/apimachinery/pkg/api/resource"
	metav1 "k8s.io/apimachinery/pkg/apis/meta/v1"
	"k8s.io/apimachinery/pkg/types"
	"pgregory.net/rapid"

	schedulingv1alpha1 "github.com/koordinator-sh/koordinator/apis/scheduling/v1alpha1"
	"github.com/koordinator-sh/koordinator/pkg/scheduler/frameworkext"
	"github.com/koordinator-sh/koordinator/pkg/verifkit/vk"
)

func c05MilliRL(r map[corev1.ResourceName]int64) corev1.ResourceList {
	rl := corev1.ResourceList{}
	for d, v := range r {
		rl[d] = *resource.NewMilliQuantity(v, resource.DecimalSI)
	}
	return rl
}

func c05MilliStr(r map[corev1.ResourceName]int64) string {
	return c05RLStr(c05MilliRL(r))
}

// c05GenMilli draws an amount in milli-units; whole forces a multiple of 1000.
func c05GenMilli(t *rapid.T, d corev1.ResourceName, whole bool, label string) int64 {
	var v int64
	switch d {
	case corev1.ResourceCPU:
		return rapid.OneOf(rapid.Int64Range(0, 8), rapid.Int64Range(0, 64000)).Draw(t, label)
	case corev1.ResourceMemory:
		v = rapid.OneOf(rapid.Int64Range(0, 8000), rapid.Int64Range(0, 1<<40)).Draw(t, label)
	default:
		v = rapid.Int64Range(0, 8000).Draw(t, label)
	}
	if whole {
		v = v / 1000 * 1000
	}
	return v
}

func TestVerifC05FitFractional(t *testing.T) {
	c05Quiet()
	rec := vk.New(t, "C05", "fitFractional")
	rapid.Check(t, func(t *rapid.T) {
		c := rec.Begin()
		defer c.End()

		// what the reservation reserves: any milli amount (status.allocatable is not validated)
		alloc := map[corev1.ResourceName]int64{}
		for len(alloc) == 0 {
			for _, d := range c05Universe {
				if rapid.IntRange(0, 2).Draw(t, "dim:"+string(d)) > 0 {
					alloc[d] = c05GenMilli(t, d, rapid.IntRange(0, 3).Draw(t, "allocWhole:"+string(d)) == 0, "alloc:"+string(d))
				}
			}
		}
		allocRL := c05MilliRL(alloc)
		r := &schedulingv1alpha1.Reservation{}
		r.Name, r.UID = "r", "r"
		tmpl := c05Req{}
		for d := range alloc {
			tmpl[d] = 1
		}
		r.Spec.Template = &corev1.PodTemplateSpec{Spec: corev1.PodSpec{Containers: []corev1.Container{{Name: "main", Resources: corev1.ResourceRequirements{Requests: c05RL(tmpl)}}}}}
		r.Spec.Owners = []schedulingv1alpha1.ReservationOwner{{LabelSelector: &metav1.LabelSelector{}}}
		r.Spec.AllocatePolicy = schedulingv1alpha1.ReservationAllocatePolicyRestricted
		b := false
		r.Spec.AllocateOnce = &b
		r.Status.Phase, r.Status.NodeName, r.Status.Allocatable = schedulingv1alpha1.ReservationAvailable, "n0", allocRL
		rInfo := frameworkext.NewReservationInfo(r)

		isExt := func(d corev1.ResourceName) bool { return d != corev1.ResourceCPU && d != corev1.ResourceMemory }

		// pods already assigned, through the real ledger
		nAssigned := rapid.IntRange(0, 2).Draw(t, "assigned")
		allocated := map[corev1.ResourceName]int64{}
		var assignedStr []string
		for i := 0; i < nAssigned; i++ {
			req := map[corev1.ResourceName]int64{}
			for _, d := range c05Universe {
				if rapid.IntRange(0, 2).Draw(t, "aHas:"+string(d)) > 0 {
					v := rapid.Int64Range(0, alloc[d]/2+2000).Draw(t, "aReq:"+string(d))
					if isExt(d) {
						v = v / 1000 * 1000
					}
					req[d] = v
				}
			}
			p := &corev1.Pod{}
			p.Name, p.Namespace, p.UID = fmt.Sprintf("a%d", i), "default", types.UID(fmt.Sprintf("a%d", i))
			p.Spec.Containers = []corev1.Container{{Name: "c", Resources: corev1.ResourceRequirements{Requests: c05MilliRL(req)}}}
			rInfo.AddAssignedPod(p)
			assignedStr = append(assignedStr, c05MilliStr(req))
			for d, v := range req {
				if _, counted := alloc[d]; counted {
					allocated[d] += v
				}
			}
		}
		if rapid.Bool().Draw(t, "refreshedByUpdate") {
			rInfo.UpdateReservation(r)
		}

		// the pod's request, aimed at the boundary
		req := map[corev1.ResourceName]int64{}
		boundary, fractional := false, false
		for _, d := range c05Universe {
			if rapid.IntRange(0, 3).Draw(t, "rHas:"+string(d)) == 0 {
				continue
			}
			rem := alloc[d] - allocated[d]
			if rem < 0 {
				rem = 0
			}
			step := int64(1)
			if isExt(d) {
				step = 1000
				rem = rem / 1000 * 1000 // the largest whole request that still fits
			}
			var v int64
			switch rapid.IntRange(0, 4).Draw(t, "rKind:"+string(d)) {
			case 0:
				v = rem
			case 1:
				v = rem + step
			case 2:
				v = rem - step
			case 3:
				v = rapid.Int64Range(0, rem/step+1).Draw(t, "r:"+string(d)) * step
			default:
				v = c05GenMilli(t, d, isExt(d), "r:"+string(d))
			}
			if v < 0 {
				v = 0
			}
			req[d] = v
			if _, counted := alloc[d]; counted && v > 0 {
				diff := v - (alloc[d] - allocated[d])
				if diff >= -step && diff <= step {
					boundary = true
					if d != corev1.ResourceCPU && (alloc[d]%1000 != 0 || allocated[d]%1000 != 0 || v%1000 != 0) {
						fractional = true
					}
				}
			}
		}
		reqRL := c05MilliRL(req)

		var short []string
		for _, d := range c05Universe {
			if _, counted := alloc[d]; !counted || req[d] == 0 {
				continue
			}
			if req[d] > alloc[d]-allocated[d] {
				short = append(short, string(d))
			}
		}
		fits := len(short) == 0

		detailed := rapid.Bool().Draw(t, "detailedReasons")
		reasons := fitsReservation(reqRL, rInfo, nil, detailed, nil, nil)

		c.ClassIf(fits, "fits")
		c.ClassIf(!fits, "does-not-fit")
		c.ClassIf(boundary, "within-1-unit-of-boundary")
		c.ClassIf(fractional, "boundary-on-a-fractional-non-cpu-amount")
		c.ClassIf(nAssigned > 0, "has-assigned")
		if fractional {
			c.NonTrivial(c05MilliStr(alloc), assignedStr, c05MilliStr(req))
		}
		desc := fmt.Sprintf("allocatable=%s policy=Restricted assigned=%v request=%s allocatedMilli=%v", c05RLStr(allocRL), assignedStr, c05RLStr(reqRL), allocated)
		c.Sample(map[string]any{"case": desc, "fits": fits, "reasons": reasons})

		if len(reasons) == 0 && !fits {
			if c.Violation(t, "fit:accepted-beyond-reserved:fractional-amounts", "fitsReservation accepted although short of %v: %s", short, desc) {
				return
			}
		}
		if len(reasons) > 0 && fits {
			if c.Violation(t, "fit:refused-though-within-reserved:fractional-amounts", "fitsReservation refused (%v) although every counted dimension fits: %s", reasons, desc) {
				return
			}
		}
	})
}
