//go:build linux
// +build linux

// Verification stand-in for pkg/koordlet/util/perf_group/perf_group_linux.go.
//
// The real file is cgo against libpfm4 (perfmon/pfmlib.h), which is not installed in the
// verification sandbox, so every koordlet package that (transitively) imports perf_group
// fails to build. None of the verified properties touches perf counters; this file has the
// same exported surface and is injected with `go test -overlay` only (never committed to
// /repo). See /verif/DESIGN.md §0.1.
package perf_group

import (
	"errors"
	"os"
	"sync"
	"syscall"
)

const (
	CYCLES       = "cycles"
	INSTRUCTIONS = "instructions"
)

var (
	BufPools  map[int]*sync.Pool
	EventsMap = map[string][]string{
		"CPICollector": {"cycles", "instructions"},
	}
)

var errStub = errors.New("perf_group: verification stub (libpfm4 not available)")

type PerfGroupCollector struct{}

func InitBufferPool(eventsNums map[int]struct{}) { BufPools = map[int]*sync.Pool{} }
func LibInit()                                   {}
func LibFinalize()                               {}

func NewPerfGroupCollector(cgroupFile *os.File, cpus []int, events []string, syscallFunc func(trap, a1, a2, a3, a4, a5, a6 uintptr) (r1, r2 uintptr, err syscall.Errno)) (*PerfGroupCollector, error) {
	return nil, errStub
}

func GetAndStartPerfGroupCollectorOnContainer(cgroupFile *os.File, cpus []int, events []string) (*PerfGroupCollector, error) {
	return nil, errStub
}

func GetContainerPerfResult(collector *PerfGroupCollector) (map[string]float64, error) {
	return nil, errStub
}

func GetContainerCyclesAndInstructionsGroup(collector *PerfGroupCollector) (float64, float64, error) {
	return 0, 0, errStub
}
