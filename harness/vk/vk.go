// Package vk is the small helper shared by all verification harnesses (see /verif/DESIGN.md §0).
// It is injected into the koordinator build with `go test -overlay` as
// github.com/koordinator-sh/koordinator/pkg/verifkit/vk and never committed to /repo.
//
// It does three things:
//   - counts generated cases, per-class labels and DISTINCT non-trivial cases (by fingerprint),
//     keeps a few rendered samples, and writes them to $VERIF_STATS_DIR for the driver;
//   - gives every oracle failure a stable signature (`VERIF-SIG[...]`) that the driver matches
//     against /verif/known_findings.json;
//   - lets a harness continue the search behind a *known* finding (signature listed in
//     $VERIF_KNOWN) by abandoning that case instead of failing, and counting how often.
package vk

import (
	"encoding/json"
	"fmt"
	"hash/fnv"
	"os"
	"path/filepath"
	"sort"
	"strconv"
	"strings"
	"sync"
	"testing"
)

const maxFingerprints = 400000
const maxSamples = 8

// Fataler is satisfied by *rapid.T and *testing.T.
type Fataler interface {
	Fatalf(format string, args ...any)
}

// Rec accumulates statistics for one Go test function.
type Rec struct {
	mu        sync.Mutex
	Property  string
	Unit      string
	cases     int
	classes   map[string]int
	fps       map[uint64]struct{}
	fpDropped int
	nontriv   int
	samples   []any
	ntSamples int
	known     map[string]int
	knownEx   map[string]string
	notes     map[string]string
	exhaust   bool
	tb        testing.TB
}

var knownSet = func() map[string]bool {
	m := map[string]bool{}
	for _, s := range strings.Split(os.Getenv("VERIF_KNOWN"), ",") {
		s = strings.TrimSpace(s)
		if s != "" {
			m[s] = true
		}
	}
	return m
}()

// IsKnown reports whether sig is listed as an open (not fixed) known finding.
func IsKnown(sig string) bool { return knownSet[sig] }

// Scale returns n scaled by $VERIF_SCALE (a float, default 1) and at least 1. Used by the
// non-rapid enumerations; rapid case counts are set by the driver with -rapid.checks.
func Scale(n int) int {
	f := 1.0
	if v := os.Getenv("VERIF_SCALE"); v != "" {
		if p, err := strconv.ParseFloat(v, 64); err == nil && p > 0 {
			f = p
		}
	}
	r := int(float64(n) * f)
	if r < 1 {
		r = 1
	}
	return r
}

// Thorough reports whether the driver runs the thorough tier.
func Thorough() bool { return os.Getenv("VERIF_TIER") == "thorough" }

// Seed returns $VERIF_SEED_EFFECTIVE (the per-shard seed chosen by the driver), default 1.
func Seed() uint64 {
	if v := os.Getenv("VERIF_SEED_EFFECTIVE"); v != "" {
		if p, err := strconv.ParseUint(v, 10, 64); err == nil && p != 0 {
			return p
		}
	}
	return 1
}

// New creates a recorder; the stats file is written by Flush (call it with defer or
// t.Cleanup — New registers a Cleanup itself).
func New(t testing.TB, property, unit string) *Rec {
	r := &Rec{Property: property, Unit: unit, classes: map[string]int{}, fps: map[uint64]struct{}{},
		known: map[string]int{}, knownEx: map[string]string{}, notes: map[string]string{}, tb: t}
	t.Cleanup(r.Flush)
	return r
}

// Exhaustive marks the unit as a complete enumeration of a finite scope.
func (r *Rec) Exhaustive() { r.mu.Lock(); r.exhaust = true; r.mu.Unlock() }

// Note attaches a free-text key/value to the stats (bounds, scope description …).
func (r *Rec) Note(k, v string) { r.mu.Lock(); r.notes[k] = v; r.mu.Unlock() }

// Case is one generated case.
type Case struct {
	r       *Rec
	classes map[string]struct{}
	nt      bool
	ntKey   uint64
	sample  any
	aborted bool
	done    bool
}

// Begin starts a case. Always `defer c.End()` right after.
func (r *Rec) Begin() *Case { return &Case{r: r, classes: map[string]struct{}{}} }

// Class labels the case (counted once per case per label).
func (c *Case) Class(name string) { c.classes[name] = struct{}{} }

// ClassIf labels the case when cond holds.
func (c *Case) ClassIf(cond bool, name string) {
	if cond {
		c.classes[name] = struct{}{}
	}
}

// NonTrivial marks the case as non-trivial by the unit's stated rule; key identifies the
// case for the distinct count (any printable value; hashed with FNV-64a of %v).
func (c *Case) NonTrivial(key ...any) {
	h := fnv.New64a()
	fmt.Fprint(h, key...)
	c.nt = true
	c.ntKey = h.Sum64()
}

// Sample attaches a rendering of the case (anything json.Marshal accepts). Cheap to call
// on every case: it only stores the pointer; rendering happens for the few kept ones.
func (c *Case) Sample(v any) { c.sample = v }

// WantSample tells whether building an expensive sample is worthwhile for this case.
func (c *Case) WantSample() bool {
	c.r.mu.Lock()
	defer c.r.mu.Unlock()
	return len(c.r.samples) < maxSamples
}

// Violation reports an oracle failure with a stable signature. For a signature listed in
// $VERIF_KNOWN it counts the hit and returns true (the caller must abandon the case:
// `if c.Violation(...) { return }`); otherwise it fails the test and does not return.
func (c *Case) Violation(t Fataler, sig string, format string, args ...any) bool {
	msg := fmt.Sprintf(format, args...)
	if IsKnown(sig) {
		c.r.mu.Lock()
		c.r.known[sig]++
		if _, ok := c.r.knownEx[sig]; !ok {
			c.r.knownEx[sig] = msg
		}
		c.r.mu.Unlock()
		c.aborted = true
		return true
	}
	t.Fatalf("VERIF-SIG[%s] property=%s unit=%s: %s", sig, c.r.Property, c.r.Unit, msg)
	return false
}

// End commits the case to the statistics.
func (c *Case) End() {
	if c.done {
		return
	}
	c.done = true
	r := c.r
	r.mu.Lock()
	defer r.mu.Unlock()
	r.cases++
	for k := range c.classes {
		r.classes[k]++
	}
	if c.aborted {
		r.classes["~abandoned-on-known-finding"]++
	}
	if c.nt {
		r.nontriv++
		if _, ok := r.fps[c.ntKey]; !ok {
			if len(r.fps) < maxFingerprints {
				r.fps[c.ntKey] = struct{}{}
			} else {
				r.fpDropped++
			}
		}
	}
	if c.sample != nil && len(r.samples) < maxSamples {
		// keep the first two cases whatever they are, then only non-trivial ones
		if len(r.samples) < 2 || (c.nt && r.ntSamples < maxSamples-2) {
			if b, err := json.Marshal(c.sample); err == nil && len(b) < 20000 {
				var v any
				if json.Unmarshal(b, &v) == nil {
					r.samples = append(r.samples, v)
					if c.nt {
						r.ntSamples++
					}
				}
			}
		}
	}
}

type statsFile struct {
	Property      string            `json:"property"`
	Unit          string            `json:"unit"`
	Cases         int               `json:"cases"`
	NonTrivial    int               `json:"nontrivial"`
	Fingerprints  []string          `json:"fingerprints"`
	FpDropped     int               `json:"fingerprints_dropped"`
	Classes       map[string]int    `json:"classes"`
	Samples       []any             `json:"samples"`
	KnownHits     map[string]int    `json:"known_hits"`
	KnownExamples map[string]string `json:"known_examples"`
	Notes         map[string]string `json:"notes"`
	Exhaustive    bool              `json:"exhaustive"`
	Failed        bool              `json:"failed"`
}

// Flush writes the stats file (idempotent; last write wins).
func (r *Rec) Flush() {
	dir := os.Getenv("VERIF_STATS_DIR")
	if dir == "" {
		return
	}
	r.mu.Lock()
	defer r.mu.Unlock()
	fps := make([]string, 0, len(r.fps))
	for k := range r.fps {
		fps = append(fps, strconv.FormatUint(k, 16))
	}
	sort.Strings(fps)
	sf := statsFile{Property: r.Property, Unit: r.Unit, Cases: r.cases, NonTrivial: r.nontriv,
		Fingerprints: fps, FpDropped: r.fpDropped, Classes: r.classes, Samples: r.samples,
		KnownHits: r.known, KnownExamples: r.knownEx, Notes: r.notes, Exhaustive: r.exhaust,
		Failed: r.tb != nil && r.tb.Failed()}
	b, err := json.Marshal(sf)
	if err != nil {
		return
	}
	_ = os.MkdirAll(dir, 0o755)
	name := fmt.Sprintf("%s.%s.%d.json", r.Property, sanitize(r.Unit), os.Getpid())
	tmp := filepath.Join(dir, name+".tmp")
	if os.WriteFile(tmp, b, 0o644) == nil {
		_ = os.Rename(tmp, filepath.Join(dir, name))
	}
}

func sanitize(s string) string {
	var b strings.Builder
	for _, r := range s {
		if (r >= 'a' && r <= 'z') || (r >= 'A' && r <= 'Z') || (r >= '0' && r <= '9') || r == '-' || r == '_' {
			b.WriteRune(r)
		} else {
			b.WriteRune('_')
		}
	}
	return b.String()
}

// SortedKeys returns the keys of a string-keyed map in sorted order (harnesses must never
// let Go's map iteration order influence a decision).
func SortedKeys[V any](m map[string]V) []string {
	ks := make([]string, 0, len(m))
	for k := range m {
		ks = append(ks, k)
	}
	sort.Strings(ks)
	return ks
}
