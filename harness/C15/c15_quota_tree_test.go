//go:build verif

// C15 — Admitted quota objects always form a well-formed quota tree.
// See /verif/DESIGN.md §1 C15 and /verif/HARNESS_GUIDE.md. In-package harness (injected with -overlay).
//
// Shape: every request goes through the real admission order of the webhook handlers
//   CREATE: mutating  QuotaMetaChecker.AdmitQuota  -> quotaTopology.fillQuotaDefaultInformation(obj)
//           validating QuotaMetaChecker.ValidateQuota -> quotaTopology.ValidAddQuota(obj)
//   UPDATE: (mutating webhook does nothing for updates) ValidUpdateQuota(oldStoredObj, newObj)
//   DELETE: ValidDeleteQuota(oldStoredObj)
// The harness keeps its OWN record of the API-server store (name -> object as persisted), applies a request to it
// iff the webhook accepted it, and re-derives parent / is-parent / tree id / namespaces / min / max from the stored
// objects by re-stating the label conventions of apis/extension/elastic_quota.go. The oracle is the list of
// well-formedness predicates of the statement evaluated on that record, plus agreement of that record with
// getQuotaTopologyInfo() (+ TreeID and namespaceToQuotaMap read in-package), plus "rejected => record unchanged".
package elasticquota

import (
	"context"
	"encoding/json"
	"fmt"
	"math/bits"
	"os"
	"runtime"
	"sort"
	"strconv"
	"strings"
	"testing"
	"time"

	corev1 "k8s.io/api/core/v1"
	"k8s.io/apimachinery/pkg/api/resource"
	metav1 "k8s.io/apimachinery/pkg/apis/meta/v1"
	"pgregory.net/rapid"
	"k8s.io/apimachinery/pkg/selection"
	"sigs.k8s.io/controller-runtime/pkg/client"

	"github.com/koordinator-sh/koordinator/apis/thirdparty/scheduler-plugins/pkg/apis/scheduling/v1alpha1"

	"github.com/koordinator-sh/koordinator/pkg/features"
	utilfeature "github.com/koordinator-sh/koordinator/pkg/util/feature"
	"github.com/koordinator-sh/koordinator/pkg/verifkit/vk"
)

// The label / annotation keys and reserved names are part of the public API (apis/extension); they are re-stated
// literally so that the oracle does not depend on the helper functions the webhook itself uses.
const (
	c15Root        = "koordinator-root-quota"
	c15System      = "koordinator-system-quota"
	c15Default     = "koordinator-default-quota"
	c15LParent     = "quota.scheduling.koordinator.sh/parent"
	c15LIsParent   = "quota.scheduling.koordinator.sh/is-parent"
	c15LTreeID     = "quota.scheduling.koordinator.sh/tree-id"
	c15LQuotaName  = "quota.scheduling.koordinator.sh/name"
	c15LAllowLent  = "quota.scheduling.koordinator.sh/allow-lent-resource"
	c15ANamespaces = "quota.scheduling.koordinator.sh/namespaces"
	c15ASharedW    = "quota.scheduling.koordinator.sh/shared-weight"
)

var (
	c15Names = []string{"a", "b", "c", "d", "e"}
	c15NSs   = []string{"n1", "n2", "n3"}
	c15Res   = []string{"cpu", "memory"}
)

// c15PinGates keeps every feature gate that changes the admission rules at its default (false) for the test.
func c15PinGates(t *testing.T) {
	for _, f := range []struct {
		name string
		set  func() func()
	}{
		{"ElasticQuotaEnableUpdateResourceKey", func() func() {
			return utilfeature.SetFeatureGateDuringTest(t, utilfeature.DefaultMutableFeatureGate, features.ElasticQuotaEnableUpdateResourceKey, false)
		}},
		{"ElasticQuotaGuaranteeUsage", func() func() {
			return utilfeature.SetFeatureGateDuringTest(t, utilfeature.DefaultMutableFeatureGate, features.ElasticQuotaGuaranteeUsage, false)
		}},
		{"SupportParentQuotaSubmitPod", func() func() {
			return utilfeature.SetFeatureGateDuringTest(t, utilfeature.DefaultMutableFeatureGate, features.SupportParentQuotaSubmitPod, false)
		}},
		{"MultiQuotaTree", func() func() {
			return utilfeature.SetFeatureGateDuringTest(t, utilfeature.DefaultMutableFeatureGate, features.MultiQuotaTree, false)
		}},
		{"DisableDefaultQuota", func() func() {
			return utilfeature.SetFeatureGateDuringTest(t, utilfeature.DefaultMutableFeatureGate, features.DisableDefaultQuota, false)
		}},
	} {
		t.Cleanup(f.set())
	}
}

// ---------------------------------------------------------------- objects

func c15RL(m map[string]int64) corev1.ResourceList {
	if m == nil {
		return nil
	}
	rl := corev1.ResourceList{}
	for k, v := range m {
		rl[corev1.ResourceName(k)] = *resource.NewMilliQuantity(v, resource.DecimalSI)
	}
	return rl
}

func c15Milli(rl corev1.ResourceList) map[string]int64 {
	m := map[string]int64{}
	for k, q := range rl {
		m[string(k)] = q.MilliValue()
	}
	return m
}

func c15MilliStr(m map[string]int64) string {
	ks := vk.SortedKeys(m)
	parts := make([]string, 0, len(ks))
	for _, k := range ks {
		v := m[k]
		if v%1000 == 0 {
			parts = append(parts, fmt.Sprintf("%s:%d", k, v/1000))
		} else {
			parts = append(parts, fmt.Sprintf("%s:%dm", k, v))
		}
	}
	return "{" + strings.Join(parts, ",") + "}"
}

func c15NewObj(name string) *v1alpha1.ElasticQuota {
	return &v1alpha1.ElasticQuota{
		TypeMeta:   metav1.TypeMeta{Kind: "ElasticQuota", APIVersion: "scheduling.sigs.k8s.io/v1alpha1"},
		ObjectMeta: metav1.ObjectMeta{Name: name, Namespace: "default", Labels: map[string]string{}, Annotations: map[string]string{}},
	}
}

func c15NSJSON(ns []string) string {
	if ns == nil {
		return "[]"
	}
	b, _ := json.Marshal(ns)
	return string(b)
}

// c15Render prints exactly the fields of an object that matter to the webhook, in a stable order.
func c15Render(o *v1alpha1.ElasticQuota) string {
	lab := func(k string) string {
		if v, ok := o.Labels[k]; ok {
			return strconv.Quote(v)
		}
		return "-"
	}
	ann := func(k string) string {
		if v, ok := o.Annotations[k]; ok {
			return v
		}
		return "-"
	}
	rl := func(r corev1.ResourceList) string {
		if r == nil {
			return "-"
		}
		return c15MilliStr(c15Milli(r))
	}
	s := fmt.Sprintf("%s{parent=%s isParent=%s tree=%s ns=%s min=%s max=%s", o.Name, lab(c15LParent), lab(c15LIsParent), lab(c15LTreeID),
		ann(c15ANamespaces), rl(o.Spec.Min), rl(o.Spec.Max))
	if v, ok := o.Annotations[c15ASharedW]; ok {
		s += " sharedWeight=" + v
	}
	if v, ok := o.Labels[c15LAllowLent]; ok {
		s += " allowLent=" + v
	}
	return s + "}"
}

// c15Q is the harness's reading of one stored object (independent re-statement of the label conventions).
type c15Q struct {
	obj      *v1alpha1.ElasticQuota
	name     string
	parent   string
	isParent bool
	treeID   string
	ns       []string
	min, max map[string]int64 // milli
}

func c15Derive(o *v1alpha1.ElasticQuota) *c15Q {
	q := &c15Q{obj: o, name: o.Name}
	q.parent = o.Labels[c15LParent]
	if q.parent == "" && o.Name != c15Root {
		q.parent = c15Root
	}
	q.isParent = o.Labels[c15LIsParent] == "true"
	q.treeID = o.Labels[c15LTreeID]
	if raw := o.Annotations[c15ANamespaces]; raw != "" {
		var ns []string
		if json.Unmarshal([]byte(raw), &ns) == nil {
			q.ns = ns
		}
	}
	q.min, q.max = c15Milli(o.Spec.Min), c15Milli(o.Spec.Max)
	return q
}

// ---------------------------------------------------------------- world = real quotaTopology + fake client + model

type c15Pod struct{ Namespace, Quota string }

type c15Req struct {
	Kind string // create | update | delete
	Name string
	Obj  *v1alpha1.ElasticQuota // create/update: the submitted object
	Echo bool                   // deliver the informer event of the persisted change right after an accepted request
}

type c15World struct {
	qt    *quotaTopology
	cl    *c15Client
	model map[string]*c15Q
	pods  map[string]c15Pod
	hist  []string
	npod  int

	// what happened (for class labels / the non-trivial rule)
	accepted, rejected               map[string]int
	rejWhy                           map[string]int
	reparentAcc, reparentWithKidsAcc int
	lastWasParentChange              bool
	echoes                           int
	nsBoundToChildPods               int
	deletedWithNamespacePods         int
	staleSharedWeightNotAsserted     int
	rootIndexStale                   int
	reparentRejected                 int
	treeIDEdgeDiffers                int
	style                            c15Style
	dumpCache                        string
	lastReparentAttemptWithKids      bool
	overlapStarted, overlapInside    int
	overlapSerialised                int
	overlapNotStarted                int
}

// c15Client is the "fake client whose pod list is part of the generated state": a client.Client that answers exactly the
// two pod-list shapes the webhook issues, with the semantics of the manager's cache reader —
//   - FieldSelector label.quotaName=<q>  (index registered in pkg/util/fieldindex/register.go: pods with a non-empty
//     quota-name label, keyed by that label), and
//   - ListOptions.Namespace=<ns>.
// Any other selector is an error (as an unregistered index is); any other method panics through the nil embedded
// interface, which rapid reports. (controller-runtime's fake client rebuilds a REST mapper on every Create: ~7 ms.)
type c15Client struct {
	client.Client
	pods   map[string]*corev1.Pod
	onList func() // one-shot hook, fired at the start of the next List (used by the overlapping-request rule only)

	// fault injection (TestVerifC15ListFault only): the i-th List call since the mask was armed fails iff bit i is set,
	// the way a cache that is not synced / an unreachable apiserver / an expired context makes client.List fail
	failMask  int
	listCalls int
	faultsHit int
}

func (c *c15Client) List(_ context.Context, list client.ObjectList, opts ...client.ListOption) error {
	pl, ok := list.(*corev1.PodList)
	if !ok {
		return fmt.Errorf("c15Client: unsupported list type %T", list)
	}
	if h := c.onList; h != nil {
		c.onList = nil
		h()
	}
	if c.failMask != 0 {
		i := c.listCalls
		c.listCalls++
		if i < 16 && c.failMask&(1<<i) != 0 {
			c.faultsHit++
			return fmt.Errorf("injected fault: the cache is not started, can not read objects")
		}
	}
	lo := &client.ListOptions{}
	lo.ApplyOptions(opts)
	wantQuota, byQuota := "", false
	if lo.FieldSelector != nil && !lo.FieldSelector.Empty() {
		reqs := lo.FieldSelector.Requirements()
		if len(reqs) != 1 || reqs[0].Field != "label.quotaName" || (reqs[0].Operator != selection.Equals && reqs[0].Operator != selection.DoubleEquals) {
			return fmt.Errorf("c15Client: no index for field selector %q", lo.FieldSelector.String())
		}
		wantQuota, byQuota = reqs[0].Value, true
	}
	pl.Items = nil
	for _, n := range vk.SortedKeys(c.pods) {
		p := c.pods[n]
		if lo.Namespace != "" && p.Namespace != lo.Namespace {
			continue
		}
		if byQuota && (p.Labels[c15LQuotaName] == "" || p.Labels[c15LQuotaName] != wantQuota) {
			continue
		}
		pl.Items = append(pl.Items, *p.DeepCopy())
	}
	return nil
}

func c15NewClient() *c15Client { return &c15Client{pods: map[string]*corev1.Pod{}} }

func c15NewWorld(cl *c15Client) *c15World {
	if cl == nil {
		cl = c15NewClient()
	}
	return &c15World{qt: NewQuotaTopology(cl), cl: cl, model: map[string]*c15Q{}, pods: map[string]c15Pod{},
		accepted: map[string]int{}, rejected: map[string]int{}, rejWhy: map[string]int{}}
}

func (w *c15World) addPod(ns, quota string) string {
	name := fmt.Sprintf("p%d", w.npod)
	w.npod++
	pod := &corev1.Pod{ObjectMeta: metav1.ObjectMeta{Name: name, Namespace: ns, Labels: map[string]string{}}}
	if quota != "" {
		pod.Labels[c15LQuotaName] = quota
	}
	w.cl.pods[name] = pod
	w.pods[name] = c15Pod{ns, quota}
	w.hist = append(w.hist, fmt.Sprintf("addPod %s ns=%s quotaLabel=%q", name, ns, quota))
	return name
}

func (w *c15World) delPod(name string) {
	delete(w.cl.pods, name)
	delete(w.pods, name)
	w.hist = append(w.hist, "delPod "+name)
}

func (w *c15World) children(name string) []string {
	var out []string
	for _, n := range vk.SortedKeys(w.model) {
		if w.model[n].parent == name {
			out = append(out, n)
		}
	}
	return out
}

func (w *c15World) labelPods(quota string) int {
	n := 0
	for _, p := range w.pods {
		if p.Quota == quota {
			n++
		}
	}
	return n
}

// c15Dump renders the complete record of the webhook (all three maps, every field of every QuotaInfo, and the
// public summary) canonically; "rejected => unchanged" compares these strings byte by byte.
func c15Dump(qt *quotaTopology) string {
	var b strings.Builder
	rl := func(r corev1.ResourceList) string {
		m := map[string]string{}
		for k, q := range r {
			m[string(k)] = q.String()
		}
		ks := vk.SortedKeys(m)
		s := "{"
		for _, k := range ks {
			s += k + "=" + m[k] + ","
		}
		return s + "}"
	}
	for _, n := range vk.SortedKeys(qt.quotaInfoMap) {
		qi := qt.quotaInfoMap[n]
		if qi == nil {
			fmt.Fprintf(&b, "Q %s <nil>\n", n)
			continue
		}
		fmt.Fprintf(&b, "Q %s name=%s parent=%s isParent=%v lent=%v force=%v tree=%s treeRoot=%v min=%s max=%s guar=%s alloc=%s\n", n, qi.Name, qi.ParentName,
			qi.IsParent, qi.AllowLentResource, qi.AllowForceUpdate, qi.TreeID, qi.IsTreeRoot, rl(qi.CalculateInfo.Min), rl(qi.CalculateInfo.Max),
			rl(qi.CalculateInfo.Guaranteed), rl(qi.CalculateInfo.Allocated))
	}
	for _, n := range vk.SortedKeys(qt.quotaHierarchyInfo) {
		fmt.Fprintf(&b, "H %q -> %v\n", n, vk.SortedKeys(qt.quotaHierarchyInfo[n]))
	}
	for _, n := range vk.SortedKeys(qt.namespaceToQuotaMap) {
		fmt.Fprintf(&b, "N %s -> %s\n", n, qt.namespaceToQuotaMap[n])
	}
	sum := qt.getQuotaTopologyInfo()
	for _, n := range vk.SortedKeys(sum.QuotaInfoMap) {
		s := sum.QuotaInfoMap[n]
		fmt.Fprintf(&b, "S %s name=%s parent=%s isParent=%v lent=%v min=%s max=%s\n", n, s.Name, s.ParentName, s.IsParent, s.AllowLentResource, rl(s.Min), rl(s.Max))
	}
	for _, n := range vk.SortedKeys(sum.QuotaHierarchyInfo) {
		ch := append([]string(nil), sum.QuotaHierarchyInfo[n]...)
		sort.Strings(ch)
		fmt.Fprintf(&b, "SH %q -> %v\n", n, ch)
	}
	return b.String()
}

func c15WhyRejected(stage string, err error) string {
	s := err.Error()
	has := func(x string) bool { return strings.Contains(s, x) }
	switch {
	case stage == "fill":
		return "mutating-fill"
	case has("already exist"):
		return "name-exists"
	case has("already bound to quota"):
		return "namespace-taken"
	case has("invalid quota "):
		return "forbidden-modify"
	case has("can not delete quotaGroup"):
		return "forbidden-delete"
	case has("child quotas"):
		return "delete-has-children"
	case has("child pods"):
		return "delete-has-pods"
	case has("value < 0"):
		return "negative"
	case has("> max") || has("not included in max"):
		return "min-vs-max"
	case has("tree id"):
		return "tree-id"
	case has("isParent is forbidden"):
		return "is-parent-change"
	case has("itself or one of its descendants"): // wording of the proposed fix
		return "parent-is-self-or-descendant"
	case has("not find parentInfo") || has("IsParent is false"):
		return "parent-missing-or-not-parent"
	case has("checkSubAndParentGroupQuotaKey"):
		return "resource-keys"
	case has("checkMinQuotaSum"):
		return "min-sum"
	case has("cannot unmarshal") || has("invalid character") || has("unexpected end"):
		return "bad-annotation-json"
	}
	return "other"
}

// c15Outcome is one request on its way through the webhook. prepare() reads the model on the calling goroutine and
// returns a closure that only talks to the quotaTopology and fills in err/stage, so it may run on another goroutine.
type c15Outcome struct {
	r      c15Req
	line   string
	stored *v1alpha1.ElasticQuota // create/update: the object as it would be persisted
	oldObj *v1alpha1.ElasticQuota // update/delete: the stored object sent as oldObject
	err    error
	stage  string
}

func (w *c15World) prepare(r c15Req) (*c15Outcome, func()) {
	o := &c15Outcome{r: r, stage: "validate"}
	switch r.Kind {
	case "create":
		o.stored = r.Obj.DeepCopy()
		o.line = "create " + c15Render(r.Obj)
		return o, func() {
			if o.err = w.qt.fillQuotaDefaultInformation(o.stored); o.err != nil {
				o.stage = "fill"
			} else {
				o.err = w.qt.ValidAddQuota(o.stored)
			}
		}
	case "update":
		if w.model[r.Name] == nil {
			panic("c15: generator bug: update of an object that is not stored")
		}
		o.oldObj = w.model[r.Name].obj.DeepCopy()
		o.stored = r.Obj.DeepCopy()
		o.line = "update " + c15Render(r.Obj)
		return o, func() { o.err = w.qt.ValidUpdateQuota(o.oldObj.DeepCopy(), o.stored) }
	case "delete":
		if w.model[r.Name] == nil {
			panic("c15: generator bug: delete of an object that is not stored")
		}
		o.oldObj = w.model[r.Name].obj.DeepCopy()
		o.line = "delete " + r.Name
		return o, func() { o.err = w.qt.ValidDeleteQuota(o.oldObj.DeepCopy()) }
	}
	panic("c15: unknown request kind")
}

// settle books the verdict and, for an accepted request, applies it to the model and evaluates the clauses that speak
// about the request itself. It does not look at the webhook's record.
func (w *c15World) settle(o *c15Outcome) (accepted bool, verdict, sig, msg string) {
	r := o.r
	var oldQ *c15Q
	if o.oldObj != nil {
		oldQ = c15Derive(o.oldObj)
	}
	if o.err != nil {
		why := c15WhyRejected(o.stage, o.err)
		w.rejected[r.Kind]++
		w.rejWhy[why]++
		if r.Kind == "update" && c15Derive(r.Obj).parent != oldQ.parent {
			w.reparentRejected++
		}
		return false, "REJECTED(" + why + ")", "", ""
	}
	w.accepted[r.Kind]++
	switch r.Kind {
	case "create":
		if _, dup := w.model[r.Name]; dup {
			return true, "accepted", "create:existing-name-accepted", fmt.Sprintf("create of %s accepted although a quota of that name is stored", r.Name)
		}
		w.model[r.Name] = c15Derive(o.stored)
	case "update":
		nq := c15Derive(o.stored)
		if nq.parent != oldQ.parent {
			w.lastWasParentChange = true
			w.reparentAcc++
			if len(w.children(r.Name)) > 0 {
				w.reparentWithKidsAcc++
			}
		}
		if o.oldObj.Annotations[c15ASharedW] != o.stored.Annotations[c15ASharedW] || o.oldObj.Labels[c15LAllowLent] != o.stored.Labels[c15LAllowLent] {
			w.staleSharedWeightNotAsserted++
		}
		w.model[r.Name] = nq
	case "delete":
		kids := w.children(r.Name)
		npods := w.labelPods(r.Name)
		nsPods := 0
		for _, p := range w.pods {
			if p.Quota != "" {
				continue
			}
			if p.Namespace == r.Name {
				nsPods++
			}
			for _, ns := range oldQ.ns {
				if ns == p.Namespace {
					nsPods++
				}
			}
		}
		delete(w.model, r.Name)
		if len(kids) > 0 {
			return true, "accepted", "delete:quota-with-children-deleted", fmt.Sprintf("delete of %s accepted although it has children %v", r.Name, kids)
		}
		if npods > 0 {
			return true, "accepted", "delete:quota-with-pods-deleted", fmt.Sprintf("delete of %s accepted although %d pods carry its quota-name label", r.Name, npods)
		}
		if nsPods > 0 {
			w.deletedWithNamespacePods++ // pods bound only through their namespace: not asserted, see report
		}
	}
	return true, "accepted", "", ""
}

func (w *c15World) takeDump() string {
	before := w.dumpCache // valid while nothing touched the record since it was taken (rejected requests leave it equal)
	if before == "" {
		before = c15Dump(w.qt)
	}
	w.dumpCache = ""
	return before
}

// do sends one request through the real admission order, keeps the model in step and evaluates the oracle.
// It returns whether the webhook accepted, and (sig,msg) != "" for an oracle failure.
func (w *c15World) do(r c15Req) (accepted bool, sig, msg string) {
	before := w.takeDump()
	o, run := w.prepare(r)
	run()
	w.lastWasParentChange = false
	w.lastReparentAttemptWithKids = false
	if r.Kind == "update" && c15Derive(r.Obj).parent != c15Derive(o.oldObj).parent && len(w.children(r.Name)) > 0 {
		w.lastReparentAttemptWithKids = true
	}
	accepted, verdict, sig, msg := w.settle(o)
	if !accepted {
		w.hist = append(w.hist, o.line+" -> "+verdict)
		if after := c15Dump(w.qt); after != before {
			return false, "rejected:record-changed", fmt.Sprintf("request %q was rejected (%v) but the recorded topology changed\n--- before\n%s--- after\n%s", o.line, o.err, before, after)
		}
		w.dumpCache = before
		return false, "", ""
	}
	echo := ""
	if r.Echo {
		echo = " +informer-event"
	}
	w.hist = append(w.hist, o.line+" -> "+verdict+echo)
	if sig != "" {
		return true, sig, msg
	}
	if r.Echo {
		w.echoes++
		switch r.Kind {
		case "create":
			w.qt.OnQuotaAdd(o.stored.DeepCopy())
		case "update":
			w.qt.OnQuotaUpdate(o.oldObj.DeepCopy(), o.stored.DeepCopy())
		case "delete":
			w.qt.OnQuotaDelete(o.oldObj.DeepCopy())
		}
	}
	sig, msg = w.check()
	return true, sig, msg
}

// doOverlap sends a DELETE and, while that delete is inside its pod List (the call it makes to the API client), a
// second request from ANOTHER goroutine against the same quotaTopology — two admission requests in flight at once, as
// the API server produces them. Which of the two completed first is decided without a clock:
//   - if, at the moment the delete lists pods, somebody holds the topology lock (the delete itself), the nested request
//     cannot complete before the delete returns: the two serialise as  delete ; nested;
//   - if the lock is free at that moment, nothing the delete does can block the nested request, so the hook simply waits
//     for it: nested ; delete.
//
// (The timers below are safety nets against a wedged goroutine; when one fires the requests are merely treated as
// serialised, which is a legal history. The nested goroutine is always joined before the oracle runs.) Both verdicts are
// applied to the model in completion order and the ordinary oracle decides.
func (w *c15World) doOverlap(del, nested c15Req) (sig, msg string) {
	before := w.takeDump()
	od, runDel := w.prepare(del)
	on, runNested := w.prepare(nested)
	w.lastWasParentChange = false
	w.lastReparentAttemptWithKids = false
	started, inside := false, false
	done := make(chan struct{})
	w.cl.onList = func() {
		started = true
		free := w.qt.lock.TryLock()
		if free {
			w.qt.lock.Unlock()
		}
		go func() {
			defer close(done)
			runNested()
		}()
		if free {
			select {
			case <-done:
				inside = true
			case <-time.After(5 * time.Second):
			}
		} else {
			for i := 0; i < 32; i++ {
				runtime.Gosched() // let it queue up on the lock
			}
		}
	}
	runDel()
	how := ""
	switch {
	case !started:
		w.cl.onList = nil
		runNested() // the delete was refused before it listed pods: plain sequence delete ; nested
		w.overlapNotStarted++
		how = "delete refused before listing pods, nested request sent afterwards"
	default:
		select {
		case <-done:
		case <-time.After(30 * time.Second):
			return "overlap:nested-request-never-returned", fmt.Sprintf("request %q, started while %q listed pods, did not return within 30s", on.line, od.line)
		}
		w.overlapStarted++
		if inside {
			w.overlapInside++
			how = "nested request COMPLETED INSIDE the delete's pod list (topology lock was free)"
		} else {
			w.overlapSerialised++
			how = "nested request blocked on the topology lock until the delete returned"
		}
	}
	order := []*c15Outcome{od, on}
	if inside {
		order = []*c15Outcome{on, od}
	}
	anyAccepted := false
	var lines []string
	for _, o := range order {
		acc, verdict, s, m := w.settle(o)
		anyAccepted = anyAccepted || acc
		lines = append(lines, o.line+" -> "+verdict)
		if s != "" && sig == "" {
			sig, msg = s, m
		}
	}
	w.hist = append(w.hist, "OVERLAP{ "+strings.Join(lines, " ; ")+" } "+how)
	if sig != "" {
		return sig, msg
	}
	if !anyAccepted {
		if after := c15Dump(w.qt); after != before {
			return "rejected:record-changed", fmt.Sprintf("both overlapping requests were rejected but the recorded topology changed\n--- before\n%s--- after\n%s", before, after)
		}
		w.dumpCache = before
		return "", ""
	}
	return w.check()
}

func c15Keys(m map[string]int64) string { return strings.Join(vk.SortedKeys(m), ",") }

func c15Subset(a, b []string) bool {
	in := map[string]bool{}
	for _, x := range b {
		in[x] = true
	}
	for _, x := range a {
		if !in[x] {
			return false
		}
	}
	return true
}

// check = agreement(model, recorded topology) + the well-formedness predicates of the statement on the model.
func (w *c15World) check() (string, string) {
	sum := w.qt.getQuotaTopologyInfo()
	// ---------- (A) the webhook's record says the same as the accepted history
	for _, n := range vk.SortedKeys(w.model) {
		if sum.QuotaInfoMap[n] == nil {
			return "record:admitted-quota-missing", fmt.Sprintf("quota %s was admitted but getQuotaTopologyInfo() does not list it", n)
		}
	}
	for _, n := range vk.SortedKeys(sum.QuotaInfoMap) {
		q := w.model[n]
		if q == nil {
			return "record:quota-never-admitted-or-deleted", fmt.Sprintf("getQuotaTopologyInfo() lists %s which is not in the admitted set", n)
		}
		s := sum.QuotaInfoMap[n]
		if s.Name != n || s.ParentName != q.parent {
			return "record:parent-differs", fmt.Sprintf("quota %s: record says name=%s parent=%q, admitted object says parent=%q", n, s.Name, s.ParentName, q.parent)
		}
		if s.IsParent != q.isParent {
			return "record:is-parent-differs", fmt.Sprintf("quota %s: record isParent=%v, admitted object %v", n, s.IsParent, q.isParent)
		}
		if c15MilliStr(c15Milli(s.Min)) != c15MilliStr(q.min) || c15MilliStr(c15Milli(s.Max)) != c15MilliStr(q.max) {
			return "record:min-max-differs", fmt.Sprintf("quota %s: record min=%s max=%s, admitted object min=%s max=%s", n, c15MilliStr(c15Milli(s.Min)),
				c15MilliStr(c15Milli(s.Max)), c15MilliStr(q.min), c15MilliStr(q.max))
		}
		if qi := w.qt.quotaInfoMap[n]; qi == nil || qi.TreeID != q.treeID {
			return "record:tree-id-differs", fmt.Sprintf("quota %s: recorded tree id differs from admitted object's %q", n, q.treeID)
		}
	}
	wantKids := map[string][]string{c15Root: nil}
	for _, n := range vk.SortedKeys(w.model) {
		wantKids[n] = append(wantKids[n], []string(nil)...)
		p := w.model[n].parent
		wantKids[p] = append(wantKids[p], n)
	}
	keys := map[string]bool{}
	for k := range wantKids {
		keys[k] = true
	}
	for k := range sum.QuotaHierarchyInfo {
		keys[k] = true
	}
	for _, k := range vk.SortedKeys(keys) {
		got := append([]string(nil), sum.QuotaHierarchyInfo[k]...)
		sort.Strings(got)
		want := wantKids[k] // already sorted: names were visited in sorted order
		if fmt.Sprint(got) != fmt.Sprint(want) {
			sig := "record:children-index-differs"
			if k == c15Root {
				// ValidAddQuota(root object) re-makes quotaHierarchyInfo[root] and thereby forgets the quotas already hanging
				// off the root. No clause of the statement depends on the root's child index (the root can be neither deleted
				// nor updated and its min sum is not checked), so a root index that merely LOST entries after the root object
				// was admitted is counted, not asserted (reported as an observation).
				if w.model[c15Root] != nil && c15Subset(got, want) {
					w.rootIndexStale++
					continue
				}
				sig = "record:children-of-root-differ"
			}
			return sig, fmt.Sprintf("children recorded for %q = %v, but the admitted objects whose parent is %q are %v", k, got, k, want)
		}
	}
	wantNS := map[string]string{}
	for _, n := range vk.SortedKeys(w.model) {
		for _, ns := range w.model[n].ns {
			if other, taken := wantNS[ns]; taken && other != n {
				return "namespace:bound-to-two-quotas", fmt.Sprintf("namespace %s is listed by the admitted quotas %s and %s", ns, other, n)
			}
			wantNS[ns] = n
		}
	}
	gotNS := map[string]string{}
	for k, v := range w.qt.namespaceToQuotaMap {
		gotNS[k] = v
	}
	if fmt.Sprint(gotNS) != fmt.Sprint(wantNS) { // fmt prints maps with sorted keys
		return "record:namespace-map-differs", fmt.Sprintf("namespaceToQuotaMap=%v, admitted annotations give %v", gotNS, wantNS)
	}

	// ---------- (B) well-formedness of the admitted set
	names := vk.SortedKeys(w.model)
	for _, n := range names {
		q := w.model[n]
		for _, k := range vk.SortedKeys(q.min) {
			mx, ok := q.max[k]
			if !ok {
				return "self:min-declared-without-max", fmt.Sprintf("quota %s declares min %s but max only %s", n, k, c15MilliStr(q.max))
			}
			if q.min[k] > mx {
				return "self:min-exceeds-max", fmt.Sprintf("quota %s %s: min %d milli > max %d milli", n, k, q.min[k], mx)
			}
		}
		if n == c15Root {
			continue
		}
		if q.parent != c15Root && w.model[q.parent] == nil {
			return "tree:parent-missing", fmt.Sprintf("quota %s has parent %q which is not an admitted quota", n, q.parent)
		}
	}
	for _, n := range names {
		if n == c15Root {
			continue
		}
		cur, steps := n, 0
		for cur != c15Root {
			q := w.model[cur]
			if q == nil {
				return "tree:parent-missing", fmt.Sprintf("walking up from %s reached %q which is not an admitted quota", n, cur)
			}
			cur = q.parent
			steps++
			if steps > len(names)+1 {
				sig := "tree:cycle"
				if w.lastWasParentChange {
					sig = "tree:cycle-after-parent-change"
				}
				return sig, fmt.Sprintf("following parent links from %s never reaches the root (%d quotas, %d steps): cycle", n, len(names), steps)
			}
		}
	}
	for _, n := range names {
		q := w.model[n]
		if n == c15Root || q.parent == c15Root {
			continue
		}
		p := w.model[q.parent]
		if !p.isParent {
			return "tree:parent-not-marked-parent", fmt.Sprintf("quota %s hangs under %s which is not marked is-parent", n, q.parent)
		}
		if p.treeID != q.treeID {
			w.treeIDEdgeDiffers++ // the statement does not speak about tree ids: counted only
		}
		if c15Keys(q.max) != c15Keys(p.max) {
			return "tree:max-dimensions-differ-along-edge", fmt.Sprintf("quota %s max dimensions [%s] differ from its parent %s's [%s]", n, c15Keys(q.max), p.name, c15Keys(p.max))
		}
		for _, k := range vk.SortedKeys(q.min) {
			if _, ok := p.min[k]; !ok {
				return "tree:min-dimension-not-in-parent", fmt.Sprintf("quota %s declares min %s which its parent %s (min %s) does not", n, k, p.name, c15MilliStr(p.min))
			}
		}
	}
	for _, n := range names {
		if n == c15Root {
			continue
		}
		kids := w.children(n)
		if len(kids) == 0 {
			continue
		}
		sumMin := map[string]int64{}
		for _, k := range kids {
			for r, v := range w.model[k].min {
				sumMin[r] += v
			}
		}
		for _, r := range vk.SortedKeys(sumMin) {
			if sumMin[r] > w.model[n].min[r] {
				return "tree:children-min-sum-exceeds-parent-min", fmt.Sprintf("children %v of %s have %s mins summing to %d milli > parent min %d milli", kids, n, r, sumMin[r], w.model[n].min[r])
			}
		}
	}
	return "", ""
}

func (w *c15World) modelStr() []string {
	var out []string
	for _, n := range vk.SortedKeys(w.model) {
		out = append(out, c15Render(w.model[n].obj))
	}
	return out
}

func (w *c15World) histStr() string { return "\n  " + strings.Join(w.hist, "\n  ") + "\n" }

// ---------------------------------------------------------------- rapid generators

// rapid biases every integer / SampledFrom draw towards small values and the range ends (good for shrinking, but a
// "1 in 40" branch at index 0 fires 11 % of the time, and the first action name of t.Repeat is chosen far more often than
// the last). All WEIGHT decisions therefore go through c15U, a uniform draw assembled from unbiased rapid.Bool bits; it
// still shrinks towards 0, so the plainest alternative of every switch sits at 0.
func c15U(t *rapid.T, n int, label string) int {
	if n <= 1 {
		return 0
	}
	return rapid.Custom(func(t *rapid.T) int {
		nbits := bits.Len(uint(n - 1))
		for tries := 0; ; tries++ {
			v := 0
			for i := nbits - 1; i >= 0; i-- {
				if rapid.Bool().Draw(t, "bit") {
					v |= 1 << i
				}
			}
			if v < n {
				return v
			}
			if tries >= 6 {
				return v % n
			}
		}
	}).Draw(t, label)
}

func c15Pick[T any](t *rapid.T, xs []T, label string) T { return xs[c15U(t, len(xs), label)] }

// c15Style is drawn once per case: the dimensions / tree id most quotas of the case use, so that moving a quota under
// another parent is often compatible (otherwise nearly every parent change dies on "keys differ" / "tree id differs").
type c15Style struct {
	keys []string
	tree string
}

func c15GenStyle(t *rapid.T) c15Style {
	var st c15Style
	switch c15U(t, 10, "styleKeys") {
	case 9:
		st.keys = nil
	case 7, 8:
		st.keys = []string{"memory"}
	case 4, 5, 6:
		st.keys = []string{"cpu", "memory"}
	default:
		st.keys = []string{"cpu"}
	}
	if c15U(t, 4, "styleTree") == 3 {
		st.tree = "t1"
	}
	return st
}

func c15GenQty(t *rapid.T, label string) int64 {
	switch c15U(t, 100, label+"Kind") {
	case 96, 97:
		return 1500
	case 98:
		return int64(1) << 40 * 1000
	case 99:
		return -1000
	default:
		return int64(c15U(t, 7, label)) * 1000
	}
}

func c15GenKeys(t *rapid.T, label string) []string {
	switch c15U(t, 10, label) {
	case 0:
		return nil
	case 1, 2:
		return []string{"cpu"}
	case 3:
		return []string{"memory"}
	default:
		return []string{"cpu", "memory"}
	}
}

func c15GenNS(t *rapid.T, w *c15World, self string) (set bool, ns []string) {
	switch c15U(t, 10, "nsMode") {
	case 0, 1, 2, 3, 4:
		return false, nil
	case 5:
		return true, nil // annotation present, empty list
	}
	taken := map[string]bool{}
	for n, q := range w.model {
		if n != self {
			for _, k := range q.ns {
				taken[k] = true
			}
		}
	}
	n := rapid.IntRange(1, 2).Draw(t, "nsCount")
	preferFree := c15U(t, 4, "nsPreferFree") > 0
	for i := 0; i < n; i++ {
		c := c15Pick(t, c15NSs, "ns")
		if preferFree && taken[c] {
			for _, alt := range c15NSs {
				if !taken[alt] {
					c = alt
					break
				}
			}
		}
		ns = append(ns, c)
	}
	return true, ns
}

func c15GenSharedWeight(t *rapid.T, o *v1alpha1.ElasticQuota) {
	switch c15U(t, 40, "swMode") {
	case 39:
		o.Annotations[c15ASharedW] = "{not json"
	case 38:
		o.Annotations[c15ASharedW] = `{"cpu":"-1"}`
	case 35, 36, 37:
		b, _ := json.Marshal(c15RL(map[string]int64{"cpu": int64(c15U(t, 5, "swCPU")) * 1000}))
		o.Annotations[c15ASharedW] = string(b)
	case 34:
		b, _ := json.Marshal(c15RL(map[string]int64{"cpu": 1000, "memory": 2000, "nvidia.com/gpu": 1000}))
		o.Annotations[c15ASharedW] = string(b)
	}
}

func (w *c15World) parents() []string { // admitted quotas marked is-parent
	var out []string
	for _, n := range vk.SortedKeys(w.model) {
		if w.model[n].isParent && n != c15Root {
			out = append(out, n)
		}
	}
	return out
}

// selfAndDescendants of an admitted quota (the model is acyclic as long as the case is alive; bounded anyway)
func (w *c15World) selfAndDescendants(name string) map[string]bool {
	out := map[string]bool{name: true}
	for round := 0; round <= len(w.model); round++ {
		grew := false
		for n, q := range w.model {
			if !out[n] && out[q.parent] {
				out[n] = true
				grew = true
			}
		}
		if !grew {
			break
		}
	}
	return out
}

// fittingParents lists other parents (and root) under which `name` would, by the harness's reading of the rules, be
// admissible. Generator guidance only; the oracle never looks at it.
func (w *c15World) fittingParents(name string) []string {
	q := w.model[name]
	below := w.selfAndDescendants(name)
	var out []string
	for _, p := range w.parents() {
		pq := w.model[p]
		if p == q.parent || below[p] || pq.treeID != q.treeID || c15Keys(pq.max) != c15Keys(q.max) {
			continue
		}
		ok := true
		for _, r := range vk.SortedKeys(q.min) {
			if _, has := pq.min[r]; !has || q.min[r] > w.remaining(p, r, name) {
				ok = false
			}
		}
		if ok {
			out = append(out, p)
		}
	}
	if q.parent != c15Root && name != c15Root {
		out = append(out, c15Root)
	}
	return out
}

// remaining min budget under parent p for resource r, not counting child `except`
func (w *c15World) remaining(p, r, except string) int64 {
	rem := w.model[p].min[r]
	for _, k := range w.children(p) {
		if k != except {
			rem -= w.model[k].min[r]
		}
	}
	return rem
}

func c15PickAround(t *rapid.T, bound int64, label string) int64 {
	if bound < 0 {
		bound = 0
	}
	switch c15U(t, 8, label+"Pick") {
	case 0, 1:
		return 0
	case 2:
		if bound >= 1000 {
			return 1000
		}
		return 0
	case 3:
		return bound
	case 4:
		return bound + 1000
	case 5:
		if bound >= 1000 {
			return bound - 1000
		}
		return 0
	default:
		return int64(rapid.IntRange(0, int(bound/1000)).Draw(t, label)) * 1000
	}
}

// c15GenCreate: a fresh object. under != "": constructed below that admitted parent (same dimensions, min inside the
// remaining budget or exactly at / one above the boundary). Otherwise a top-level or arbitrary object.
func c15GenCreate(t *rapid.T, w *c15World, under string) *v1alpha1.ElasticQuota {
	var name string
	if c15U(t, 12, "nameMode") == 11 {
		name = c15Pick(t, c15Names, "name") // possibly a stored one
	} else {
		var free []string
		for _, n := range c15Names {
			if w.model[n] == nil {
				free = append(free, n)
			}
		}
		if len(free) == 0 {
			free = c15Names
		}
		name = c15Pick(t, free, "name")
	}
	o := c15NewObj(name)
	parent := ""
	if under != "" {
		parent = under
		o.Labels[c15LParent] = under
	} else {
		mode := c15U(t, 12, "parentMode")
		switch {
		case mode <= 2: // label absent -> the mutating webhook fills in root
		case mode <= 10:
			parent = c15Root
			o.Labels[c15LParent] = c15Root
		default: // anything: missing quota, itself, a leaf quota
			parent = c15Pick(t, append(append([]string{}, c15Names...), c15Default), "parentAny")
			o.Labels[c15LParent] = parent
		}
	}
	isParent := false
	switch c15U(t, 10, "isParent") {
	case 9:
	case 6, 7, 8:
		o.Labels[c15LIsParent] = "false"
	default:
		o.Labels[c15LIsParent] = "true"
		isParent = true
	}
	var pq *c15Q
	if parent != c15Root {
		pq = w.model[parent]
	}
	switch c15U(t, 12, "tree") {
	case 8:
		o.Labels[c15LTreeID] = "t1"
	case 9:
		o.Labels[c15LTreeID] = "t2"
	case 10:
		o.Labels[c15LTreeID] = ""
	case 11:
		if pq != nil {
			o.Labels[c15LTreeID] = pq.treeID
		}
	default: // natural: inherit from the parent through the mutating webhook, or the style's tree at top level
		if pq == nil && w.style.tree != "" {
			o.Labels[c15LTreeID] = w.style.tree
		}
	}
	arbitrary := c15U(t, 12, "arbitrarySpec") == 11
	if pq != nil && !arbitrary {
		maxM, minM := map[string]int64{}, map[string]int64{}
		for _, r := range vk.SortedKeys(pq.max) {
			maxM[r] = c15GenQty(t, "max_"+r)
		}
		for _, r := range vk.SortedKeys(pq.min) {
			if _, ok := maxM[r]; !ok || c15U(t, 6, "minSkip_"+r) == 0 {
				continue
			}
			minM[r] = c15PickAround(t, w.remaining(parent, r, name), "min_"+r)
			if minM[r] > maxM[r] && c15U(t, 12, "liftMax_"+r) > 0 {
				maxM[r] = minM[r]
			}
		}
		o.Spec.Max, o.Spec.Min = c15RL(maxM), c15RL(minM)
		if len(minM) == 0 && (c15U(t, 2, "nilMin") == 1) {
			o.Spec.Min = nil
		}
	} else {
		maxKeys := w.style.keys
		if arbitrary || c15U(t, 6, "maxKeysFree") == 0 {
			maxKeys = c15GenKeys(t, "maxKeys")
		}
		maxM := map[string]int64{}
		for _, r := range maxKeys {
			maxM[r] = c15GenQty(t, "max_"+r)
		}
		minKeys := maxKeys
		if c15U(t, 10, "minKeysFree") == 0 {
			minKeys = c15GenKeys(t, "minKeys")
		}
		minM := map[string]int64{}
		for _, r := range minKeys {
			if c15U(t, 8, "minSkip_"+r) == 0 {
				continue
			}
			var v int64
			if isParent && c15U(t, 4, "roomyMin_"+r) > 0 {
				v = int64(rapid.IntRange(2, 6).Draw(t, "min_"+r)) * 1000 // room for children
			} else {
				v = c15GenQty(t, "min_"+r)
			}
			if mx, ok := maxM[r]; ok && v > mx && c15U(t, 12, "liftMax_"+r) > 0 {
				maxM[r] = v
			}
			minM[r] = v
		}
		o.Spec.Max, o.Spec.Min = c15RL(maxM), c15RL(minM)
		if len(maxM) == 0 && (c15U(t, 2, "nilMax") == 1) {
			o.Spec.Max = nil
		}
		if len(minM) == 0 && (c15U(t, 2, "nilMin") == 1) {
			o.Spec.Min = nil
		}
	}
	if set, ns := c15GenNS(t, w, name); set {
		o.Annotations[c15ANamespaces] = c15NSJSON(ns)
	}
	c15GenSharedWeight(t, o)
	return o
}

// c15GenSpecial: the three objects the scheduler plugin creates itself (plugin_helper.go create*QuotaIfNotPresent)
func c15GenSpecial(t *rapid.T) *v1alpha1.ElasticQuota {
	var o *v1alpha1.ElasticQuota
	switch c15U(t, 3, "special") {
	case 0:
		o = c15NewObj(c15Root)
		o.Labels[c15LIsParent], o.Labels[c15LAllowLent], o.Labels[c15LParent] = "true", "false", ""
	case 1:
		o = c15NewObj(c15System)
		o.Labels = nil
		o.Spec.Max = c15RL(map[string]int64{"cpu": 4000, "memory": 4000})
	default:
		o = c15NewObj(c15Default)
		o.Labels = nil
		o.Spec.Max = c15RL(map[string]int64{"cpu": 4000, "memory": 4000})
	}
	return o
}

// c15GenUpdate: the stored object with one or two edits (what `kubectl edit` produces), aimed at boundaries.
func c15GenUpdate(t *rapid.T, w *c15World, name string) *v1alpha1.ElasticQuota {
	q := w.model[name]
	o := q.obj.DeepCopy()
	if o.Labels == nil {
		o.Labels = map[string]string{}
	}
	if o.Annotations == nil {
		o.Annotations = map[string]string{}
	}
	edits := rapid.IntRange(1, 2).Draw(t, "edits")
	for i := 0; i < edits; i++ {
		switch c15Pick(t, []string{"min", "min", "min", "min", "max", "max", "isParent", "isParent", "ns", "ns", "parent", "tree", "sw", "noop", "dropMin", "maxKey", "lent"}, "edit") {
		case "min":
			keys := vk.SortedKeys(c15Milli(o.Spec.Max))
			if len(keys) == 0 || c15U(t, 10, "minAnyKey") == 0 {
				keys = c15Res
			}
			r := c15Pick(t, keys, "minRes")
			var kidsSum int64
			for _, k := range w.children(name) {
				kidsSum += w.model[k].min[r]
			}
			var v int64
			switch c15U(t, 6, "minAim") {
			case 0: // lower boundary: exactly what the children need
				v = kidsSum
			case 1:
				v = kidsSum - 1000
				if v < 0 {
					v = 0
				}
			case 2, 3: // upper boundary: what the parent has left (or own max when under root)
				if q.parent != c15Root && w.model[q.parent] != nil {
					v = c15PickAround(t, w.remaining(q.parent, r, name), "minUp")
				} else {
					v = c15PickAround(t, q.max[r], "minUp")
				}
			default:
				v = c15GenQty(t, "minVal")
			}
			if o.Spec.Min == nil {
				o.Spec.Min = corev1.ResourceList{}
			}
			o.Spec.Min[corev1.ResourceName(r)] = *resource.NewMilliQuantity(v, resource.DecimalSI)
			if mx, ok := q.max[r]; ok && v > mx && c15U(t, 4, "liftMax") > 0 {
				o.Spec.Max[corev1.ResourceName(r)] = *resource.NewMilliQuantity(v, resource.DecimalSI)
			}
		case "dropMin":
			if len(o.Spec.Min) > 0 {
				r := c15Pick(t, vk.SortedKeys(c15Milli(o.Spec.Min)), "dropMinRes")
				delete(o.Spec.Min, corev1.ResourceName(r))
			}
		case "max":
			keys := vk.SortedKeys(c15Milli(o.Spec.Max))
			if len(keys) == 0 {
				continue
			}
			r := c15Pick(t, keys, "maxRes")
			v := c15PickAround(t, q.min[r], "maxVal")
			o.Spec.Max[corev1.ResourceName(r)] = *resource.NewMilliQuantity(v, resource.DecimalSI)
		case "maxKey":
			r := c15Pick(t, c15Res, "maxKeyRes")
			if _, ok := o.Spec.Max[corev1.ResourceName(r)]; ok {
				delete(o.Spec.Max, corev1.ResourceName(r))
				if (c15U(t, 2, "dropMinToo") == 1) {
					delete(o.Spec.Min, corev1.ResourceName(r))
				}
			} else {
				if o.Spec.Max == nil {
					o.Spec.Max = corev1.ResourceList{}
				}
				o.Spec.Max[corev1.ResourceName(r)] = *resource.NewMilliQuantity(c15GenQty(t, "maxKeyVal"), resource.DecimalSI)
			}
		case "isParent":
			if q.isParent {
				if (c15U(t, 2, "dropLabel") == 1) {
					delete(o.Labels, c15LIsParent)
				} else {
					o.Labels[c15LIsParent] = "false"
				}
			} else {
				o.Labels[c15LIsParent] = "true"
			}
		case "ns":
			if set, ns := c15GenNS(t, w, name); set {
				o.Annotations[c15ANamespaces] = c15NSJSON(ns)
			} else {
				delete(o.Annotations, c15ANamespaces)
			}
		case "parent":
			c15EditParent(t, w, name, o)
		case "tree":
			o.Labels[c15LTreeID] = c15Pick(t, []string{"", "t1", "t2"}, "treeVal")
		case "sw":
			delete(o.Annotations, c15ASharedW)
			c15GenSharedWeight(t, o)
		case "lent":
			o.Labels[c15LAllowLent] = c15Pick(t, []string{"true", "false"}, "lentVal")
		case "noop":
		}
	}
	return o
}

// c15EditParent points the object at another parent: mostly an admitted is-parent quota different from the current
// parent; one time in eight the candidates include the quota itself and its own descendants; sometimes root / no label /
// any name.
func c15EditParent(t *rapid.T, w *c15World, name string, o *v1alpha1.ElasticQuota) {
	q := w.model[name]
	// constructed: a target under which, by the model, the quota fits (dimensions, tree id, min budget, not below itself)
	if fit := w.fittingParents(name); len(fit) > 0 && c15U(t, 10, "newParentFits") < 6 {
		o.Labels[c15LParent] = c15Pick(t, fit, "newParent")
		return
	}
	avoid := map[string]bool{}
	if c15U(t, 8, "allowSelfOrDescendant") < 7 {
		avoid = w.selfAndDescendants(name)
	}
	var cands []string
	for _, p := range w.parents() {
		if p != q.parent && !avoid[p] {
			cands = append(cands, p)
		}
	}
	if q.parent != c15Root {
		cands = append(cands, c15Root)
	}
	mode := c15U(t, 12, "newParentMode")
	switch {
	case mode <= 9 && len(cands) > 0:
		o.Labels[c15LParent] = c15Pick(t, cands, "newParent")
	case mode == 10:
		delete(o.Labels, c15LParent)
	default:
		o.Labels[c15LParent] = c15Pick(t, c15Names, "newParentAny")
	}
}

func (w *c15World) classes(c *vk.Case) {
	for _, k := range []string{"create", "update", "delete"} {
		c.ClassIf(w.accepted[k] > 0, "accepted-"+k)
		c.ClassIf(w.rejected[k] > 0, "rejected-"+k)
	}
	for _, why := range vk.SortedKeys(w.rejWhy) {
		c.Class("reject-reason:" + why)
	}
	c.ClassIf(w.reparentAcc > 0, "accepted-parent-change")
	c.ClassIf(w.reparentWithKidsAcc > 0, "accepted-parent-change-of-quota-with-children")
	c.ClassIf(w.reparentRejected > 0, "rejected-parent-change")
	c.ClassIf(w.echoes > 0, "informer-event-delivered")
	c.ClassIf(w.overlapStarted > 0, "nested-request-during-delete-list")
	c.ClassIf(w.overlapInside > 0, "nested-request-during-delete-list:completed-inside")
	c.ClassIf(w.overlapSerialised > 0, "nested-request-during-delete-list:serialised")
	c.ClassIf(w.overlapNotStarted > 0, "nested-request-not-started(delete refused before its pod list)")
	c.ClassIf(w.deletedWithNamespacePods > 0, "deleted-quota-with-namespace-bound-pods(not asserted)")
	c.ClassIf(w.staleSharedWeightNotAsserted > 0, "update-of-shared-weight/allow-lent(record not asserted)")
	c.ClassIf(w.rootIndexStale > 0, "root-child-index-forgot-quotas-after-root-create(not asserted)")
	c.ClassIf(w.treeIDEdgeDiffers > 0, "tree-id-differs-along-edge(not asserted)")
	depth := 0
	for _, n := range vk.SortedKeys(w.model) {
		d, cur := 0, n
		for cur != c15Root && w.model[cur] != nil && d <= len(w.model) {
			cur = w.model[cur].parent
			d++
		}
		if d > depth {
			depth = d
		}
	}
	c.ClassIf(depth >= 2, "final-depth>=2")
	c.ClassIf(depth >= 3, "final-depth>=3")
	c.ClassIf(len(w.qt.namespaceToQuotaMap) > 0, "final-has-namespace-binding")
	tree := false
	for _, q := range w.model {
		if q.treeID != "" {
			tree = true
		}
	}
	c.ClassIf(tree, "final-has-tree-id")
	c.ClassIf(w.model[c15Root] != nil, "root-object-created")
	c.ClassIf(len(w.pods) > 0, "final-has-pods")
}

// ---------------------------------------------------------------- (1) rapid state machine over request histories

func TestVerifC15History(t *testing.T) {
	c15PinGates(t)
	rec := vk.New(t, "C15", "history")
	rapid.Check(t, func(t *rapid.T) {
		c := rec.Begin()
		defer c.End()
		w := c15NewWorld(nil)
		w.style = c15GenStyle(t)
		dead := false
		send := func(t *rapid.T, r c15Req) {
			r.Echo = c15U(t, 4, "informerEcho") == 3
			_, sig, msg := w.do(r)
			if sig != "" {
				if c.Violation(t, sig, "%s\nhistory:%s", msg, w.histStr()) {
					dead = true
				}
			}
		}
		existing := func(t *rapid.T) string {
			names := vk.SortedKeys(w.model)
			if len(names) == 0 {
				t.Skip("nothing stored")
			}
			// the scheduler-owned objects are targeted less often than user quotas
			var user []string
			for _, n := range names {
				if n != c15Root && n != c15System && n != c15Default {
					user = append(user, n)
				}
			}
			if len(user) > 0 && c15U(t, 8, "targetUser") > 0 {
				return c15Pick(t, user, "target")
			}
			return c15Pick(t, names, "target")
		}
		create := func(t *rapid.T) {
			if dead {
				return
			}
			var o *v1alpha1.ElasticQuota
			if c15U(t, 12, "createSpecial") == 11 {
				o = c15GenSpecial(t)
			} else {
				o = c15GenCreate(t, w, "")
			}
			send(t, c15Req{Kind: "create", Name: o.Name, Obj: o})
		}
		createUnder := func(t *rapid.T) {
			if dead {
				return
			}
			parents := w.parents()
			under := ""
			if len(parents) > 0 {
				under = c15Pick(t, parents, "under")
			}
			o := c15GenCreate(t, w, under)
			send(t, c15Req{Kind: "create", Name: o.Name, Obj: o})
		}
		update := func(t *rapid.T) {
			if dead {
				return
			}
			name := existing(t)
			send(t, c15Req{Kind: "update", Name: name, Obj: c15GenUpdate(t, w, name)})
		}
		reparent := func(t *rapid.T) {
			if dead {
				return
			}
			names := vk.SortedKeys(w.model)
			var withKids []string
			for _, n := range names {
				if len(w.children(n)) > 0 && n != c15Root {
					withKids = append(withKids, n)
				}
			}
			var name string
			if len(withKids) > 0 && c15U(t, 4, "preferWithChildren") > 0 {
				name = c15Pick(t, withKids, "target")
			} else {
				name = existing(t)
			}
			o := w.model[name].obj.DeepCopy()
			if o.Labels == nil {
				o.Labels = map[string]string{}
			}
			c15EditParent(t, w, name, o)
			send(t, c15Req{Kind: "update", Name: name, Obj: o})
		}
		del := func(t *rapid.T) {
			if c15U(t, 3, "overlap") != 2 {
				send(t, c15Req{Kind: "delete", Name: existing(t)})
				return
			}
			// overlapping-request rule: a second request is in flight while the DELETE lists pods
			var likely, user []string // likely = deletes that will get as far as the pod list and pass it
			for _, n := range vk.SortedKeys(w.model) {
				if n == c15Root || n == c15System || n == c15Default {
					continue
				}
				user = append(user, n)
				if w.model[n].isParent && len(w.children(n)) == 0 && w.labelPods(n) == 0 {
					likely = append(likely, n)
				}
			}
			if len(user) == 0 {
				send(t, c15Req{Kind: "delete", Name: existing(t)})
				return
			}
			target := ""
			if len(likely) > 0 && c15U(t, 4, "overlapLikelyTarget") < 3 {
				target = c15Pick(t, likely, "target")
			} else {
				target = c15Pick(t, user, "target")
			}
			var others []string
			for _, n := range user {
				if n != target {
					others = append(others, n)
				}
			}
			var nested c15Req
			switch k := c15U(t, 8, "nestedKind"); {
			case k <= 3 || len(others) == 0: // a child is created under the quota being deleted
				o := c15GenCreate(t, w, target)
				nested = c15Req{Kind: "create", Name: o.Name, Obj: o}
			case k <= 5: // another quota is moved under the quota being deleted
				x := c15Pick(t, others, "nestedTarget")
				o := w.model[x].obj.DeepCopy()
				if o.Labels == nil {
					o.Labels = map[string]string{}
				}
				o.Labels[c15LParent] = target
				nested = c15Req{Kind: "update", Name: x, Obj: o}
			case k == 6: // any update of another quota
				x := c15Pick(t, others, "nestedTarget")
				nested = c15Req{Kind: "update", Name: x, Obj: c15GenUpdate(t, w, x)}
			default: // any create
				o := c15GenCreate(t, w, "")
				nested = c15Req{Kind: "create", Name: o.Name, Obj: o}
			}
			if sig, msg := w.doOverlap(c15Req{Kind: "delete", Name: target}, nested); sig != "" {
				if c.Violation(t, sig, "%s\nhistory:%s", msg, w.histStr()) {
					dead = true
				}
			}
		}
		pod := func(t *rapid.T) {
			pods := vk.SortedKeys(w.pods)
			if len(pods) > 0 && c15U(t, 3, "podDel") == 2 {
				w.delPod(c15Pick(t, pods, "pod"))
				return
			}
			ns := c15Pick(t, append(append([]string{"default"}, c15NSs...), c15Names...), "podNS")
			q := ""
			if c15U(t, 4, "podLabelled") > 0 {
				q = c15Pick(t, c15Names, "podQuota")
			}
			w.addPod(ns, q)
		}
		// one action with explicit weights (rapid picks the actions of a map with a bias towards the first names)
		kinds := []struct {
			name string
			fn   func(*rapid.T)
		}{{"createUnder", createUnder}, {"createUnder", createUnder}, {"createUnder", createUnder}, {"create", create}, {"create", create},
			{"update", update}, {"update", update}, {"update", update}, {"update", update},
			{"reparent", reparent}, {"reparent", reparent}, {"reparent", reparent}, {"reparent", reparent},
			{"delete", del}, {"delete", del}, {"pod", pod}}
		t.Repeat(map[string]func(*rapid.T){
			"request": func(t *rapid.T) {
				if dead {
					return
				}
				k := c15Pick(t, kinds, "kind")
				if len(w.model) == 0 && (k.name == "update" || k.name == "reparent" || k.name == "delete") {
					k = kinds[3] // nothing stored yet: create instead
				}
				k.fn(t)
			},
		})
		w.classes(c)
		if w.reparentWithKidsAcc > 0 {
			c.NonTrivial(w.hist)
		}
		if c.WantSample() {
			c.Sample(map[string]any{"history": append([]string(nil), w.hist...), "admitted": w.modelStr()})
		}
	})
}

// ---------------------------------------------------------------- (1b) histories with failing pod Lists

// TestVerifC15ListFault: the same request histories, but the API client the topology was given sometimes FAILS the pod
// List it is asked for while a request is validated. The oracle is unchanged (it never looks at the fault): a quota that
// has labelled pods must not leave the admitted set, a rejected request must leave the record byte-identical, model ==
// record. "List failed => request rejected" is NOT asserted as such: admitting the delete of a quota without pods during
// a fault breaks no clause of the statement (it is counted).
func TestVerifC15ListFault(t *testing.T) {
	c15PinGates(t)
	rec := vk.New(t, "C15", "listFault")
	rapid.Check(t, func(t *rapid.T) {
		c := rec.Begin()
		defer c.End()
		w := c15NewWorld(nil)
		w.style = c15GenStyle(t)
		dead := false
		faultReqs, faultDeletes, faultDeletesWithPods, faultIsParent, admittedDespiteFault := 0, 0, 0, 0, 0
		// send arms the fault mask for exactly this request
		send := func(t *rapid.T, r c15Req, mask int) {
			shape := false
			if mask != 0 {
				w.hist = append(w.hist, fmt.Sprintf("fault: pod List calls with index in bitmask %b fail during the next request", mask))
				if r.Kind == "delete" && len(w.children(r.Name)) == 0 && w.labelPods(r.Name) > 0 {
					shape = true
				}
			}
			w.cl.failMask, w.cl.listCalls, w.cl.faultsHit = mask, 0, 0
			acc, sig, msg := w.do(r)
			hit := w.cl.faultsHit
			w.cl.failMask, w.cl.listCalls, w.cl.faultsHit = 0, 0, 0
			if hit > 0 {
				faultReqs++
				if r.Kind == "delete" {
					faultDeletes++
					if shape {
						faultDeletesWithPods++
					}
				} else {
					faultIsParent++
				}
				if acc {
					admittedDespiteFault++
				}
			}
			if sig != "" {
				if c.Violation(t, sig, "%s\nhistory:%s", msg, w.histStr()) {
					dead = true
				}
			}
		}
		genMask := func(t *rapid.T) int {
			switch c15U(t, 8, "faultMask") {
			case 4, 5:
				return 1 // the first List of the request (the quota-name label lookup)
			case 6:
				return 0xffff // every List
			case 7:
				return 1 << c15U(t, 3, "faultCall") // one particular call
			}
			return 0
		}
		user := func() []string {
			var out []string
			for _, n := range vk.SortedKeys(w.model) {
				if n != c15Root && n != c15System && n != c15Default {
					out = append(out, n)
				}
			}
			return out
		}
		kinds := []string{"createUnder", "createUnder", "create", "create", "pod", "pod", "pod", "delete", "delete", "delete", "delete", "isParent", "isParent", "update"}
		t.Repeat(map[string]func(*rapid.T){
			"request": func(t *rapid.T) {
				if dead {
					return
				}
				k := c15Pick(t, kinds, "kind")
				names := user()
				if len(names) == 0 && (k == "delete" || k == "isParent" || k == "update") {
					k = "create"
				}
				switch k {
				case "create":
					o := c15GenCreate(t, w, "")
					send(t, c15Req{Kind: "create", Name: o.Name, Obj: o}, 0)
				case "createUnder":
					under := ""
					if ps := w.parents(); len(ps) > 0 {
						under = c15Pick(t, ps, "under")
					}
					o := c15GenCreate(t, w, under)
					send(t, c15Req{Kind: "create", Name: o.Name, Obj: o}, 0)
				case "pod":
					pods := vk.SortedKeys(w.pods)
					if len(pods) > 0 && c15U(t, 4, "podDel") == 3 {
						w.delPod(c15Pick(t, pods, "pod"))
						return
					}
					q := ""
					if len(names) > 0 && c15U(t, 8, "podOfStoredQuota") < 6 {
						q = c15Pick(t, names, "podQuota") // a pod linked to an admitted quota by the label
					} else if c15U(t, 2, "podLabelled") == 1 {
						q = c15Pick(t, c15Names, "podQuota")
					}
					w.addPod(c15Pick(t, append([]string{"default"}, c15NSs...), "podNS"), q)
				case "delete":
					var withPods []string // childless quotas that labelled pods link to: the delete must not be admitted
					for _, n := range names {
						if len(w.children(n)) == 0 && w.labelPods(n) > 0 {
							withPods = append(withPods, n)
						}
					}
					target := ""
					if len(withPods) > 0 && c15U(t, 4, "deleteQuotaWithPods") < 3 {
						target = c15Pick(t, withPods, "target")
					} else {
						target = c15Pick(t, names, "target")
					}
					send(t, c15Req{Kind: "delete", Name: target}, genMask(t))
				case "isParent": // the other caller of the pod lists: is-parent false -> true
					x := c15Pick(t, names, "target")
					o := w.model[x].obj.DeepCopy()
					if o.Labels == nil {
						o.Labels = map[string]string{}
					}
					if w.model[x].isParent {
						o.Labels[c15LIsParent] = "false"
					} else {
						o.Labels[c15LIsParent] = "true"
					}
					send(t, c15Req{Kind: "update", Name: x, Obj: o}, genMask(t))
				case "update":
					x := c15Pick(t, names, "target")
					send(t, c15Req{Kind: "update", Name: x, Obj: c15GenUpdate(t, w, x)}, genMask(t))
				}
			},
		})
		w.classes(c)
		c.ClassIf(faultReqs > 0, "pod-list-fault-hit-a-request")
		c.ClassIf(faultDeletes > 0, "pod-list-fault-during-delete")
		c.ClassIf(faultDeletesWithPods > 0, "pod-list-fault-during-delete-of-childless-quota-with-labelled-pods")
		c.ClassIf(faultIsParent > 0, "pod-list-fault-during-update(is-parent change)")
		c.ClassIf(admittedDespiteFault > 0, "request-admitted-although-a-pod-list-failed(not asserted as such)")
		if faultDeletesWithPods > 0 {
			c.NonTrivial(w.hist)
		}
		if c.WantSample() {
			c.Sample(map[string]any{"history": append([]string(nil), w.hist...), "admitted": w.modelStr()})
		}
	})
}

// ---------------------------------------------------------------- (2) exhaustive small scope

func c15SmallObj(name, parent string, isParent bool, minCPU int64, ns bool, twoDims bool) *v1alpha1.ElasticQuota {
	o := c15NewObj(name)
	o.Labels[c15LParent] = parent
	if isParent {
		o.Labels[c15LIsParent] = "true"
	} else {
		o.Labels[c15LIsParent] = "false"
	}
	o.Spec.Min = c15RL(map[string]int64{"cpu": minCPU * 1000})
	if twoDims {
		o.Spec.Max = c15RL(map[string]int64{"cpu": 2000, "memory": 2000})
	} else {
		o.Spec.Max = c15RL(map[string]int64{"cpu": 2000})
	}
	if ns {
		o.Annotations[c15ANamespaces] = `["n1"]`
	}
	return o
}

// TestVerifC15Exhaustive enumerates every request sequence of length <= depth over a 3-name universe with two values
// per field. A sequence that contains a rejected request is, by the "rejected => record byte-identical" clause that is
// verified on every rejected request, equivalent to the same sequence without that request, which is enumerated too;
// therefore the search only descends below accepted requests.
func TestVerifC15Exhaustive(t *testing.T) {
	c15PinGates(t)
	rec := vk.New(t, "C15", "exhaustive")
	rec.Exhaustive()
	depth := 3
	twoDimsValues := []bool{false}
	shards, shard := 1, 0
	if vk.Thorough() {
		depth = 4
		if n, err := strconv.Atoi(os.Getenv("VERIF_C15_SHARDS")); err == nil && n > 1 {
			shards = n
			shard = int((vk.Seed() - 1) % 1000 % uint64(n))
		}
	}
	names := []string{"a", "b", "c"}
	rec.Note("scope", fmt.Sprintf("all sequences of <=%d create/update/delete requests over names %v; per request: parent in {root,a,b,c} (incl. itself), "+
		"is-parent in {true,false}, min.cpu in {1,2}, max={cpu:2}, namespaces in {none,[n1]}; update/delete only for stored objects (the API server answers 404 "+
		"otherwise); two pod environments (no pods / one pod labelled with quota a); descent only below accepted requests (see test comment); shard %d of %d "+
		"partitions the first request", depth, names, shard, shards))

	var bodies func(name string) []*v1alpha1.ElasticQuota
	bodies = func(name string) []*v1alpha1.ElasticQuota {
		var out []*v1alpha1.ElasticQuota
		for _, parent := range []string{c15Root, "a", "b", "c"} {
			for _, isP := range []bool{true, false} {
				for _, mn := range []int64{1, 2} {
					for _, ns := range []bool{false, true} {
						for _, td := range twoDimsValues {
							out = append(out, c15SmallObj(name, parent, isP, mn, ns, td))
						}
					}
				}
			}
		}
		return out
	}
	bodyCache := map[string][]*v1alpha1.ElasticQuota{}
	for _, n := range names {
		bodyCache[n] = bodies(n)
	}
	requests := func(w *c15World) []c15Req {
		var out []c15Req
		for _, n := range names {
			for _, o := range bodyCache[n] {
				out = append(out, c15Req{Kind: "create", Name: n, Obj: o})
			}
		}
		for _, n := range names {
			if w.model[n] == nil {
				continue
			}
			for _, o := range bodyCache[n] {
				out = append(out, c15Req{Kind: "update", Name: n, Obj: o})
			}
			out = append(out, c15Req{Kind: "delete", Name: n})
		}
		return out
	}

	for _, withPod := range []bool{false, true} {
		cl := c15NewClient() // pods never change inside one environment, so the client is shared by all worlds of it
		if withPod {
			cl.pods["p0"] = &corev1.Pod{ObjectMeta: metav1.ObjectMeta{Name: "p0", Namespace: "default", Labels: map[string]string{c15LQuotaName: "a"}}}
		}
		build := func(prefix []c15Req) *c15World {
			w := c15NewWorld(cl)
			if withPod {
				w.pods["p0"] = c15Pod{"default", "a"}
				w.hist = append(w.hist, `env: pod p0 ns=default quotaLabel="a"`)
			}
			for _, r := range prefix {
				acc, sig, _ := w.do(r)
				if !acc || sig != "" {
					t.Fatalf("VERIF-SIG[harness:replay-diverged] property=C15 unit=exhaustive: prefix replay diverged at %v: %s", r, w.histStr())
				}
			}
			return w
		}
		// breadth first (all sequences of length L before any of length L+1), so the first violation reported is a shortest one
		level := [][]c15Req{nil}
		for d := 0; d < depth && len(level) > 0; d++ {
			var next [][]c15Req
			for _, prefix := range level {
				w := build(prefix)
				for i, r := range requests(w) {
					if len(prefix) == 0 && i%shards != shard {
						continue
					}
					c := rec.Begin()
					acc, sig, msg := w.do(r)
					c.Class(fmt.Sprintf("length-%d", len(prefix)+1))
					c.ClassIf(withPod, "env-with-pod")
					w.classes(c)
					c.ClassIf(w.lastReparentAttemptWithKids, "last-request-is-parent-change-of-quota-with-children")
					if w.lastReparentAttemptWithKids {
						c.NonTrivial(w.hist)
					}
					if w.lastReparentAttemptWithKids && c.WantSample() {
						c.Sample(map[string]any{"history": append([]string(nil), w.hist...)})
					}
					abandoned := false
					if sig != "" {
						abandoned = c.Violation(t, sig, "%s\nhistory:%s", msg, w.histStr())
					}
					c.End()
					if acc {
						if !abandoned && d+1 < depth {
							next = append(next, append(append([]c15Req(nil), prefix...), r))
						}
						w = build(prefix)
					} else {
						// rejected: the record was verified byte-identical; keep using this world, drop the history line
						// (the prefix of this world holds accepted requests only, so all "rejected" tallies go back to zero)
						w.hist = w.hist[:len(w.hist)-1]
						w.rejected, w.rejWhy, w.reparentRejected = map[string]int{}, map[string]int{}, 0
					}
				}
			}
			level = next
		}
	}
}
