//go:build verif

// C18 — Load-aware rebalancing evicts only from overloaded nodes and only while it helps.
// See /verif/DESIGN.md §1 C18. In-package harness (injected with -overlay).
//
// One generated case = one LowNodeLoad plugin instance (1–2 disjoint node pools, 2–6 nodes) driven through
// 1–6 successive Balance rounds with regenerated pods / NodeMetrics, a recording evictor, and an oracle that
// re-derives thresholds (exact rationals), usages, running estimates, headroom and abnormality streaks from the
// generated inputs only.
package loadaware

import (
	"context"
	"encoding/json"
	"flag"
	"fmt"
	"io"
	"math/big"
	"testing"
	"time"

	gocache "github.com/patrickmn/go-cache"
	corev1 "k8s.io/api/core/v1"
	"k8s.io/apimachinery/pkg/api/resource"
	metav1 "k8s.io/apimachinery/pkg/apis/meta/v1"
	"k8s.io/apimachinery/pkg/util/sets"
	"k8s.io/client-go/tools/cache"
	"k8s.io/klog/v2"
	"pgregory.net/rapid"

	"github.com/koordinator-sh/koordinator/apis/extension"
	slov1alpha1 "github.com/koordinator-sh/koordinator/apis/slo/v1alpha1"
	koordfake "github.com/koordinator-sh/koordinator/pkg/client/clientset/versioned/fake"
	koordslolisters "github.com/koordinator-sh/koordinator/pkg/client/listers/slo/v1alpha1"
	deschedulerconfig "github.com/koordinator-sh/koordinator/pkg/descheduler/apis/config"
	"github.com/koordinator-sh/koordinator/pkg/descheduler/apis/config/validation"
	"github.com/koordinator-sh/koordinator/pkg/descheduler/framework"
	podutil "github.com/koordinator-sh/koordinator/pkg/descheduler/pod"
	"github.com/koordinator-sh/koordinator/pkg/verifkit/vk"
)

// ---------------------------------------------------------------- case description (plain data, printed on violation)

const (
	c18CPU  = corev1.ResourceCPU
	c18Mem  = corev1.ResourceMemory
	c18Pods = corev1.ResourcePods
)

var c18AllRes = []corev1.ResourceName{c18CPU, c18Mem, c18Pods}

type c18Anom struct {
	N, M    uint32
	Timeout string // time.Duration string
}

// thresholds are kept in half-percent units so that the float64 handed to koordinator is exact
type c18PoolSpec struct {
	Name      string
	Label     string // "" = nil selector (all nodes)
	Deviation bool
	NodeThr   map[corev1.ResourceName][2]int // low, high (half-percent)
	ProdThr   map[corev1.ResourceName][2]int
	Anom      *c18Anom
	Weights   map[corev1.ResourceName]int64
}

type c18NodeSpec struct {
	Name           string
	PoolLabel      string
	Pool           int // index into pools, -1 = in no pool
	Unsched        bool
	CPU, Mem, Pods int64 // status.allocatable
	HasRaw         bool  // raw-allocatable annotation present (then thresholds refer to it)
	RawCPU, RawMem int64
	RawPods        int64
	Kind           string // hot | cold | prodhot | free: which usage level the generator prefers for this node; relapse | alwayshot | prodnear: scripted (TestVerifC18Relapse, TestVerifC18ProdShared)
	lvl            int    // generator state only
	collide        bool   // generator: may give a non-prod pod the name of a prod pod of another namespace on the node
	capCPU, capMem int64  // what the thresholds refer to: raw allocatable when annotated, else status.allocatable
	capPods        int64
}

type c18PodIn struct {
	NS, Name  string
	Prod      bool
	App       string
	EvictorOK bool // evictor's Filter verdict
	EvictOK   bool // result of Evict()
	HasMetric bool
	CPU, Mem  int64
}

type c18NodeRound struct {
	Metric         string // fresh | expired | no-update-time | missing | nil-status
	SysCPU, SysMem int64
	Pods           []c18PodIn
	Stale          []c18PodIn // pod metrics without a pod on the node
}

type c18Args struct {
	DryRun, NodeFit bool
	NumberOfNodes   int32
	ExpirationSec   int64
	NSInclude       []string
	NSExclude       []string
	PodSelectors    []string // app label values; "<nil>" = entry with nil selector
	// stateful evictor filter (like the migration arbitrator's limits): besides the per-pod verdict the evictor admits a pod only
	// while fewer than FilterLimit pods of the same node / namespace / workload (app label) were evicted in this round
	FilterMode  string // static | per-node | per-namespace | per-workload
	FilterLimit int
}

type c18EvictCall struct {
	Key, Node, Reason string
}

type c18RoundLog struct {
	Nodes map[string]c18NodeRound
	Evict []c18EvictCall
}

// ---------------------------------------------------------------- fakes

type c18Evictor struct {
	flags   map[string]c18PodIn
	calls   []c18EvictCall
	mode    string
	limit   int
	evicted map[string]int // per limit key, successful evictions of this round
}

func c18LimitKey(mode, node, ns, app string) string {
	switch mode {
	case "per-node":
		return "node/" + node
	case "per-namespace":
		return "ns/" + ns
	case "per-workload":
		return "app/" + app
	}
	return ""
}

// the verdict is taken at call time: it flips once the limit of the pod's node / namespace / workload is reached
func (e *c18Evictor) Filter(pod *corev1.Pod) bool {
	if !e.flags[pod.Namespace+"/"+pod.Name].EvictorOK {
		return false
	}
	if e.mode != "static" && e.evicted[c18LimitKey(e.mode, pod.Spec.NodeName, pod.Namespace, pod.Labels["app"])] >= e.limit {
		return false
	}
	return true
}
func (e *c18Evictor) PreEvictionFilter(pod *corev1.Pod) bool { return true }
func (e *c18Evictor) Evict(ctx context.Context, pod *corev1.Pod, opts framework.EvictOptions) bool {
	k := pod.Namespace + "/" + pod.Name
	e.calls = append(e.calls, c18EvictCall{Key: k, Node: pod.Spec.NodeName, Reason: opts.Reason})
	if e.flags[k].EvictOK {
		e.evicted[c18LimitKey(e.mode, pod.Spec.NodeName, pod.Namespace, pod.Labels["app"])]++
		return true
	}
	return false
}

// only Evictor() and GetPodsAssignedToNodeFunc() are reached by Balance; anything else panics on the nil embedded Handle
type c18Handle struct {
	framework.Handle
	ev         *c18Evictor
	podsByNode map[string][]*corev1.Pod
}

func (h *c18Handle) Evictor() framework.Evictor { return h.ev }
func (h *c18Handle) GetPodsAssignedToNodeFunc() framework.GetPodsAssignedToNodeFunc {
	return func(node string, filter framework.FilterFunc) ([]*corev1.Pod, error) {
		var out []*corev1.Pod
		for _, p := range h.podsByNode[node] {
			if filter == nil || filter(p) {
				out = append(out, p)
			}
		}
		return out, nil
	}
}

// ---------------------------------------------------------------- generators

// rapid's integer generators are biased towards small values; decisions that need a stated probability are made from fair bits.
func c18U8(t *rapid.T, label string) int {
	v := 0
	for i := 0; i < 3; i++ {
		if rapid.Bool().Draw(t, label) {
			v |= 1 << i
		}
	}
	return v
}

// true with probability k/8
func c18P(t *rapid.T, label string, k int) bool { return c18U8(t, label) < k }

// a value in [lo, hi]: one of 16 evenly spaced steps plus a small jitter (so that neither tiny nor round values dominate)
func c18Between(t *rapid.T, label string, lo, hi int64) int64 {
	if hi <= lo {
		return lo
	}
	span := hi - lo
	k := int64(rapid.IntRange(0, 15).Draw(t, label+"Step"))
	v := lo + new(big.Int).Div(new(big.Int).Mul(big.NewInt(span), big.NewInt(k)), big.NewInt(16)).Int64()
	v += rapid.Int64Range(0, span/16).Draw(t, label+"Jitter")
	if v > hi {
		v = hi
	}
	return v
}

func c18HalfPct(t *rapid.T, lo, hi int, label string) int {
	if hi < lo {
		hi = lo
	}
	v := 2 * rapid.IntRange(lo, hi).Draw(t, label)
	if c18P(t, label+"Half", 1) && v+1 <= 2*hi {
		v++
	}
	return v
}

func c18GenKeys(t *rapid.T, label string, allowEmpty bool) []corev1.ResourceName {
	var ks []corev1.ResourceName
	if c18P(t, label+"Cpu", 7) {
		ks = append(ks, c18CPU)
	}
	if c18P(t, label+"Mem", 4) {
		ks = append(ks, c18Mem)
	}
	if c18P(t, label+"Pods", 1) {
		ks = append(ks, c18Pods)
	}
	if len(ks) == 0 && !allowEmpty {
		return []corev1.ResourceName{c18CPU}
	}
	return ks
}

func c18GenPool(t *rapid.T, name, label string) *c18PoolSpec {
	p := &c18PoolSpec{Name: name, Label: label, NodeThr: map[corev1.ResourceName][2]int{}, ProdThr: map[corev1.ResourceName][2]int{}}
	p.Deviation = c18P(t, name+"Deviation", 2)
	hasProd := c18P(t, name+"HasProd", 3)
	nodeKeys := c18GenKeys(t, name+"NodeKeys", hasProd && c18P(t, name+"NodeEmpty", 1))
	typical := c18P(t, name+"Typical", 6)
	for _, k := range nodeKeys {
		var lo, hi int
		switch {
		case p.Deviation:
			lo = c18HalfPct(t, 0, 25, name+"DevLow"+string(k))
			hi = lo + c18HalfPct(t, 0, 20, name+"DevHighAdd"+string(k))
		case typical:
			lo = c18HalfPct(t, 15, 40, name+"Low"+string(k))
			hi = c18HalfPct(t, 45, 80, name+"High"+string(k))
		default:
			lo = c18HalfPct(t, 0, 70, name+"LowW"+string(k))
			hi = lo + c18HalfPct(t, 0, 100-lo/2-1, name+"HighAddW"+string(k))
			if hi > 200 {
				hi = 200
			}
		}
		p.NodeThr[k] = [2]int{lo, hi}
	}
	if hasProd {
		for _, k := range c18GenKeys(t, name+"ProdKeys", false) {
			maxHigh := 200
			if p.Deviation {
				maxHigh = 80
			}
			if nt, ok := p.NodeThr[k]; ok {
				maxHigh = nt[1] // validation: prod high <= node high
			}
			var lo, hi int
			if typical && !p.Deviation {
				hi = c18HalfPct(t, 15, 50, name+"ProdHigh"+string(k))
			} else {
				hi = c18HalfPct(t, 0, maxHigh/2, name+"ProdHighW"+string(k))
			}
			if hi > maxHigh {
				hi = maxHigh
			}
			lo = c18HalfPct(t, 0, hi/2, name+"ProdLow"+string(k))
			if lo > hi {
				lo = hi
			}
			p.ProdThr[k] = [2]int{lo, hi}
		}
	}
	if n := []int{0, 0, 1, 1, 2, 2, 3, 4}[c18U8(t, name+"AnomN")]; n > 0 {
		p.Anom = &c18Anom{
			N:       uint32(n),
			M:       uint32(rapid.IntRange(1, 3).Draw(t, name+"AnomM")),
			Timeout: []string{"1h0m0s", "1h0m0s", "1h0m0s", "1h0m0s", "24h0m0s", "24h0m0s", "1ns", "1ns"}[c18U8(t, name+"AnomTimeout")],
		}
	}
	// defaults guarantee a positive weight for cpu, memory and every thresholded resource
	p.Weights = map[corev1.ResourceName]int64{}
	for _, r := range c18AllRes {
		p.Weights[r] = int64(rapid.IntRange(1, 3).Draw(t, name+"Weight"+string(r)))
	}
	return p
}

func c18ThrMap(m map[corev1.ResourceName][2]int, idx int) deschedulerconfig.ResourceThresholds {
	if len(m) == 0 {
		return nil
	}
	out := deschedulerconfig.ResourceThresholds{}
	for k, v := range m {
		out[k] = deschedulerconfig.Percentage(float64(v[idx]) / 2)
	}
	return out
}

func c18GenNode(t *rapid.T, i int) *c18NodeSpec {
	n := &c18NodeSpec{Name: fmt.Sprintf("n%d", i)}
	lbl := fmt.Sprintf("N%d", i)
	if rapid.Bool().Draw(t, lbl+"RoundCap") {
		n.CPU = 1000 * int64(rapid.IntRange(1, 64).Draw(t, lbl+"Cores"))
		n.Mem = int64(rapid.IntRange(1, 256).Draw(t, lbl+"GiB")) << 30
	} else {
		n.CPU = int64(rapid.IntRange(1000, 64000).Draw(t, lbl+"Milli"))
		n.Mem = c18Between(t, lbl+"Bytes", 1<<30, 256<<30)
	}
	n.Pods = []int64{0, 4, 6, 8, 10, 12, 20, 30}[c18U8(t, lbl+"PodCap")]
	n.Unsched = c18P(t, lbl+"Unsched", 1)
	n.capCPU, n.capMem, n.capPods = n.CPU, n.Mem, n.Pods
	if c18P(t, lbl+"HasRaw", 1) {
		// amplified node: status.allocatable = raw * ratio; thresholds must refer to the raw values
		n.HasRaw = true
		n.RawCPU, n.RawMem, n.RawPods = n.CPU, n.Mem, n.Pods
		ratio := int64(rapid.IntRange(11, 30).Draw(t, lbl+"AmpRatio"))
		n.CPU = n.RawCPU * ratio / 10
		if rapid.Bool().Draw(t, lbl+"AmpMem") {
			n.Mem = n.RawMem * ratio / 10
		}
	}
	n.lvl = -1
	return n
}

// a total usage for one resource at the requested level relative to [lowT, highT] (absolute mode) or to percentage bands
func c18GenTotal(t *rapid.T, label string, level int, lowT, highT, capacity int64) int64 {
	if lowT < 0 {
		lowT = 0
	}
	if highT < lowT {
		highT = lowT
	}
	top := capacity + capacity/10 + 2
	if top < highT+2 {
		top = highT + 2
	}
	aim := c18U8(t, label+"Aim")
	switch level {
	case 0: // low
		switch aim {
		case 0:
			return lowT
		case 1:
			if lowT > 0 {
				return lowT - 1
			}
			return 0
		case 2:
			return 0
		}
		return c18Between(t, label, 0, lowT)
	case 1: // between
		if lowT+1 > highT {
			return lowT
		}
		switch aim {
		case 0:
			return lowT + 1
		case 1:
			return highT
		}
		return c18Between(t, label, lowT+1, highT)
	default: // high
		switch aim {
		case 0:
			return highT + 1
		case 1:
			return highT + 2
		}
		return c18Between(t, label, highT+1, top)
	}
}

func c18Split(total int64, weights []int64) []int64 {
	var w int64
	for _, x := range weights {
		w += x
	}
	out := make([]int64, len(weights))
	if w == 0 {
		return out
	}
	for i, x := range weights {
		out[i] = new(big.Int).Div(new(big.Int).Mul(big.NewInt(total), big.NewInt(x)), big.NewInt(w)).Int64()
	}
	return out
}

// generates the pods / metrics of one node for one round
func c18GenNodeRound(t *rapid.T, n *c18NodeSpec, round int, pool *c18PoolSpec, metricTrouble bool) c18NodeRound {
	lbl := fmt.Sprintf("R%d%s", round, n.Name)
	nr := c18NodeRound{}
	nr.Metric = "fresh"
	if metricTrouble && c18P(t, lbl+"MetricBad", 1) {
		nr.Metric = []string{"expired", "expired", "expired", "no-update-time", "missing", "missing", "nil-status", "nil-status"}[c18U8(t, lbl+"Metric")]
	}
	// the node level persists across rounds (probability 5/8, hot nodes 6/8) so that abnormality streaks of every length occur
	keep := 5
	if n.lvl == 2 {
		keep = 6
	}
	// scripted kinds: "alwayshot" is overloaded in every round; "relapse" is overloaded for ConsecutiveAbnormalities+1 rounds with
	// (mostly) protected pods so that it stays abnormal, then underused for one round, then overloaded again with evictable pods
	scripted, protected, noProd := false, false, false
	if n.Kind == "alwayshot" {
		scripted, n.lvl = true, 2
	} else if pool.Anom != nil && n.Kind == "relapse" {
		N := int(pool.Anom.N)
		switch {
		case round <= N:
			scripted, n.lvl = true, 2
			protected = c18P(t, lbl+"Protected", 7)
		case round == N+1:
			scripted, n.lvl, noProd = true, 0, true
		case round == N+2:
			scripted, n.lvl = true, 2
		}
	}
	if scripted {
		// level set by the script
	} else if n.lvl < 0 || !c18P(t, lbl+"Keep", keep) {
		switch n.Kind {
		case "hot":
			n.lvl = []int{2, 2, 2, 2, 2, 2, 1, 0}[c18U8(t, lbl+"Level")]
		case "cold":
			n.lvl = []int{0, 0, 0, 0, 0, 0, 1, 2}[c18U8(t, lbl+"Level")]
		default:
			n.lvl = []int{0, 0, 0, 1, 1, 2, 2, 2}[c18U8(t, lbl+"Level")]
		}
	}
	// per-resource levels: low => all low; mid => none high; high => at least one high
	resLvl := map[corev1.ResourceName]int{}
	for _, r := range []corev1.ResourceName{c18CPU, c18Mem} {
		switch n.lvl {
		case 0:
			resLvl[r] = 0
		case 1:
			resLvl[r] = c18U8(t, lbl+"ResLvl"+string(r)) % 2
		default:
			resLvl[r] = []int{0, 1, 1, 2, 2, 2, 2, 2}[c18U8(t, lbl+"ResLvl"+string(r))]
		}
	}
	if n.lvl == 2 && resLvl[c18CPU] != 2 && resLvl[c18Mem] != 2 {
		if _, ok := pool.NodeThr[c18Mem]; ok && rapid.Bool().Draw(t, lbl+"HighIsMem") {
			resLvl[c18Mem] = 2
		} else {
			resLvl[c18CPU] = 2
		}
	}
	total := map[corev1.ResourceName]int64{}
	for _, r := range []corev1.ResourceName{c18CPU, c18Mem} {
		capacity := n.capCPU
		if r == c18Mem {
			capacity = n.capMem
		}
		var lowT, highT int64
		if thr, ok := pool.NodeThr[r]; ok && !pool.Deviation {
			lowT = capacity * int64(thr[0]) / 200
			highT = capacity * int64(thr[1]) / 200
		} else if ok { // deviation: fixed percentage bands, the thresholds follow the mean
			lowT, highT = capacity*25/100, capacity*60/100
		} else { // un-thresholded resource (default 100 %): any value up to the capacity
			lowT, highT = capacity, capacity
			if resLvl[r] == 2 {
				resLvl[r] = 0
			}
		}
		total[r] = c18GenTotal(t, lbl+"Total"+string(r), resLvl[r], lowT, highT, capacity)
	}
	nPods := c18U8(t, lbl+"NPods")
	if n.lvl == 2 && nPods < 3 && c18P(t, lbl+"MorePods", 6) {
		nPods += 3
	}
	// with prod thresholds configured, some node-rounds carry mostly prod load so that prod-level overload occurs on calm nodes
	prodHeavy := len(pool.ProdThr) > 0 && c18P(t, lbl+"ProdHeavy", 3)
	// ... and "cold" nodes often carry no prod load at all, so that they can receive prod load
	prodLight := len(pool.ProdThr) > 0 && n.Kind == "cold" && c18P(t, lbl+"ProdLight", 5)
	wCPU := []int64{int64(c18U8(t, lbl+"SysWCPU"))}
	wMem := []int64{int64(c18U8(t, lbl+"SysWMem"))}
	// a "prodhot" node is, in 6 of 8 rounds, calm at node level but above a prod high threshold: all load comes from prod pods and
	// the total of one prod-thresholded resource lies between the prod high and the node high threshold
	prodHot := false
	if n.Kind == "prodhot" && !pool.Deviation && c18P(t, lbl+"ProdHotRound", 6) {
		for _, r := range []corev1.ResourceName{c18CPU, c18Mem} {
			pt, ok := pool.ProdThr[r]
			if !ok || prodHot {
				continue
			}
			capacity := n.capCPU
			other := c18Mem
			if r == c18Mem {
				capacity, other = n.capMem, c18CPU
			}
			nodeHighT := capacity
			if nt, ok := pool.NodeThr[r]; ok {
				nodeHighT = capacity * int64(nt[1]) / 200
			}
			prodHighT := capacity * int64(pt[1]) / 200
			if prodHighT+16 > nodeHighT {
				continue
			}
			prodHot = true
			total[r] = c18Between(t, lbl+"ProdHotTotal", prodHighT+16, nodeHighT)
			otherCap := n.capCPU
			if other == c18Mem {
				otherCap = n.capMem
			}
			otherLow := int64(0)
			if nt, ok := pool.NodeThr[other]; ok {
				otherLow = otherCap * int64(nt[0]) / 200
			}
			if po, ok := pool.ProdThr[other]; ok && otherCap*int64(po[0])/200 < otherLow {
				otherLow = otherCap * int64(po[0]) / 200
			}
			total[other] = c18Between(t, lbl+"ProdHotOther", 0, otherLow)
		}
		if prodHot {
			prodHeavy, prodLight = false, false
			wCPU[0], wMem[0] = 0, 0
			if nPods < 3 {
				nPods += 3
			}
		}
	}
	// a "prodnear" node is calm at node level and its prod pods stay below the prod high threshold, but together with a non-prod
	// pod that has the NAME of one of them (in another namespace) they would be above it: 2 prod + 2 non-prod pods with equal
	// shares of a total between 1.4 and 1.9 times the prod high threshold
	prodNear := false
	if n.Kind == "prodnear" && !pool.Deviation && c18P(t, lbl+"ProdNearRound", 6) {
		for _, r := range []corev1.ResourceName{c18CPU, c18Mem} {
			pt, ok := pool.ProdThr[r]
			if !ok || prodNear {
				continue
			}
			capacity, other, otherCap := n.capCPU, c18Mem, n.capMem
			if r == c18Mem {
				capacity, other, otherCap = n.capMem, c18CPU, n.capCPU
			}
			nodeHighT := capacity
			if nt, ok := pool.NodeThr[r]; ok {
				nodeHighT = capacity * int64(nt[1]) / 200
			}
			prodHighT := capacity * int64(pt[1]) / 200
			lo, hi := prodHighT*14/10+16, prodHighT*19/10
			if hi > nodeHighT {
				hi = nodeHighT
			}
			if prodHighT < 100 || lo > hi {
				continue
			}
			prodNear = true
			total[r] = c18Between(t, lbl+"ProdNearTotal", lo, hi)
			total[other] = 0
			_ = otherCap
		}
		if prodNear {
			prodHeavy, prodLight, prodHot = false, false, false
			wCPU[0], wMem[0] = 0, 0
			nPods = 4
		}
	}
	for i := 0; i < nPods; i++ {
		pl := fmt.Sprintf("%sP%d", lbl, i)
		p := c18PodIn{
			NS:        []string{"default", "default", "default", "default", "default", "ns1", "ns1", "ns1"}[c18U8(t, pl+"NS")],
			Name:      fmt.Sprintf("r%d-%s-p%d", round, n.Name, i),
			Prod:      rapid.Bool().Draw(t, pl+"Prod"),
			App:       []string{"", "", "a", "a", "a", "a", "b", "b"}[c18U8(t, pl+"App")],
			EvictorOK: c18P(t, pl+"EvictorOK", 7),
			EvictOK:   !(c18P(t, pl+"EvictFailA", 1) && rapid.Bool().Draw(t, pl+"EvictFailB")),
			HasMetric: c18P(t, pl+"HasMetric", 7),
		}
		if prodHeavy && c18P(t, pl+"ProdHeavy", 7) {
			p.Prod = true
		}
		if prodLight {
			p.Prod = false
		}
		if prodHot {
			p.Prod = true
		}
		if noProd {
			p.Prod = false
		}
		if protected {
			p.EvictorOK = false
		}
		if prodNear {
			p.Prod, p.HasMetric, p.EvictorOK, p.EvictOK = i%2 == 0, true, true, true
			p.NS = []string{"default", "ns1", "default", "ns1"}[i]
			if i == 1 {
				p.Name = nr.Pods[0].Name // same name as the prod pod p0, other namespace
			}
		}
		nr.Pods = append(nr.Pods, p)
		if prodNear {
			wCPU = append(wCPU, 5)
			wMem = append(wMem, 5)
		} else if p.HasMetric {
			wCPU = append(wCPU, int64(rapid.IntRange(0, 10).Draw(t, pl+"WCPU")))
			wMem = append(wMem, int64(rapid.IntRange(0, 10).Draw(t, pl+"WMem")))
		} else {
			wCPU = append(wCPU, 0)
			wMem = append(wMem, 0)
		}
	}
	// same pod name in two namespaces on one node (two tenants both running "web-0"): a non-prod pod takes the name of a prod pod
	if n.collide && !prodNear && c18P(t, lbl+"Twin", 4) {
		pi, ni := -1, -1
		for i, p := range nr.Pods {
			if p.Prod && pi < 0 {
				pi = i
			}
			if !p.Prod && ni < 0 {
				ni = i
			}
		}
		if pi >= 0 && ni >= 0 {
			nr.Pods[ni].Name = nr.Pods[pi].Name
			if nr.Pods[pi].NS == "default" {
				nr.Pods[ni].NS = "ns1"
			} else {
				nr.Pods[ni].NS = "default"
			}
		}
	}
	if !prodHot && !prodNear && c18P(t, lbl+"HasStale", 1) {
		nr.Stale = append(nr.Stale, c18PodIn{NS: "default", Name: fmt.Sprintf("r%d-%s-gone", round, n.Name), HasMetric: true})
		wCPU = append(wCPU, int64(rapid.IntRange(0, 5).Draw(t, lbl+"StaleWCPU")))
		wMem = append(wMem, int64(rapid.IntRange(0, 5).Draw(t, lbl+"StaleWMem")))
	}
	sc, sm := c18Split(total[c18CPU], wCPU), c18Split(total[c18Mem], wMem)
	var usedC, usedM int64
	for i := range nr.Pods {
		nr.Pods[i].CPU, nr.Pods[i].Mem = sc[i+1], sm[i+1]
		usedC += sc[i+1]
		usedM += sm[i+1]
	}
	for i := range nr.Stale {
		nr.Stale[i].CPU, nr.Stale[i].Mem = sc[len(nr.Pods)+1+i], sm[len(nr.Pods)+1+i]
		usedC += nr.Stale[i].CPU
		usedM += nr.Stale[i].Mem
	}
	nr.SysCPU, nr.SysMem = total[c18CPU]-usedC, total[c18Mem]-usedM // the remainder, so that the node total is exactly the aimed value
	return nr
}

// ---------------------------------------------------------------- API objects

func c18BuildNode(n *c18NodeSpec) *corev1.Node {
	node := &corev1.Node{}
	node.Name = n.Name
	if n.PoolLabel != "" {
		node.Labels = map[string]string{"pool": n.PoolLabel}
	}
	node.Spec.Unschedulable = n.Unsched
	node.Status.Allocatable = corev1.ResourceList{
		c18CPU:  *resource.NewMilliQuantity(n.CPU, resource.DecimalSI),
		c18Mem:  *resource.NewQuantity(n.Mem, resource.BinarySI),
		c18Pods: *resource.NewQuantity(n.Pods, resource.DecimalSI),
	}
	node.Status.Capacity = node.Status.Allocatable.DeepCopy()
	if n.HasRaw {
		extension.SetNodeRawAllocatable(node, corev1.ResourceList{
			c18CPU:  *resource.NewMilliQuantity(n.RawCPU, resource.DecimalSI),
			c18Mem:  *resource.NewQuantity(n.RawMem, resource.BinarySI),
			c18Pods: *resource.NewQuantity(n.RawPods, resource.DecimalSI),
		})
	}
	return node
}

func c18BuildPod(p c18PodIn, node string) *corev1.Pod {
	pod := &corev1.Pod{}
	pod.Namespace, pod.Name = p.NS, p.Name
	pod.Labels = map[string]string{}
	if p.App != "" {
		pod.Labels["app"] = p.App
	}
	if p.Prod {
		pod.Labels[extension.LabelPodPriorityClass] = string(extension.PriorityProd)
	} else {
		pod.Labels[extension.LabelPodPriorityClass] = string(extension.PriorityBatch)
	}
	pod.Spec.NodeName = node
	pod.Status.Phase = corev1.PodRunning
	return pod
}

func c18RL(cpu, mem int64) corev1.ResourceList {
	return corev1.ResourceList{
		c18CPU: *resource.NewMilliQuantity(cpu, resource.DecimalSI),
		c18Mem: *resource.NewQuantity(mem, resource.BinarySI),
	}
}

func c18BuildNodeMetric(n *c18NodeSpec, nr c18NodeRound, base time.Time, expSec int64, ageSec int64) *slov1alpha1.NodeMetric {
	if nr.Metric == "missing" {
		return nil
	}
	nm := &slov1alpha1.NodeMetric{}
	nm.Name = n.Name
	switch nr.Metric {
	case "fresh":
		nm.Status.UpdateTime = &metav1.Time{Time: base.Add(-time.Duration(ageSec) * time.Second)}
	case "expired": // at least two hours beyond the expiration
		nm.Status.UpdateTime = &metav1.Time{Time: base.Add(-time.Duration(expSec+7200+ageSec*100) * time.Second)}
	}
	if nr.Metric == "nil-status" {
		nm.Status.UpdateTime = &metav1.Time{Time: base}
		return nm
	}
	totC, totM := nr.SysCPU, nr.SysMem
	for _, p := range append(append([]c18PodIn{}, nr.Pods...), nr.Stale...) {
		if !p.HasMetric {
			continue
		}
		totC += p.CPU
		totM += p.Mem
		nm.Status.PodsMetric = append(nm.Status.PodsMetric, &slov1alpha1.PodMetricInfo{
			Namespace: p.NS, Name: p.Name, PodUsage: slov1alpha1.ResourceMap{ResourceList: c18RL(p.CPU, p.Mem)},
		})
	}
	nm.Status.NodeMetric = &slov1alpha1.NodeMetricInfo{
		NodeUsage:   slov1alpha1.ResourceMap{ResourceList: c18RL(totC, totM)},
		SystemUsage: slov1alpha1.ResourceMap{ResourceList: c18RL(nr.SysCPU, nr.SysMem)},
	}
	return nm
}

// ---------------------------------------------------------------- oracle

// the code's integer threshold lies in [Lo, Hi]: exact rational value, floored, with the float64 evaluation
// error (< capacity*1e-12 + 1e-9) allowed on either side.
type c18Band struct{ Lo, Hi int64 }

func c18Floor(r *big.Rat) int64 {
	return new(big.Int).Div(r.Num(), r.Denom()).Int64() // Euclidean division == floor for a positive denominator
}

func c18BandOf(exact *big.Rat, capacity int64) c18Band {
	e := new(big.Rat).SetFrac64(capacity, 1_000_000_000_000)
	e.Add(e, big.NewRat(1, 1_000_000_000))
	lo := c18Floor(new(big.Rat).Sub(exact, e))
	hi := c18Floor(new(big.Rat).Add(exact, e))
	if lo < 0 {
		lo = 0
	}
	if hi < 0 {
		hi = 0
	}
	return c18Band{lo, hi}
}

type c18Vec map[corev1.ResourceName]int64
type c18Thr map[corev1.ResourceName]c18Band

type c18NodeState struct {
	Spec                                 *c18NodeSpec
	Measured                             bool
	Usage, Prod                          c18Vec
	NodeLow, NodeHigh, ProdLow, ProdHigh c18Thr
}

func c18Cap(n *c18NodeSpec, r corev1.ResourceName) int64 {
	switch r {
	case c18CPU:
		return n.capCPU
	case c18Mem:
		return n.capMem
	}
	return n.capPods
}

func c18PossiblyAbove(u c18Vec, high c18Thr, res []corev1.ResourceName) bool {
	for _, r := range res {
		if u[r] > high[r].Lo {
			return true
		}
	}
	return false
}
func c18DefinitelyAbove(u c18Vec, high c18Thr, res []corev1.ResourceName) bool {
	for _, r := range res {
		if u[r] > high[r].Hi {
			return true
		}
	}
	return false
}
func c18PossiblyBelowAll(u c18Vec, low c18Thr, res []corev1.ResourceName) bool {
	for _, r := range res {
		if u[r] > low[r].Hi {
			return false
		}
	}
	return true
}

func c18DefinitelyBelowAll(u c18Vec, low c18Thr, res []corev1.ResourceName) bool {
	for _, r := range res {
		if u[r] > low[r].Lo {
			return false
		}
	}
	return true
}

func c18PoolResources(p *c18PoolSpec) []corev1.ResourceName {
	set := map[corev1.ResourceName]bool{c18Mem: true} // memory is always considered
	for k := range p.NodeThr {
		set[k] = true
	}
	for k := range p.ProdThr {
		set[k] = true
	}
	var out []corev1.ResourceName
	for _, r := range c18AllRes {
		if set[r] {
			out = append(out, r)
		}
	}
	return out
}

// thresholds of every measured node of the pool for this round, restated from the API documentation:
// absolute: percent of (raw) allocatable; deviation: mean usage percent over the measured nodes -/+ the configured deviation,
// clamped to [0,100]; a resource without configured thresholds (or deviation 0) never classifies (threshold = capacity).
func c18ComputeThresholds(p *c18PoolSpec, res []corev1.ResourceName, members []*c18NodeState) {
	hundred := big.NewRat(100, 1)
	zero := new(big.Rat)
	clamp := func(x *big.Rat) *big.Rat {
		if x.Cmp(zero) < 0 {
			return new(big.Rat)
		}
		if x.Cmp(hundred) > 0 {
			return new(big.Rat).Set(hundred)
		}
		return x
	}
	var measured []*c18NodeState
	for _, m := range members {
		if m.Measured {
			measured = append(measured, m)
		}
	}
	for _, prod := range []bool{false, true} {
		cfg := p.NodeThr
		if prod {
			cfg = p.ProdThr
		}
		for _, r := range res {
			thr, configured := cfg[r]
			var avg *big.Rat
			if p.Deviation && configured && len(measured) > 0 {
				sum := new(big.Rat)
				for _, m := range measured {
					capacity := c18Cap(m.Spec, r)
					if capacity == 0 {
						continue
					}
					u := m.Usage[r]
					if prod {
						u = m.Prod[r]
					}
					sum.Add(sum, new(big.Rat).SetFrac64(u*100, capacity))
				}
				avg = sum.Quo(sum, big.NewRat(int64(len(measured)), 1))
			}
			for _, m := range measured {
				capacity := c18Cap(m.Spec, r)
				full := c18Band{capacity, capacity}
				var lo, hi c18Band
				switch {
				case !configured && p.Deviation:
					lo, hi = full, full
				case !configured: // 100 %: float64(100)*0.01 == 1.0 exactly, so the threshold is the capacity itself
					lo, hi = full, full
				case p.Deviation && thr[0] == 0:
					lo, hi = full, full
				case p.Deviation:
					pl := clamp(new(big.Rat).Sub(avg, big.NewRat(int64(thr[0]), 2)))
					ph := clamp(new(big.Rat).Add(avg, big.NewRat(int64(thr[1]), 2)))
					lo = c18BandOf(pl.Mul(pl, big.NewRat(capacity, 100)), capacity)
					hi = c18BandOf(ph.Mul(ph, big.NewRat(capacity, 100)), capacity)
				default:
					lo = c18BandOf(new(big.Rat).Mul(big.NewRat(int64(thr[0]), 200), big.NewRat(capacity, 1)), capacity)
					hi = c18BandOf(new(big.Rat).Mul(big.NewRat(int64(thr[1]), 200), big.NewRat(capacity, 1)), capacity)
					if thr[0] == 200 {
						lo = full
					}
					if thr[1] == 200 {
						hi = full
					}
				}
				if prod {
					m.ProdLow[r], m.ProdHigh[r] = lo, hi
				} else {
					m.NodeLow[r], m.NodeHigh[r] = lo, hi
				}
			}
		}
	}
}

// history entries per node and level
const (
	c18Unmeasured = 0
	c18High       = 1
	c18NotHigh    = 2
)

// Model of "has been above the threshold for the required consecutive rounds" for one node at one level (node-level and
// prod-level runs are separate). Only measured rounds count. It is a lower bound in every direction that is not certain:
//   - while ok, the run grows with every round possibly above the threshold and restarts with a round certainly not above it;
//     with a run of N (= ConsecutiveAbnormalities; the code needs N+1) the node may be abnormal;
//   - once possibly abnormal it stays so (hysteresis) until it certainly returns to ok: more than ConsecutiveNormalities rounds
//     in a row certainly not above the threshold, or the balancer itself brought it back under the threshold and went on to the
//     next candidate pod (the stop-by-usage path resets the detector), or it was certainly underused in a round in which the
//     balancer certainly got as far as declaring the underused nodes normal. Then a new run of N is required.
//
// Resets that the harness cannot be sure of (underused-node reset when it is not certain that the pool had an abnormal node,
// timeout expiry, the extra normal mark after an eviction round) only make koordinator more conservative than the model.
type c18Run struct {
	N, M       int
	anom       bool // possibly abnormal
	run        int  // consecutive possibly-above rounds while ok
	normals    int  // consecutive certainly-normal rounds while possibly abnormal
	total      int  // rounds possibly above, ever
	everWindow bool // reached a run of N at least once
	restarts   int  // certain returns to ok after having been possibly abnormal
	hist       []int8

	lastRestartByUnderused bool // statistics only
}

func (r *c18Run) observe(state int8) {
	r.hist = append(r.hist, state)
	switch state {
	case c18High:
		r.total++
		if r.anom {
			r.normals = 0
			return
		}
		r.run++
		if r.run >= r.N {
			r.anom, r.everWindow, r.normals = true, true, 0
		}
	case c18NotHigh:
		if !r.anom {
			r.run = 0
			return
		}
		r.normals++
		if r.normals > r.M {
			r.restart()
		}
	}
}

func (r *c18Run) restart() {
	if r.anom {
		r.restarts++
		r.lastRestartByUnderused = false
	}
	r.anom, r.run, r.normals = false, 0, 0
}

// failing clause when an eviction happens while the node is certainly not abnormal
func (r *c18Run) failure() (string, string) {
	if r.anom {
		return "", ""
	}
	detail := fmt.Sprintf("ConsecutiveAbnormalities=%d ConsecutiveNormalities=%d, current run of rounds above the threshold=%d, certain returns to ok so far=%d, history(1=above,2=not,0=unmeasured)=%v",
		r.N, r.M, r.run, r.restarts, r.hist)
	switch {
	case r.total < r.N:
		return "anomaly:fewer-abnormal-rounds-than-required", "the node was above the threshold in fewer rounds than required: " + detail
	case !r.everWindow:
		return "anomaly:abnormal-rounds-not-consecutive", "the node was never above the threshold in the required number of measured rounds in a row: " + detail
	}
	return "anomaly:no-new-run-after-return-to-normal", "the node had returned to normal (pods evicted until it was back under the threshold, measured as underused while the balancer was handling an abnormal node, or enough normal rounds) and has not been above the threshold for the required consecutive rounds since: " + detail
}

// order of the clauses of one level's justification (a later failing clause means the earlier ones held)
var c18ClauseRank = map[string]int{
	"source:node-not-overloaded":                            0,
	"stop:evicted-after-node-back-under-high-threshold":     1,
	"target:no-underused-node":                              2,
	"stop:headroom-used-up":                                 3,
	"stop:prod-level-reuses-headroom-used-up-at-node-level": 3,
	"anomaly:fewer-abnormal-rounds-than-required":           4,
	"anomaly:abnormal-rounds-not-consecutive":               5,
	"anomaly:no-new-run-after-return-to-normal":             6,
}

func c18Sub(a c18Vec, b c18Vec) c18Vec {
	out := c18Vec{}
	for k, v := range a {
		out[k] = v - b[k]
	}
	return out
}

// ---------------------------------------------------------------- the case

// the plugin logs every decision; thousands of cases would only produce noise (klog state is test-binary global, and only
// the C18 tests run in this process)
func c18Silence() {
	fs := flag.NewFlagSet("c18-klog", flag.ContinueOnError)
	klog.InitFlags(fs)
	_ = fs.Set("logtostderr", "false")
	_ = fs.Set("alsologtostderr", "false")
	_ = fs.Set("stderrthreshold", "FATAL")
	klog.SetOutput(io.Discard)
}

// relapse = the scripted shape of TestVerifC18Relapse: one pool with absolute thresholds (mostly without prod thresholds),
// ConsecutiveAbnormalities 2-3, node n0 "relapse", n1 "alwayshot", n2 "cold"; everything else is generated as usual. The draw
// sequence of the unscripted tests is unchanged.
//
// shape "prodshared" (TestVerifC18ProdShared): one pool with absolute node-level AND prod thresholds, no consecutive-round gating;
// n0 "alwayshot" (overloaded at node level), n1 "prodhot" (overloaded at prod level only), n2 "cold" (underused at both levels, no
// prod load), n3 "prodnear"; pods may share a name across namespaces.
func c18RunCase(t *rapid.T, c *vk.Case, viaConstructor bool, shape string) {
	relapse, prodShared := shape == "relapse", shape == "prodshared"
	maxRounds := 8
	var nNodes int
	if relapse {
		nNodes = rapid.IntRange(3, 5).Draw(t, "nodes")
	} else if prodShared {
		nNodes = rapid.IntRange(4, 5).Draw(t, "nodes")
	} else {
		nNodes = rapid.IntRange(2, 6).Draw(t, "nodes")
	}
	twoPools := !relapse && !prodShared && nNodes >= 4 && c18P(t, "twoPools", 2)
	var pools []*c18PoolSpec
	if relapse {
		p := c18GenPool(t, "poolAll", "")
		p.Deviation = false
		delete(p.NodeThr, c18Pods)
		if len(p.NodeThr) == 0 {
			p.NodeThr[c18CPU] = [2]int{2 * 30, 2 * 60}
			p.ProdThr = map[corev1.ResourceName][2]int{}
		}
		if c18P(t, "relapseNoProd", 6) {
			p.ProdThr = map[corev1.ResourceName][2]int{}
		}
		p.Anom = &c18Anom{N: uint32([]int{2, 2, 2, 3}[c18U8(t, "relapseN")%4]), M: uint32([]int{1, 2, 2, 3}[c18U8(t, "relapseM")%4]), Timeout: "1h0m0s"}
		pools = []*c18PoolSpec{p}
	} else if prodShared {
		p := c18GenPool(t, "poolAll", "")
		p.Deviation = false
		delete(p.NodeThr, c18Pods)
		delete(p.ProdThr, c18Pods)
		if len(p.NodeThr) == 0 {
			p.NodeThr[c18CPU] = [2]int{2 * 30, 2 * 60}
			p.ProdThr = map[corev1.ResourceName][2]int{}
		}
		if len(p.ProdThr) == 0 {
			hi := 60
			if nt, ok := p.NodeThr[c18CPU]; ok {
				hi = nt[1] / 2
			}
			p.ProdThr[c18CPU] = [2]int{hi / 3, hi}
		}
		if p.Anom != nil && p.Anom.N > 1 {
			p.Anom.N = 1
		}
		pools = []*c18PoolSpec{p}
	} else if twoPools {
		pools = []*c18PoolSpec{c18GenPool(t, "poolA", "a"), c18GenPool(t, "poolB", "b")}
	} else if c18P(t, "selectorPool", 2) {
		pools = []*c18PoolSpec{c18GenPool(t, "poolA", "a")}
	} else {
		pools = []*c18PoolSpec{c18GenPool(t, "poolAll", "")}
	}
	nodes := make([]*c18NodeSpec, nNodes)
	shaped := relapse || prodShared || c18P(t, "shaped", 6)
	metricTrouble := !relapse && !prodShared && c18P(t, "metricTrouble", 3)
	for i := range nodes {
		n := c18GenNode(t, i)
		switch {
		case twoPools:
			n.PoolLabel = []string{"a", "a", "a", "a", "b", "b", "b", ""}[c18U8(t, n.Name+"Pool")]
		case pools[0].Label != "":
			n.PoolLabel = []string{"a", "a", "a", "a", "a", "a", "a", ""}[c18U8(t, n.Name+"Pool")]
		}
		// most cases have a node that tends to be overloaded and one that tends to be underused
		n.Kind = "free"
		if i < 2 && shaped {
			n.Kind = []string{"hot", "cold"}[i]
		} else if c18P(t, n.Name+"Kind", 2) {
			n.Kind = []string{"hot", "cold"}[c18U8(t, n.Name+"KindWhich")%2]
		}
		n.Pool = -1
		for pi, p := range pools {
			if p.Label == "" || p.Label == n.PoolLabel {
				n.Pool = pi
			}
		}
		if n.Pool >= 0 && len(pools[n.Pool].ProdThr) > 0 && !pools[n.Pool].Deviation && n.Kind != "cold" && c18P(t, n.Name+"ProdHot", 3) {
			n.Kind = "prodhot"
		}
		if prodShared {
			n.collide = true
			if i < 4 {
				n.Kind = []string{"alwayshot", "prodhot", "cold", "prodnear"}[i]
			}
			if i >= 1 {
				n.Unsched = false
			}
		}
		if relapse && i < 3 {
			n.Kind = []string{"relapse", "alwayshot", "cold"}[i]
			if i != 1 {
				n.Unsched = false // an unschedulable node never counts as underused
			}
		}
		nodes[i] = n
	}
	a := c18Args{
		DryRun:        c18P(t, "dryRunA", 1) && rapid.Bool().Draw(t, "dryRunB"),
		NodeFit:       c18P(t, "nodeFit", 2),
		NumberOfNodes: int32([]int{0, 0, 0, 0, 0, 0, 1, 2}[c18U8(t, "numberOfNodes")]),
		ExpirationSec: []int64{7200, 86400}[c18U8(t, "expiration")%2],
	}
	switch c18U8(t, "namespaces") {
	case 0:
		a.NSExclude = []string{"ns1"}
	case 1:
		a.NSInclude = []string{"default"}
	case 2:
		a.NSExclude = []string{"kube-system"}
	}
	switch c18U8(t, "podSelectors") {
	case 0:
		a.PodSelectors = []string{"a"}
	case 1:
		a.PodSelectors = []string{"a", "b"}
	case 2:
		a.PodSelectors = []string{"<nil>", "b"}
	}
	a.FilterMode = []string{"static", "static", "static", "static", "static", "per-node", "per-namespace", "per-workload"}[c18U8(t, "filterMode")]
	if a.FilterMode != "static" {
		a.FilterLimit = []int{0, 1, 1, 1, 2, 2, 3, 4}[c18U8(t, "filterLimit")]
	}
	rounds := []int{1, 2, 3, 4, 5, 6, 7, 8}[c18U8(t, "rounds")]
	if relapse {
		a.DryRun, a.NumberOfNodes = false, 0
		rounds = int(pools[0].Anom.N) + 3 + c18U8(t, "relapseExtraRounds")%2
	}
	if prodShared {
		a.DryRun, a.NumberOfNodes = false, 0
	}
	if maxRounds < rounds {
		rounds = maxRounds
	}

	// ---- plugin under test
	args := &deschedulerconfig.LowNodeLoadArgs{
		DryRun: a.DryRun, NodeFit: a.NodeFit, NumberOfNodes: a.NumberOfNodes,
		NodeMetricExpirationSeconds: &a.ExpirationSec,
		DetectorCacheTimeout:        &metav1.Duration{Duration: 5 * time.Minute},
	}
	if len(a.NSInclude)+len(a.NSExclude) > 0 {
		args.EvictableNamespaces = &deschedulerconfig.Namespaces{Include: a.NSInclude, Exclude: a.NSExclude}
	}
	for _, s := range a.PodSelectors {
		ps := deschedulerconfig.LowNodeLoadPodSelector{Name: "sel-" + s}
		if s != "<nil>" {
			ps.Selector = &metav1.LabelSelector{MatchLabels: map[string]string{"app": s}}
		}
		args.PodSelectors = append(args.PodSelectors, ps)
	}
	for _, p := range pools {
		np := deschedulerconfig.LowNodeLoadNodePool{
			Name: p.Name, UseDeviationThresholds: p.Deviation,
			LowThresholds: c18ThrMap(p.NodeThr, 0), HighThresholds: c18ThrMap(p.NodeThr, 1),
			ProdLowThresholds: c18ThrMap(p.ProdThr, 0), ProdHighThresholds: c18ThrMap(p.ProdThr, 1),
			ResourceWeights: map[corev1.ResourceName]int64{},
		}
		for k, v := range p.Weights {
			np.ResourceWeights[k] = v
		}
		if p.Label != "" {
			np.NodeSelector = &metav1.LabelSelector{MatchLabels: map[string]string{"pool": p.Label}}
		}
		if p.Anom != nil {
			d, _ := time.ParseDuration(p.Anom.Timeout)
			np.AnomalyCondition = &deschedulerconfig.LoadAnomalyCondition{
				Timeout: metav1.Duration{Duration: d}, ConsecutiveAbnormalities: p.Anom.N, ConsecutiveNormalities: p.Anom.M,
			}
		}
		args.NodePools = append(args.NodePools, np)
	}
	if err := validation.ValidateLowLoadUtilizationArgs(nil, args); err != nil {
		t.Fatalf("harness bug: generated arguments are rejected by the validation: %v", err)
	}
	ev := &c18Evictor{flags: map[string]c18PodIn{}, mode: a.FilterMode, limit: a.FilterLimit, evicted: map[string]int{}}
	h := &c18Handle{ev: ev, podsByNode: map[string][]*corev1.Pod{}}
	indexer := cache.NewIndexer(cache.MetaNamespaceKeyFunc, cache.Indexers{})
	lister := koordslolisters.NewNodeMetricLister(indexer)
	var pl *LowNodeLoad
	if viaConstructor {
		ctx, cancel := context.WithCancel(context.Background())
		defer cancel()
		p, err := NewLowNodeLoad(ctx, args, &fakeFrameworkHandle{Handle: h, Interface: koordfake.NewSimpleClientset()})
		if err != nil {
			t.Fatalf("harness bug: NewLowNodeLoad: %v", err)
		}
		pl = p.(*LowNodeLoad)
		pl.nodeMetricLister = lister // the harness feeds NodeMetrics synchronously instead of through an informer
	} else {
		// same composition as NewLowNodeLoad, without the informer factory
		podSelectorFn, err := filterPods(args.PodSelectors)
		if err != nil {
			t.Fatalf("harness bug: filterPods: %v", err)
		}
		var excl, incl sets.String
		if args.EvictableNamespaces != nil {
			excl = sets.NewString(args.EvictableNamespaces.Exclude...)
			incl = sets.NewString(args.EvictableNamespaces.Include...)
		}
		podFilter, err := podutil.NewOptions().
			WithFilter(podutil.WrapFilterFuncs(h.Evictor().Filter, podSelectorFn)).
			WithoutNamespaces(excl).WithNamespaces(incl).BuildFilterFunc()
		if err != nil {
			t.Fatalf("harness bug: BuildFilterFunc: %v", err)
		}
		d := args.DetectorCacheTimeout.Duration
		pl = &LowNodeLoad{handle: h, nodeMetricLister: lister, args: args, podFilter: podFilter,
			nodeAnomalyDetectors: gocache.New(d, d), prodAnomalyDetectors: gocache.New(d, d)}
	}

	// ---- oracle-side restatement of the configured pod filter
	evictable := func(p c18PodIn) bool {
		if !p.EvictorOK {
			return false
		}
		if len(a.PodSelectors) > 0 {
			hasSel, ok := false, false
			for _, s := range a.PodSelectors {
				if s == "<nil>" {
					continue
				}
				hasSel = true
				if p.App == s {
					ok = true
				}
			}
			if hasSel && !ok {
				return false
			}
		}
		for _, ns := range a.NSExclude {
			if p.NS == ns {
				return false
			}
		}
		if len(a.NSInclude) > 0 {
			in := false
			for _, ns := range a.NSInclude {
				if p.NS == ns {
					in = true
				}
			}
			if !in {
				return false
			}
		}
		return true
	}

	base := time.Now() // only to place NodeMetric update times hours away from the expiration boundary
	poolRes := make([][]corev1.ResourceName, len(pools))
	for i, p := range pools {
		poolRes[i] = c18PoolResources(p)
	}
	// certainRun: consecutive measured rounds (ending with the last one) in which the node was certainly above a node-level high
	// threshold and nothing was moved off it; with ConsecutiveAbnormalities+1 of them (and an anomaly timeout of hours) the node is
	// certainly treated as abnormal, whatever the detector state was before
	certainRun := map[string]int{}
	runNode := map[string]*c18Run{}
	runProd := map[string]*c18Run{}
	for _, n := range nodes {
		if n.Pool >= 0 && pools[n.Pool].Anom != nil {
			runNode[n.Name] = &c18Run{N: int(pools[n.Pool].Anom.N), M: int(pools[n.Pool].Anom.M)}
			runProd[n.Name] = &c18Run{N: int(pools[n.Pool].Anom.N), M: int(pools[n.Pool].Anom.M)}
		}
	}
	var log []c18RoundLog
	apiNodes := make([]*corev1.Node, len(nodes))
	for i, n := range nodes {
		apiNodes[i] = c18BuildNode(n)
	}

	describe := func() string {
		b, _ := json.Marshal(map[string]any{"args": a, "pools": pools, "nodes": nodes, "rounds": log})
		return string(b)
	}

	var (
		sawEvict, sawNT, sawHeadroomStop, sawGated, sawAnomEvict, sawProdPhase, sawNodePhase bool
		sawFilteredLeft, sawAmbiguous, sawNoHigh, sawNoLow, sawUnmeasured, sawUnschedLow     bool
		sawMultiSource, sawFailedEvict, sawNoMetricEvict                                     bool
		sawLimitReached, sawBalancerRestart, sawRestart, sawEvictAfterRestart                bool
		sawUnderusedReset, sawGatedAfterUnderusedReset                                       bool
		sawSharedUsedUp, sawProdHotspotAfterUsedUp, sawTwin, sawTwinLifts                    bool
		totalEvictions                                                                       int
		ntKey                                                                                []any
	)

	for round := 0; round < rounds; round++ {
		// ---- inputs of this round
		rl := c18RoundLog{Nodes: map[string]c18NodeRound{}}
		for k := range h.podsByNode {
			delete(h.podsByNode, k)
		}
		for k := range ev.flags {
			delete(ev.flags, k)
		}
		for k := range ev.evicted {
			delete(ev.evicted, k)
		}
		ev.calls = nil
		for _, obj := range indexer.List() {
			_ = indexer.Delete(obj)
		}
		podNode := map[string]*c18NodeSpec{}
		for _, n := range nodes {
			pool := pools[0]
			if n.Pool >= 0 {
				pool = pools[n.Pool]
			}
			nr := c18GenNodeRound(t, n, round, pool, metricTrouble)
			rl.Nodes[n.Name] = nr
			for _, p := range nr.Pods {
				k := p.NS + "/" + p.Name
				ev.flags[k] = p
				podNode[k] = n
				h.podsByNode[n.Name] = append(h.podsByNode[n.Name], c18BuildPod(p, n.Name))
			}
			age := int64(rapid.IntRange(0, 600).Draw(t, fmt.Sprintf("R%d%sAge", round, n.Name)))
			if nm := c18BuildNodeMetric(n, nr, base, a.ExpirationSec, age); nm != nil {
				_ = indexer.Add(nm)
			}
		}
		log = append(log, rl)

		// ---- oracle: state of every node at the start of the round
		states := map[string]*c18NodeState{}
		poolMembers := make([][]*c18NodeState, len(pools))
		for _, n := range nodes {
			nr := rl.Nodes[n.Name]
			st := &c18NodeState{Spec: n, Measured: nr.Metric == "fresh", Usage: c18Vec{}, Prod: c18Vec{},
				NodeLow: c18Thr{}, NodeHigh: c18Thr{}, ProdLow: c18Thr{}, ProdHigh: c18Thr{}}
			st.Usage[c18CPU], st.Usage[c18Mem] = nr.SysCPU, nr.SysMem
			for _, p := range nr.Stale {
				st.Usage[c18CPU] += p.CPU
				st.Usage[c18Mem] += p.Mem
			}
			for _, p := range nr.Pods {
				st.Usage[c18Pods]++
				if p.Prod {
					st.Prod[c18Pods]++
				}
				if p.HasMetric {
					st.Usage[c18CPU] += p.CPU
					st.Usage[c18Mem] += p.Mem
					if p.Prod {
						st.Prod[c18CPU] += p.CPU
						st.Prod[c18Mem] += p.Mem
					}
				}
			}
			states[n.Name] = st
			if n.Pool >= 0 {
				poolMembers[n.Pool] = append(poolMembers[n.Pool], st)
			}
			if !st.Measured {
				sawUnmeasured = true
			}
		}
		for pi, p := range pools {
			c18ComputeThresholds(p, poolRes[pi], poolMembers[pi])
		}
		// abnormality history (current round included)
		for _, n := range nodes {
			st := states[n.Name]
			sn, sp := int8(c18Unmeasured), int8(c18Unmeasured)
			if n.Pool >= 0 && st.Measured {
				res := poolRes[n.Pool]
				sn, sp = c18NotHigh, c18NotHigh
				if c18PossiblyAbove(st.Usage, st.NodeHigh, res) {
					sn = c18High
				}
				if c18PossiblyAbove(st.Prod, st.ProdHigh, res) {
					sp = c18High
				}
				if c18PossiblyAbove(st.Usage, st.NodeHigh, res) != c18DefinitelyAbove(st.Usage, st.NodeHigh, res) {
					sawAmbiguous = true
				}
			}
			if runNode[n.Name] != nil {
				runNode[n.Name].observe(sn)
				runProd[n.Name].observe(sp)
			}
		}
		// upper bounds of the receivable load per pool: sum over every node that may count as underused of (high - usage)
		headNode := make([]c18Vec, len(pools))
		headProd := make([]c18Vec, len(pools))
		headProdOnly := make([]c18Vec, len(pools)) // the part of headProd offered by nodes that are not underused at node level
		for pi := range pools {
			headNode[pi], headProd[pi], headProdOnly[pi] = c18Vec{}, c18Vec{}, c18Vec{}
			anyHigh, anyLow := false, false
			for _, m := range poolMembers[pi] {
				if !m.Measured {
					continue
				}
				if c18PossiblyAbove(m.Usage, m.NodeHigh, poolRes[pi]) || c18PossiblyAbove(m.Prod, m.ProdHigh, poolRes[pi]) {
					anyHigh = true
				}
				lowN := c18PossiblyBelowAll(m.Usage, m.NodeLow, poolRes[pi])
				lowP := c18PossiblyBelowAll(m.Prod, m.ProdLow, poolRes[pi])
				if m.Spec.Unsched {
					if lowN {
						sawUnschedLow = true
					}
					continue
				}
				if lowN || lowP {
					anyLow = true
				}
				// prod-only destinations: nodes between the node-level thresholds that are below the prod low thresholds
				prodOnly := lowP && !c18DefinitelyBelowAll(m.Usage, m.NodeLow, poolRes[pi]) && !c18DefinitelyAbove(m.Usage, m.NodeHigh, poolRes[pi])
				for _, r := range poolRes[pi] {
					if lowN {
						if d := m.NodeHigh[r].Hi - m.Usage[r]; d > 0 {
							headNode[pi][r] += d
						}
					}
					if lowP {
						if d := m.ProdHigh[r].Hi - m.Prod[r]; d > 0 {
							headProd[pi][r] += d
							if prodOnly {
								headProdOnly[pi][r] += d
							}
						}
					}
				}
			}
			if !anyHigh {
				sawNoHigh = true
			}
			if !anyLow {
				sawNoLow = true
			}
		}

		// ---- run the round
		pl.Balance(context.Background(), apiNodes)
		log[round].Evict = append([]c18EvictCall{}, ev.calls...)
		totalEvictions += len(ev.calls)

		// ---- oracle: every Evict call, in order
		evictedAll := map[string]c18Vec{}  // per node: successfully evicted pods that had metrics
		evictedProd := map[string]c18Vec{} // per node: the prod pods among them
		spentNode := make([]c18Vec, len(pools))
		spentProd := make([]c18Vec, len(pools))
		for pi := range pools {
			spentNode[pi], spentProd[pi] = c18Vec{}, c18Vec{}
		}
		evictedKeys := map[string]bool{}
		sources := map[string]bool{}
		admitted := map[string]int{}
		for i, call := range ev.calls {
			n, ok := podNode[call.Key]
			pod := ev.flags[call.Key]
			where := fmt.Sprintf("round %d eviction #%d of pod %s on node %s", round, i, call.Key, call.Node)
			if !ok || n.Name != call.Node {
				c.Violation(t, "evict:unknown-pod", "%s: not a pod of this round; case=%s", where, describe())
				return
			}
			if a.DryRun {
				c.Violation(t, "dryrun:evicted", "%s: Evict called although DryRun is set; case=%s", where, describe())
				return
			}
			if !evictable(pod) {
				if c.Violation(t, "filter:evicted-pod-fails-filter", "%s: the pod does not pass the configured filters (evictorOK=%v app=%q ns=%s selectors=%v include=%v exclude=%v); case=%s",
					where, pod.EvictorOK, pod.App, pod.NS, a.PodSelectors, a.NSInclude, a.NSExclude, describe()) {
					return
				}
			}
			// the evictor's verdict at the moment of this call, recomputed from the successful evictions recorded so far
			limitKey := c18LimitKey(a.FilterMode, n.Name, pod.NS, pod.App)
			if a.FilterMode != "static" && admitted[limitKey] >= a.FilterLimit {
				if c.Violation(t, "filter:pod-rejected-by-evictor-at-eviction-time", "%s: the evictor filter (%s, limit %d) no longer admits the pod: %d pods of %s were already evicted in this round; evictions so far this round=%v; case=%s",
					where, a.FilterMode, a.FilterLimit, admitted[limitKey], limitKey, ev.calls[:i], describe()) {
					return
				}
			}
			if pod.EvictOK {
				admitted[limitKey]++
				if a.FilterMode != "static" && admitted[limitKey] >= a.FilterLimit {
					sawLimitReached = true
				}
			}
			if n.Pool < 0 {
				c.Violation(t, "source:node-outside-any-pool", "%s: the node matches no node pool; case=%s", where, describe())
				return
			}
			st := states[n.Name]
			if !st.Measured {
				if c.Violation(t, "source:node-without-fresh-metrics", "%s: the node has no usable NodeMetric (%s); case=%s", where, rl.Nodes[n.Name].Metric, describe()) {
					return
				}
			}
			pi := n.Pool
			res := poolRes[pi]
			if evictedAll[n.Name] == nil {
				evictedAll[n.Name], evictedProd[n.Name] = c18Vec{}, c18Vec{}
			}
			estNode := c18Sub(st.Usage, evictedAll[n.Name])
			estProd := c18Sub(st.Prod, evictedProd[n.Name])
			otherLow := func(prod bool) bool {
				for _, m := range poolMembers[pi] {
					if m.Spec == n || !m.Measured || m.Spec.Unsched {
						continue
					}
					if !prod && c18PossiblyBelowAll(m.Usage, m.NodeLow, res) {
						return true
					}
					if prod && c18PossiblyBelowAll(m.Prod, m.ProdLow, res) {
						return true
					}
				}
				return false
			}
			headroomLeft := func(head, spent c18Vec) (corev1.ResourceName, bool) {
				for _, r := range res {
					if head[r]-spent[r] <= 0 {
						return r, false
					}
				}
				return "", true
			}
			anomN := 1
			if pools[pi].Anom != nil {
				anomN = int(pools[pi].Anom.N)
			}
			// failing clause (signature, detail) of the justification at one level; "" when justified
			level := func(prod bool) (string, string) {
				est, high, startU, run, head, spent := estNode, st.NodeHigh, st.Usage, runNode[n.Name], headNode[pi], spentNode[pi]
				if prod {
					est, high, startU, run, head, spent = estProd, st.ProdHigh, st.Prod, runProd[n.Name], headProd[pi], spentProd[pi]
					if !pod.Prod {
						return "source:node-not-overloaded", "pod is not a prod pod"
					}
				}
				if !c18PossiblyAbove(startU, high, res) {
					return "source:node-not-overloaded", fmt.Sprintf("usage at the start of the round %v is not above the high thresholds %v", startU, high)
				}
				if !c18PossiblyAbove(est, high, res) {
					return "stop:evicted-after-node-back-under-high-threshold", fmt.Sprintf("estimated usage %v (start %v minus the pods already evicted) is no longer above the high thresholds %v", est, startU, high)
				}
				if !otherLow(prod) {
					return "target:no-underused-node", "no other schedulable node with fresh metrics is below all low thresholds"
				}
				if r, ok := headroomLeft(head, spent); !ok {
					return "stop:headroom-used-up", fmt.Sprintf("receivable load of the underused nodes %v minus already evicted %v leaves nothing for %s", head, spent, r)
				}
				if prod {
					// nodes underused at both levels are shared: what the node-level evictions of this round already sent there is
					// gone for the prod level too. Upper bound: prod-only destinations + what is left of the node-level headroom.
					for _, r := range res {
						if left := headProdOnly[pi][r] + headNode[pi][r] - spentNode[pi][r] - spentProd[pi][r]; left <= 0 {
							return "stop:prod-level-reuses-headroom-used-up-at-node-level", fmt.Sprintf("%s: prod-only destinations offer %d, the nodes underused at node level offered %d of which the node-level evictions of this round took %d (prod-level evictions so far %d): nothing is left",
								r, headProdOnly[pi][r], headNode[pi][r], spentNode[pi][r], spentProd[pi][r])
						}
					}
				}
				if anomN > 1 {
					if sig, why := run.failure(); sig != "" {
						return sig, why
					}
					if run.restarts > 0 {
						sawEvictAfterRestart = true
					}
				}
				return "", ""
			}
			if st.Measured {
				sigN, whyN := level(false)
				sigP, whyP := level(true)
				if sigN != "" && sigP != "" {
					// neither level justifies the call: report the level that came closest to a justification
					sig, why := sigN, whyN+" (node level)"
					if c18ClauseRank[sigP] > c18ClauseRank[sigN] {
						sig, why = sigP, whyP+" (prod level)"
					}
					if c.Violation(t, sig, "%s: %s; thresholds of the node: nodeLow=%v nodeHigh=%v prodLow=%v prodHigh=%v; evictions so far this round=%v; case=%s",
						where, why, st.NodeLow, st.NodeHigh, st.ProdLow, st.ProdHigh, ev.calls[:i], describe()) {
						return
					}
				}
				if sigN == "" {
					sawNodePhase = true
				} else if sigP == "" {
					sawProdPhase = true
				}
				if anomN > 1 {
					sawAnomEvict = true
				}
			}
			sources[n.Name] = true
			evictedKeys[call.Key] = true
			if !pod.EvictOK {
				sawFailedEvict = true
			}
			if !pod.HasMetric {
				sawNoMetricEvict = true
			}
			if pod.EvictOK && pod.HasMetric {
				amount := c18Vec{c18CPU: pod.CPU, c18Mem: pod.Mem, c18Pods: 1}
				for r, v := range amount {
					evictedAll[n.Name][r] += v
					if pod.Prod {
						evictedProd[n.Name][r] += v
					}
				}
				// lower bounds of what was taken from the receivable load at each level
				if c18DefinitelyAbove(st.Usage, st.NodeHigh, res) {
					for r, v := range amount {
						spentNode[pi][r] += v
					}
				} else if pod.Prod && !c18PossiblyAbove(st.Usage, st.NodeHigh, res) {
					for r, v := range amount {
						spentProd[pi][r] += v
					}
				}
			}
		}
		if len(ev.calls) > 0 {
			sawEvict = true
		}
		if len(sources) > 1 {
			sawMultiSource = true
		}
		// ---- shapes of the shared-headroom clause and of same-named pods
		for pi := range pools {
			usedUp := false
			for _, r := range poolRes[pi] {
				if spentNode[pi][r] > 0 && headNode[pi][r]-spentNode[pi][r] <= 0 {
					usedUp = true
				}
			}
			if !usedUp {
				continue
			}
			sawSharedUsedUp = true
			for _, m := range poolMembers[pi] {
				if !m.Measured || c18PossiblyAbove(m.Usage, m.NodeHigh, poolRes[pi]) || !c18DefinitelyAbove(m.Prod, m.ProdHigh, poolRes[pi]) {
					continue
				}
				for _, p := range rl.Nodes[m.Spec.Name].Pods {
					if p.Prod && evictable(p) && !evictedKeys[p.NS+"/"+p.Name] {
						sawProdHotspotAfterUsedUp = true
					}
				}
			}
		}
		for _, n := range nodes {
			st := states[n.Name]
			if n.Pool < 0 || !st.Measured {
				continue
			}
			var twin c18Vec
			for i, p := range rl.Nodes[n.Name].Pods {
				for j, q := range rl.Nodes[n.Name].Pods {
					if i != j && p.Prod && !q.Prod && p.Name == q.Name && q.HasMetric {
						sawTwin = true
						twin = c18Vec{c18CPU: q.CPU, c18Mem: q.Mem}
					}
				}
			}
			if twin != nil && !c18PossiblyAbove(st.Prod, st.ProdHigh, poolRes[n.Pool]) {
				with := c18Vec{c18CPU: st.Prod[c18CPU] + twin[c18CPU], c18Mem: st.Prod[c18Mem] + twin[c18Mem], c18Pods: st.Prod[c18Pods]}
				if c18DefinitelyAbove(with, st.ProdHigh, poolRes[n.Pool]) && !c18PossiblyAbove(st.Usage, st.NodeHigh, poolRes[n.Pool]) {
					sawTwinLifts = true
				}
			}
		}
		// ---- certain underused-node reset: when the pool has a node that is treated as abnormal and an underused node, the
		// balancer declares every underused node normal before it evicts: a node certainly below all node-level low thresholds (and
		// not a prod hotspot) restarts its node-level run, a node between the node-level thresholds that is certainly below all prod
		// low thresholds restarts its prod-level run. "Has an abnormal node" is certain when an Evict call was made in the pool in
		// this round, or when another node is certainly abnormal by its certainRun.
		for _, n := range nodes {
			st := states[n.Name]
			if n.Pool < 0 || !st.Measured {
				continue
			}
			if c18DefinitelyAbove(st.Usage, st.NodeHigh, poolRes[n.Pool]) {
				certainRun[n.Name]++
			} else {
				certainRun[n.Name] = 0
			}
		}
		for _, n := range nodes {
			st := states[n.Name]
			if n.Pool < 0 || !st.Measured || n.Unsched || runNode[n.Name] == nil || pools[n.Pool].Anom.N <= 1 {
				continue
			}
			res := poolRes[n.Pool]
			reached := false
			for _, call := range ev.calls {
				if m := states[call.Node]; m != nil && m.Spec.Pool == n.Pool {
					reached = true
				}
			}
			if !reached && pools[n.Pool].Anom.Timeout != "1ns" {
				for _, m := range poolMembers[n.Pool] {
					if m.Spec != n && m.Measured && certainRun[m.Spec.Name] > int(pools[n.Pool].Anom.N) {
						reached = true
					}
				}
			}
			if !reached {
				continue
			}
			nodeLow := c18DefinitelyBelowAll(st.Usage, st.NodeLow, res)
			prodCalm := !c18PossiblyAbove(st.Prod, st.ProdHigh, res)
			if nodeLow && prodCalm {
				was := runNode[n.Name].anom
				runNode[n.Name].restart()
				if was {
					sawUnderusedReset, runNode[n.Name].lastRestartByUnderused = true, true
				}
			}
			if !c18PossiblyBelowAll(st.Usage, st.NodeLow, res) && !c18PossiblyAbove(st.Usage, st.NodeHigh, res) && prodCalm && c18DefinitelyBelowAll(st.Prod, st.ProdLow, res) {
				was := runProd[n.Name].anom
				runProd[n.Name].restart()
				if was {
					sawUnderusedReset, runProd[n.Name].lastRestartByUnderused = true, true
				}
			}
		}
		for _, n := range nodes { // nothing moved off the node keeps the certainRun alive
			if evictedAll[n.Name] != nil && evictedAll[n.Name][c18Pods] > 0 {
				certainRun[n.Name] = 0
			}
		}
		// ---- classes: why did it stop on each source node / why was nothing evicted
		for _, n := range nodes {
			st := states[n.Name]
			if n.Pool < 0 || !st.Measured {
				continue
			}
			res := poolRes[n.Pool]
			left, leftProd, leftFiltered := 0, 0, 0
			for _, p := range rl.Nodes[n.Name].Pods {
				if evictedKeys[p.NS+"/"+p.Name] {
					continue
				}
				if evictable(p) {
					left++
					if p.Prod {
						leftProd++
					}
				} else {
					leftFiltered++
				}
			}
			gatedPool := pools[n.Pool].Anom != nil && pools[n.Pool].Anom.N > 1
			if sources[n.Name] {
				nodePhase := c18DefinitelyAbove(st.Usage, st.NodeHigh, res)
				prodPhase := !c18PossiblyAbove(st.Usage, st.NodeHigh, res) && c18DefinitelyAbove(st.Prod, st.ProdHigh, res)
				est, high, run, candidates := c18Sub(st.Usage, evictedAll[n.Name]), st.NodeHigh, runNode[n.Name], left
				if !c18PossiblyAbove(st.Usage, st.NodeHigh, res) {
					est, high, run, candidates = c18Sub(st.Prod, evictedProd[n.Name]), st.ProdHigh, runProd[n.Name], leftProd
				}
				moved := evictedAll[n.Name][c18Pods] > 0
				backUnder := moved && !c18PossiblyAbove(est, high, res)
				if backUnder && candidates > 0 {
					sawNT = true
					ntKey = append(ntKey, round, n.Name, evictedAll[n.Name][c18Pods], candidates)
					// Certain stop-by-usage: with a static filter and without NodeFit every remaining pod that passes the filters was a
					// candidate behind the last evicted one, so the balancer looked at the node again, found it back under the
					// threshold and reset the detector of this level: the run restarts.
					if gatedPool && (nodePhase || prodPhase) && a.FilterMode == "static" && !a.NodeFit {
						run.restart()
						sawBalancerRestart = true
					}
				}
				if moved && c18PossiblyAbove(est, high, res) && left > 0 {
					sawHeadroomStop = true // still above with evictable pods left: the receivable load (or NodeFit, or the evictor limit) ended it
				}
				if leftFiltered > 0 {
					sawFilteredLeft = true
				}
			} else if gatedPool && c18DefinitelyAbove(st.Usage, st.NodeHigh, res) && left > 0 && !runNode[n.Name].anom {
				sawGated = true
				if runNode[n.Name].restarts > 0 && runNode[n.Name].lastRestartByUnderused {
					sawGatedAfterUnderusedReset = true
				}
			}
		}
		for _, n := range nodes {
			if r := runNode[n.Name]; r != nil && r.N > 1 && (r.restarts > 0 || runProd[n.Name].restarts > 0) {
				sawRestart = true
			}
		}
	}

	// ---- statistics
	c.ClassIf(viaConstructor, "built-by-NewLowNodeLoad")
	c.ClassIf(twoPools, "two-pools")
	c.ClassIf(sawEvict, "some-eviction")
	c.ClassIf(!sawEvict, "no-eviction-at-all")
	c.ClassIf(sawNT, "stopped-back-under-threshold-with-pods-left")
	c.ClassIf(sawHeadroomStop, "stopped-while-still-above-with-pods-left")
	c.ClassIf(sawGated, "anomaly-gated-high-node-not-evicted")
	c.ClassIf(sawAnomEvict, "eviction-under-consecutive-abnormalities>1")
	c.ClassIf(sawNodePhase, "node-level-eviction")
	c.ClassIf(sawProdPhase, "prod-level-eviction")
	c.ClassIf(sawFilteredLeft, "source-with-filtered-pods-left")
	c.ClassIf(sawAmbiguous, "usage-inside-threshold-rounding-band")
	c.ClassIf(sawNoHigh, "round-with-no-overloaded-node")
	c.ClassIf(sawNoLow, "round-with-no-underused-node")
	c.ClassIf(sawUnmeasured, "node-without-fresh-metrics")
	c.ClassIf(sawUnschedLow, "underused-but-unschedulable-node")
	c.ClassIf(sawMultiSource, "several-source-nodes-in-one-round")
	c.ClassIf(sawFailedEvict, "evict-call-failed")
	c.ClassIf(sawNoMetricEvict, "evicted-pod-without-metrics")
	c.ClassIf(a.FilterMode != "static", "stateful-evictor-filter")
	c.ClassIf(sawLimitReached, "evictor-limit-reached-during-round")
	c.ClassIf(sawBalancerRestart, "run-restarted-by-balancer-stop-by-usage")
	c.ClassIf(sawRestart, "abnormal-node-certainly-returned-to-normal")
	c.ClassIf(sawUnderusedReset, "abnormal-node-reset-because-underused")
	c.ClassIf(sawGatedAfterUnderusedReset, "overloaded-again-after-underused-reset-not-evicted")
	c.ClassIf(relapse, "scripted-relapse-shape")
	c.ClassIf(prodShared, "scripted-prodshared-shape")
	c.ClassIf(sawSharedUsedUp, "node-level-round-used-up-the-underused-nodes-headroom")
	c.ClassIf(sawProdHotspotAfterUsedUp, "prod-hotspot-with-evictable-prod-pods-left-after-headroom-used-up")
	c.ClassIf(sawTwin, "non-prod-pod-named-like-prod-pod-of-other-namespace")
	c.ClassIf(sawTwinLifts, "prod-usage-below-high-but-above-with-same-named-non-prod-pod")
	c.ClassIf(sawEvictAfterRestart, "eviction-after-return-to-normal-with-new-run")
	c.ClassIf(a.DryRun, "dry-run")
	c.ClassIf(a.NodeFit, "node-fit")
	c.ClassIf(a.NumberOfNodes > 0, "numberOfNodes>0")
	c.ClassIf(len(a.PodSelectors) > 0, "pod-selectors")
	c.ClassIf(len(a.NSInclude)+len(a.NSExclude) > 0, "evictable-namespaces")
	for _, p := range pools {
		c.ClassIf(p.Deviation, "deviation-thresholds")
		c.ClassIf(!p.Deviation, "absolute-thresholds")
		c.ClassIf(len(p.ProdThr) > 0, "prod-thresholds")
		c.ClassIf(p.Anom == nil, "no-anomaly-condition")
		c.ClassIf(p.Anom != nil && p.Anom.N > 1, "consecutive-abnormalities>1")
		c.ClassIf(p.Anom != nil && p.Anom.Timeout == "1ns", "anomaly-timeout-immediate")
		_, podsThr := p.NodeThr[c18Pods]
		c.ClassIf(podsThr, "pods-resource-thresholded")
	}
	c.Class(fmt.Sprintf("rounds:%d", rounds))
	switch {
	case totalEvictions == 0:
		c.Class("evictions:0")
	case totalEvictions <= 3:
		c.Class("evictions:1-3")
	default:
		c.Class("evictions:4+")
	}
	if sawNT {
		c.NonTrivial(describe(), ntKey)
	}
	if c.WantSample() {
		var sample any
		_ = json.Unmarshal([]byte(describe()), &sample)
		c.Sample(sample)
	}
}

func TestVerifC18Balance(t *testing.T) {
	c18Silence()
	rec := vk.New(t, "C18", "balanceRounds")
	rapid.Check(t, func(t *rapid.T) {
		c := rec.Begin()
		defer c.End()
		c18RunCase(t, c, false, "")
	})
}

// same cases, plugin built through NewLowNodeLoad (validation, filter composition, detector caches as in production)
func TestVerifC18BalanceViaConstructor(t *testing.T) {
	c18Silence()
	rec := vk.New(t, "C18", "balanceRoundsViaConstructor")
	rapid.Check(t, func(t *rapid.T) {
		c := rec.Begin()
		defer c.End()
		c18RunCase(t, c, true, "")
	})
}

// scripted shape: a node is abnormal, then underused while another node is abnormal, then overloaded again for a single round
func TestVerifC18Relapse(t *testing.T) {
	c18Silence()
	rec := vk.New(t, "C18", "relapseAfterUnderusedRound")
	rapid.Check(t, func(t *rapid.T) {
		c := rec.Begin()
		defer c.End()
		c18RunCase(t, c, false, "relapse")
	})
}

// scripted shape: node-level and prod-level hotspots that share the same underused nodes; same-named pods in two namespaces
func TestVerifC18ProdShared(t *testing.T) {
	c18Silence()
	rec := vk.New(t, "C18", "prodLevelSharedDestinations")
	rapid.Check(t, func(t *rapid.T) {
		c := rec.Begin()
		defer c.End()
		c18RunCase(t, c, false, "prodshared")
	})
}
