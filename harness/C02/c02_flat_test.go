//go:build verif

package core

import (
	"fmt"
	"math/big"
	"os"
	"strconv"
	"testing"

	corev1 "k8s.io/api/core/v1"
	"pgregory.net/rapid"

	"github.com/koordinator-sh/koordinator/pkg/verifkit/vk"
)

// ------------------------------------------------------------------------------------------------
// drivers of the code under test
// ------------------------------------------------------------------------------------------------

// c02BuildTree inserts the siblings in the given order through quotaTree's own setters. When
// viaUpdate[i] is set the node is first inserted with other values and then brought to its final
// values with updateRequest/updateMin/updateGuaranteed/updateSharedWeight (what the calculator does
// for a node that already exists).
func c02BuildTree(sibs []c02Sib, order []int, viaUpdate []bool) *quotaTree {
	qt := NewQuotaTree()
	for _, i := range order {
		s := sibs[i]
		if viaUpdate != nil && viaUpdate[i] {
			qt.insert(s.Name, s.Weight/2+1, s.Req/2, s.Min+1, s.Guar/3, s.Lent)
			qt.updateRequest(s.Name, s.Req)
			qt.updateMin(s.Name, s.Min)
			qt.updateGuaranteed(s.Name, s.Guar)
			qt.updateSharedWeight(s.Name, s.Weight)
		} else {
			qt.insert(s.Name, s.Weight, s.Req, s.Min, s.Guar, s.Lent)
		}
	}
	return qt
}

func c02ReadTree(qt *quotaTree, sibs []c02Sib) []int64 {
	rt := make([]int64, len(sibs))
	for i, s := range sibs {
		rt[i] = qt.quotaNodes[s.Name].runtimeQuota
	}
	return rt
}

func c02Identity(n int) []int {
	o := make([]int, n)
	for i := range o {
		o[i] = i
	}
	return o
}

func c02Eq(a, b []int64) bool {
	if len(a) != len(b) {
		return false
	}
	for i := range a {
		if a[i] != b[i] {
			return false
		}
	}
	return true
}

// c02IterateDirect prepares phase 1 in the harness (borrowers at eff) and calls
// iterationForRedistribution with the borrowers in the given slice order; returns the runtime of
// every sibling (non-borrowers are reported as -1: they are not touched by the iteration).
func c02IterateDirect(sibs []c02Sib, order []int, left int64) []int64 {
	qt := NewQuotaTree()
	nodes := make([]*quotaNode, 0, len(sibs))
	byIdx := make([]*quotaNode, len(sibs))
	W := int64(0)
	for _, i := range order {
		s := sibs[i]
		if !s.borrower() {
			continue
		}
		nd := NewQuotaNode(s.Name, s.Weight, s.Req, s.Min, s.Guar, s.Lent)
		nd.runtimeQuota = s.eff()
		W += s.Weight
		nodes = append(nodes, nd)
		byIdx[i] = nd
	}
	qt.iterationForRedistribution(left, W, nodes)
	out := make([]int64, len(sibs))
	for i := range sibs {
		if byIdx[i] == nil {
			out[i] = -1
		} else {
			out[i] = byIdx[i].runtimeQuota
		}
	}
	return out
}

func c02ResList(cpuMilli, mem int64) corev1.ResourceList {
	return corev1.ResourceList{corev1.ResourceCPU: createQuantity(cpuMilli, corev1.ResourceCPU), corev1.ResourceMemory: createQuantity(mem, corev1.ResourceMemory)}
}

// c02RunCalculator drives RuntimeQuotaCalculator through its real setters, following the protocol
// GroupQuotaManager follows: a quota is registered with max, then min, then shared weight
// (updateQuotaInternalNoLock); afterwards a field of the QuotaInfo only ever changes together with
// the matching calculator call (request / guarantee behind their needUpdate… guard). Two independent
// dimensions (cpu in milli-units, memory); the request is limited by max inside koordinator
// (getLimitRequestNoLock). max = max(request,min) + MaxOver (negative when the request is cut).
type c02CalcOp struct {
	Kind  string // max | min | weight | request | guarantee | refresh | total
	Q     int
	Final bool // final value of the case, or some other value that a later op overwrites
}

type c02CalcPlan struct {
	Order        []int  // registration order
	GarbageFirst []bool // quota i is registered with other max/min/weight values first
	Ops          []c02CalcOp
	MaxOver      [2][]int64
}

func c02RunCalculator(dims [2][]c02Sib, totals [2]int64, plan c02CalcPlan) [2][]int64 {
	n := len(dims[0])
	calc := NewRuntimeQuotaCalculator("c02-parent")
	infos := make([]*QuotaInfo, n)
	set := func(i int, kind string, final bool) {
		qi := infos[i]
		v := func(x0, x1 int64) corev1.ResourceList {
			if !final {
				return c02ResList(x0/2+1, x1/3+2)
			}
			return c02ResList(x0, x1)
		}
		a, b := dims[0][i], dims[1][i]
		switch kind {
		case "max":
			qi.setMaxQuotaNoLock(v(c02Max64(a.Req, a.Min)+plan.MaxOver[0][i], c02Max64(b.Req, b.Min)+plan.MaxOver[1][i]))
			calc.updateOneGroupMaxQuota(qi)
		case "min":
			qi.setAutoScaleMinQuotaNoLock(v(a.Min, b.Min))
			calc.updateOneGroupMinQuota(qi)
		case "weight":
			qi.setSharedWeightNoLock(v(a.Weight, b.Weight))
			calc.updateOneGroupSharedWeight(qi)
		case "request":
			qi.CalculateInfo.Request = v(a.Req, b.Req)
			if calc.needUpdateOneGroupRequest(qi) {
				calc.updateOneGroupRequest(qi)
			}
		case "guarantee":
			qi.CalculateInfo.Guaranteed = v(a.Guar, b.Guar)
			if calc.needUpdateOneGroupGuaranteed(qi) {
				calc.updateOneGroupGuaranteed(qi)
			}
		}
	}
	for _, i := range plan.Order {
		infos[i] = NewQuotaInfo(false, dims[0][i].Lent, dims[0][i].Name, "c02-parent")
		set(i, "max", !plan.GarbageFirst[i])
		set(i, "min", !plan.GarbageFirst[i])
		set(i, "weight", !plan.GarbageFirst[i])
	}
	for _, op := range plan.Ops {
		switch op.Kind {
		case "refresh":
			calc.updateOneGroupRuntimeQuota(infos[op.Q])
		case "total":
			if op.Final {
				calc.setClusterTotalResource(c02ResList(totals[0], totals[1]))
			} else {
				calc.setClusterTotalResource(c02ResList(totals[0]/2+3, totals[1]+5))
			}
		default:
			set(op.Q, op.Kind, op.Final)
		}
	}
	var out [2][]int64
	out[0], out[1] = make([]int64, n), make([]int64, n)
	for _, i := range plan.Order {
		calc.updateOneGroupRuntimeQuota(infos[i])
		cpu := infos[i].CalculateInfo.Runtime[corev1.ResourceCPU]
		mem := infos[i].CalculateInfo.Runtime[corev1.ResourceMemory]
		out[0][i] = getQuantityValue(cpu, corev1.ResourceCPU)
		out[1][i] = getQuantityValue(mem, corev1.ResourceMemory)
	}
	return out
}

// c02GenCalcOps: first a shuffled batch of non-final changes, refreshes and a wrong total, then a shuffled batch
// with every final value, the final total and more refreshes (so that a runtime computed before the last input
// change must be recomputed by the version stamp).
func c02GenCalcOps(t *rapid.T, n int, garbageFirst []bool) []c02CalcOp {
	var a, b []c02CalcOp
	for i := 0; i < n; i++ {
		if rapid.Bool().Draw(t, "earlyReq") {
			a = append(a, c02CalcOp{"request", i, false})
		}
		if rapid.IntRange(0, 2).Draw(t, "earlyGuar") == 0 {
			a = append(a, c02CalcOp{"guarantee", i, false})
		}
		if garbageFirst[i] {
			b = append(b, c02CalcOp{"max", i, true}, c02CalcOp{"min", i, true}, c02CalcOp{"weight", i, true})
		}
		b = append(b, c02CalcOp{"request", i, true}, c02CalcOp{"guarantee", i, true})
	}
	if rapid.Bool().Draw(t, "earlyTotal") {
		a = append(a, c02CalcOp{"total", 0, false})
	}
	for k := rapid.IntRange(0, 2).Draw(t, "earlyRefreshes"); k > 0; k-- {
		a = append(a, c02CalcOp{"refresh", rapid.IntRange(0, n-1).Draw(t, "earlyRefreshQ"), false})
	}
	b = append(b, c02CalcOp{"total", 0, true})
	for k := rapid.IntRange(0, 3).Draw(t, "lateRefreshes"); k > 0; k-- {
		b = append(b, c02CalcOp{"refresh", rapid.IntRange(0, n-1).Draw(t, "lateRefreshQ"), false})
	}
	ops := append([]c02CalcOp(nil), rapid.Permutation(a).Draw(t, "opsA")...)
	return append(ops, rapid.Permutation(b).Draw(t, "opsB")...)
}

// ------------------------------------------------------------------------------------------------
// classes / non-trivial rule shared by the sampled and the exhaustive unit
// ------------------------------------------------------------------------------------------------

func c02Classify(c *vk.Case, sibs []c02Sib, total int64, sh c02Shape) bool {
	c.Class(fmt.Sprintf("n=%d", len(sibs)))
	c.ClassIf(sh.BelowMin, "total-below-sum-of-minimums")
	c.ClassIf(sh.Left.Sign() < 0, "total-below-phase1")
	c.ClassIf(sh.Left.Sign() == 0, "total-exactly-phase1")
	c.ClassIf(sh.Left.Sign() > 0, "positive-leftover")
	c.ClassIf(total < 0, "negative-total")
	c.ClassIf(sh.ZeroWBorrower, "zero-weight-borrower")
	c.ClassIf(sh.Borrowers >= 2, "two-or-more-borrowers")
	c.ClassIf(sh.Remainder, "nonzero-remainder")
	c.ClassIf(sh.Tie, "tie-on-remainder")
	c.ClassIf(sh.MultiRound, "multi-round")
	c.ClassIf(sh.Beyond53, "product-beyond-2^53")
	c.ClassIf(sh.Beyond64, "product-beyond-2^64")
	lender, keeper := false, false
	for _, s := range sibs {
		if !s.borrower() && s.Req < s.eff() {
			if s.Lent {
				lender = true
			} else {
				keeper = true
			}
		}
	}
	c.ClassIf(lender, "lending-donor")
	c.ClassIf(keeper, "non-lending-below-min")
	// non-trivial rule of DESIGN.md: >= 2 borrowers (with weight), positive leftover, Hamilton residue exercised
	return sh.PosBorrowers >= 2 && sh.Left.Sign() > 0 && sh.Remainder
}

func c02ClassifyOutcome(c *vk.Case, sibs []c02Sib, total int64, rt []int64) {
	sat, unsat := 0, 0
	sum := new(big.Int)
	for i, s := range sibs {
		sum.Add(sum, big.NewInt(rt[i]))
		if s.borrower() && s.Weight > 0 {
			if rt[i] >= s.Req {
				sat++
			} else {
				unsat++
			}
		}
	}
	c.ClassIf(sat > 0 && unsat > 0, "outcome:some-satisfied-some-not")
	c.ClassIf(unsat >= 2, "outcome:two-or-more-unsatisfied")
	c.ClassIf(unsat == 0 && sat > 0, "outcome:all-satisfied")
	c.ClassIf(sum.Cmp(big.NewInt(total)) == 0, "outcome:sum-equals-total")
}

// ------------------------------------------------------------------------------------------------
// (1) sampled redistribution on flat sibling sets
// ------------------------------------------------------------------------------------------------

func TestVerifC02Flat(t *testing.T) {
	rec := vk.New(t, "C02", "flat")
	rec.Note("scope", "n in 1..8 siblings; request/min/guarantee/weight from {0, 0..8, near the scale bound, uniform} at scales 8, 100, 1e6, 2^40, 2^61/n; total aimed at 0, below/at/just above phase 1, between, all requests -1/0/+, negative, sum(eff) and sum(eff)-1")
	rapid.Check(t, func(t *rapid.T) {
		c := rec.Begin()
		defer c.End()
		n := rapid.SampledFrom([]int{1, 2, 2, 3, 3, 3, 4, 4, 5, 6, 7, 8}).Draw(t, "n")
		names := c02GenNames(t, n)
		lent := rapid.SliceOfN(rapid.Bool(), n, n).Draw(t, "lent")
		viaCalc := rapid.IntRange(0, 2).Draw(t, "path") == 0

		if !viaCalc {
			sibs, total, scale := c02GenDim(t, names, lent, "d")
			viaUpdate := rapid.SliceOfN(rapid.Bool(), n, n).Draw(t, "viaUpdate")
			qt := c02BuildTree(sibs, c02Identity(n), viaUpdate)
			qt.redistribution(total)
			rt := c02ReadTree(qt, sibs)
			c.Class("path:quotaTree")
			c.Class("scale:" + scale)
			sh := c02ShapeOf(sibs, total)
			if c02Classify(c, sibs, total, sh) {
				c.NonTrivial(fmt.Sprint(sibs), total)
			}
			c02ClassifyOutcome(c, sibs, total, rt)
			c.Sample(map[string]any{"path": "quotaTree", "siblings": sibs, "total": total, "runtime": rt})
			if sig, msg := c02CheckBig(sibs, total, rt); sig != "" {
				if c.Violation(t, sig, "%s; %s", msg, c02Describe(sibs, total, rt)) {
					return
				}
			}
			c02SelfCheck(t, sibs, total, rt, scale)
			// pure function: a second evaluation on the same tree gives the same answer
			qt.redistribution(total)
			if rt2 := c02ReadTree(qt, sibs); !c02Eq(rt, rt2) {
				if c.Violation(t, "flat:not-repeatable", "second redistribution on the same tree differs: %v vs %s", rt2, c02Describe(sibs, total, rt)) {
					return
				}
			}
			return
		}

		// through RuntimeQuotaCalculator's setters, two independent dimensions
		var dims [2][]c02Sib
		var totals [2]int64
		var scales [2]string
		dims[0], totals[0], scales[0] = c02GenDim(t, names, lent, "cpu")
		dims[1], totals[1], scales[1] = c02GenDim(t, names, lent, "mem")
		plan := c02CalcPlan{
			Order:        rapid.Permutation(c02Identity(n)).Draw(t, "order"),
			GarbageFirst: rapid.SliceOfN(rapid.Bool(), n, n).Draw(t, "garbageFirst"),
		}
		// effective siblings as koordinator must see them: request limited by max
		var effDims [2][]c02Sib
		capped := false
		for d := 0; d < 2; d++ {
			plan.MaxOver[d] = make([]int64, n)
			effDims[d] = append([]c02Sib(nil), dims[d]...)
			for i := 0; i < n; i++ {
				s := dims[d][i]
				// max >= min always (webhook); either max >= request (plus slack) or the request is cut to max
				if s.Req > s.Min && rapid.IntRange(0, 3).Draw(t, fmt.Sprintf("cap%d_%d", d, i)) == 0 {
					newMax := s.Min + rapid.Int64Range(0, s.Req-s.Min-1).Draw(t, "cappedMax")
					plan.MaxOver[d][i] = newMax - c02Max64(s.Req, s.Min) // negative
					effDims[d][i].Req = newMax
					capped = true
				} else {
					plan.MaxOver[d][i] = rapid.Int64Range(0, 3).Draw(t, "maxSlack")
				}
			}
		}
		plan.Ops = c02GenCalcOps(t, n, plan.GarbageFirst)
		out := c02RunCalculator(dims, totals, plan)
		c.Class("path:calculator")
		c.ClassIf(capped, "request-limited-by-max")
		nt := false
		for d := 0; d < 2; d++ {
			c.Class("scale:" + scales[d])
			sh := c02ShapeOf(effDims[d], totals[d])
			if c02Classify(c, effDims[d], totals[d], sh) {
				nt = true
			}
			c02ClassifyOutcome(c, effDims[d], totals[d], out[d])
		}
		if nt {
			c.NonTrivial(fmt.Sprint(effDims), totals)
		}
		c.Sample(map[string]any{"path": "calculator", "cpu": effDims[0], "cpuTotal": totals[0], "cpuRuntime": out[0],
			"memory": effDims[1], "memoryTotal": totals[1], "memoryRuntime": out[1], "plan": plan})
		for d := 0; d < 2; d++ {
			if sig, msg := c02CheckBig(effDims[d], totals[d], out[d]); sig != "" {
				if c.Violation(t, "calc:"+sig[len("flat:"):], "dimension %d via RuntimeQuotaCalculator (plan %+v): %s; %s", d, plan, msg, c02Describe(effDims[d], totals[d], out[d])) {
					return
				}
			}
		}
	})
}

// c02SelfCheck guards the harness itself: on small-valued cases the int64 oracle used by the exhaustive
// unit must agree with the math/big oracle, on the real output and on a few perturbed outputs.
func c02SelfCheck(t *rapid.T, sibs []c02Sib, total int64, rt []int64, scale string) {
	if scale != "tiny" && scale != "small" {
		return
	}
	check := func(out []int64) {
		a, _ := c02CheckBig(sibs, total, out)
		b := c02CheckSmall(sibs, total, out)
		if a != b {
			t.Fatalf("HARNESS BUG: oracles disagree big=%q small=%q on %s", a, b, c02Describe(sibs, total, out))
		}
	}
	check(rt)
	n := len(sibs)
	i := rapid.IntRange(0, n-1).Draw(t, "perturbI")
	j := rapid.IntRange(0, n-1).Draw(t, "perturbJ")
	d := rapid.Int64Range(-2, 2).Draw(t, "perturbD")
	p := append([]int64(nil), rt...)
	p[i] += d
	check(p)
	p[j] -= d
	check(p)
}

// ------------------------------------------------------------------------------------------------
// (2) exhaustive small scope
// ------------------------------------------------------------------------------------------------

// Scope: n in {1,2,3} siblings as a multiset (siblings are named "a","b","c" in enumeration order, so
// the scope is complete up to renaming; name/order effects are the subject of TestVerifC02Order),
// request 0..4, eff 0..4, weight 0..3, lend flag, total 0..13 (sum of requests is at most 12).
// The way eff is split into (min, guarantee) rotates deterministically over
// (eff,0) / (0,eff) / (eff,eff) / (eff-1,eff) / (eff,eff-1): redistribution() only uses max(min,guarantee).
// The enumeration is cut into VERIF_C02_EXSHARDS slices by the index of the first sibling; the driver
// runs one process per slice.
func TestVerifC02Exhaustive(t *testing.T) {
	rec := vk.New(t, "C02", "exhaustive")
	rec.Exhaustive()
	shards, shard := 1, 0
	if v, err := strconv.Atoi(os.Getenv("VERIF_C02_EXSHARDS")); err == nil && v > 1 {
		shards = v
		shard = int((vk.Seed() - 1) % 1000 % uint64(shards))
	}
	rec.Note("scope", "all multisets of n<=3 siblings with request 0..4, max(min,guarantee) 0..4, weight 0..3, lend flag, and every total 0..13; complete up to renaming of siblings")
	rec.Note("shards", fmt.Sprintf("%d", shards))

	type dom struct {
		req, eff, w int64
		lent        bool
	}
	var D []dom
	for req := int64(0); req <= 4; req++ {
		for eff := int64(0); eff <= 4; eff++ {
			for w := int64(0); w <= 3; w++ {
				D = append(D, dom{req, eff, w, true}, dom{req, eff, w, false})
			}
		}
	}
	names := []string{"a", "b", "c"}
	mk := func(d dom, pos int, rot int) c02Sib {
		s := c02Sib{Name: names[pos], Req: d.req, Weight: d.w, Lent: d.lent}
		switch rot % 5 {
		case 0:
			s.Min, s.Guar = d.eff, 0
		case 1:
			s.Min, s.Guar = 0, d.eff
		case 2:
			s.Min, s.Guar = d.eff, d.eff
		case 3:
			s.Min, s.Guar = c02Max64(0, d.eff-1), d.eff
		default:
			s.Min, s.Guar = d.eff, c02Max64(0, d.eff-1)
		}
		return s
	}
	count := 0
	run := func(sibs []c02Sib, ki, kj, kk int) {
		for total := int64(0); total <= 13; total++ {
			c := rec.Begin()
			qt := NewQuotaTree()
			for _, s := range sibs {
				qt.insert(s.Name, s.Weight, s.Req, s.Min, s.Guar, s.Lent)
			}
			qt.redistribution(total)
			rt := make([]int64, len(sibs))
			for i, s := range sibs {
				rt[i] = qt.quotaNodes[s.Name].runtimeQuota
			}
			count++
			// cheap classes only (this loop runs millions of times)
			var p1, wpos, left int64
			posB := 0
			for _, s := range sibs {
				switch {
				case s.borrower():
					p1 += s.eff()
					if s.Weight > 0 {
						posB++
						wpos += s.Weight
					}
				case s.Lent:
					p1 += s.Req
				default:
					p1 += s.eff()
				}
			}
			left = total - p1
			rem := false
			if left > 0 && wpos > 0 {
				for _, s := range sibs {
					if s.borrower() && s.Weight > 0 && (s.Weight*left)%wpos != 0 {
						rem = true
					}
				}
			}
			c.ClassIf(left < 0, "total-below-phase1")
			c.ClassIf(left > 0, "positive-leftover")
			c.ClassIf(rem, "nonzero-remainder")
			c.ClassIf(posB >= 2, "two-or-more-weighted-borrowers")
			if posB >= 2 && left > 0 && rem {
				c.NonTrivial(ki, kj, kk, total)
			}
			if count%100003 == 1 {
				c.Sample(map[string]any{"siblings": append([]c02Sib(nil), sibs...), "total": total, "runtime": rt})
			}
			if sig := c02CheckSmall(sibs, total, rt); sig != "" {
				_, msg := c02CheckBig(sibs, total, rt)
				// returns only for a known finding (case abandoned); otherwise fails the test here
				c.Violation(t, sig, "%s; %s", msg, c02Describe(sibs, total, rt))
			}
			c.End()
		}
	}
	rot := 0
	for i := range D {
		if i%shards != shard {
			continue
		}
		rot++
		run([]c02Sib{mk(D[i], 0, rot)}, i, -1, -1)
		for j := i; j < len(D); j++ {
			rot++
			run([]c02Sib{mk(D[i], 0, rot), mk(D[j], 1, rot/5)}, i, j, -1)
			for k := j; k < len(D); k++ {
				rot++
				run([]c02Sib{mk(D[i], 0, rot), mk(D[j], 1, rot/5), mk(D[k], 2, rot/25)}, i, j, k)
			}
		}
	}
	rec.Note("enumerated", fmt.Sprintf("%d cases in shard %d/%d", count, shard, shards))
}

// ------------------------------------------------------------------------------------------------
// (3) computeHamiltonDeltas against a math/big reference
// ------------------------------------------------------------------------------------------------

// c02HamiltonRef: delta_i = floor(w_i*T/W) and the `T - sum floor` nodes with the largest remainders
// (ties: smaller name first) get one more. Zero-weight nodes get 0.
func c02HamiltonRef(names []string, weights []int64, T int64) (deltas []int64, rems []*big.Int, residual int64) {
	n := len(names)
	W := new(big.Int)
	for _, w := range weights {
		W.Add(W, big.NewInt(w))
	}
	deltas = make([]int64, n)
	rems = make([]*big.Int, n)
	distributed := new(big.Int)
	var idx []int
	for i := 0; i < n; i++ {
		rems[i] = new(big.Int)
		if weights[i] <= 0 {
			continue
		}
		q, r := new(big.Int).QuoRem(new(big.Int).Mul(big.NewInt(weights[i]), big.NewInt(T)), W, new(big.Int))
		deltas[i] = q.Int64()
		rems[i] = r
		distributed.Add(distributed, q)
		idx = append(idx, i)
	}
	residual = new(big.Int).Sub(big.NewInt(T), distributed).Int64()
	// selection sort of the (at most 12) candidates: largest remainder first, then smaller name
	left := residual
	used := make([]bool, n)
	for left > 0 {
		best := -1
		for _, i := range idx {
			if used[i] {
				continue
			}
			if best < 0 {
				best = i
				continue
			}
			if c := rems[i].Cmp(rems[best]); c > 0 || (c == 0 && names[i] < names[best]) {
				best = i
			}
		}
		if best < 0 {
			break
		}
		used[best] = true
		deltas[best]++
		left--
	}
	return deltas, rems, residual
}

func TestVerifC02Hamilton(t *testing.T) {
	rec := vk.New(t, "C02", "hamilton")
	rapid.Check(t, func(t *rapid.T) {
		c := rec.Begin()
		defer c.End()
		n := rapid.IntRange(1, 10).Draw(t, "n")
		names := c02GenNames(t, n)
		sc := rapid.SampledFrom([]c02Scale{{"tiny", 8}, {"small", 100}, {"milli", 1_000_000}, {"2^33", 1 << 33}, {"mem-2^40", 1 << 40}, {"huge-2^62/n", (1 << 62) / int64(n)}}).Draw(t, "scale")
		weights := make([]int64, n)
		wMode := rapid.IntRange(0, 3).Draw(t, "wMode")
		wEq := c02Max64(1, c02Val(t, sc.Hi, "wEq"))
		anyPos := false
		for i := range weights {
			switch wMode {
			case 0:
				weights[i] = wEq
			case 1:
				weights[i] = rapid.Int64Range(0, 5).Draw(t, "w")
			case 2:
				weights[i] = c02Val(t, sc.Hi, "w")
			default:
				weights[i] = rapid.SampledFrom([]int64{0, 1, 2, 3, sc.Hi, sc.Hi - 1, c02Max64(1, sc.Hi/3), wEq}).Draw(t, "w")
			}
			anyPos = anyPos || weights[i] > 0
		}
		if !anyPos { // the caller never calls with a zero weight sum (iterationForRedistribution returns first)
			weights[rapid.IntRange(0, n-1).Draw(t, "posIdx")] = 1
		}
		var W int64
		for _, w := range weights {
			W += w
		}
		var T int64
		switch rapid.IntRange(0, 4).Draw(t, "tMode") {
		case 0:
			T = rapid.Int64Range(1, int64(2*n+2)).Draw(t, "T")
		case 1:
			T = c02Max64(1, W+rapid.Int64Range(-3, 3).Draw(t, "TnearW"))
		case 2:
			T = c02Max64(1, c02Val(t, 1<<62, "Thuge"))
		default:
			T = c02Max64(1, c02Val(t, sc.Hi, "T"))
		}
		nodes := make([]*quotaNode, n)
		for i := range nodes {
			nodes[i] = NewQuotaNode(names[i], weights[i], 0, 0, 0, true)
		}
		got := computeHamiltonDeltas(T, W, nodes)
		want, rems, residual := c02HamiltonRef(names, weights, T)

		// classes
		tie, zeroW, beyond53, beyond64 := false, false, false, false
		seen := map[string]bool{}
		two53, two64 := new(big.Int).Lsh(big.NewInt(1), 53), new(big.Int).Lsh(big.NewInt(1), 64)
		pos := 0
		for i := range weights {
			if weights[i] <= 0 {
				zeroW = true
				continue
			}
			pos++
			if seen[rems[i].String()] {
				tie = true
			}
			seen[rems[i].String()] = true
			p := new(big.Int).Mul(big.NewInt(weights[i]), big.NewInt(T))
			beyond53 = beyond53 || p.Cmp(two53) > 0
			beyond64 = beyond64 || p.Cmp(two64) >= 0
		}
		c.Class("scale:" + sc.Name)
		c.ClassIf(residual > 0, "residual>0")
		c.ClassIf(residual > 0 && tie, "tie-on-remainder")
		c.ClassIf(zeroW, "zero-weight-node")
		c.ClassIf(beyond53, "product-beyond-2^53")
		c.ClassIf(beyond64, "product-beyond-2^64")
		if residual > 0 && pos >= 2 {
			c.NonTrivial(names, weights, T)
		}
		c.Sample(map[string]any{"names": names, "weights": weights, "T": T, "W": W, "deltas": got, "reference": want})

		desc := func() string {
			return fmt.Sprintf("T=%d W=%d names=%q weights=%v got=%v reference=%v remainders=%v", T, W, names, weights, got, want, rems)
		}
		if len(got) != n {
			c.Violation(t, "hamilton:wrong-length", "%s", desc())
			return
		}
		sum := new(big.Int)
		for i := range got {
			sum.Add(sum, big.NewInt(got[i]))
		}
		if sum.Cmp(big.NewInt(T)) != 0 {
			if c.Violation(t, "hamilton:sum-ne-total", "sum of deltas %v != T; %s", sum, desc()) {
				return
			}
		}
		for i := range got {
			if weights[i] <= 0 && got[i] != 0 {
				if c.Violation(t, "hamilton:zero-weight-got-share", "node %s; %s", names[i], desc()) {
					return
				}
			}
			// floor share, possibly +1: |delta - w*T/W| < 1
			fl := new(big.Int).Quo(new(big.Int).Mul(big.NewInt(weights[i]), big.NewInt(T)), big.NewInt(W)).Int64()
			if got[i] != fl && got[i] != fl+1 {
				if c.Violation(t, "hamilton:share-off-by-one-or-more", "node %s got %d, exact share floor is %d; %s", names[i], got[i], fl, desc()) {
					return
				}
			}
		}
		if !c02Eq(got, want) {
			if c.Violation(t, "hamilton:not-largest-remainder", "%s", desc()) {
				return
			}
		}
		// slice order must not matter (per name)
		perm := rapid.Permutation(c02Identity(n)).Draw(t, "perm")
		pn := make([]*quotaNode, n)
		for k, i := range perm {
			pn[k] = NewQuotaNode(names[i], weights[i], 0, 0, 0, true)
		}
		pg := computeHamiltonDeltas(T, W, pn)
		for k, i := range perm {
			if pg[k] != got[i] {
				if c.Violation(t, "hamilton:order-dependent", "node %s gets %d in order %v but %d in natural order; %s", names[i], pg[k], perm, got[i], desc()) {
					return
				}
			}
		}
	})
}

// ------------------------------------------------------------------------------------------------
// (4) order independence of the whole division
// ------------------------------------------------------------------------------------------------

func TestVerifC02Order(t *testing.T) {
	rec := vk.New(t, "C02", "order")
	rapid.Check(t, func(t *rapid.T) {
		c := rec.Begin()
		defer c.End()
		n := rapid.IntRange(2, 8).Draw(t, "n")
		names := c02GenNames(t, n)
		lent := rapid.SliceOfN(rapid.Bool(), n, n).Draw(t, "lent")
		sibs, total, scale := c02GenDim(t, names, lent, "d")
		if rapid.Bool().Draw(t, "forceTies") {
			// equal weights and a leftover smaller than the number of borrowers: the residue and the tie-break decide everything
			w := rapid.Int64Range(1, 3).Draw(t, "tieW")
			var p1 int64
			b := 0
			for i := range sibs {
				sibs[i].Weight = w
				switch {
				case sibs[i].borrower():
					p1 += sibs[i].eff()
					b++
				case sibs[i].Lent:
					p1 += sibs[i].Req
				default:
					p1 += sibs[i].eff()
				}
			}
			total = p1 + rapid.Int64Range(1, int64(c02Max64(1, int64(b)+2))).Draw(t, "tieLeft")
		}
		sh := c02ShapeOf(sibs, total)
		c.Class("scale:" + scale)
		if c02Classify(c, sibs, total, sh) && sh.Tie {
			c.NonTrivial(fmt.Sprint(sibs), total)
		}
		orders := [][]int{c02Identity(n)}
		orders = append(orders, rapid.Permutation(c02Identity(n)).Draw(t, "perm1"))
		orders = append(orders, rapid.Permutation(c02Identity(n)).Draw(t, "perm2"))
		rev := make([]int, n)
		for i := range rev {
			rev[i] = n - 1 - i
		}
		orders = append(orders, rev)

		qt := c02BuildTree(sibs, orders[0], nil)
		qt.redistribution(total)
		base := c02ReadTree(qt, sibs)
		c.Sample(map[string]any{"siblings": sibs, "total": total, "runtime": base, "orders": orders})
		// (a) the Go map inside quotaTree is iterated in a different order on every range: repeat
		for r := 0; r < 4; r++ {
			qt.redistribution(total)
			if got := c02ReadTree(qt, sibs); !c02Eq(base, got) {
				if c.Violation(t, "order:differs-between-evaluations", "evaluation %d gave %v; first: %s", r+2, got, c02Describe(sibs, total, base)) {
					return
				}
			}
		}
		// (b) other insertion orders
		for _, o := range orders[1:] {
			q2 := c02BuildTree(sibs, o, nil)
			q2.redistribution(total)
			if got := c02ReadTree(q2, sibs); !c02Eq(base, got) {
				if c.Violation(t, "order:depends-on-insertion-order", "insertion order %v gave %v; natural order: %s", o, got, c02Describe(sibs, total, base)) {
					return
				}
			}
		}
		// (c) deterministic: the iteration over the borrowers in every slice order (this is the order the map
		// range would have produced) must give the runtimes redistribution() produced
		if sh.Left.Sign() > 0 && sh.Left.IsInt64() {
			for _, o := range orders {
				got := c02IterateDirect(sibs, o, sh.Left.Int64())
				for i := range sibs {
					if got[i] >= 0 && got[i] != base[i] {
						if c.Violation(t, "order:depends-on-iteration-order", "borrowers visited in order %v: %s gets %d, but %d via redistribution(); %s", o, sibs[i].Name, got[i], base[i], c02Describe(sibs, total, base)) {
							return
						}
					}
				}
			}
		}
		if sig, msg := c02CheckBig(sibs, total, base); sig != "" {
			if c.Violation(t, sig, "%s; %s", msg, c02Describe(sibs, total, base)) {
				return
			}
		}
	})
}
