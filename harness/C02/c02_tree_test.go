//go:build verif

package core

import (
	"encoding/json"
	"fmt"
	"math"
	"math/big"
	"os"
	"strings"
	"testing"

	corev1 "k8s.io/api/core/v1"
	"k8s.io/apimachinery/pkg/api/resource"
	metav1 "k8s.io/apimachinery/pkg/apis/meta/v1"
	"k8s.io/apimachinery/pkg/types"
	k8sfeature "k8s.io/apiserver/pkg/util/feature"
	"k8s.io/component-base/featuregate"
	"pgregory.net/rapid"

	"github.com/koordinator-sh/koordinator/apis/extension"
	"github.com/koordinator-sh/koordinator/apis/thirdparty/scheduler-plugins/pkg/apis/scheduling/v1alpha1"
	"github.com/koordinator-sh/koordinator/pkg/features"
	"github.com/koordinator-sh/koordinator/pkg/verifkit/vk"
)

// (5) RefreshRuntime on 2–3-level trees through GroupQuotaManager's public entry points.
//
// The history is: create a webhook-valid tree (min <= max, children's mins sum to at most the parent's
// min, one fixed dimension set {cpu, memory}), give the leaves pods, set the cluster total, then a few
// further events (pods, total, min/max/weight updates, lend-flag toggles, refreshes of single quotas).
// At the end every quota is refreshed and, at every parent, the flat oracle of c02_oracle_test.go is
// applied with the parent's runtime as the total and, per child, the inputs koordinator itself
// recorded for it (limited request = min(Request, Max), AutoScaleMin, Guaranteed, SharedWeight,
// AllowLentResource). How requests are aggregated upwards is C01's subject, not re-derived here.

type c02Pod struct {
	Name     string
	Req      [2]int64
	Assigned bool
}

type c02Quota struct {
	Name     string
	Parent   string
	IsParent bool
	Lent     bool
	Min, Max [2]int64
	// which resource names the quota's spec.max / spec.min list (TestVerifC02TreeDims; everywhere else both are listed).
	// A name that is not listed has value 0 in Min/Max here. Webhook rules kept by the generator: min names are a subset of
	// max names; below a first-level quota every quota lists the same max names as its parent and its min names are a
	// subset of its parent's min names; the shared-weight annotation lists exactly the max names.
	MaxHas, MinHas [2]bool
	HasW           bool
	W              [2]int64
	Pods           []c02Pod
	Deleted        bool
}

func c02QuotaObject(q *c02Quota) *v1alpha1.ElasticQuota {
	eq := &v1alpha1.ElasticQuota{
		ObjectMeta: metav1.ObjectMeta{Name: q.Name, Labels: map[string]string{}, Annotations: map[string]string{}},
		Spec:       v1alpha1.ElasticQuotaSpec{Min: c02ResListOf(q.Min, q.MinHas), Max: c02ResListOf(q.Max, q.MaxHas)},
	}
	eq.Labels[extension.LabelQuotaParent] = q.Parent
	eq.Labels[extension.LabelQuotaIsParent] = fmt.Sprint(q.IsParent)
	eq.Labels[extension.LabelAllowLentResource] = fmt.Sprint(q.Lent)
	if q.HasW {
		b, _ := json.Marshal(c02ResListOf(q.W, q.MaxHas))
		eq.Annotations[extension.AnnotationSharedWeight] = string(b)
	}
	return eq
}

// c02ResListOf lists only the resource names flagged in has (cpu in milli-units, memory).
func c02ResListOf(v [2]int64, has [2]bool) corev1.ResourceList {
	rl := corev1.ResourceList{}
	if has[0] {
		rl[corev1.ResourceCPU] = createQuantity(v[0], corev1.ResourceCPU)
	}
	if has[1] {
		rl[corev1.ResourceMemory] = createQuantity(v[1], corev1.ResourceMemory)
	}
	return rl
}

func c02PodObject(quota string, p c02Pod) *corev1.Pod {
	pod := &corev1.Pod{
		ObjectMeta: metav1.ObjectMeta{Name: p.Name, Namespace: "ns-" + quota, UID: types.UID("uid-" + p.Name)},
		Spec: corev1.PodSpec{Containers: []corev1.Container{{Name: "c", Resources: corev1.ResourceRequirements{
			Requests: c02ResList(p.Req[0], p.Req[1])}}}},
	}
	if p.Assigned {
		pod.Spec.NodeName = "node-1"
		pod.Status.Phase = corev1.PodRunning
	}
	return pod
}

type c02TreeState struct {
	quotas []*c02Quota // parent before child
	byName map[string]*c02Quota
	total  [2]int64
	// totalSeen: the cluster total has been non-zero at least once. Until then koordinator's
	// totalResourceExceptSystemAndDefaultUsed is an empty list (updateClusterTotalResourceNoLock only stores a
	// changed value), and getScaledMinQuota only looks at dimensions that are keys of the total it is given, so
	// on a cluster that never had any resource nothing is scaled. That degenerate start-up state is left out of
	// the scaling rule (counted as a class, mentioned in the report).
	totalSeen bool
	hi        int64
	log       []string
	// built-in default/system groups (TestVerifC02TreeBuiltin only)
	builtinPods map[string][]c02Pod
	avail       [2]int64 // cluster total minus what assigned default/system pods use, as last computed
}

// noteAvail recomputes what the root has to divide: cluster total - requests of the assigned default/system pods.
func (st *c02TreeState) noteAvail() {
	na := st.total
	for _, name := range c02BuiltinNames {
		for _, p := range st.builtinPods[name] {
			if p.Assigned {
				na[0] -= p.Req[0]
				na[1] -= p.Req[1]
			}
		}
	}
	if na != st.avail {
		st.totalSeen = true // koordinator stores totalResourceExceptSystemAndDefaultUsed only when it changes
	}
	st.avail = na
}

func (st *c02TreeState) children(parent string) []*c02Quota {
	var out []*c02Quota
	for _, q := range st.quotas {
		if !q.Deleted && q.Parent == parent {
			out = append(out, q)
		}
	}
	return out
}

func (st *c02TreeState) live() []*c02Quota {
	var out []*c02Quota
	for _, q := range st.quotas {
		if !q.Deleted {
			out = append(out, q)
		}
	}
	return out
}

func (st *c02TreeState) logf(format string, a ...any) {
	st.log = append(st.log, fmt.Sprintf(format, a...))
}

func c02Qty(rl corev1.ResourceList, d int) int64 {
	name := corev1.ResourceCPU
	if d == 1 {
		name = corev1.ResourceMemory
	}
	q, ok := rl[name]
	if !ok {
		return 0
	}
	return getQuantityValue(q, name)
}

func TestVerifC02Tree(t *testing.T) {
	rec := vk.New(t, "C02", "tree")
	rapid.Check(t, c02TreeCase(rec, false, false))
}

// TestVerifC02TreeDims is the same history generator and oracle with quotas that do not list every resource name:
// spec.max / spec.min of a quota may list cpu only, memory only or both (webhook-valid, see c02Quota), and updates add or
// drop a resource name from min (anywhere) or from max, min and shared weight together (first-level leaf quotas — below
// the first level the webhook wants the same max names as the parent). A name that spec.min does not list is a minimum
// of 0 in that dimension. In a dimension d the sibling set of a parent consists of the children whose max lists d: a
// quota that does not declare d takes no part in d (pods are accounted to a quota only in the dimensions of its max,
// and its runtime is reported masked by them), so whatever the parent has in d is divided among the others.
// (A separate test function: the draw sequences of TestVerifC02Tree / TestVerifC02TreeBuiltin and their regress files stay as they are.)
func TestVerifC02TreeDims(t *testing.T) {
	rec := vk.New(t, "C02", "treeDims")
	rapid.Check(t, c02TreeCase(rec, false, true))
}

// TestVerifC02TreeBuiltin is the same history generator and oracle, plus pods in the built-in default / system quota
// groups (pods without a quota label land there) and built-in group maxima of different sizes, including the
// scheduler's production default MaxInt64/5. Documented treatment of these two groups (GroupQuotaManager field comments,
// comment of redistribution(), refreshRuntimeNoLock): they are not part of the division — their runtime is their max —
// and what the root divides among its real children is the cluster total minus what the pods assigned in the default
// and system groups use. So at the first level the oracle is applied to the real root children only, with
// total = cluster total - sum of the requests of the assigned default/system pods, both taken from the harness model.
// (A separate test function so that the draw sequence of TestVerifC02Tree, and with it its regress files, stays as is.)
func TestVerifC02TreeBuiltin(t *testing.T) {
	rec := vk.New(t, "C02", "treeBuiltin")
	rapid.Check(t, c02TreeCase(rec, true, false))
}

var c02BuiltinNames = []string{extension.DefaultQuotaName, extension.SystemQuotaName}

func c02TreeCase(rec *vk.Rec, builtin, dims bool) func(t *rapid.T) {
	return func(t *rapid.T) {
		c := rec.Begin()
		defer c.End()

		scaleMin := rapid.IntRange(0, 2).Draw(t, "scaleMinQuotaEnabled") != 0
		guaranteeUsage := rapid.IntRange(0, 3).Draw(t, "guaranteeUsage") == 0
		if guaranteeUsage {
			gate := k8sfeature.DefaultFeatureGate.(featuregate.MutableFeatureGate)
			if err := gate.Set(fmt.Sprintf("%s=true", features.ElasticQuotaGuaranteeUsage)); err != nil {
				t.Fatalf("cannot set feature gate: %v", err)
			}
			defer func() { _ = gate.Set(fmt.Sprintf("%s=false", features.ElasticQuotaGuaranteeUsage)) }()
		}
		sc := rapid.SampledFrom([]c02Scale{{"tiny", 12}, {"tiny", 12}, {"small", 100}, {"milli", 1_000_000}, {"mem-2^40", 1 << 40}, {"huge-2^57", 1 << 57}}).Draw(t, "scale")
		st := &c02TreeState{byName: map[string]*c02Quota{}, hi: sc.Hi, builtinPods: map[string][]c02Pod{}}
		hi := sc.Hi

		// ---- tree shape and values, top-down so that children's mins fit into the parent's min
		nextID := 0
		var addLevel func(parent *c02Quota, depth int, count int)
		addLevel = func(parent *c02Quota, depth int, count int) {
			var budget [2]int64
			pname := extension.RootQuotaName
			if parent != nil {
				budget = parent.Min
				pname = parent.Name
			}
			for k := 0; k < count && nextID < 10; k++ {
				q := &c02Quota{Name: fmt.Sprintf("q%d", nextID), Parent: pname, MaxHas: [2]bool{true, true}, MinHas: [2]bool{true, true}}
				nextID++
				l := q.Name
				q.Lent = rapid.Bool().Draw(t, l+"Lent")
				if dims {
					if parent == nil {
						q.MaxHas = rapid.SampledFrom([][2]bool{{true, true}, {true, true}, {true, true}, {true, false}, {false, true}}).Draw(t, l+"MaxNames")
					} else {
						q.MaxHas = parent.MaxHas
					}
					for d := 0; d < 2; d++ {
						q.MinHas[d] = q.MaxHas[d] && (parent == nil || parent.MinHas[d]) && rapid.IntRange(0, 3).Draw(t, l+"MinListsName") != 0
					}
				}
				for d := 0; d < 2; d++ {
					if !q.MaxHas[d] {
						continue // not listed: Min = Max = 0 in the model
					}
					if !q.MinHas[d] {
						q.Max[d] = c02Val(t, hi, l+"MaxNoMin")
						continue
					}
					if parent == nil {
						q.Min[d] = c02Val(t, hi, l+"Min")
					} else {
						switch rapid.IntRange(0, 3).Draw(t, l+"MinMode") {
						case 0: // everything that is left of the parent's min
							q.Min[d] = budget[d]
						case 1: // at least half of it
							q.Min[d] = budget[d]/2 + c02Val(t, budget[d]-budget[d]/2, l+"MinUpperHalf")
						default:
							q.Min[d] = c02Val(t, budget[d], l+"Min")
						}
						budget[d] -= q.Min[d]
					}
					q.Max[d] = q.Min[d] + c02Val(t, hi-q.Min[d], l+"MaxAbove")
				}
				if rapid.IntRange(0, 2).Draw(t, l+"HasW") == 0 {
					q.HasW = true
					for d := 0; d < 2; d++ {
						if !q.MaxHas[d] {
							continue
						}
						q.W[d] = rapid.SampledFrom([]int64{0, 1, 1, 2, 3, 5, q.Max[d], c02Max64(1, hi/2)}).Draw(t, l+"W")
					}
				}
				st.quotas = append(st.quotas, q)
				st.byName[q.Name] = q
				if depth < 3 && rapid.IntRange(0, 5).Draw(t, l+"IsParent") < 5-2*depth { // 1/2 at the first level, 1/6 at the second
					q.IsParent = true
					addLevel(q, depth+1, rapid.IntRange(1, 3).Draw(t, l+"Kids"))
				}
			}
		}
		addLevel(nil, 1, rapid.SampledFrom([]int{1, 2, 2, 3, 3, 4}).Draw(t, "topLevel"))

		sysMax, defMax := c02ResList(1<<60, 1<<60), c02ResList(1<<60, 1<<60)
		builtinMaxKind := map[string]string{}
		if builtin {
			gen := func(label string) corev1.ResourceList {
				kind := rapid.SampledFrom([]string{"production-MaxInt64/5", "production-MaxInt64/5", "small", "small", "2^60"}).Draw(t, label+"Kind")
				builtinMaxKind[label] = kind
				switch kind {
				case "production-MaxInt64/5": // pkg/scheduler/apis/config/v1/defaults.go: MaxInt64/5 cores, MaxInt64/5 bytes
					return corev1.ResourceList{corev1.ResourceCPU: *resource.NewQuantity(math.MaxInt64/5, resource.DecimalSI),
						corev1.ResourceMemory: *resource.NewQuantity(math.MaxInt64/5, resource.BinarySI)}
				case "small":
					return c02ResList(c02Val(t, hi, label+"Cpu"), c02Val(t, hi, label+"Mem"))
				}
				return c02ResList(1<<60, 1<<60)
			}
			sysMax, defMax = gen("systemMax"), gen("defaultMax")
		}
		gqm := NewGroupQuotaManager("", scaleMin, sysMax, defMax)
		for _, q := range st.quotas {
			if err := gqm.UpdateQuota(c02QuotaObject(q)); err != nil {
				t.Fatalf("UpdateQuota(%s): %v", q.Name, err)
			}
			st.logf("create %+v", *q)
		}

		setTotal := func(label string) {
			var nt [2]int64
			for d := 0; d < 2; d++ {
				var sumMin, sumMax int64
				for _, q := range st.children(extension.RootQuotaName) {
					sumMin += q.Min[d]
					sumMax += q.Max[d]
				}
				modes := []int{0, 1, 2, 3, 4, 5, 6, 6}
				if scaleMin {
					modes = append(modes, 6, 6)
				}
				switch rapid.SampledFrom(modes).Draw(t, label+"Mode") {
				case 6: // moderately below the sum of the first-level minimums: first-level parents compete, their runtimes
					// fall below their own minimums and so (possibly) below the sum of their children's minimums
					nt[d] = sumMin - c02Val(t, sumMin/2, label+"UpperHalfBelowMin")
				case 0:
					nt[d] = c02Val(t, sumMin, label+"BelowMin")
				case 1:
					nt[d] = sumMin
				case 2:
					nt[d] = sumMin + rapid.Int64Range(1, 9).Draw(t, label+"Few")
				case 3, 4:
					nt[d] = sumMin + c02Val(t, c02Max64(0, sumMax-sumMin), label+"Between")
				default:
					nt[d] = sumMax + c02Val(t, hi, label+"Above")
				}
			}
			delta := corev1.ResourceList{
				corev1.ResourceCPU:    *resource.NewMilliQuantity(nt[0]-st.total[0], resource.DecimalSI),
				corev1.ResourceMemory: *resource.NewQuantity(nt[1]-st.total[1], resource.BinarySI),
			}
			gqm.UpdateClusterTotalResource(delta)
			st.total = nt
			st.noteAvail()
			st.logf("total=%v", nt)
		}
		addBuiltinPod := func(label string) {
			name := rapid.SampledFrom([]string{extension.DefaultQuotaName, extension.DefaultQuotaName, extension.SystemQuotaName}).Draw(t, label+"Group")
			p := c02Pod{Name: fmt.Sprintf("bp%d", len(st.log)), Assigned: rapid.IntRange(0, 2).Draw(t, label+"Assigned") != 0}
			for d := 0; d < 2; d++ {
				switch rapid.IntRange(0, 2).Draw(t, label+"ReqMode") {
				case 0: // a noticeable part of the cluster
					p.Req[d] = c02Val(t, c02Max64(0, st.total[d]), label+"ReqOfTotal")
				case 1:
					p.Req[d] = rapid.Int64Range(0, 9).Draw(t, label+"ReqSmall")
				default:
					p.Req[d] = c02Val(t, hi, label+"ReqAny")
				}
			}
			st.builtinPods[name] = append(st.builtinPods[name], p)
			gqm.OnPodAdd(name, c02PodObject(name, p))
			st.noteAvail()
			st.logf("podAdd %s %+v", name, p)
		}
		podSeq := 0
		addPod := func(q *c02Quota, label string) {
			p := c02Pod{Name: fmt.Sprintf("p%d", podSeq), Assigned: rapid.Bool().Draw(t, label+"Assigned")}
			podSeq++
			for d := 0; d < 2; d++ {
				switch rapid.IntRange(0, 4).Draw(t, label+"ReqMode") {
				case 0:
					p.Req[d] = c02Val(t, q.Min[d], label+"ReqBelowMin")
				case 1, 2:
					p.Req[d] = q.Min[d] + c02Val(t, q.Max[d]-q.Min[d], label+"ReqBetween")
				case 3:
					p.Req[d] = c02Min64(hi, q.Max[d]+rapid.Int64Range(1, 9).Draw(t, label+"ReqAboveMax"))
				default:
					p.Req[d] = c02Val(t, hi, label+"ReqAny")
				}
			}
			q.Pods = append(q.Pods, p)
			gqm.OnPodAdd(q.Name, c02PodObject(q.Name, p))
			st.logf("podAdd %s %+v", q.Name, p)
		}
		leaves := func() []*c02Quota {
			var out []*c02Quota
			for _, q := range st.live() {
				if !q.IsParent {
					out = append(out, q)
				}
			}
			return out
		}

		setTotal("total0")
		for _, q := range leaves() {
			for k := rapid.SampledFrom([]int{0, 1, 1, 2, 3}).Draw(t, q.Name+"Pods"); k > 0; k-- {
				addPod(q, q.Name+"pod")
			}
		}

		if builtin {
			for k := rapid.SampledFrom([]int{0, 1, 1, 2}).Draw(t, "builtinPods"); k > 0; k-- {
				addBuiltinPod(fmt.Sprintf("bpod%d", k))
			}
		}

		// ---- further events
		opKinds := []string{"refresh", "refresh", "podAdd", "podAdd", "podDelete", "total", "min", "max", "weight", "toggleLent", "deleteLeaf", "reparent", "reparent"}
		if builtin {
			opKinds = append(opKinds, "builtinPodAdd", "builtinPodAdd", "builtinPodDelete")
		}
		if dims {
			opKinds = append(opKinds, "minNames", "minNames", "minNames", "maxNames", "maxNames", "maxNames")
		}
		sawMinDrop, sawMinDropNonZero, sawMinAdd, sawMaxDrop, sawMaxAdd := false, false, false, false, false
		nOps := rapid.IntRange(0, 8).Draw(t, "nOps")
		sawUpdate, sawMidRefresh, sawToggle := false, false, false
		sawReparent, sawReparentScaling, sawReparentSubtree := false, false, false
		builtinPresent := false
		for op := 0; op < nOps; op++ {
			l := fmt.Sprintf("op%d", op)
			live := st.live()
			q := live[rapid.IntRange(0, len(live)-1).Draw(t, l+"Q")]
			switch rapid.SampledFrom(opKinds).Draw(t, l+"Kind") {
			case "minNames":
				// spec.min starts or stops listing a resource name. Stop: no child may still list it. Start: max lists it, the
				// parent's min (below the first level) lists it, and the value fits like in the "min" op.
				d := rapid.IntRange(0, 1).Draw(t, l+"Dim")
				if q.MinHas[d] {
					ok := true
					for _, ch := range st.children(q.Name) {
						if ch.MinHas[d] {
							ok = false
						}
					}
					if ok {
						sawMinDrop = true
						if q.Min[d] > 0 {
							sawMinDropNonZero = true
						}
						st.logf("min of %s stops listing dimension %d (was %d)", q.Name, d, q.Min[d])
						q.MinHas[d], q.Min[d] = false, 0
						_ = gqm.UpdateQuota(c02QuotaObject(q))
						sawUpdate = true
					}
				} else if q.MaxHas[d] {
					up := q.Max[d]
					ok := true
					if p, has := st.byName[q.Parent]; has {
						ok = p.MinHas[d]
						room := p.Min[d]
						for _, sib := range st.children(q.Parent) {
							if sib != q {
								room -= sib.Min[d]
							}
						}
						up = c02Min64(up, room)
					}
					if ok && up >= 0 {
						q.MinHas[d], q.Min[d] = true, c02Val(t, up, l+"NewMinValue")
						_ = gqm.UpdateQuota(c02QuotaObject(q))
						st.logf("min of %s starts listing dimension %d: %d", q.Name, d, q.Min[d])
						sawMinAdd, sawUpdate = true, true
					}
				}
			case "maxNames":
				// max (and with it min and the shared weight) of a first-level leaf quota starts or stops listing a resource name;
				// at least one name stays. Not with ElasticQuotaGuaranteeUsage: what a quota "has allocated" in a dimension it no
				// longer declares is not something the statement speaks about.
				d := rapid.IntRange(0, 1).Draw(t, l+"Dim")
				if q.Parent == extension.RootQuotaName && !q.IsParent && !guaranteeUsage {
					if q.MaxHas[d] && q.MaxHas[1-d] {
						st.logf("max of %s stops listing dimension %d (max %d min %d)", q.Name, d, q.Max[d], q.Min[d])
						q.MaxHas[d], q.MinHas[d], q.Max[d], q.Min[d], q.W[d] = false, false, 0, 0, 0
						_ = gqm.UpdateQuota(c02QuotaObject(q))
						sawMaxDrop, sawUpdate = true, true
					} else if !q.MaxHas[d] {
						q.MaxHas[d], q.Max[d] = true, c02Val(t, hi, l+"NewMaxValue")
						if q.HasW {
							q.W[d] = rapid.SampledFrom([]int64{0, 1, 2, q.Max[d]}).Draw(t, l+"NewWValue")
						}
						if rapid.Bool().Draw(t, l+"AlsoMin") {
							q.MinHas[d], q.Min[d] = true, c02Val(t, q.Max[d], l+"NewMinValue")
						}
						_ = gqm.UpdateQuota(c02QuotaObject(q))
						st.logf("max of %s starts listing dimension %d: max %d min %d", q.Name, d, q.Max[d], q.Min[d])
						sawMaxAdd, sawUpdate = true, true
					}
				}
			case "builtinPodAdd":
				addBuiltinPod(l + "bpod")
			case "builtinPodDelete":
				name := rapid.SampledFrom(c02BuiltinNames).Draw(t, l+"Group")
				if ps := st.builtinPods[name]; len(ps) > 0 {
					i := rapid.IntRange(0, len(ps)-1).Draw(t, l+"BPod")
					gqm.OnPodDelete(name, c02PodObject(name, ps[i]))
					st.logf("podDelete %s %s", name, ps[i].Name)
					st.builtinPods[name] = append(ps[:i:i], ps[i+1:]...)
					st.noteAvail()
				}
			case "refresh":
				gqm.RefreshRuntime(q.Name)
				st.logf("refresh %s", q.Name)
				sawMidRefresh = true
			case "podAdd":
				ls := leaves()
				if len(ls) > 0 {
					addPod(ls[rapid.IntRange(0, len(ls)-1).Draw(t, l+"Leaf")], l+"pod")
				}
			case "podDelete":
				if len(q.Pods) > 0 {
					i := rapid.IntRange(0, len(q.Pods)-1).Draw(t, l+"Pod")
					gqm.OnPodDelete(q.Name, c02PodObject(q.Name, q.Pods[i]))
					st.logf("podDelete %s %s", q.Name, q.Pods[i].Name)
					q.Pods = append(q.Pods[:i:i], q.Pods[i+1:]...)
				}
			case "total":
				setTotal(l + "total")
			case "min":
				// keep the tree webhook-valid: own children's mins <= new min <= max, and siblings' sum <= parent's min
				for d := 0; d < 2; d++ {
					if !q.MinHas[d] {
						continue
					}
					lo, up := int64(0), q.Max[d]
					for _, ch := range st.children(q.Name) {
						lo += ch.Min[d]
					}
					if p, ok := st.byName[q.Parent]; ok {
						room := p.Min[d]
						for _, sib := range st.children(q.Parent) {
							if sib != q {
								room -= sib.Min[d]
							}
						}
						up = c02Min64(up, room)
					}
					if up >= lo {
						q.Min[d] = lo + c02Val(t, up-lo, l+"NewMin")
					}
				}
				_ = gqm.UpdateQuota(c02QuotaObject(q))
				st.logf("min %s -> %v", q.Name, q.Min)
				sawUpdate = true
			case "max":
				for d := 0; d < 2; d++ {
					if !q.MaxHas[d] {
						continue
					}
					q.Max[d] = q.Min[d] + c02Val(t, hi-q.Min[d], l+"NewMax")
				}
				_ = gqm.UpdateQuota(c02QuotaObject(q))
				st.logf("max %s -> %v", q.Name, q.Max)
				sawUpdate = true
			case "weight":
				q.HasW = true
				for d := 0; d < 2; d++ {
					if !q.MaxHas[d] {
						continue
					}
					q.W[d] = rapid.SampledFrom([]int64{0, 1, 2, 3, 7, q.Max[d], c02Max64(1, hi/2)}).Draw(t, l+"NewW")
				}
				_ = gqm.UpdateQuota(c02QuotaObject(q))
				st.logf("weight %s -> %v", q.Name, q.W)
				sawUpdate = true
			case "toggleLent":
				q.Lent = !q.Lent
				_ = gqm.UpdateQuota(c02QuotaObject(q))
				st.logf("lent %s -> %v", q.Name, q.Lent)
				sawToggle = true
			case "reparent":
				// UpdateQuota with a changed parent label (updateQuotaNoLockWhenParentChange). Webhook-valid: the new parent is
				// the root or an is-parent quota outside q's own subtree, same dimensions, and the new siblings' mins plus q's
				// min stay within the new parent's min — q's min is lowered in the same update when it would not fit (but
				// never below the sum of its own children's mins).
				inSubtree := func(x *c02Quota) bool {
					for p := x; p != nil; p = st.byName[p.Parent] {
						if p == q {
							return true
						}
					}
					return false
				}
				type cand struct {
					parent string
					min    [2]int64
				}
				var cands []cand
				var floor [2]int64
				for _, ch := range st.children(q.Name) {
					floor[0] += ch.Min[0]
					floor[1] += ch.Min[1]
				}
				if q.Parent != extension.RootQuotaName {
					cands = append(cands, cand{extension.RootQuotaName, q.Min})
				}
				for _, np := range live {
					if !np.IsParent || np.Name == q.Parent || inSubtree(np) {
						continue
					}
					if np.MaxHas != q.MaxHas || (q.MinHas[0] && !np.MinHas[0]) || (q.MinHas[1] && !np.MinHas[1]) {
						continue // the webhook wants the parent's max names and min names within the parent's
					}
					depthNP := 1
					for p := np.Parent; p != extension.RootQuotaName; p = st.byName[p].Parent {
						depthNP++
					}
					if depthNP >= 3 { // q lands at level <= 3; with its own subtree the tree stays <= 5 levels (the refresh passes below follow the depth)
						continue
					}
					ok := true
					nm := q.Min
					for d := 0; d < 2; d++ {
						room := np.Min[d]
						for _, sib := range st.children(np.Name) {
							room -= sib.Min[d]
						}
						if room < floor[d] {
							ok = false
						}
						nm[d] = c02Min64(nm[d], room)
					}
					if ok {
						cands = append(cands, cand{np.Name, nm})
					}
				}
				if len(cands) > 0 {
					cd := cands[rapid.IntRange(0, len(cands)-1).Draw(t, l+"NewParent")]
					oldParent, oldMin := q.Parent, q.Min
					q.Parent, q.Min = cd.parent, cd.min
					for d := 0; d < 2; d++ { // max >= min stays true because min only shrinks
						if q.Min[d] < floor[d] {
							q.Min[d] = floor[d]
						}
					}
					_ = gqm.UpdateQuota(c02QuotaObject(q))
					st.logf("reparent %s: %s -> %s, min %v -> %v", q.Name, oldParent, q.Parent, oldMin, q.Min)
					sawReparent = true
					if scaleMin && (oldMin[0] > 0 || oldMin[1] > 0) {
						sawReparentScaling = true
					}
					if len(st.children(q.Name)) > 0 {
						sawReparentSubtree = true
					}
				}
			case "deleteLeaf":
				if !q.IsParent && len(live) > 1 {
					for _, p := range q.Pods { // the plugin moves the pods away before the quota object goes
						gqm.OnPodDelete(q.Name, c02PodObject(q.Name, p))
					}
					q.Pods = nil
					_ = gqm.DeleteQuota(c02QuotaObject(q))
					q.Deleted = true
					st.logf("delete %s", q.Name)
				}
			}
		}

		// ---- final refresh of every quota, in a generated order
		live := st.live()
		order := rapid.Permutation(c02Identity(len(live))).Draw(t, "refreshOrder")
		passes := 1
		if scaleMin {
			// AutoScaleMin of a quota is only recomputed when that quota is refreshed, from its parent's
			// runtime; level k is final after k+1 passes
			passes = 2
			for _, q := range live {
				dd := 2
				for p := q.Parent; p != extension.RootQuotaName; p = st.byName[p].Parent {
					dd++
				}
				if dd > passes {
					passes = dd
				}
			}
		}
		for p := 0; p < passes; p++ {
			for _, i := range order {
				gqm.RefreshRuntime(live[i].Name)
			}
		}

		// ---- oracle at every parent
		c.Class("scale:" + sc.Name)
		c.ClassIf(scaleMin, "scale-min-enabled")
		c.ClassIf(guaranteeUsage, "guarantee-usage-enabled")
		c.ClassIf(sawUpdate, "quota-updated-after-first-refresh")
		c.ClassIf(sawMidRefresh, "refresh-in-the-middle")
		c.ClassIf(sawToggle, "lend-flag-toggled(reset)")
		c.ClassIf(sawReparent, "reparent")
		c.ClassIf(sawReparentScaling, "reparent-with-scaling-relevant-mins")
		c.ClassIf(sawReparentSubtree, "reparent-of-a-subtree")
		if dims {
			partial := false
			for _, q := range st.live() {
				if q.MaxHas != [2]bool{true, true} || q.MinHas != [2]bool{true, true} {
					partial = true
				}
			}
			c.ClassIf(partial, "dims:some-quota-lists-not-every-resource-name")
			c.ClassIf(sawMinDrop, "dims:min-stops-listing-a-name")
			c.ClassIf(sawMinDropNonZero, "dims:min-stops-listing-a-name-with-nonzero-value")
			c.ClassIf(sawMinAdd, "dims:min-starts-listing-a-name")
			c.ClassIf(sawMaxDrop, "dims:max-stops-listing-a-name")
			c.ClassIf(sawMaxAdd, "dims:max-starts-listing-a-name")
		}
		if builtin {
			nb, nbAssigned := 0, 0
			for _, name := range c02BuiltinNames {
				for _, p := range st.builtinPods[name] {
					nb++
					if p.Assigned {
						nbAssigned++
					}
				}
			}
			c.Class("builtin-default-max:" + builtinMaxKind["defaultMax"])
			c.Class("builtin-system-max:" + builtinMaxKind["systemMax"])
			c.ClassIf(nb > 0, "builtin-group-has-pod")
			c.ClassIf(nbAssigned > 0, "builtin-group-has-assigned-pod")
			c.ClassIf(st.avail[0] < 0 || st.avail[1] < 0, "builtin-usage-exceeds-cluster-total")
			builtinPresent = nb > 0
		}
		depth := 1
		for _, q := range live {
			dd := 1
			for p := q.Parent; p != extension.RootQuotaName; p = st.byName[p].Parent {
				dd++
			}
			if dd > depth {
				depth = dd
			}
		}
		c.Class(fmt.Sprintf("depth=%d", depth))
		nt := false
		type levelOut struct {
			Parent string   `json:"parent"`
			Dim    int      `json:"dim"`
			Total  int64    `json:"total"`
			Sibs   []c02Sib `json:"siblings"`
			RT     []int64  `json:"runtime"`
		}
		var levels []levelOut
		parents := []string{extension.RootQuotaName}
		for _, q := range live {
			if q.IsParent {
				parents = append(parents, q.Name)
			}
		}
		for _, pn := range parents {
			allKids := st.children(pn)
			if len(allKids) == 0 {
				continue
			}
			for d := 0; d < 2; d++ {
				// the children that declare dimension d (all of them outside TestVerifC02TreeDims)
				var kids []*c02Quota
				for _, k := range allKids {
					if k.MaxHas[d] {
						kids = append(kids, k)
					}
				}
				c.ClassIf(len(kids) < len(allKids) && len(kids) > 0, "dims:sibling-set-without-quotas-that-do-not-declare-the-dimension")
				if len(kids) == 0 {
					continue
				}
				var total int64
				if pn == extension.RootQuotaName {
					// independent: cluster total minus what the assigned default/system pods use (harness model)
					total = st.avail[d]
					c.ClassIf(total != c02Qty(gqm.totalResourceExceptSystemAndDefaultUsed, d), "root-total-of-manager-differs-from-model(see violation if any)")
				} else {
					total = c02Qty(gqm.quotaInfoMap[pn].CalculateInfo.Runtime, d)
				}
				sibs := make([]c02Sib, len(kids))
				rt := make([]int64, len(kids))
				for i, k := range kids {
					qi := gqm.quotaInfoMap[k.Name]
					if qi == nil {
						t.Fatalf("HARNESS: quota %s missing in manager; history=%v", k.Name, st.log)
					}
					ci := qi.CalculateInfo
					sibs[i] = c02Sib{Name: k.Name, Req: c02Min64(c02Qty(ci.Request, d), c02Qty(ci.Max, d)), Min: c02Qty(ci.AutoScaleMin, d),
						Guar: c02Qty(ci.Guaranteed, d), Weight: c02Qty(ci.SharedWeight, d), Lent: qi.AllowLentResource}
					rt[i] = c02Qty(ci.Runtime, d)
					// sanity of what the harness fed in (not the property): max as given; leaf request as the pods say
					if c02Qty(ci.Max, d) != k.Max[d] {
						t.Fatalf("HARNESS: quota %s max %d != model %d; history=%v", k.Name, c02Qty(ci.Max, d), k.Max[d], st.log)
					}
					if !k.IsParent {
						var want int64
						for _, p := range k.Pods {
							want += p.Req[d]
						}
						if !qi.AllowLentResource && want < k.Min[d] {
							want = k.Min[d]
						}
						c.ClassIf(c02Qty(ci.Request, d) != want, "input:leaf-request-differs-from-pod-sum(not asserted, C01)")
					}
					c.ClassIf(sibs[i].Min != k.Min[d], "auto-scaled-min-differs-from-min")
					c.ClassIf(sibs[i].Guar > sibs[i].Min, "guarantee-above-min")
				}
				// ---- independent statement of the min-scaling rule (scale_minquota_when_over_root_res.go)
				modelMins := make([]int64, len(kids))
				for i, k := range kids {
					modelMins[i] = k.Min[d]
				}
				ruleTotal := total
				if pn == extension.RootQuotaName {
					ruleTotal = st.avail[d] // the first level divides the cluster total minus the default/system pods' usage
				}
				ruleOn := scaleMin
				if pn == extension.RootQuotaName && !st.totalSeen {
					ruleOn = false
					c.ClassIf(scaleMin, "cluster-total-never-set(first-level scaling not asserted)")
				}
				expMin, tolMin, scaling := c02ScaledMins(ruleOn, ruleTotal, modelMins)
				c.ClassIf(scaling, "min-scaling-needed")
				c.ClassIf(scaling && pn != extension.RootQuotaName, "min-scaling-needed-below-first-level")
				c.ClassIf(scaling && pn != extension.RootQuotaName && c02SumFits(modelMins, st.total[d]), "min-scaling-below-first-level:parent-runtime<sum-child-mins<=cluster-total")
				for i, k := range kids {
					got := sibs[i].Min
					diff := new(big.Int).Abs(new(big.Int).Sub(big.NewInt(got), expMin[i]))
					// VERIF_C02_SKIP_SCALERULE=1 is a development switch: it silences this clause so that the consequence clause
					// below can be shown to catch a wrong scaling on its own
					if diff.Cmp(tolMin[i]) > 0 && os.Getenv("VERIF_C02_SKIP_SCALERULE") == "" {
						sig := "tree:scaled-min-wrong-at-first-level"
						switch {
						case !ruleOn:
							sig = "tree:min-scaled-although-scaling-disabled"
						case pn != extension.RootQuotaName:
							sig = "tree:scaled-min-not-relative-to-parent-runtime"
						}
						if c.Violation(t, sig, "child %s of %s, dimension %d: AutoScaleMin used by the manager is %d, the scaling rule gives %v (+-%v): parent total T=%d, children's mins %v (sum %v), scaleMin=%v; history=%q",
							k.Name, pn, d, got, expMin[i], tolMin[i], ruleTotal, modelMins, c02SumBig(modelMins), scaleMin, st.log) {
							return
						}
					}
				}
				// the other consequence, also in the statement's terms: whatever the manager's bookkeeping says, every child gets at
				// least the smaller of its request and its (independently computed, possibly scaled) minimum
				for i, k := range kids {
					lo := new(big.Int).Sub(expMin[i], tolMin[i])
					if r := big.NewInt(sibs[i].Req); r.Cmp(lo) < 0 {
						lo = r
					}
					if big.NewInt(rt[i]).Cmp(lo) < 0 {
						if c.Violation(t, "tree:child-below-its-scaled-minimum", "child %s of %s, dimension %d: runtime %d < min(request %d, minimum by the scaling rule %v); parent total T=%d, children's mins %v, scaleMin=%v; %s; history=%q",
							k.Name, pn, d, rt[i], sibs[i].Req, expMin[i], ruleTotal, modelMins, scaleMin, c02Describe(sibs, total, rt), st.log) {
							return
						}
					}
				}
				if scaling {
					// the consequence in the statement's own terms: the scaled minimums (and guarantees) fit, so the
					// children together must not get more than their parent has (slack = float tolerance of the rule)
					need, slack, sumRT := new(big.Int), new(big.Int), new(big.Int)
					for i := range kids {
						e := expMin[i]
						if g := big.NewInt(sibs[i].Guar); g.Cmp(e) > 0 {
							e = g
						}
						need.Add(need, e)
						slack.Add(slack, tolMin[i])
						sumRT.Add(sumRT, big.NewInt(rt[i]))
					}
					T := big.NewInt(ruleTotal)
					if need.Cmp(T) <= 0 && sumRT.Cmp(new(big.Int).Add(T, slack)) > 0 {
						if c.Violation(t, "tree:children-exceed-parent-although-scaled-minimums-fit", "children of %s, dimension %d: scaled minimums %v fit into T=%d but sum(runtime)=%v; %s; history=%q",
							pn, d, expMin, ruleTotal, sumRT, c02Describe(sibs, total, rt), st.log) {
							return
						}
					}
				}

				sh := c02ShapeOf(sibs, total)
				if c02Classify(c, sibs, total, sh) {
					nt = true
				}
				c.ClassIf(pn != extension.RootQuotaName && sh.Left.Sign() > 0 && sh.PosBorrowers >= 1, "inner-level-with-leftover")
				c.ClassIf(builtinPresent && pn == extension.RootQuotaName && sh.Left.Sign() > 0 && sh.PosBorrowers >= 1, "builtin-pod-and-root-level-leftover-with-weighted-borrower")
				levels = append(levels, levelOut{pn, d, total, sibs, rt})
				if sig, msg := c02CheckBig(sibs, total, rt); sig != "" {
					// Diagnosis only (does not decide pass/fail): if the parent's calculator works on a copy of a child's
					// inputs that differs from what QuotaInfo records, name the stale field in the signature.
					tsig := "tree:" + sig[len("flat:"):]
					diag := ""
					resName := corev1.ResourceCPU
					if d == 1 {
						resName = corev1.ResourceMemory
					}
					if calc := gqm.runtimeQuotaCalculatorMap[pn]; calc != nil && calc.quotaTree[resName] != nil {
						stale := map[string]bool{}
						for _, s := range sibs {
							if ok, nd := calc.quotaTree[resName].find(s.Name); ok {
								if nd.request != s.Req {
									stale["request"] = true
									diag += fmt.Sprintf(" [calculator copy of %s has request=%d, QuotaInfo says %d]", s.Name, nd.request, s.Req)
								}
								if nd.min != s.Min {
									stale["min"] = true
									diag += fmt.Sprintf(" [calculator copy of %s has min=%d, QuotaInfo says %d]", s.Name, nd.min, s.Min)
								}
								if nd.guarantee != s.Guar {
									stale["guarantee"] = true
									diag += fmt.Sprintf(" [calculator copy of %s has guarantee=%d, QuotaInfo says %d]", s.Name, nd.guarantee, s.Guar)
								}
								if nd.sharedWeight != s.Weight {
									stale["weight"] = true
									diag += fmt.Sprintf(" [calculator copy of %s has weight=%d, QuotaInfo says %d]", s.Name, nd.sharedWeight, s.Weight)
								}
								if nd.allowLentResource != s.Lent {
									stale["lent"] = true
									diag += fmt.Sprintf(" [calculator copy of %s has allowLent=%v, QuotaInfo says %v]", s.Name, nd.allowLentResource, s.Lent)
								}
							}
						}
						if len(stale) > 0 {
							tsig = "tree:stale-" + strings.Join(vk.SortedKeys(stale), "+") + "-in-parent-calculator"
						}
					}
					// Diagnosis only: the built-in default/system group sits as a node in the root calculator once it has a pod. It
					// must not hold any of the root's capacity there (its usage is already taken out of the root total and its
					// runtime is its max); if it does, say through which input.
					if pn == extension.RootQuotaName {
						if calc := gqm.runtimeQuotaCalculatorMap[pn]; calc != nil && calc.quotaTree[resName] != nil {
							for _, bn := range c02BuiltinNames {
								if ok, nd := calc.quotaTree[resName].find(bn); ok && nd.runtimeQuota != 0 {
									via := "other"
									switch {
									case nd.guarantee > 0 || nd.min > 0:
										via = "guarantee"
									case nd.sharedWeight != 0:
										via = "shared-weight"
									}
									tsig = "tree:builtin-group-holds-root-capacity-via-" + via
									diag += fmt.Sprintf(" [root calculator node of %s: request=%d min=%d guarantee=%d weight=%d -> runtime=%d]", bn, nd.request, nd.min, nd.guarantee, nd.sharedWeight, nd.runtimeQuota)
								}
							}
						}
					}
					if c.Violation(t, tsig, "children of %s, dimension %d (scaleMin=%v guaranteeUsage=%v): %s;%s %s; history=%q", pn, d, scaleMin, guaranteeUsage, msg, diag, c02Describe(sibs, total, rt), st.log) {
						return
					}
				}
			}
		}
		if nt {
			c.NonTrivial(fmt.Sprint(levels))
		}
		c.Sample(map[string]any{"scaleMin": scaleMin, "guaranteeUsage": guaranteeUsage, "history": st.log, "levels": levels})
	}
}

// c02ScaledMins is the harness's own statement of the min-scaling rule documented in
// scale_minquota_when_over_root_res.go: a parent with total T (its own runtime; the cluster total at the first
// level) whose children's minimums sum to more than T scales every child's minimum to
// floor(max(T,0) * min_i / sum(min)); otherwise, or when scaling is disabled, every child keeps its minimum.
// (The per-child "scale enabled" flag is always the manager's one flag — scaleMinQuotaManager.update is only
// ever called with gqm.scaleMinQuotaEnabled, which is fixed at construction — so the "disabled children keep
// their min first" branch of the rule is unreachable through GroupQuotaManager and sum_disabled is 0.)
// Tolerance: koordinator evaluates T*min/sum in float64. While T*min < 2^53 that is exact after truncation
// (the product is exact, the quotient correctly rounded, and a non-integer quotient is at least 1/sum away from
// an integer, which is more than its rounding error); beyond, allow 1 unit + 2^-50 relative.
func c02ScaledMins(enabled bool, T int64, mins []int64) (exp []*big.Int, tol []*big.Int, scaling bool) {
	S := c02SumBig(mins)
	exp = make([]*big.Int, len(mins))
	tol = make([]*big.Int, len(mins))
	scaling = enabled && big.NewInt(T).Cmp(S) < 0
	two53 := new(big.Int).Lsh(big.NewInt(1), 53)
	for i, m := range mins {
		tol[i] = new(big.Int)
		if !scaling {
			exp[i] = big.NewInt(m)
			continue
		}
		if T <= 0 {
			exp[i] = new(big.Int)
			continue
		}
		prod := new(big.Int).Mul(big.NewInt(T), big.NewInt(m))
		exp[i] = new(big.Int).Quo(prod, S)
		if prod.Cmp(two53) >= 0 {
			tol[i] = new(big.Int).Add(big.NewInt(2), new(big.Int).Rsh(exp[i], 50))
		}
	}
	return exp, tol, scaling
}

func c02SumBig(xs []int64) *big.Int {
	s := new(big.Int)
	for _, x := range xs {
		s.Add(s, big.NewInt(x))
	}
	return s
}

func c02SumFits(xs []int64, total int64) bool { return c02SumBig(xs).Cmp(big.NewInt(total)) <= 0 }
