//go:build verif

// C02 — Runtime quota sharing: min guaranteed, request-capped, work-conserving, fair.
// See /verif/DESIGN.md §1 C02. In-package harness (injected with -overlay).
//
// This file holds the independent oracle (a re-statement of the property in math/big, plus an
// int64 twin used by the exhaustive small-scope enumeration) and the generators.
package core

import (
	"fmt"
	"math/big"

	"pgregory.net/rapid"
)

// c02Sib is one sibling in one resource dimension, exactly the inputs of quotaTree.insert.
type c02Sib struct {
	Name   string `json:"name"`
	Req    int64  `json:"request"`
	Min    int64  `json:"min"`
	Guar   int64  `json:"guarantee"`
	Weight int64  `json:"weight"`
	Lent   bool   `json:"allowLent"`
}

func (s c02Sib) eff() int64 {
	if s.Guar > s.Min {
		return s.Guar
	}
	return s.Min
}

func (s c02Sib) borrower() bool { return s.Req > s.eff() }

func c02Min64(a, b int64) int64 {
	if a < b {
		return a
	}
	return b
}

func c02Max64(a, b int64) int64 {
	if a > b {
		return a
	}
	return b
}

func c02Describe(sibs []c02Sib, total int64, rt []int64) string {
	s := fmt.Sprintf("total=%d siblings=[", total)
	for i, x := range sibs {
		if i > 0 {
			s += " "
		}
		s += fmt.Sprintf("{%s req=%d min=%d guar=%d w=%d lent=%v -> runtime=%d}", x.Name, x.Req, x.Min, x.Guar, x.Weight, x.Lent, rt[i])
	}
	return s + "]"
}

// ------------------------------------------------------------------------------------------------
// The oracle. Inputs: the sibling set, the parent's total, and the runtime each sibling was given.
// Nothing here calls koordinator code.
//
// With eff_i = max(min_i, guarantee_i) ("guaranteed minimum") and a sibling called a *borrower*
// when request_i > eff_i:
//
//  B1  min(request_i, eff_i) <= runtime_i <= max(request_i, eff_i)                     (statement, verbatim)
//  B2  a non-borrower that does not lend keeps exactly eff_i; one that lends gets exactly its
//      request (documented semantics of the lend flag: QuotaCalculateInfo.Min doc comment and the
//      comment in redistribution()). Both are inside B1.
//  S1  if sum(eff) <= total then sum(runtime) <= total                                   (statement, verbatim)
//  S2  "no unit is created": with P1 = sum over non-borrowers of their runtime + sum over
//      borrowers of eff ("the minimums" as actually handed out), if total >= P1 then
//      sum(runtime) <= total, and if total <= P1 (nothing left after the minimums) no borrower
//      gets anything above eff.
//  Z   a borrower with shared weight 0 gets nothing above eff (its proportional share is 0).
//  W   "no unit is dropped / until every request is met or nothing is left": if
//      total - sum(runtime) > 0 then no borrower with positive weight is left below its request.
//      (S2 + W give sum(runtime) == total exactly whenever a positive-weight borrower is unsatisfied
//      and the minimums fit.)
//  F   proportionality, with extra_i = runtime_i - eff_i, over borrowers with positive weight:
//        unsatisfied i, unsatisfied j:   |extra_i*w_j - extra_j*w_i| <  K*(w_i+w_j)
//        unsatisfied i, satisfied  j:     extra_j*w_i - extra_i*w_j  <  K*(w_i+w_j)
//      Tolerance K, derived from iterationForRedistribution as it is: the algorithm works in rounds;
//      a round splits the pool T among the still-unsatisfied borrowers with the largest-remainder
//      rule, so every participant's share differs from the exact w_i*T/W by strictly less than one
//      unit; borrowers that reach their request are capped, their excess forms the next pool. A
//      further round only happens if some positive-weight borrower was capped (excess > 0) and a
//      positive-weight borrower is still waiting, so the number of rounds R satisfies
//      R <= (#positive-weight borrowers) and R <= 1 + (#positive-weight borrowers that ended
//      satisfied). A borrower that took part in R rounds is therefore less than R units away from
//      w_i*lambda (lambda = sum of T_k/W_k, the common per-weight water level); a borrower capped in
//      round k needed no more than w_j*lambda_k + k. Dividing by the weights and cross-multiplying
//      gives the two inequalities with K = min(m_pos, s_pos+1) >= R. All in math/big.
// ------------------------------------------------------------------------------------------------

func c02CheckBig(sibs []c02Sib, total int64, rt []int64) (sig, msg string) {
	n := len(sibs)
	bi := func(x int64) *big.Int { return big.NewInt(x) }
	sumRT, sumEff, p1 := new(big.Int), new(big.Int), new(big.Int)
	for i, s := range sibs {
		e := s.eff()
		lo, hi := c02Min64(s.Req, e), c02Max64(s.Req, e)
		if rt[i] < lo {
			return "flat:below-min-of-request-and-guaranteed-min", fmt.Sprintf("sibling %s got %d < min(request,eff)=%d", s.Name, rt[i], lo)
		}
		if rt[i] > hi {
			return "flat:above-max-of-request-and-guaranteed-min", fmt.Sprintf("sibling %s got %d > max(request,eff)=%d", s.Name, rt[i], hi)
		}
		if !s.borrower() {
			if !s.Lent && rt[i] != e {
				return "flat:nonlending-sibling-not-at-min", fmt.Sprintf("non-lending sibling %s (request %d <= eff %d) got %d, want eff", s.Name, s.Req, e, rt[i])
			}
			if s.Lent && rt[i] != s.Req {
				return "flat:lending-sibling-not-at-request", fmt.Sprintf("lending sibling %s (request %d <= eff %d) got %d, want request", s.Name, s.Req, e, rt[i])
			}
			p1.Add(p1, bi(rt[i]))
		} else {
			p1.Add(p1, bi(e))
		}
		sumRT.Add(sumRT, bi(rt[i]))
		sumEff.Add(sumEff, bi(e))
	}
	T := bi(total)
	if sumEff.Cmp(T) <= 0 && sumRT.Cmp(T) > 0 {
		return "flat:sum-exceeds-total", fmt.Sprintf("minimums fit (sum eff=%v <= total) but sum(runtime)=%v > total=%d", sumEff, sumRT, total)
	}
	left := new(big.Int).Sub(T, p1)
	if left.Sign() >= 0 && sumRT.Cmp(T) > 0 {
		return "flat:units-created", fmt.Sprintf("capacity after the minimums is %v >= 0 but sum(runtime)=%v > total=%d", left, sumRT, total)
	}
	mpos, spos := 0, 0
	var unsat []int
	for i, s := range sibs {
		if !s.borrower() {
			continue
		}
		if left.Sign() <= 0 && rt[i] != s.eff() {
			return "flat:extra-without-leftover", fmt.Sprintf("nothing is left after the minimums (total-P1=%v) but borrower %s got %d > eff %d", left, s.Name, rt[i], s.eff())
		}
		if s.Weight == 0 && rt[i] != s.eff() {
			return "flat:zero-weight-got-extra", fmt.Sprintf("borrower %s has shared weight 0 but got %d > eff %d", s.Name, rt[i], s.eff())
		}
		if s.Weight > 0 {
			mpos++
			if rt[i] >= s.Req {
				spos++
			} else {
				unsat = append(unsat, i)
			}
		}
	}
	if rest := new(big.Int).Sub(T, sumRT); rest.Sign() > 0 && len(unsat) > 0 {
		return "flat:leftover-while-unsatisfied", fmt.Sprintf("%v units of the parent are handed to nobody although borrower %s (weight %d) has runtime %d < request %d",
			rest, sibs[unsat[0]].Name, sibs[unsat[0]].Weight, rt[unsat[0]], sibs[unsat[0]].Req)
	}
	K := mpos
	if spos+1 < K {
		K = spos + 1
	}
	for _, i := range unsat {
		xi, wi := bi(rt[i]-sibs[i].eff()), bi(sibs[i].Weight)
		for j := 0; j < n; j++ {
			if j == i || !sibs[j].borrower() || sibs[j].Weight <= 0 {
				continue
			}
			xj, wj := bi(rt[j]-sibs[j].eff()), bi(sibs[j].Weight)
			lhs := new(big.Int).Sub(new(big.Int).Mul(xj, wi), new(big.Int).Mul(xi, wj)) // > 0: j is above i per unit of weight
			bound := new(big.Int).Mul(bi(int64(K)), new(big.Int).Add(wi, wj))
			if rt[j] < sibs[j].Req { // both unsatisfied: two-sided
				if new(big.Int).Abs(lhs).Cmp(bound) >= 0 {
					return "flat:unfair-between-unsatisfied", fmt.Sprintf("unsatisfied borrowers %s (extra %v, w %v) and %s (extra %v, w %v): |extra_j*w_i-extra_i*w_j|=%v >= K*(w_i+w_j)=%v (K=%d)",
						sibs[i].Name, xi, wi, sibs[j].Name, xj, wj, new(big.Int).Abs(lhs), bound, K)
				}
			} else if lhs.Cmp(bound) >= 0 {
				return "flat:satisfied-above-unsatisfied-level", fmt.Sprintf("satisfied borrower %s (extra %v, w %v) is above the per-weight level of unsatisfied %s (extra %v, w %v): %v >= K*(w_i+w_j)=%v (K=%d)",
					sibs[j].Name, xj, wj, sibs[i].Name, xi, wi, lhs, bound, K)
			}
		}
	}
	return "", ""
}

// c02CheckSmall is the int64 twin of c02CheckBig for the exhaustive enumeration (all values tiny, so
// no overflow is possible). It returns only the signature; callers re-run c02CheckBig for the text.
// TestVerifC02Flat cross-checks the two on every small-valued case (and on perturbed outputs).
func c02CheckSmall(sibs []c02Sib, total int64, rt []int64) string {
	var sumRT, sumEff, p1 int64
	for i := range sibs {
		s := &sibs[i]
		e := s.eff()
		if rt[i] < c02Min64(s.Req, e) {
			return "flat:below-min-of-request-and-guaranteed-min"
		}
		if rt[i] > c02Max64(s.Req, e) {
			return "flat:above-max-of-request-and-guaranteed-min"
		}
		if s.Req <= e {
			if !s.Lent && rt[i] != e {
				return "flat:nonlending-sibling-not-at-min"
			}
			if s.Lent && rt[i] != s.Req {
				return "flat:lending-sibling-not-at-request"
			}
			p1 += rt[i]
		} else {
			p1 += e
		}
		sumRT += rt[i]
		sumEff += e
	}
	if sumEff <= total && sumRT > total {
		return "flat:sum-exceeds-total"
	}
	left := total - p1
	if left >= 0 && sumRT > total {
		return "flat:units-created"
	}
	mpos, spos, nUnsat, firstUnsat := 0, 0, 0, -1
	for i := range sibs {
		s := &sibs[i]
		e := s.eff()
		if s.Req <= e {
			continue
		}
		if left <= 0 && rt[i] != e {
			return "flat:extra-without-leftover"
		}
		if s.Weight == 0 && rt[i] != e {
			return "flat:zero-weight-got-extra"
		}
		if s.Weight > 0 {
			mpos++
			if rt[i] >= s.Req {
				spos++
			} else {
				nUnsat++
				if firstUnsat < 0 {
					firstUnsat = i
				}
			}
		}
	}
	if total-sumRT > 0 && nUnsat > 0 {
		return "flat:leftover-while-unsatisfied"
	}
	if nUnsat == 0 {
		return ""
	}
	K := int64(mpos)
	if int64(spos+1) < K {
		K = int64(spos + 1)
	}
	for i := range sibs {
		si := &sibs[i]
		if si.Req <= si.eff() || si.Weight <= 0 || rt[i] >= si.Req {
			continue
		}
		xi, wi := rt[i]-si.eff(), si.Weight
		for j := range sibs {
			sj := &sibs[j]
			if j == i || sj.Req <= sj.eff() || sj.Weight <= 0 {
				continue
			}
			xj, wj := rt[j]-sj.eff(), sj.Weight
			lhs := xj*wi - xi*wj
			bound := K * (wi + wj)
			if rt[j] < sj.Req {
				a := lhs
				if a < 0 {
					a = -a
				}
				if a >= bound {
					return "flat:unfair-between-unsatisfied"
				}
			} else if lhs >= bound {
				return "flat:satisfied-above-unsatisfied-level"
			}
		}
	}
	return ""
}

// c02Shape describes, from the inputs only, which parts of the algorithm a case exercises.
type c02Shape struct {
	P1            *big.Int // sum of what phase 1 hands out, by the documented semantics
	Left          *big.Int // total - P1
	Borrowers     int      // request > eff
	PosBorrowers  int      // ... with weight > 0
	ZeroWBorrower bool
	Remainder     bool // first largest-remainder split of Left over the positive-weight borrowers has a non-zero remainder
	Tie           bool // ... and two borrowers tie on the remainder
	MultiRound    bool // some borrower's exact share exceeds its need while another needs clearly more than its share
	BelowMin      bool // total < sum(eff)
	Beyond53      bool // some w_i*Left product exceeds 2^53 (float64 would be inexact)
	Beyond64      bool // ... exceeds 2^64 (needs the 128-bit path)
}

func c02ShapeOf(sibs []c02Sib, total int64) c02Shape {
	sh := c02Shape{P1: new(big.Int)}
	sumEff := new(big.Int)
	W := new(big.Int)
	for _, s := range sibs {
		e := s.eff()
		sumEff.Add(sumEff, big.NewInt(e))
		switch {
		case s.borrower():
			sh.P1.Add(sh.P1, big.NewInt(e))
			sh.Borrowers++
			if s.Weight > 0 {
				sh.PosBorrowers++
				W.Add(W, big.NewInt(s.Weight))
			} else {
				sh.ZeroWBorrower = true
			}
		case s.Lent:
			sh.P1.Add(sh.P1, big.NewInt(s.Req))
		default:
			sh.P1.Add(sh.P1, big.NewInt(e))
		}
	}
	sh.Left = new(big.Int).Sub(big.NewInt(total), sh.P1)
	sh.BelowMin = big.NewInt(total).Cmp(sumEff) < 0
	if sh.Left.Sign() <= 0 || sh.PosBorrowers == 0 {
		return sh
	}
	two53 := new(big.Int).Lsh(big.NewInt(1), 53)
	two64 := new(big.Int).Lsh(big.NewInt(1), 64)
	rems := map[string]int{}
	over, under := false, false
	for _, s := range sibs {
		if !s.borrower() || s.Weight <= 0 {
			continue
		}
		prod := new(big.Int).Mul(big.NewInt(s.Weight), sh.Left)
		if prod.Cmp(two53) > 0 {
			sh.Beyond53 = true
		}
		if prod.Cmp(two64) >= 0 {
			sh.Beyond64 = true
		}
		q, r := new(big.Int).QuoRem(prod, W, new(big.Int))
		if r.Sign() != 0 {
			sh.Remainder = true
		}
		rems[r.String()]++
		need := big.NewInt(s.Req - s.eff())
		if q.Cmp(need) > 0 {
			over = true
		}
		if new(big.Int).Add(q, big.NewInt(1)).Cmp(need) < 0 {
			under = true
		}
	}
	if sh.Remainder {
		for _, k := range rems {
			if k > 1 {
				sh.Tie = true
			}
		}
	}
	sh.MultiRound = over && under
	return sh
}

// ------------------------------------------------------------------------------------------------
// Generators
// ------------------------------------------------------------------------------------------------

// names chosen so that byte order, length order and "numeric" order all differ (the tie-break in
// computeHamiltonDeltas is plain string comparison of quotaName).
var c02NamePool = []string{"a", "b", "B", "aa", "q-10", "q-2", "q-1", "z", "0", "quota-x", "A", "ab"}

func c02GenNames(t *rapid.T, n int) []string {
	p := rapid.Permutation(c02NamePool).Draw(t, "names")
	return append([]string(nil), p[:n]...)
}

type c02Scale struct {
	Name string
	Hi   int64
}

func c02GenScale(t *rapid.T, n int) c02Scale {
	// every single value is bounded by Hi; with n <= 8 values per sum the sums of requests and of
	// minimums each stay <= 2^61 and total <= 2^62+2^61, so nothing in koordinator's int64 arithmetic
	// can overflow (precondition: quantities of one parent fit in int64 — apiserver Quantities do).
	scales := []c02Scale{{"tiny", 8}, {"small", 100}, {"milli", 1_000_000}, {"mem-2^40", 1 << 40}, {"mem-2^40", 1 << 40}, {"huge-2^61", (1 << 61) / int64(n)}, {"huge-2^61", (1 << 61) / int64(n)}}
	return rapid.SampledFrom(scales).Draw(t, "scale")
}

// c02Val draws a value in [0, hi] from a boundary-heavy mixture.
func c02Val(t *rapid.T, hi int64, label string) int64 {
	if hi <= 0 {
		return 0
	}
	switch rapid.IntRange(0, 5).Draw(t, label+"Kind") {
	case 0:
		return 0
	case 1:
		return c02Min64(hi, rapid.Int64Range(0, 8).Draw(t, label+"Small"))
	case 2:
		return hi - c02Min64(hi, rapid.Int64Range(0, 8).Draw(t, label+"NearHi"))
	default:
		return rapid.Int64Range(0, hi).Draw(t, label)
	}
}

// c02Need draws a positive "need" (request - eff) in [1, hi]: mostly small so that borrowers get
// satisfied and later rounds happen, sometimes anything.
func c02Need(t *rapid.T, hi int64, label string) int64 {
	if hi <= 1 {
		return 1
	}
	switch rapid.IntRange(0, 3).Draw(t, label+"Kind") {
	case 0:
		return c02Min64(hi, rapid.Int64Range(1, 4).Draw(t, label+"Small"))
	case 1:
		return c02Min64(hi, rapid.Int64Range(1, 64).Draw(t, label+"Mid"))
	default:
		return rapid.Int64Range(1, hi).Draw(t, label)
	}
}

// c02GenDim generates one resource dimension of a sibling set (names and lend flags are given) and a total.
func c02GenDim(t *rapid.T, names []string, lent []bool, label string) ([]c02Sib, int64, string) {
	n := len(names)
	sc := c02GenScale(t, n)
	hi := sc.Hi
	sibs := make([]c02Sib, n)
	wMode := rapid.IntRange(0, 4).Draw(t, label+"WeightMode")
	wEqual := int64(1)
	switch rapid.IntRange(0, 2).Draw(t, label+"EqualW") {
	case 0:
		wEqual = 1
	case 1:
		wEqual = rapid.Int64Range(1, 7).Draw(t, label+"EqualWSmall")
	default:
		wEqual = c02Max64(1, c02Val(t, hi, label+"EqualWAny"))
	}
	for i := range sibs {
		l := fmt.Sprintf("%s%d", label, i)
		s := c02Sib{Name: names[i], Lent: lent[i]}
		var eff int64
		switch rapid.SampledFrom([]int{0, 0, 0, 0, 0, 0, 1, 2, 2, 2, 2}).Draw(t, l+"Rel") {
		case 0: // borrower: request > eff
			eff = c02Val(t, hi-1, l+"Eff")
			s.Req = eff + c02Need(t, hi-eff, l+"Need")
		case 1: // request == eff
			eff = c02Val(t, hi, l+"Eff")
			s.Req = eff
		default: // request < eff
			eff = 1 + c02Val(t, hi-1, l+"Eff")
			if rapid.Bool().Draw(t, l+"ReqNearEff") {
				s.Req = eff - c02Min64(eff, rapid.Int64Range(1, 4).Draw(t, l+"Gap"))
			} else {
				s.Req = c02Val(t, eff-1, l+"Req")
			}
		}
		switch rapid.IntRange(0, 5).Draw(t, l+"Split") { // how eff is made of (min, guarantee)
		case 0, 1, 2:
			s.Min, s.Guar = eff, 0
		case 3:
			s.Min, s.Guar = eff, c02Val(t, eff, l+"GuarBelow")
		case 4:
			s.Min, s.Guar = c02Val(t, eff, l+"MinBelow"), eff
		default:
			s.Min, s.Guar = eff, eff
		}
		switch wMode {
		case 0: // all equal: every remainder ties, the name decides
			s.Weight = wEqual
		case 1:
			s.Weight = rapid.Int64Range(0, 5).Draw(t, l+"W")
		case 2:
			s.Weight = c02Val(t, hi, l+"W")
		case 3:
			s.Weight = rapid.SampledFrom([]int64{0, 1, 1, 2, 3, hi, hi - 1, c02Max64(1, hi/3)}).Draw(t, l+"W")
		default: // weight = something like max (>= request), the koordinator default
			s.Weight = c02Min64(hi, s.Req+c02Val(t, hi-c02Min64(hi, s.Req), l+"WAboveReq"))
		}
		sibs[i] = s
	}
	// total: aimed at the boundaries
	var p1, up, sumEff int64
	for _, s := range sibs {
		e := s.eff()
		sumEff += e
		switch {
		case s.borrower():
			p1 += e
			up += s.Req
		case s.Lent:
			p1 += s.Req
			up += s.Req
		default:
			p1 += e
			up += e
		}
	}
	var total int64
	mode := rapid.SampledFrom([]string{"zero", "below-p1", "at-p1", "p1-plus-few", "p1-plus-few", "p1-plus-few", "between", "between", "between", "between",
		"all-but-one", "exactly-all", "above-all", "negative", "at-sum-eff", "sum-eff-minus-1"}).Draw(t, label+"TotalMode")
	switch mode {
	case "zero":
		total = 0
	case "below-p1":
		total = c02Val(t, c02Max64(0, p1-1), label+"Total")
	case "at-p1":
		total = p1
	case "p1-plus-few":
		total = p1 + rapid.Int64Range(1, int64(2*n+3)).Draw(t, label+"Few")
	case "between":
		total = p1 + c02Val(t, up-p1, label+"Between")
	case "all-but-one":
		total = c02Max64(0, up-1)
	case "exactly-all":
		total = up
	case "above-all":
		total = up + 1 + c02Val(t, hi, label+"Above")
	case "negative":
		total = -rapid.Int64Range(1, 5).Draw(t, label+"Neg")
	case "at-sum-eff":
		total = sumEff
	default:
		total = c02Max64(0, sumEff-1)
	}
	return sibs, total, sc.Name
}
