//go:build verif

// C11 — Node-pressure eviction takes only eligible victims, in order, and only as needed.
// Unit "loop": the ordered, target-bounded eviction loop KillAndEvictPods shared by all evict strategies.
// See /verif/DESIGN.md §1 C11. In-package harness (injected with -overlay).
//
// Oracle (restated from the property statement, evaluated on the sequence of calls a recording
// EvictionExecutor receives, with the harness' own running totals):
//   - an Evict call names a pod of the calling task's victim list                          (eligible victims only)
//   - the calls of one task follow the task's list order and pass over no candidate that
//     certainly still helps                                                                  (published order)
//   - at the moment of a call the calling task's target is not yet covered by what the victims so far
//     (successful evictions of any task + pods the executor reported as already evicted) release
//   - no call for a pod that was evicted successfully before or that is already evicted     (no pod twice)
//   - the pod of a call frees something of what is still short                              (nothing evicted for nothing)
//
// Where the statement leaves room, the lenient reading is taken (see c11Lo / c11Hi below): a violation is
// raised only if it is one under every reading.
package util

import (
	"fmt"
	"sort"
	"strings"
	"testing"

	corev1 "k8s.io/api/core/v1"
	"k8s.io/apimachinery/pkg/api/resource"
	metav1 "k8s.io/apimachinery/pkg/apis/meta/v1"
	"k8s.io/apimachinery/pkg/types"
	"pgregory.net/rapid"

	apiext "github.com/koordinator-sh/koordinator/apis/extension"
	"github.com/koordinator-sh/koordinator/pkg/verifkit/vk"
)

var c11AllRes = []corev1.ResourceName{corev1.ResourceMemory, corev1.ResourceCPU, apiext.BatchCPU, apiext.BatchMemory, apiext.MidCPU, apiext.MidMemory}
var c11AllTargets = []ReleaseTargetType{ReleaseTargetTypeResourceUsed, ReleaseTargetTypeResourceRequest, ReleaseTargetTypeBatchResourceRequest}

// amounts are plain int64 "units"; a unit of cpu is one milli-core, of every other resource one byte / one count.
func c11Qty(r corev1.ResourceName, v int64) resource.Quantity {
	switch r {
	case corev1.ResourceCPU:
		return *resource.NewMilliQuantity(v, resource.DecimalSI)
	case apiext.BatchCPU, apiext.MidCPU:
		return *resource.NewQuantity(v, resource.DecimalSI)
	default:
		return *resource.NewQuantity(v, resource.BinarySI)
	}
}

func c11Units(r corev1.ResourceName, q resource.Quantity) int64 {
	if r == corev1.ResourceCPU {
		return q.MilliValue()
	}
	return q.Value()
}

type c11Amounts map[ReleaseTargetType]map[corev1.ResourceName]int64

type c11Task struct {
	Reason   string
	Target   ReleaseTargetType
	NilRL    bool                          // ToReleaseResource is nil
	Release  map[corev1.ResourceName]int64 // the computed target
	List     []int                         // victim list (pod indices), published order
	Restrict map[corev1.ResourceName]bool  // resources the task's GetPodResourceFunc reports
	Mode     []int                         // per pod: 0 values incl. explicit zeros, 1 values without zeros, 2 nil, 3 empty list
}

type c11Event struct {
	Kind string // "evict" | "asked"
	Pod  int
	Task int
	OK   bool
}

type c11Exec struct {
	podIdx   map[string]int
	already  []bool
	outcomes [][]bool
	calls    []int
	mark     bool
	done     []bool
	events   []c11Event
	garbled  []string
}

func (e *c11Exec) Evict(pod *corev1.Pod, node *corev1.Node, releaseReason string, message string) bool {
	p, ok := e.podIdx[pod.Namespace+"/"+pod.Name]
	task := -1
	if strings.HasPrefix(message, "task") {
		fmt.Sscanf(message, "task%d,", &task)
	}
	if !ok || task < 0 {
		e.garbled = append(e.garbled, fmt.Sprintf("Evict(%s/%s, %q)", pod.Namespace, pod.Name, message))
		return false
	}
	res := true
	if n := e.calls[p]; n < len(e.outcomes[p]) {
		res = e.outcomes[p][n]
	} else if len(e.outcomes[p]) > 0 {
		res = e.outcomes[p][len(e.outcomes[p])-1]
	}
	e.calls[p]++
	if res {
		e.done[p] = true
	}
	e.events = append(e.events, c11Event{"evict", p, task, res})
	return res
}

func (e *c11Exec) IsPodEvicted(pod *corev1.Pod) bool {
	p, ok := e.podIdx[pod.Namespace+"/"+pod.Name]
	if !ok {
		e.garbled = append(e.garbled, fmt.Sprintf("IsPodEvicted(%s/%s)", pod.Namespace, pod.Name))
		return false
	}
	res := e.already[p] || (e.mark && e.done[p])
	e.events = append(e.events, c11Event{"asked", p, -1, res})
	return res
}

func c11Index(list []int, p int) int {
	for i, x := range list {
		if x == p {
			return i
		}
	}
	return -1
}

func TestVerifC11Loop(t *testing.T) {
	rec := vk.New(t, "C11", "loop")
	rapid.Check(t, func(t *rapid.T) {
		c := rec.Begin()
		defer c.End()

		// ------------------------------------------------------------ generate
		nPods := rapid.IntRange(1, 7).Draw(t, "nPods")
		nTasks := rapid.SampledFrom([]int{2, 2, 3, 1, 2, 3}).Draw(t, "nTasks")
		// the case works on a small alphabet of resources / target types so that tasks and pods meet
		resAlpha := rapid.SliceOfNDistinct(rapid.SampledFrom(c11AllRes), 1, 3, rapid.ID[corev1.ResourceName]).Draw(t, "resources")
		tgtAlpha := rapid.SliceOfNDistinct(rapid.SampledFrom(c11AllTargets), 1, 2, rapid.ID[ReleaseTargetType]).Draw(t, "targetTypes")
		scale := rapid.SampledFrom([]int64{1, 1, 1, 1000, 1 << 30}).Draw(t, "scale")
		zeroBias := rapid.IntRange(1, 6).Draw(t, "zeroBias") // 1 in zeroBias amounts is forced to zero (1 = every amount is zero only when drawn so)
		amount := func(label string) int64 {
			if zeroBias > 1 && rapid.IntRange(0, zeroBias-1).Draw(t, label+"Zero") == 0 {
				return 0
			}
			return rapid.Int64Range(0, 6).Draw(t, label) * scale
		}
		genAmounts := func(label string) c11Amounts {
			a := c11Amounts{}
			for _, tg := range tgtAlpha {
				a[tg] = map[corev1.ResourceName]int64{}
				for _, r := range resAlpha {
					a[tg][r] = amount(fmt.Sprintf("%s/%s/%s", label, tg, r))
				}
			}
			return a
		}
		base := make([]c11Amounts, nPods)
		for p := range base {
			base[p] = genAmounts(fmt.Sprintf("pod%d", p))
		}
		tasks := make([]*c11Task, nTasks)
		// amounts[k][p]: what the PodEvictInfo of pod p in the list of task k carries (real callers build one info per list;
		// the lists of memoryevict even measure the same pod differently)
		amounts := make([][]c11Amounts, nTasks)
		infoDiffers := false
		infosMayDiffer := rapid.IntRange(0, 4).Draw(t, "infosMayDiffer") == 0
		for k := range tasks {
			tk := &c11Task{Reason: fmt.Sprintf("task%d", k), Target: rapid.SampledFrom(tgtAlpha).Draw(t, "target"),
				Release: map[corev1.ResourceName]int64{}, Restrict: map[corev1.ResourceName]bool{}, Mode: make([]int, nPods)}
			switch rapid.IntRange(0, 29).Draw(t, "releaseShape") {
			case 28:
				tk.NilRL = true
			case 29: // empty list
			default:
				rs := rapid.SliceOfNDistinct(rapid.SampledFrom(resAlpha), 1, 2, rapid.ID[corev1.ResourceName]).Draw(t, "releaseRes")
				for _, r := range rs {
					v := rapid.Int64Range(1, 8).Draw(t, "releaseAmount") * scale
					if rapid.IntRange(0, 11).Draw(t, "releaseZero") == 0 {
						v = 0 // reachable: the allocatable tasks publish a zero target for a resource the node does not report
					}
					if scale > 1 && v > 0 {
						v += rapid.Int64Range(-1, 1).Draw(t, "releaseJitter")
					}
					tk.Release[r] = v
				}
			}
			perm := rapid.Permutation(c11Seq(nPods)).Draw(t, "listOrder")
			for _, p := range perm {
				if rapid.IntRange(0, 3).Draw(t, "inList") > 0 {
					tk.List = append(tk.List, p)
				}
			}
			if rapid.IntRange(0, 2).Draw(t, "restrictToTarget") == 0 {
				for r := range tk.Release {
					tk.Restrict[r] = true
				}
			} else {
				for _, r := range resAlpha {
					tk.Restrict[r] = true
				}
			}
			for p := 0; p < nPods; p++ {
				tk.Mode[p] = rapid.SampledFrom([]int{0, 0, 0, 0, 0, 1, 1, 1, 2, 3}).Draw(t, "funcMode")
			}
			amounts[k] = make([]c11Amounts, nPods)
			for p := 0; p < nPods; p++ {
				amounts[k][p] = base[p]
				if infosMayDiffer && rapid.IntRange(0, 2).Draw(t, "infoDiffers") == 0 {
					amounts[k][p] = genAmounts(fmt.Sprintf("info%d/%d", k, p))
					infoDiffers = true
				}
			}
			tasks[k] = tk
		}
		ex := &c11Exec{podIdx: map[string]int{}, already: make([]bool, nPods), outcomes: make([][]bool, nPods), calls: make([]int, nPods),
			done: make([]bool, nPods), mark: rapid.Bool().Draw(t, "executorRemembersEvictions")}
		failBias := rapid.SampledFrom([]int{1, 2, 0, 3}).Draw(t, "failBias")
		pods := make([]*corev1.Pod, nPods)
		for p := range pods {
			name := fmt.Sprintf("p%d", p)
			pods[p] = &corev1.Pod{ObjectMeta: metav1.ObjectMeta{Name: name, Namespace: "ns", UID: types.UID(name + "-uid")}}
			ex.podIdx["ns/"+name] = p
			ex.already[p] = rapid.IntRange(0, 5).Draw(t, "alreadyEvicted") == 5
			for i := 0; i < nTasks; i++ {
				ex.outcomes[p] = append(ex.outcomes[p], rapid.IntRange(0, 3).Draw(t, "evictFails") >= failBias)
			}
		}

		// ------------------------------------------------------------ build the real input
		type infoKey struct{ list, pod int }
		infoOf := map[*PodEvictInfo]infoKey{}
		var real []*EvictTaskInfo
		for k, tk := range tasks {
			k, tk := k, tk
			rt := &EvictTaskInfo{Reason: tk.Reason, ReleaseTarget: tk.Target}
			if !tk.NilRL {
				rt.ToReleaseResource = corev1.ResourceList{}
				for r, v := range tk.Release {
					rt.ToReleaseResource[r] = c11Qty(r, v)
				}
			}
			for _, p := range tk.List {
				info := &PodEvictInfo{Pod: pods[p]}
				infoOf[info] = infoKey{k, p}
				rt.SortedEvictPods = append(rt.SortedEvictPods, info)
			}
			rt.GetPodResourceFunc = func(info *PodEvictInfo) corev1.ResourceList {
				ik, ok := infoOf[info]
				if !ok {
					return nil
				}
				mode := tk.Mode[ik.pod]
				if mode == 2 {
					return nil
				}
				out := corev1.ResourceList{}
				if mode == 3 {
					return out
				}
				for r, v := range amounts[ik.list][ik.pod][tk.Target] {
					if !tk.Restrict[r] || (mode == 1 && v == 0) {
						continue
					}
					out[r] = c11Qty(r, v)
				}
				return out
			}
			real = append(real, rt)
		}

		// what task j's own function says pod p frees of r, read from the info of list `list`
		own := func(j, list, p int, r corev1.ResourceName) int64 {
			tj := tasks[j]
			if tj.Mode[p] >= 2 || !tj.Restrict[r] {
				return 0
			}
			return amounts[list][p][tj.Target][r]
		}
		listsWith := func(p int) []int {
			var out []int
			for k, tk := range tasks {
				if c11Index(tk.List, p) >= 0 {
					out = append(out, k)
				}
			}
			return out
		}
		// c11Lo: the least that removing p certainly releases towards task j's target (own function, any of the pod's infos);
		// c11Hi: the most any reading can credit (any function of a task with the same target type, any info).
		lo := func(j, p int, r corev1.ResourceName) int64 {
			ls := listsWith(p)
			if len(ls) == 0 {
				return 0
			}
			m := own(j, ls[0], p, r)
			for _, l := range ls[1:] {
				if v := own(j, l, p, r); v < m {
					m = v
				}
			}
			return m
		}
		hi := func(j, p int, r corev1.ResourceName) int64 {
			var m int64
			for i := range tasks {
				if tasks[i].Target != tasks[j].Target {
					continue
				}
				for _, l := range listsWith(p) {
					if v := own(i, l, p, r); v > m {
						m = v
					}
				}
			}
			return m
		}

		// ------------------------------------------------------------ run
		node := &corev1.Node{ObjectMeta: metav1.ObjectMeta{Name: "node"}}
		released, _ := KillAndEvictPods(ex, node, real)

		// ------------------------------------------------------------ describe the case
		describe := func() string {
			var b strings.Builder
			for k, tk := range tasks {
				fmt.Fprintf(&b, "\n  task%d target=%s release=%s list=[", k, tk.Target, c11Fmt(tk.Release, tk.NilRL))
				for _, p := range tk.List {
					fmt.Fprintf(&b, " p%d{", p)
					switch tk.Mode[p] {
					case 2:
						b.WriteString("nil")
					case 3:
						b.WriteString("empty")
					default:
						for _, r := range c11SortedRes(tk.Restrict) {
							v := amounts[k][p][tk.Target][r]
							if v != 0 || tk.Mode[p] == 0 {
								fmt.Fprintf(&b, "%s:%d ", r, v)
							}
						}
					}
					b.WriteString("}")
					if ex.already[p] {
						b.WriteString("(already-evicted)")
					}
				}
				b.WriteString(" ]")
			}
			fmt.Fprintf(&b, "\n  executor remembers its evictions=%v; evict outcomes per pod=%v\n  calls:", ex.mark, ex.outcomes)
			for _, e := range ex.events {
				if e.Kind == "evict" {
					fmt.Fprintf(&b, " Evict(p%d by task%d)=%v", e.Pod, e.Task, e.OK)
				} else if e.OK {
					fmt.Fprintf(&b, " IsPodEvicted(p%d)=true", e.Pod)
				}
			}
			fmt.Fprintf(&b, "\n  returned=%s", c11FmtRL(released))
			return b.String()
		}

		// ------------------------------------------------------------ oracle over the recorded calls
		if len(ex.garbled) > 0 {
			c.Violation(t, "evict:unknown-pod-or-reason", "executor got calls that name no generated pod / task: %v%s", ex.garbled, describe())
			return
		}
		isVictim := make([]bool, nPods) // successful evictions and pods the executor reported as already evicted
		succeeded := make([]bool, nPods)
		var victims []int
		failedIn := make([]map[int]bool, nTasks)
		lastPos := make([]int, nTasks)
		for k := range failedIn {
			failedIn[k] = map[int]bool{}
			lastPos[k] = -1
		}
		sum := func(f func(j, p int, r corev1.ResourceName) int64, j int, r corev1.ResourceName) int64 {
			var s int64
			for _, v := range victims {
				s += f(j, v, r)
			}
			return s
		}
		positive := func(j int) []corev1.ResourceName {
			var out []corev1.ResourceName
			for _, r := range c11SortedResI(tasks[j].Release) {
				if tasks[j].Release[r] > 0 {
					out = append(out, r)
				}
			}
			return out
		}
		sawFail, sawFreesNothingOwn, sawPendingCounted, sawCrossTaskCredit, sawPendingLaterCovers := false, false, false, false, false
		var viol []func() bool
		sawFreesNothingAny := false
		for _, e := range ex.events {
			if e.Kind == "asked" {
				if e.OK && !isVictim[e.Pod] {
					isVictim[e.Pod] = true
					victims = append(victims, e.Pod)
					sawPendingCounted = true
				}
				continue
			}
			k, p := e.Task, e.Pod
			if k >= nTasks {
				c.Violation(t, "evict:unknown-pod-or-reason", "Evict attributed to task%d which does not exist%s", k, describe())
				return
			}
			tk := tasks[k]
			pos := c11Index(tk.List, p)
			if pos < 0 {
				c.Violation(t, "evict:not-in-victim-list", "task%d evicted p%d which is not in its victim list%s", k, p, describe())
				return
			}
			if ex.already[p] {
				c.Violation(t, "evict:already-evicted-pod-evicted-again", "task%d evicted p%d which the executor reports as already evicted%s", k, p, describe())
				return
			}
			if succeeded[p] {
				c.Violation(t, "evict:pod-evicted-twice", "task%d evicted p%d again after a successful eviction%s", k, p, describe())
				return
			}
			// target already met?
			pr := positive(k)
			met := true
			for _, r := range pr {
				if sum(lo, k, r) < tk.Release[r] {
					met = false
				}
			}
			if met {
				c.Violation(t, "evict:after-target-met", "task%d evicted p%d although its target %s was already covered by the victims so far %v%s",
					k, p, c11Fmt(tk.Release, tk.NilRL), victims, describe())
				return
			}
			{ // pods of this list that are already evicted (still terminating) but come later in the order would cover the target
				cover := len(pr) > 0
				for _, r := range pr {
					have := sum(lo, k, r)
					for _, a := range tk.List {
						if ex.already[a] && !isVictim[a] {
							have += lo(k, a, r)
						}
					}
					if have < tk.Release[r] {
						cover = false
					}
				}
				if cover && !sawPendingLaterCovers {
					sawPendingLaterCovers = true
					kk, pp, vv := k, p, append([]int(nil), victims...)
					var pend []int
					for _, a := range tk.List {
						if ex.already[a] && !isVictim[a] {
							pend = append(pend, a)
						}
					}
					viol = append(viol, func() bool {
						return c.Violation(t, "evict:pending-release-later-in-list-not-credited", "task%d evicted p%d although the victims so far %v together with the pods of its list that are already evicted and still present %v cover its target %s%s",
							kk, pp, vv, pend, c11Fmt(tasks[kk].Release, tasks[kk].NilRL), describe())
					})
				}
			}
			// order inside the task
			if pos <= lastPos[k] {
				c.Violation(t, "evict:out-of-order", "task%d evicted p%d (position %d) after position %d of its list%s", k, p, pos, lastPos[k], describe())
				return
			}
			for _, a := range tk.List[:pos] {
				if isVictim[a] || failedIn[k][a] {
					continue
				}
				for _, r := range pr {
					if tk.Release[r]-sum(hi, k, r) > 0 && lo(k, a, r) > 0 {
						c.Violation(t, "evict:candidate-skipped", "task%d evicted p%d but passed over p%d, which comes first and frees %d of %s that is still short%s",
							k, p, a, lo(k, a, r), r, describe())
						return
					}
				}
			}
			lastPos[k] = pos
			// does the pod free anything of what is still short (of this task, or of any other task)?
			helps := func(j int) bool {
				for _, r := range positive(j) {
					if tasks[j].Release[r]-sum(lo, j, r) > 0 && hi(j, p, r) > 0 {
						return true
					}
				}
				return false
			}
			if !helps(k) {
				sawFreesNothingOwn = true
				any := false
				for j := range tasks {
					if helps(j) {
						any = true
					}
				}
				if !any {
					sawFreesNothingAny = true
					kk, pp, ok, vv := k, p, e.OK, append([]int(nil), victims...)
					viol = append(viol, func() bool {
						return c.Violation(t, "evict:victim-frees-nothing", "task%d evicted p%d (call result %v) although p%d frees nothing of what is still short: target %s, victims so far %v%s",
							kk, pp, ok, pp, c11Fmt(tasks[kk].Release, tasks[kk].NilRL), vv, describe())
					})
				}
			}
			if e.OK {
				succeeded[p] = true
				if !isVictim[p] {
					isVictim[p] = true
					victims = append(victims, p)
				}
				for j := range tasks {
					if j != k && len(positive(j)) > 0 {
						for _, r := range positive(j) {
							if lo(j, p, r) > 0 {
								sawCrossTaskCredit = true
							}
						}
					}
				}
			} else {
				sawFail = true
				failedIn[k][p] = true
			}
		}
		// the returned account lies between the two readings, for every amount a task asked for
		for k, tk := range tasks {
			for _, r := range positive(k) {
				q := released[tk.Target][r]
				got := c11Units(r, q)
				if l, h := sum(lo, k, r), sum(hi, k, r); got < l || got > h {
					c.Violation(t, "evict:release-list-mismatch", "returned %s/%s = %d, but the victims %v release between %d and %d%s", tk.Target, r, got, victims, l, h, describe())
					return
				}
			}
		}

		// ------------------------------------------------------------ classes
		active := 0
		shareVictim, zeroCandidate := false, false
		for k := range tasks {
			if len(positive(k)) == 0 {
				continue
			}
			active++
			for _, p := range tasks[k].List {
				z := true
				for _, r := range positive(k) {
					if hi(k, p, r) > 0 {
						z = false
					}
				}
				if z {
					zeroCandidate = true
				}
				for j := range tasks {
					if j != k && len(positive(j)) > 0 && c11Index(tasks[j].List, p) >= 0 {
						shareVictim = true
					}
				}
			}
		}
		sameTarget := false
		for i := range tasks {
			for j := range tasks {
				if i < j && tasks[i].Target == tasks[j].Target && len(positive(i)) > 0 && len(positive(j)) > 0 {
					sameTarget = true
				}
			}
		}
		nEvict, nOK := 0, 0
		for _, e := range ex.events {
			if e.Kind == "evict" {
				nEvict++
				if e.OK {
					nOK++
				}
			}
		}
		allMet := active > 0
		for k := range tasks {
			for _, r := range positive(k) {
				if sum(lo, k, r) < tasks[k].Release[r] {
					allMet = false
				}
			}
		}
		stoppedEarly := false // a task reached its target and left candidates of its list untouched
		for k := range tasks {
			if len(positive(k)) == 0 {
				continue
			}
			met := true
			for _, r := range positive(k) {
				if sum(lo, k, r) < tasks[k].Release[r] {
					met = false
				}
			}
			if met {
				for _, p := range tasks[k].List {
					if !isVictim[p] && !failedIn[k][p] {
						stoppedEarly = true
					}
				}
			}
		}
		c.ClassIf(stoppedEarly, "task-stopped-with-candidates-left")
		c.Class(fmt.Sprintf("tasks-with-target:%d", active))
		c.ClassIf(shareVictim, "tasks-share-a-victim")
		c.ClassIf(sameTarget, "two-tasks-same-target-type")
		c.ClassIf(sawFail, "eviction-call-failed")
		c.ClassIf(zeroCandidate, "candidate-with-zero-contribution")
		c.ClassIf(sawFreesNothingOwn, "evicted-pod-frees-nothing-for-own-task")
		c.ClassIf(sawFreesNothingOwn && !sawFreesNothingAny, "evicted-pod-frees-nothing-for-own-task-but-helps-another(not asserted)")
		c.ClassIf(sawPendingCounted, "already-evicted-pod-counted")
		c.ClassIf(sawPendingLaterCovers, "evicted-although-already-evicted-pods-later-in-the-list-cover-the-target")
		c.ClassIf(sawCrossTaskCredit, "eviction-credited-to-other-task")
		c.ClassIf(infoDiffers, "info-differs-between-lists")
		c.ClassIf(nEvict == 0, "no-eviction")
		c.ClassIf(nOK >= 2, "two-or-more-evicted")
		c.ClassIf(allMet, "all-targets-met")
		c.ClassIf(active > 0 && !allMet, "some-target-unmet-at-end")
		c.ClassIf(scale > 1, "large-amounts")
		if shareVictim && sawFail && zeroCandidate {
			c.NonTrivial(describe())
		}
		if c.WantSample() {
			c.Sample(map[string]any{"case": strings.Split(strings.TrimSpace(describe()), "\n")})
		}
		for _, v := range viol {
			if v() {
				return
			}
		}
	})
}

func c11Seq(n int) []int {
	out := make([]int, n)
	for i := range out {
		out[i] = i
	}
	return out
}

func c11SortedRes(m map[corev1.ResourceName]bool) []corev1.ResourceName {
	out := make([]corev1.ResourceName, 0, len(m))
	for r := range m {
		out = append(out, r)
	}
	sort.Slice(out, func(i, j int) bool { return out[i] < out[j] })
	return out
}

func c11SortedResI(m map[corev1.ResourceName]int64) []corev1.ResourceName {
	out := make([]corev1.ResourceName, 0, len(m))
	for r := range m {
		out = append(out, r)
	}
	sort.Slice(out, func(i, j int) bool { return out[i] < out[j] })
	return out
}

func c11Fmt(m map[corev1.ResourceName]int64, isNil bool) string {
	if isNil {
		return "nil"
	}
	var b strings.Builder
	b.WriteString("{")
	for i, r := range c11SortedResI(m) {
		if i > 0 {
			b.WriteString(" ")
		}
		fmt.Fprintf(&b, "%s:%d", r, m[r])
	}
	b.WriteString("}")
	return b.String()
}

func c11FmtRL(rl ReleaseList) string {
	var keys []string
	for k := range rl {
		keys = append(keys, string(k))
	}
	sort.Strings(keys)
	var b strings.Builder
	for _, k := range keys {
		m := map[corev1.ResourceName]int64{}
		for r, q := range rl[ReleaseTargetType(k)] {
			m[r] = c11Units(r, q)
		}
		fmt.Fprintf(&b, "%s%s ", k, c11Fmt(m, false))
	}
	return strings.TrimSpace(b.String())
}
