//go:build verif

// C11 — Node-pressure eviction takes only eligible victims, in order, and only as needed.
// Units "memLists" (victim eligibility + published order of the three memoryevict victim lists) and
// "memEndToEnd" (memoryEvict() itself: the real task builder feeding the real loop, observed at a recording executor).
// See /verif/DESIGN.md §1 C11. In-package harness (injected with -overlay).
//
// Every rule the oracle uses (QoS, priority defaulting, policy annotation, label parsing, request translation) is
// restated here from the published API docs and evaluated on the *generated* description of the pod (c11Pod),
// never by calling koordinator helpers.
package memoryevict

import (
	"fmt"
	"os"
	"sort"
	"strings"
	"testing"
	"time"

	promstorage "github.com/prometheus/prometheus/storage"
	corev1 "k8s.io/api/core/v1"
	"k8s.io/apimachinery/pkg/api/resource"
	metav1 "k8s.io/apimachinery/pkg/apis/meta/v1"
	"k8s.io/apimachinery/pkg/types"
	"k8s.io/component-base/featuregate"
	"pgregory.net/rapid"

	apiext "github.com/koordinator-sh/koordinator/apis/extension"
	slov1alpha1 "github.com/koordinator-sh/koordinator/apis/slo/v1alpha1"
	"github.com/koordinator-sh/koordinator/pkg/features"
	"github.com/koordinator-sh/koordinator/pkg/koordlet/metriccache"
	qosmanagerUtil "github.com/koordinator-sh/koordinator/pkg/koordlet/qosmanager/plugins/util"
	"github.com/koordinator-sh/koordinator/pkg/koordlet/statesinformer"
	"github.com/koordinator-sh/koordinator/pkg/verifkit/vk"
)

// ---------------------------------------------------------------- generated pod description (the oracle's ground truth)

type c11Opt struct { // a label / annotation: absent, or a value with the meaning the docs give it
	Set   bool
	Value string
	OK    bool  // value is well-formed
	Int   int64 // parsed value when OK
}

type c11Pod struct {
	Idx         int
	Name        string
	QoS         string // koordinator.sh/qosClass label ("" = label absent)
	KubeQoS     corev1.PodQOSClass
	Prio        *int32
	ClassLabel  string // koordinator.sh/priority-class label ("" = absent)
	EvictLabel  c11Opt // koordinator.sh/eviction-enabled
	PrioLabel   c11Opt // koordinator.sh/priority
	EvictPrio   c11Opt // koordinator.sh/eviction-priority
	PolicyAnn   c11Opt // koordinator.sh/eviction-policy; OK = a JSON list of strings
	PolicyList  []string
	Phase       corev1.PodPhase
	Containers  []map[corev1.ResourceName]int64 // requests per container
	HasMetric   bool
	Metric      int64 // bytes in use
	pod         *corev1.Pod
	alreadyEvic bool
	nilMaps     bool
	outcomes    []bool
}

func (p *c11Pod) String() string {
	pr := "nil"
	if p.Prio != nil {
		pr = fmt.Sprint(*p.Prio)
	}
	o := func(x c11Opt) string {
		if !x.Set {
			return "-"
		}
		return fmt.Sprintf("%q", x.Value)
	}
	m := "none"
	if p.HasMetric {
		m = fmt.Sprint(p.Metric)
	}
	return fmt.Sprintf("%s{qos=%q kubeQoS=%s prio=%s classLabel=%q evictEnabled=%s prioLabel=%s evictPrio=%s policy=%s phase=%q req=%v memUsed=%s alreadyEvicted=%v}",
		p.Name, p.QoS, p.KubeQoS, pr, p.ClassLabel, o(p.EvictLabel), o(p.PrioLabel), o(p.EvictPrio), o(p.PolicyAnn), p.Phase, p.Containers, m, p.alreadyEvic)
}

// koordinator priority classes by value range (https://koordinator.sh/docs/architecture/priority/)
func c11ClassOfValue(v int32) string {
	switch {
	case v >= 9000 && v <= 9999:
		return "koord-prod"
	case v >= 7000 && v <= 7999:
		return "koord-mid"
	case v >= 5000 && v <= 5999:
		return "koord-batch"
	case v >= 3000 && v <= 3999:
		return "koord-free"
	}
	return ""
}

func (p *c11Pod) koordQoS() string {
	switch p.QoS {
	case "LSE", "LSR", "LS", "BE", "SYSTEM":
		return p.QoS
	}
	switch p.KubeQoS { // default by kubernetes QoS
	case corev1.PodQOSGuaranteed:
		return "LSR"
	case corev1.PodQOSBurstable:
		return "LS"
	}
	return "BE"
}

// priority class: explicit label, else by the value range, else the default of the QoS class
func (p *c11Pod) class() string {
	switch p.ClassLabel {
	case "koord-prod", "koord-mid", "koord-batch", "koord-free":
		return p.ClassLabel
	}
	if p.ClassLabel == "" && p.Prio != nil {
		if c := c11ClassOfValue(*p.Prio); c != "" {
			return c
		}
	}
	if p.koordQoS() == "BE" {
		return "koord-batch"
	}
	return "koord-prod"
}

// priority value: the pod's own non-zero value, else the default value of its class
func (p *c11Pod) prio() int32 {
	if p.Prio != nil && *p.Prio != 0 {
		return *p.Prio
	}
	switch p.class() {
	case "koord-prod":
		return 9500
	case "koord-mid":
		return 7500
	case "koord-batch":
		return 5500
	case "koord-free":
		return 3500
	}
	return 0
}

func (p *c11Pod) isBE() bool         { return p.QoS == "BE" }
func (p *c11Pod) active() bool       { return p.Phase == corev1.PodPending || p.Phase == corev1.PodRunning }
func (p *c11Pod) evictEnabled() bool { return p.EvictLabel.Set && p.EvictLabel.Value == "true" }
func (p *c11Pod) allows(policy string) bool {
	if !p.PolicyAnn.Set {
		return true // no annotation: no restriction
	}
	if !p.PolicyAnn.OK {
		return false // unreadable restriction: treated as "not allowed"
	}
	for _, x := range p.PolicyList {
		if x == policy {
			return true
		}
	}
	return false
}
func (p *c11Pod) evictionPriority() int64 {
	if p.EvictPrio.Set && p.EvictPrio.OK {
		return p.EvictPrio.Int
	}
	return 0
}
func (p *c11Pod) labelPriority() int64 {
	if p.PrioLabel.Set && p.PrioLabel.OK {
		return p.PrioLabel.Int
	}
	return int64(p.prio())
}

// the pod holds r by request and also has a container that declares no r at all
func (p *c11Pod) hasHelperFor(r corev1.ResourceName) bool {
	declared, missing := false, false
	for _, c := range p.Containers {
		if v, ok := c[r]; ok && v > 0 {
			declared = true
		} else if !ok {
			missing = true
		}
	}
	return declared && missing
}

func (p *c11Pod) sumReq(r corev1.ResourceName) int64 {
	var s int64
	for _, c := range p.Containers {
		if c[r] > 0 {
			s += c[r]
		}
	}
	return s
}

// the memory a pod holds by request, under the resource name of its priority class
func (p *c11Pod) memRequest() (corev1.ResourceName, int64) {
	switch p.class() {
	case "koord-batch":
		return apiext.BatchMemory, p.sumReq(apiext.BatchMemory)
	case "koord-mid":
		return apiext.MidMemory, p.sumReq(apiext.MidMemory)
	}
	return corev1.ResourceMemory, p.sumReq(corev1.ResourceMemory)
}

// by-priority lists: policy allows the pod
func (p *c11Pod) allowedByPriority(policy string, threshold int32) bool {
	return p.active() && p.allows(policy) && p.prio() <= threshold && p.evictEnabled()
}

var c11Policies = []string{string(features.BEMemoryEvict), string(features.MemoryAllocatableEvict), string(features.MemoryEvict)}

func c11GenPod(t *rapid.T, prioPool, friendlyPrio []int32, friendlyCase bool, scale int64) *c11Pod {
	p := &c11Pod{}
	friendly := friendlyCase && rapid.IntRange(0, 4).Draw(t, "eligiblePod") > 0
	p.QoS = rapid.SampledFrom([]string{"", "BE", "BE", "BE", "BE", "LS", "LS", "LSR", "LSE", "SYSTEM", "bogus"}).Draw(t, "qos")
	prioKind := rapid.IntRange(0, 19).Draw(t, "prioKind")
	if friendly && prioKind > 1 {
		prioKind = 20
	}
	switch prioKind {
	case 20: // a handful of values at or below the thresholds: many eligible pods, many ties
		v := rapid.SampledFrom(friendlyPrio).Draw(t, "prioFriendly")
		p.Prio = &v
	case 0:
		p.Prio = nil
	case 1:
		v := int32(0)
		p.Prio = &v
	case 2, 3:
		v := rapid.Int32Range(-10, 10000).Draw(t, "prioAny")
		p.Prio = &v
	default:
		v := rapid.SampledFrom(prioPool).Draw(t, "prio")
		p.Prio = &v
	}
	p.ClassLabel = rapid.SampledFrom([]string{"", "", "", "", "", "", "koord-batch", "koord-mid", "koord-prod", "koord-free", "bogus"}).Draw(t, "classLabel")
	p.EvictLabel = rapid.SampledFrom([]c11Opt{{}, {Set: true, Value: "true"}, {Set: true, Value: "true"}, {Set: true, Value: "true"}, {Set: true, Value: "true"},
		{Set: true, Value: "false"}, {Set: true, Value: "True"}, {Set: true, Value: ""}}).Draw(t, "evictEnabled")
	if friendly && rapid.IntRange(0, 9).Draw(t, "evictEnabledFriendly") > 0 {
		p.EvictLabel = c11Opt{Set: true, Value: "true"}
	}
	p.PrioLabel = rapid.SampledFrom([]c11Opt{{}, {}, {}, {Set: true, Value: "0", OK: true, Int: 0}, {Set: true, Value: "5", OK: true, Int: 5}, {Set: true, Value: "7", OK: true, Int: 7},
		{Set: true, Value: "9999", OK: true, Int: 9999}, {Set: true, Value: "-3", OK: true, Int: -3}, {Set: true, Value: "x"}, {Set: true, Value: ""}}).Draw(t, "prioLabel")
	p.EvictPrio = rapid.SampledFrom([]c11Opt{{}, {}, {}, {}, {Set: true, Value: "0", OK: true}, {Set: true, Value: "-1", OK: true, Int: -1}, {Set: true, Value: "1", OK: true, Int: 1},
		{Set: true, Value: "100", OK: true, Int: 100}, {Set: true, Value: "-2147483648", OK: true, Int: -2147483648}, {Set: true, Value: "2147483647", OK: true, Int: 2147483647},
		{Set: true, Value: "2147483648"}, {Set: true, Value: "abc"}, {Set: true, Value: ""}}).Draw(t, "evictionPriority")
	policyKind := rapid.IntRange(0, 11).Draw(t, "policyKind")
	if friendly && rapid.IntRange(0, 3).Draw(t, "policyFriendly") > 0 {
		policyKind = 0
	}
	switch policyKind {
	case 0, 1, 2, 3, 4:
	case 5, 6, 7, 8: // a well-formed list: any subset of the policies, possibly with a foreign one
		var l []string
		for _, pol := range c11Policies {
			if rapid.Bool().Draw(t, "policyHas"+pol) {
				l = append(l, pol)
			}
		}
		if rapid.Bool().Draw(t, "policyHasOther") {
			l = append(l, "SomethingElse")
		}
		q := make([]string, len(l))
		for i, x := range l {
			q[i] = fmt.Sprintf("%q", x)
		}
		p.PolicyAnn = c11Opt{Set: true, OK: true, Value: "[" + strings.Join(q, ",") + "]"}
		p.PolicyList = l
	case 9: // well-formed but names the policies in another spelling
		p.PolicyAnn = c11Opt{Set: true, OK: true, Value: `["bememoryevict","memoryEvict","MemoryAllocatableEvict "]`}
		p.PolicyList = []string{"bememoryevict", "memoryEvict", "MemoryAllocatableEvict "}
	default: // not a JSON list of strings
		p.PolicyAnn = c11Opt{Set: true, Value: rapid.SampledFrom([]string{"", "BEMemoryEvict", `"MemoryEvict"`, `["MemoryEvict"`, `{"MemoryEvict":true}`, `[1,2]`,
			`["MemoryEvict",1]`, `MemoryEvict,BEMemoryEvict,MemoryAllocatableEvict`}).Draw(t, "policyMalformed")}
	}
	p.Phase = rapid.SampledFrom([]corev1.PodPhase{corev1.PodRunning, corev1.PodRunning, corev1.PodRunning, corev1.PodRunning, corev1.PodRunning, corev1.PodRunning,
		corev1.PodPending, corev1.PodSucceeded, corev1.PodFailed, corev1.PodUnknown, ""}).Draw(t, "phase")
	if friendly && rapid.IntRange(0, 5).Draw(t, "phaseFriendly") > 0 {
		p.Phase = corev1.PodRunning
	}
	nC := rapid.IntRange(1, 2).Draw(t, "containers")
	shape := rapid.IntRange(0, 5).Draw(t, "requestShape")
	native := false
	for c := 0; c < nC; c++ {
		req := map[corev1.ResourceName]int64{}
		amt := func(l string) int64 { return rapid.Int64Range(0, 6).Draw(t, l) * scale }
		switch shape {
		case 0, 1: // batch-shaped
			req[apiext.BatchMemory] = amt("batchMem")
			req[apiext.BatchCPU] = rapid.Int64Range(0, 4000).Draw(t, "batchCPU")
		case 2: // mid-shaped
			req[apiext.MidMemory] = amt("midMem")
			req[apiext.MidCPU] = rapid.Int64Range(0, 4000).Draw(t, "midCPU")
		case 3: // native
			req[corev1.ResourceMemory] = amt("mem")
			req[corev1.ResourceCPU] = rapid.Int64Range(0, 4000).Draw(t, "cpu")
		case 4: // everything
			req[apiext.BatchMemory] = amt("batchMem")
			req[apiext.MidMemory] = amt("midMem")
			req[corev1.ResourceMemory] = amt("mem")
		default: // nothing
		}
		if req[corev1.ResourceMemory] > 0 || req[corev1.ResourceCPU] > 0 {
			native = true
		}
		p.Containers = append(p.Containers, req)
	}
	if native {
		p.KubeQoS = rapid.SampledFrom([]corev1.PodQOSClass{corev1.PodQOSBurstable, corev1.PodQOSBurstable, corev1.PodQOSGuaranteed}).Draw(t, "kubeQoS")
	} else {
		p.KubeQoS = corev1.PodQOSBestEffort
	}
	p.HasMetric = rapid.IntRange(0, 6).Draw(t, "hasMetric") > 0
	if p.HasMetric {
		p.Metric = rapid.Int64Range(0, 8).Draw(t, "memUsed") * scale
		if scale > 1 && p.Metric > 0 {
			p.Metric += rapid.Int64Range(-1, 1).Draw(t, "memUsedJitter")
		}
	}
	p.nilMaps = rapid.IntRange(0, 9).Draw(t, "nilMaps") == 9 // objects decoded from the API have nil maps when empty
	return p
}

// build names the pod by its position and renders the corev1.Pod
func (p *c11Pod) build(i int) {
	p.Idx, p.Name = i, fmt.Sprintf("p%d", i)
	pod := &corev1.Pod{ObjectMeta: metav1.ObjectMeta{Name: p.Name, Namespace: "ns", UID: types.UID("uid-" + p.Name), Labels: map[string]string{}, Annotations: map[string]string{}}}
	if p.QoS != "" {
		pod.Labels[apiext.LabelPodQoS] = p.QoS
	}
	if p.ClassLabel != "" {
		pod.Labels[apiext.LabelPodPriorityClass] = p.ClassLabel
	}
	if p.EvictLabel.Set {
		pod.Labels[apiext.LabelPodEvictEnabled] = p.EvictLabel.Value
	}
	if p.PrioLabel.Set {
		pod.Labels[apiext.LabelPodPriority] = p.PrioLabel.Value
	}
	if p.EvictPrio.Set {
		pod.Annotations[apiext.AnnotationPodEvictionPriority] = p.EvictPrio.Value
	}
	if p.PolicyAnn.Set {
		pod.Annotations[apiext.AnnotationPodEvictPolicy] = p.PolicyAnn.Value
	}
	if p.nilMaps {
		if len(pod.Labels) == 0 {
			pod.Labels = nil
		}
		if len(pod.Annotations) == 0 {
			pod.Annotations = nil
		}
	}
	if p.Prio != nil {
		v := *p.Prio
		pod.Spec.Priority = &v
	}
	pod.Status.Phase = p.Phase
	pod.Status.QOSClass = p.KubeQoS
	for ci, req := range p.Containers {
		rl := corev1.ResourceList{}
		for r, v := range req {
			switch r {
			case corev1.ResourceCPU:
				rl[r] = *resource.NewMilliQuantity(v, resource.DecimalSI)
			case apiext.BatchCPU, apiext.MidCPU:
				rl[r] = *resource.NewQuantity(v, resource.DecimalSI)
			default:
				rl[r] = *resource.NewQuantity(v, resource.BinarySI)
			}
		}
		pod.Spec.Containers = append(pod.Spec.Containers, corev1.Container{Name: fmt.Sprintf("c%d", ci), Resources: corev1.ResourceRequirements{Requests: rl}})
	}
	p.pod = pod
}

// ---------------------------------------------------------------- fakes: informer, metric cache, executor

type c11SI struct {
	statesinformer.StatesInformer
	pods    []*statesinformer.PodMeta
	node    *corev1.Node
	nodeSLO *slov1alpha1.NodeSLO
}

func (s *c11SI) GetAllPods() []*statesinformer.PodMeta { return s.pods }
func (s *c11SI) GetNode() *corev1.Node                 { return s.node }
func (s *c11SI) GetNodeSLO() *slov1alpha1.NodeSLO      { return s.nodeSLO }

type c11Metrics struct {
	podMem  map[string]*c11Pod // by UID
	nodeMem *float64
}

type c11Result struct {
	kind  string
	props map[string]string
	has   bool
	val   float64
}

func (r *c11Result) GetKind() string                    { return r.kind }
func (r *c11Result) GetProperties() map[string]string   { return r.props }
func (r *c11Result) AddSeries(promstorage.Series) error { return nil }
func (r *c11Result) TimeRangeDuration() time.Duration   { return time.Second }
func (r *c11Result) Count() int {
	if r.has {
		return 1
	}
	return 0
}
func (r *c11Result) Value(metriccache.AggregationType) (float64, error) {
	if !r.has {
		return 0, fmt.Errorf("metric input is empty")
	}
	return r.val, nil
}

func (m *c11Metrics) New(meta metriccache.MetricMeta) metriccache.AggregateResult {
	r := &c11Result{kind: meta.GetKind(), props: meta.GetProperties()}
	switch metriccache.MetricKind(r.kind) {
	case metriccache.PodMetricMemoryUsage:
		if p := m.podMem[r.props[string(metriccache.MetricPropertyPodUID)]]; p != nil && p.HasMetric {
			r.has, r.val = true, float64(p.Metric)
		}
	case metriccache.NodeMetricMemoryUsage:
		if m.nodeMem != nil {
			r.has, r.val = true, *m.nodeMem
		}
	}
	return r
}

type c11MC struct{ metriccache.MetricCache }
type c11Querier struct{}

func (c *c11MC) Querier(startTime, endTime time.Time) (metriccache.Querier, error) {
	return c11Querier{}, nil
}
func (c11Querier) Query(metriccache.MetricMeta, *metriccache.QueryHints, metriccache.MetricResult) error {
	return nil
}
func (c11Querier) QueryAndClose(metriccache.MetricMeta, *metriccache.QueryHints, metriccache.MetricResult) error {
	return nil
}
func (c11Querier) Close() {}

type c11Call struct {
	Pod     *c11Pod
	Feature string
	OK      bool
	Asked   bool // IsPodEvicted call (recorded only when it answered true)
}

type c11Exec struct {
	byKey   map[string]*c11Pod
	calls   []c11Call
	nCalls  map[int]int
	done    map[int]bool
	mark    bool
	garbled []string
}

func (e *c11Exec) Evict(pod *corev1.Pod, node *corev1.Node, releaseReason string, message string) bool {
	p := e.byKey[pod.Namespace+"/"+pod.Name]
	feat := ""
	if strings.HasPrefix(message, qosmanagerUtil.EvictReasonPrefix) {
		feat = strings.TrimPrefix(message, qosmanagerUtil.EvictReasonPrefix)
		if i := strings.Index(feat, ","); i >= 0 {
			feat = feat[:i]
		}
	}
	if p == nil || feat == "" {
		e.garbled = append(e.garbled, fmt.Sprintf("Evict(%s/%s,%q)", pod.Namespace, pod.Name, message))
		return false
	}
	res := true
	if n := e.nCalls[p.Idx]; n < len(p.outcomes) {
		res = p.outcomes[n]
	} else if len(p.outcomes) > 0 {
		res = p.outcomes[len(p.outcomes)-1]
	}
	e.nCalls[p.Idx]++
	if res {
		e.done[p.Idx] = true
	}
	e.calls = append(e.calls, c11Call{Pod: p, Feature: feat, OK: res})
	return res
}

func (e *c11Exec) IsPodEvicted(pod *corev1.Pod) bool {
	p := e.byKey[pod.Namespace+"/"+pod.Name]
	if p == nil {
		e.garbled = append(e.garbled, fmt.Sprintf("IsPodEvicted(%s/%s)", pod.Namespace, pod.Name))
		return false
	}
	res := p.alreadyEvic || (e.mark && e.done[p.Idx])
	if res {
		e.calls = append(e.calls, c11Call{Pod: p, Asked: true, OK: true})
	}
	return res
}

// ---------------------------------------------------------------- shared scenario

type c11Scene struct {
	pods     []*c11Pod
	cfg      *slov1alpha1.ResourceThresholdStrategy
	node     *corev1.Node
	scale    int64
	capacity int64
	nodeUsed *float64
	m        *memoryEvictor
	desc     []string
}

func c11I64(v int64) *int64 { return &v }
func c11I32(v int32) *int32 { return &v }

func c11GenScene(t *rapid.T) *c11Scene { return c11GenSceneOpt(t, c11ModeNormal) }

const (
	c11ModeNormal  = iota
	c11ModeLarge   // 13-40 pods with long runs of ties
	c11ModeHelpers // pods with extra containers that declare no request of the resource, amounts in single units
)

// large: 13-40 pods, nearly all eligible, two or three distinct priorities and mostly no sub-priority label / eviction
// priority, so that long runs of candidates tie on every key but usage / request
func c11GenSceneOpt(t *rapid.T, mode int) *c11Scene {
	large := mode == c11ModeLarge

	s := &c11Scene{}
	s.scale = rapid.SampledFrom([]int64{1, 1, 1 << 20}).Draw(t, "scale")
	if mode == c11ModeHelpers {
		s.scale = 1 // single units: a request that is one unit off changes who covers the target
	}
	thUsed := rapid.SampledFrom([]int32{5999, 5999, 7999, 9999, 3999, 5500, 0, -1, 100000}).Draw(t, "evictEnabledPriorityThreshold")
	thAlloc := rapid.SampledFrom([]int32{5999, 5999, 7999, 7999, 3999, 5500, 7500, 0}).Draw(t, "allocatableEvictPriorityThreshold")
	pool := []int32{0, 1, 100, 3000, 3500, 3999, 4000, 5000, 5500, 5999, 6000, 7000, 7500, 7999, 8000, 9000, 9500, 9999,
		thUsed - 1, thUsed, thUsed, thUsed + 1, thAlloc - 1, thAlloc, thAlloc, thAlloc + 1}
	friendlyCase := rapid.IntRange(0, 3).Draw(t, "mostlyEligiblePods") > 0
	lowTh := thUsed
	if thAlloc < lowTh {
		lowTh = thAlloc
	}
	friendlyPrio := []int32{lowTh, lowTh, lowTh - 1, lowTh - 500, thAlloc, thUsed, 5500, 7500}
	if large {
		friendlyPrio = []int32{lowTh, lowTh - 1, lowTh}
		if rapid.Bool().Draw(t, "threePriorities") {
			friendlyPrio = append(friendlyPrio, lowTh-500)
		}
		s.pods = rapid.SliceOfN(rapid.Custom(func(t *rapid.T) *c11Pod {
			p := c11GenPod(t, pool, friendlyPrio, true, s.scale)
			if rapid.IntRange(0, 5).Draw(t, "noSubPriorityLabel") > 0 {
				p.PrioLabel = c11Opt{}
			}
			if rapid.IntRange(0, 5).Draw(t, "noEvictionPriority") > 0 {
				p.EvictPrio = c11Opt{}
			}
			if rapid.IntRange(0, 7).Draw(t, "hasUsageSample") > 0 && !p.HasMetric {
				p.HasMetric, p.Metric = true, rapid.Int64Range(0, 16).Draw(t, "usage")
			}
			return p
		}), 13, 40).Draw(t, "manyPods")
	} else if mode == c11ModeHelpers {
		s.pods = rapid.SliceOfN(rapid.Custom(func(t *rapid.T) *c11Pod {
			p := c11GenPod(t, pool, friendlyPrio, true, s.scale)
			// helper containers (log agent, injected sidecar ...) that declare no request of the evicted resource at all
			if rapid.IntRange(0, 4).Draw(t, "hasHelperContainers") > 0 {
				n := rapid.IntRange(1, 2).Draw(t, "helperContainers")
				for i := 0; i < n; i++ {
					h := map[corev1.ResourceName]int64{}
					if rapid.Bool().Draw(t, "helperDeclaresOtherResource") {
						h[apiext.BatchCPU] = rapid.Int64Range(0, 4).Draw(t, "helperOtherAmount")
					}
					if rapid.Bool().Draw(t, "helperFirst") {
						p.Containers = append([]map[corev1.ResourceName]int64{h}, p.Containers...)
					} else {
						p.Containers = append(p.Containers, h)
					}
				}
			}
			if rapid.IntRange(0, 7).Draw(t, "hasUsageSample") > 0 && !p.HasMetric {
				p.HasMetric, p.Metric = true, rapid.Int64Range(0, 8).Draw(t, "usage")
			}
			return p
		}), 2, 8).Draw(t, "podsWithHelpers")
	} else {
		s.pods = rapid.SliceOfN(rapid.Custom(func(t *rapid.T) *c11Pod { return c11GenPod(t, pool, friendlyPrio, friendlyCase, s.scale) }), 1, 8).Draw(t, "pods")
	}
	if rapid.IntRange(0, 24).Draw(t, "emptyNode") == 24 {
		s.pods = nil
	}
	for i, p := range s.pods {
		p.build(i)
	}
	// thresholds (webhook-valid ranges; an unset field disables the feature that needs it)
	cfg := &slov1alpha1.ResourceThresholdStrategy{}
	en := rapid.IntRange(0, 29).Draw(t, "enable") > 0
	cfg.Enable = &en
	if rapid.IntRange(0, 14).Draw(t, "hasUsedThreshold") > 0 {
		th := rapid.SampledFrom([]int64{0, 30, 50, 70, 90, 100}).Draw(t, "memoryEvictThresholdPercent")
		cfg.MemoryEvictThresholdPercent = &th
		if th > 0 && rapid.Bool().Draw(t, "hasLower") {
			cfg.MemoryEvictLowerPercent = c11I64(rapid.Int64Range(0, th-1).Draw(t, "memoryEvictLowerPercent"))
		}
	}
	if rapid.IntRange(0, 14).Draw(t, "hasUsedPrioThreshold") > 0 {
		cfg.EvictEnabledPriorityThreshold = &thUsed
	}
	if rapid.IntRange(0, 14).Draw(t, "hasAllocThreshold") > 0 {
		th := rapid.SampledFrom([]int64{20, 50, 1, 80, 0, 100, 150}).Draw(t, "memoryAllocatableEvictThresholdPercent")
		cfg.MemoryAllocatableEvictThresholdPercent = &th
		if th > 0 {
			cfg.MemoryAllocatableEvictLowerPercent = c11I64(rapid.Int64Range(0, th-1).Draw(t, "memoryAllocatableEvictLowerPercent"))
		}
		cfg.AllocatableEvictPriorityThreshold = &thAlloc
	}
	s.cfg = cfg
	// node: capacity 100 units so that one percent is one unit of pod usage
	s.capacity = 100 * s.scale
	alloc := corev1.ResourceList{corev1.ResourceMemory: *resource.NewQuantity(s.capacity, resource.BinarySI)}
	for _, r := range []corev1.ResourceName{apiext.BatchMemory, apiext.MidMemory} {
		switch rapid.IntRange(0, 5).Draw(t, "alloc-"+string(r)) {
		case 0: // not reported
		case 1:
			alloc[r] = *resource.NewQuantity(0, resource.BinarySI)
		default:
			alloc[r] = *resource.NewQuantity(rapid.Int64Range(1, 14).Draw(t, "allocAmount-"+string(r))*s.scale, resource.BinarySI)
		}
	}
	if rapid.IntRange(0, 3).Draw(t, "smallNativeAllocatable") == 0 {
		alloc[corev1.ResourceMemory] = *resource.NewQuantity(rapid.Int64Range(1, 30).Draw(t, "allocMem")*s.scale, resource.BinarySI)
	}
	s.node = &corev1.Node{ObjectMeta: metav1.ObjectMeta{Name: "node"}, Status: corev1.NodeStatus{
		Capacity:    corev1.ResourceList{corev1.ResourceMemory: *resource.NewQuantity(s.capacity, resource.BinarySI)},
		Allocatable: alloc}}
	if rapid.IntRange(0, 14).Draw(t, "hasNodeMetric") > 0 {
		pct := rapid.Int64Range(0, 110).Draw(t, "nodeMemUsedPercent")
		if cfg.MemoryEvictThresholdPercent != nil {
			if d := rapid.SampledFrom([]int64{5, 10, 20, 1, 0, 2, 30, -1, -3, 1000}).Draw(t, "usageOverThreshold"); d != 1000 {
				pct = *cfg.MemoryEvictThresholdPercent + d
			}
		}
		if pct < 0 {
			pct = 0
		}
		if pct > 110 {
			pct = 110
		}
		v := float64(pct * s.scale)
		s.nodeUsed = &v
	}
	metrics := &c11Metrics{podMem: map[string]*c11Pod{}, nodeMem: s.nodeUsed}
	si := &c11SI{node: s.node, nodeSLO: &slov1alpha1.NodeSLO{Spec: slov1alpha1.NodeSLOSpec{ResourceUsedThresholdWithBE: cfg}}}
	for _, p := range s.pods {
		metrics.podMem[string(p.pod.UID)] = p
		si.pods = append(si.pods, &statesinformer.PodMeta{Pod: p.pod})
	}
	metriccache.DefaultAggregateResultFactory = metrics
	s.m = &memoryEvictor{statesInformer: si, metricCache: &c11MC{}, metricCollectInterval: time.Second}

	pi := func(x *int64) string {
		if x == nil {
			return "unset"
		}
		return fmt.Sprint(*x)
	}
	pi32 := func(x *int32) string {
		if x == nil {
			return "unset"
		}
		return fmt.Sprint(*x)
	}
	nu := "none"
	if s.nodeUsed != nil {
		nu = fmt.Sprint(int64(*s.nodeUsed))
	}
	s.desc = append(s.desc, fmt.Sprintf("thresholds: enable=%v memoryEvict=%s/lower %s prio<=%s; memoryAllocatableEvict=%s/lower %s prio<=%s",
		en, pi(cfg.MemoryEvictThresholdPercent), pi(cfg.MemoryEvictLowerPercent), pi32(cfg.EvictEnabledPriorityThreshold),
		pi(cfg.MemoryAllocatableEvictThresholdPercent), pi(cfg.MemoryAllocatableEvictLowerPercent), pi32(cfg.AllocatableEvictPriorityThreshold)))
	s.desc = append(s.desc, fmt.Sprintf("node: memory capacity=%d used=%s allocatable=%s", s.capacity, nu, c11RL(alloc)))
	for _, p := range s.pods {
		s.desc = append(s.desc, p.String())
	}
	return s
}

func c11RL(rl corev1.ResourceList) string {
	var ks []string
	for k := range rl {
		ks = append(ks, string(k))
	}
	sort.Strings(ks)
	var b strings.Builder
	b.WriteString("{")
	for i, k := range ks {
		if i > 0 {
			b.WriteString(" ")
		}
		q := rl[corev1.ResourceName(k)]
		fmt.Fprintf(&b, "%s:%d", k, q.Value())
	}
	b.WriteString("}")
	return b.String()
}

func (s *c11Scene) describe(extra ...string) string {
	return "\n  " + strings.Join(append(append([]string{}, s.desc...), extra...), "\n  ")
}

func c11Names(l []*qosmanagerUtil.PodEvictInfo) []string {
	out := make([]string, len(l))
	for i, x := range l {
		out[i] = x.Pod.Name
	}
	return out
}

// ---------------------------------------------------------------- (1) victim lists: eligibility and published order

func TestVerifC11MemLists(t *testing.T) { c11RunLists(t, "memLists", c11ModeNormal) }

// the same oracle on candidate lists of 13-40 pods with long runs of ties on the priority keys
func TestVerifC11MemListsLarge(t *testing.T) { c11RunLists(t, "memListsLarge", c11ModeLarge) }

// the same oracle on pods with helper containers that declare no request of the resource (a pod's request is the sum
// over the containers that declare one)
func TestVerifC11MemListsHelpers(t *testing.T) { c11RunLists(t, "memListsHelpers", c11ModeHelpers) }

func c11RunLists(t *testing.T, unit string, mode int) {
	rec := vk.New(t, "C11", unit)
	saved := metriccache.DefaultAggregateResultFactory
	defer func() { metriccache.DefaultAggregateResultFactory = saved }()
	rapid.Check(t, func(t *rapid.T) {
		c := rec.Begin()
		defer c.End()
		s := c11GenSceneOpt(t, mode)
		byName := map[string]*c11Pod{}
		for _, p := range s.pods {
			byName[p.Name] = p
		}
		metas := s.m.statesInformer.GetAllPods()
		thUsed, thAlloc := int32(5999), int32(5999)
		if s.cfg.EvictEnabledPriorityThreshold != nil {
			thUsed = *s.cfg.EvictEnabledPriorityThreshold
		} else {
			s.cfg.EvictEnabledPriorityThreshold = &thUsed // the list builders are only reached with a valid config
		}
		if s.cfg.AllocatableEvictPriorityThreshold != nil {
			thAlloc = *s.cfg.AllocatableEvictPriorityThreshold
		} else {
			s.cfg.AllocatableEvictPriorityThreshold = &thAlloc
		}

		type listCase struct {
			name      string
			policy    string
			got       []*qosmanagerUtil.PodEvictInfo
			allowed   func(p *c11Pod) bool // the policy allows the pod as a victim
			mustList  func(p *c11Pod) bool // ... and nothing else keeps it off the list
			threshold int32
			sub       func(p *c11Pod) int64 // secondary key (bigger first); nil for the BE list
		}
		lists := []listCase{
			{name: "BE", policy: string(features.BEMemoryEvict),
				got:      s.m.getSortedBEPodInfos(string(features.BEMemoryEvict), s.cfg, metas),
				allowed:  func(p *c11Pod) bool { return p.isBE() && p.allows(string(features.BEMemoryEvict)) },
				mustList: func(p *c11Pod) bool { return true }},
			{name: "byUsed", policy: string(features.MemoryEvict), threshold: thUsed,
				got:      s.m.getPodEvictInfoAndSortByUsed(string(features.MemoryEvict), s.cfg, metas),
				allowed:  func(p *c11Pod) bool { return p.allowedByPriority(string(features.MemoryEvict), thUsed) },
				mustList: func(p *c11Pod) bool { return p.HasMetric }, // a pod without a usage sample cannot be ranked and is left out
				sub:      func(p *c11Pod) int64 { return p.Metric }},
			{name: "byAllocatable", policy: string(features.MemoryAllocatableEvict), threshold: thAlloc,
				got:      s.m.getPodEvictInfoAndSortByAllocatable(string(features.MemoryAllocatableEvict), s.cfg, metas),
				allowed:  func(p *c11Pod) bool { return p.allowedByPriority(string(features.MemoryAllocatableEvict), thAlloc) },
				mustList: func(p *c11Pod) bool { return p.HasMetric },
				sub:      func(p *c11Pod) int64 { _, v := p.memRequest(); return v }},
		}
		nListed, nExcluded := 0, 0
		maxListed, maxTieRun := 0, 0
		sawAtThreshold, sawAboveBy1, sawMalformedPolicy, sawOtherPolicy, sawEvictPrioOrder, sawUsageOrder, sawBEIgnoresEvictPrio := false, false, false, false, false, false, false
		for _, lc := range lists {
			where := fmt.Sprintf("list %s (policy %s) = %v", lc.name, lc.policy, c11Names(lc.got))
			seen := map[string]bool{}
			var order []*c11Pod
			for _, info := range lc.got {
				p := byName[info.Pod.Name]
				if p == nil || info.Pod != p.pod {
					c.Violation(t, "list:unknown-pod", "%s holds a pod that was not given%s", where, s.describe())
					return
				}
				if seen[p.Name] {
					c.Violation(t, "list:pod-listed-twice", "%s lists %s twice%s", where, p.Name, s.describe())
					return
				}
				seen[p.Name] = true
				if !lc.allowed(p) {
					why := "policy does not allow it"
					switch {
					case lc.sub == nil && !p.isBE():
						why = "not best-effort"
					case !p.allows(lc.policy):
						why = "pod opted out of this eviction policy (annotation " + fmt.Sprintf("%q", p.PolicyAnn.Value) + ")"
					case lc.sub != nil && !p.active():
						why = "pod is not active"
					case lc.sub != nil && p.prio() > lc.threshold:
						why = fmt.Sprintf("priority %d is above the threshold %d", p.prio(), lc.threshold)
					case lc.sub != nil && !p.evictEnabled():
						why = "eviction is not enabled for the pod"
					}
					c.Violation(t, "list:ineligible-pod-listed", "%s lists %s: %s%s", where, p.Name, why, s.describe())
					return
				}
				order = append(order, p)
			}
			for _, p := range s.pods {
				if lc.allowed(p) {
					if lc.sub != nil && p.prio() == lc.threshold {
						sawAtThreshold = true
					}
					if lc.mustList(p) && !seen[p.Name] {
						c.Violation(t, "list:eligible-pod-missing", "%s leaves out %s although the policy allows it%s", where, p.Name, s.describe())
						return
					}
				} else {
					nExcluded++
					if lc.sub != nil && p.prio() == lc.threshold+1 {
						sawAboveBy1 = true
					}
					if p.PolicyAnn.Set && !p.PolicyAnn.OK {
						sawMalformedPolicy = true
					}
					if p.PolicyAnn.Set && p.PolicyAnn.OK && !p.allows(lc.policy) {
						sawOtherPolicy = true
					}
				}
			}
			nListed += len(order)
			if len(order) > maxListed {
				maxListed = len(order)
			}
			if lc.sub != nil && len(order) > 12 { // longest run of neighbours equal on eviction priority, priority and sub-priority
				run := 1
				for i := 1; i < len(order); i++ {
					a, b := order[i-1], order[i]
					if a.evictionPriority() == b.evictionPriority() && a.prio() == b.prio() && a.labelPriority() == b.labelPriority() {
						run++
					} else {
						run = 1
					}
					if run > maxTieRun {
						maxTieRun = run
					}
				}
			}
			// published order, all pairs (ties: any order)
			anyNilPrio := false
			for _, p := range order {
				if p.Prio == nil {
					anyNilPrio = true
				}
			}
			for i := 0; i < len(order); i++ {
				for j := i + 1; j < len(order); j++ {
					a, b := order[i], order[j]
					if lc.sub == nil {
						// best-effort list: priority ascending, then memory usage descending (unknown usage counts as 0)
						if anyNilPrio {
							continue // a pod without spec.priority makes the documented comparison partial; not asserted
						}
						if *a.Prio != *b.Prio {
							if *a.Prio > *b.Prio {
								c.Violation(t, "list:order-priority", "%s: %s (priority %d) comes before %s (priority %d)%s", where, a.Name, *a.Prio, b.Name, *b.Prio, s.describe())
								return
							}
							continue
						}
						if a.Metric < b.Metric {
							c.Violation(t, "list:order-usage", "%s: same priority, but %s (uses %d) comes before %s (uses %d)%s", where, a.Name, a.Metric, b.Name, b.Metric, s.describe())
							return
						}
						if a.Metric != b.Metric {
							sawUsageOrder = true
						}
						if a.evictionPriority() > b.evictionPriority() {
							sawBEIgnoresEvictPrio = true
						}
						continue
					}
					if ea, eb := a.evictionPriority(), b.evictionPriority(); ea != eb {
						if ea > eb {
							c.Violation(t, "list:order-eviction-priority", "%s: %s (eviction priority %d) comes before %s (eviction priority %d)%s", where, a.Name, ea, b.Name, eb, s.describe())
							return
						}
						sawEvictPrioOrder = true
						continue
					}
					if pa, pb := a.prio(), b.prio(); pa != pb {
						if pa > pb {
							c.Violation(t, "list:order-priority", "%s: %s (priority %d) comes before %s (priority %d)%s", where, a.Name, pa, b.Name, pb, s.describe())
							return
						}
						continue
					}
					// same eviction priority and priority: koordinator.sh/priority ascending, then usage / request descending.
					// The statement names only usage/request, the code comment also the label: flagged only if wrong under both.
					if lc.sub(a) < lc.sub(b) && a.labelPriority() >= b.labelPriority() {
						c.Violation(t, "list:order-usage", "%s: same eviction priority and priority, sub-priority %d vs %d, but %s (amount %d) comes before %s (amount %d)%s",
							where, a.labelPriority(), b.labelPriority(), a.Name, lc.sub(a), b.Name, lc.sub(b), s.describe())
						return
					}
					if lc.sub(a) != lc.sub(b) {
						sawUsageOrder = true
					}
				}
			}
		}
		c.ClassIf(len(s.pods) == 0, "no-pods")
		for _, info := range lists[2].got {
			if q := byName[info.Pod.Name]; q != nil {
				if rn, _ := q.memRequest(); q.hasHelperFor(rn) {
					c.Class("by-request-list-holds-pod-with-request-less-helper-container")
				}
			}
		}
		c.ClassIf(maxListed > 12, "a-list-with-more-than-12-candidates")
		c.ClassIf(maxTieRun >= 4, "list>12-with-4-or-more-candidates-tied-on-all-priority-keys")
		c.ClassIf(nListed >= 2, "two-or-more-listed")
		c.ClassIf(nExcluded > 0, "some-pod-excluded")
		c.ClassIf(sawAtThreshold, "priority-equals-threshold-listed")
		c.ClassIf(sawAboveBy1, "priority-threshold-plus-1-excluded")
		c.ClassIf(sawMalformedPolicy, "malformed-policy-annotation-excluded")
		c.ClassIf(sawOtherPolicy, "opted-out-by-policy-list")
		c.ClassIf(sawEvictPrioOrder, "ordered-by-eviction-priority")
		c.ClassIf(sawUsageOrder, "ordered-by-usage-or-request")
		c.ClassIf(sawBEIgnoresEvictPrio, "BE-list-order-against-eviction-priority-annotation(not asserted)")
		if nListed >= 2 && nExcluded > 0 {
			c.NonTrivial(s.describe())
		}
		if c.WantSample() {
			smp := map[string]any{"scene": s.desc}
			for _, lc := range lists {
				smp[lc.name] = c11Names(lc.got)
			}
			c.Sample(smp)
		}
	})
}

// ---------------------------------------------------------------- (2) memoryEvict() end to end

type c11E2ETask struct {
	feature string
	target  map[corev1.ResourceName]int64
	classes map[string]bool // allocatable task: priority classes whose requests the task counts
}

func TestVerifC11MemEndToEnd(t *testing.T) { c11RunE2E(t, "memEndToEnd", c11ModeNormal) }

// end to end with helper containers and single-unit amounts: the victims' real requests often hit the target exactly
func TestVerifC11MemEndToEndHelpers(t *testing.T) { c11RunE2E(t, "memEndToEndHelpers", c11ModeHelpers) }

func c11RunE2E(t *testing.T, unit string, mode int) {
	rec := vk.New(t, "C11", unit)
	savedFactory := metriccache.DefaultAggregateResultFactory
	feats := []featuregate.Feature{features.BEMemoryEvict, features.MemoryAllocatableEvict, features.MemoryEvict}
	savedGates := map[string]bool{}
	for _, f := range feats {
		savedGates[string(f)] = features.DefaultKoordletFeatureGate.Enabled(f)
	}
	defer func() {
		metriccache.DefaultAggregateResultFactory = savedFactory
		_ = features.DefaultMutableKoordletFeatureGate.SetFromMap(savedGates)
	}()
	rapid.Check(t, func(t *rapid.T) {
		c := rec.Begin()
		defer c.End()
		s := c11GenSceneOpt(t, mode)
		gates := map[string]bool{}
		var on []featuregate.Feature
		for _, f := range feats {
			gates[string(f)] = rapid.IntRange(0, 9).Draw(t, "gate-"+string(f)) > 0
			if only := os.Getenv("VERIF_C11_FEATURES"); only != "" && !strings.Contains(","+only+",", ","+string(f)+",") {
				gates[string(f)] = false // development aid: look at one feature in isolation (never set by the driver)
			}
			if gates[string(f)] {
				on = append(on, f)
			}
		}
		if err := features.DefaultMutableKoordletFeatureGate.SetFromMap(gates); err != nil {
			t.Fatalf("cannot set feature gates: %v", err)
		}
		ex := &c11Exec{byKey: map[string]*c11Pod{}, nCalls: map[int]int{}, done: map[int]bool{}, mark: rapid.Bool().Draw(t, "executorRemembersEvictions")}
		failBias := rapid.IntRange(0, 3).Draw(t, "failBias")
		for _, p := range s.pods {
			ex.byKey["ns/"+p.Name] = p
			p.alreadyEvic = rapid.IntRange(0, 7).Draw(t, "alreadyEvicted") == 7
			for i := 0; i < 3; i++ {
				p.outcomes = append(p.outcomes, rapid.IntRange(0, 3).Draw(t, "evictFails") >= failBias)
			}
		}
		s.desc = s.desc[:2]
		for _, p := range s.pods {
			s.desc = append(s.desc, p.String()+fmt.Sprintf(" evictOutcomes=%v", p.outcomes))
		}
		s.m.evictExecutor = ex

		// the computed targets, as the agent computes them for this input (taken as given by the property)
		var tasks []*c11E2ETask
		nodeSLO := s.m.statesInformer.GetNodeSLO()
		if s.cfg.Enable != nil && *s.cfg.Enable {
			for _, f := range on {
				task, err := s.m.buildEvictTask(f, nodeSLO, s.node)
				if err != nil || task == nil {
					continue
				}
				et := &c11E2ETask{feature: string(f), target: map[corev1.ResourceName]int64{}, classes: map[string]bool{}}
				for r, q := range task.ToReleaseResource {
					et.target[r] = q.Value()
					switch r {
					case apiext.BatchMemory:
						et.classes["koord-batch"] = true
					case apiext.MidMemory:
						et.classes["koord-mid"] = true
					}
				}
				tasks = append(tasks, et)
			}
		}
		var tdesc []string
		for _, tk := range tasks {
			var ks []string
			for r := range tk.target {
				ks = append(ks, fmt.Sprintf("%s:%d", r, tk.target[r]))
			}
			sort.Strings(ks)
			tdesc = append(tdesc, fmt.Sprintf("computed target of %s: {%s}", tk.feature, strings.Join(ks, " ")))
		}

		s.m.memoryEvict()

		var cdesc []string
		for _, cl := range ex.calls {
			if cl.Asked {
				cdesc = append(cdesc, fmt.Sprintf("IsPodEvicted(%s)=true", cl.Pod.Name))
			} else {
				cdesc = append(cdesc, fmt.Sprintf("Evict(%s by %s)=%v", cl.Pod.Name, cl.Feature, cl.OK))
			}
		}
		describe := func() string {
			return s.describe(append(append([]string{fmt.Sprintf("feature gates on: %v; executor remembers its evictions=%v", on, ex.mark)}, tdesc...), "calls: "+strings.Join(cdesc, " "))...)
		}
		if len(ex.garbled) > 0 {
			c.Violation(t, "e2e:unknown-pod-or-reason", "executor got calls that name no generated pod / feature: %v%s", ex.garbled, describe())
			return
		}

		// credit of a victim towards a task's target: `lo` is what the task's own published accounting certainly
		// counts, `hi` whether the pod's removal frees any of resource r at all
		lo := func(tk *c11E2ETask, p *c11Pod, r corev1.ResourceName) int64 {
			if tk.feature == string(features.MemoryAllocatableEvict) {
				rn, v := p.memRequest()
				if rn == r && tk.classes[p.class()] {
					return v
				}
				return 0
			}
			if r == corev1.ResourceMemory && p.HasMetric {
				return p.Metric
			}
			return 0
		}
		hiPositive := func(tk *c11E2ETask, p *c11Pod, r corev1.ResourceName) (positive, unknown bool) {
			if tk.feature == string(features.MemoryAllocatableEvict) {
				rn, v := p.memRequest()
				return rn == r && v > 0, false
			}
			if r != corev1.ResourceMemory {
				return false, false
			}
			if !p.HasMetric {
				return false, true // usage unknown: cannot say it frees nothing
			}
			return p.Metric > 0, false
		}
		taskOf := map[string]*c11E2ETask{}
		for _, tk := range tasks {
			taskOf[tk.feature] = tk
		}
		var victims []*c11Pod
		isVictim := map[int]bool{}
		succeeded := map[int]bool{}
		remaining := func(tk *c11E2ETask, r corev1.ResourceName) int64 {
			rem := tk.target[r]
			for _, v := range victims {
				rem -= lo(tk, v, r)
			}
			return rem
		}
		sawFail, sawPending, sawNoMetricEvicted, sawFreesNothingOwn := false, false, false, false
		var deferred []func() bool
		for _, cl := range ex.calls {
			p := cl.Pod
			if cl.Asked {
				if !isVictim[p.Idx] {
					isVictim[p.Idx] = true
					victims = append(victims, p)
					sawPending = true
				}
				continue
			}
			// eligible victims only
			var why string
			switch cl.Feature {
			case string(features.BEMemoryEvict):
				if !p.isBE() {
					why = "it is not best-effort"
				}
			case string(features.MemoryEvict), string(features.MemoryAllocatableEvict):
				th := s.cfg.EvictEnabledPriorityThreshold
				if cl.Feature == string(features.MemoryAllocatableEvict) {
					th = s.cfg.AllocatableEvictPriorityThreshold
				}
				switch {
				case th == nil:
					why = "no priority threshold is configured"
				case p.prio() > *th:
					why = fmt.Sprintf("its priority %d is above the threshold %d", p.prio(), *th)
				case !p.evictEnabled():
					why = "eviction is not enabled for it"
				case !p.active():
					why = "it is not active"
				}
			default:
				why = "unknown feature"
			}
			if why == "" && !p.allows(cl.Feature) {
				why = fmt.Sprintf("it opted out of this policy (annotation %q)", p.PolicyAnn.Value)
			}
			if why == "" && !gates[cl.Feature] {
				why = "the feature is switched off"
			}
			if why != "" {
				c.Violation(t, "e2e:ineligible-victim", "%s evicted %s although %s%s", cl.Feature, p.Name, why, describe())
				return
			}
			if p.alreadyEvic {
				c.Violation(t, "e2e:already-evicted-pod-evicted-again", "%s evicted %s which is already evicted%s", cl.Feature, p.Name, describe())
				return
			}
			if succeeded[p.Idx] {
				c.Violation(t, "e2e:pod-evicted-twice", "%s evicted %s a second time%s", cl.Feature, p.Name, describe())
				return
			}
			tk := taskOf[cl.Feature]
			if tk == nil {
				c.Violation(t, "e2e:evict-without-target", "%s evicted %s although it computed no release target%s", cl.Feature, p.Name, describe())
				return
			}
			met := true
			for r, v := range tk.target {
				if v > 0 && remaining(tk, r) > 0 {
					met = false
				}
			}
			if met {
				c.Violation(t, "e2e:after-target-met", "%s evicted %s although its target was already covered by the victims so far%s", cl.Feature, p.Name, describe())
				return
			}
			helps := func(tj *c11E2ETask) bool {
				for _, r := range []corev1.ResourceName{corev1.ResourceMemory, apiext.BatchMemory, apiext.MidMemory} {
					if tj.target[r] > 0 && remaining(tj, r) > 0 {
						pos, unknown := hiPositive(tj, p, r)
						if unknown {
							sawNoMetricEvicted = true
						}
						if pos || unknown {
							return true
						}
					}
				}
				return false
			}
			if !helps(tk) {
				sawFreesNothingOwn = true
				any := false
				for _, tj := range tasks {
					if helps(tj) {
						any = true
					}
				}
				if !any {
					feat, name := cl.Feature, p.Name
					var short []string
					for _, r := range []corev1.ResourceName{corev1.ResourceMemory, apiext.BatchMemory, apiext.MidMemory} {
						if tk.target[r] > 0 && remaining(tk, r) > 0 {
							short = append(short, fmt.Sprintf("%s:%d", r, remaining(tk, r)))
						}
					}
					rn, rv := p.memRequest()
					c.Class("victim-frees-nothing-by:" + feat)
					deferred = append(deferred, func() bool {
						return c.Violation(t, "evict:victim-frees-nothing", "%s evicted %s although it frees nothing of what is still short (%s): the pod holds %s=%d by request and uses %d%s",
							feat, name, strings.Join(short, " "), rn, rv, p.Metric, describe())
					})
				}
			}
			if cl.OK {
				succeeded[p.Idx] = true
				if !isVictim[p.Idx] {
					isVictim[p.Idx] = true
					victims = append(victims, p)
				}
			} else {
				sawFail = true
			}
		}
		nEvict := 0
		for _, cl := range ex.calls {
			if !cl.Asked {
				nEvict++
			}
		}
		ineligiblePresent := false
		for _, p := range s.pods {
			for _, tk := range tasks {
				ok := p.allows(tk.feature)
				switch tk.feature {
				case string(features.BEMemoryEvict):
					ok = ok && p.isBE()
				case string(features.MemoryEvict):
					ok = ok && p.allowedByPriority(tk.feature, *s.cfg.EvictEnabledPriorityThreshold)
				case string(features.MemoryAllocatableEvict):
					ok = ok && p.allowedByPriority(tk.feature, *s.cfg.AllocatableEvictPriorityThreshold)
				}
				if !ok {
					ineligiblePresent = true
				}
			}
		}
		c.Class(fmt.Sprintf("tasks:%d", len(tasks)))
		if tk := taskOf[string(features.MemoryAllocatableEvict)]; tk != nil {
			helperVictim, exact := false, false
			for _, v := range victims {
				if rn, _ := v.memRequest(); v.hasHelperFor(rn) && tk.target[rn] > 0 {
					helperVictim = true
				}
			}
			for r, tv := range tk.target {
				var have int64
				for _, v := range victims {
					have += lo(tk, v, r)
				}
				if tv > 0 && have == tv {
					exact = true
				}
			}
			c.ClassIf(helperVictim, "allocatable-victim-with-request-less-helper-container")
			c.ClassIf(exact, "allocatable-target-hit-exactly-by-the-victims-requests")
			c.ClassIf(helperVictim && exact, "allocatable:helper-container-victim+exact-target")
		}
		c.ClassIf(nEvict > 0, "some-eviction")
		c.ClassIf(nEvict >= 2, "two-or-more-evict-calls")
		c.ClassIf(sawFail, "eviction-call-failed")
		c.ClassIf(sawPending, "already-evicted-pod-counted")
		c.ClassIf(sawNoMetricEvicted, "pod-without-usage-sample-evicted(frees-nothing not asserted)")
		c.ClassIf(sawFreesNothingOwn, "evicted-pod-frees-nothing-for-own-task")
		c.ClassIf(sawFreesNothingOwn && len(deferred) == 0, "evicted-pod-frees-nothing-for-own-task-but-helps-another(not asserted)")
		for _, tk := range tasks {
			c.Class("task:" + tk.feature)
		}
		if nEvict > 0 && ineligiblePresent && len(tasks) > 0 {
			c.NonTrivial(describe())
		}
		if c.WantSample() {
			c.Sample(map[string]any{"scene": strings.Split(strings.TrimSpace(describe()), "\n  ")})
		}
		for _, d := range deferred {
			if d() {
				return
			}
		}
	})
}
