//go:build verif

// C11 — unit "cpuRounds": several consecutive rounds of cpuEvict() with the REAL evictor (eviction API on a fake
// clientset, the evictor's own memory of what it evicted). Between two rounds a pod that was evicted earlier usually
// stays around as a terminating pod (metadata.deletionTimestamp set, still reported by the informer, still included
// in the node usage and in the requests), sometimes stays without the timestamp (stale informer) and sometimes is gone.
//
// Oracle (statement: "eviction stops as soon as the resources released by victims, including pods already evicted but
// still terminating, cover the computed target ... no pod is evicted twice"), per round, on the calls the executor sees:
//   - a pod evicted successfully in an earlier round never gets a second Evict call;
//   - every victim is a pod the policy of the calling feature allows;
//   - at the moment of an Evict call of feature F for pod B, the target of F is not yet covered by
//     (a) the victims of this round so far (successes + pods the evictor reported as already evicted), together with
//     (b) the pods evicted in earlier rounds that are still present, that the policy of F allows, and that come strictly
//     before B in the published order (signature rounds:terminating-victim-ahead-in-order-not-credited), or
//     (c) all such pods wherever they stand in the order (signature evict:pending-release-later-in-list-not-credited).
//
// All rules (eligibility, order, credit) are the restated ones of c11_cpu_test.go, evaluated on the generated description.
package cpuevict

import (
	"fmt"
	"sort"
	"strings"
	"testing"
	"time"

	corev1 "k8s.io/api/core/v1"
	policyv1 "k8s.io/api/policy/v1"
	metav1 "k8s.io/apimachinery/pkg/apis/meta/v1"
	"k8s.io/apimachinery/pkg/runtime"
	clientsetfake "k8s.io/client-go/kubernetes/fake"
	clienttesting "k8s.io/client-go/testing"
	"k8s.io/component-base/featuregate"
	"pgregory.net/rapid"

	apiext "github.com/koordinator-sh/koordinator/apis/extension"
	"github.com/koordinator-sh/koordinator/pkg/features"
	"github.com/koordinator-sh/koordinator/pkg/koordlet/metriccache"
	qosmanagerUtil "github.com/koordinator-sh/koordinator/pkg/koordlet/qosmanager/plugins/util"
	"github.com/koordinator-sh/koordinator/pkg/koordlet/statesinformer"
	"github.com/koordinator-sh/koordinator/pkg/verifkit/vk"
)

type c11NopRecorder struct{}

func (c11NopRecorder) Event(runtime.Object, string, string, string)          {}
func (c11NopRecorder) Eventf(runtime.Object, string, string, string, ...any) {}
func (c11NopRecorder) AnnotatedEventf(runtime.Object, map[string]string, string, string, string, ...any) {
}

// c11RealExec records what the loop asks of the default executor (real Evictor, eviction by API only)
type c11RealExec struct {
	inner   *qosmanagerUtil.DefaultEvictionExecutor
	byKey   map[string]*c11Pod
	calls   []c11Call
	garbled []string
}

func (e *c11RealExec) Evict(pod *corev1.Pod, node *corev1.Node, releaseReason string, message string) bool {
	p := e.byKey[pod.Namespace+"/"+pod.Name]
	feat := ""
	if strings.HasPrefix(message, qosmanagerUtil.EvictReasonPrefix) {
		feat = strings.TrimPrefix(message, qosmanagerUtil.EvictReasonPrefix)
		if i := strings.Index(feat, ","); i >= 0 {
			feat = feat[:i]
		}
	}
	if p == nil || feat == "" {
		e.garbled = append(e.garbled, fmt.Sprintf("Evict(%s/%s,%q)", pod.Namespace, pod.Name, message))
		return false
	}
	res := e.inner.Evict(pod, node, releaseReason, message)
	e.calls = append(e.calls, c11Call{Pod: p, Feature: feat, OK: res})
	return res
}

func (e *c11RealExec) IsPodEvicted(pod *corev1.Pod) bool {
	p := e.byKey[pod.Namespace+"/"+pod.Name]
	if p == nil {
		e.garbled = append(e.garbled, fmt.Sprintf("IsPodEvicted(%s/%s)", pod.Namespace, pod.Name))
		return false
	}
	res := e.inner.IsPodEvicted(pod)
	if res {
		e.calls = append(e.calls, c11Call{Pod: p, Asked: true, OK: true})
	}
	return res
}

// the policy of the feature allows the pod and nothing else keeps it off the feature's victim list
func c11Listable(s *c11Scene, feature string, p *c11Pod) bool {
	switch feature {
	case string(features.BECPUEvict):
		return p.isBE() && p.allows(feature)
	case string(features.CPUEvict):
		th := s.cfg.EvictEnabledPriorityThreshold
		return th != nil && p.allowedByPriority(feature, *th) && p.HasMetric
	case string(features.CPUAllocatableEvict):
		th := s.cfg.AllocatableEvictPriorityThreshold
		return th != nil && p.allowedByPriority(feature, *th) && p.HasMetric
	}
	return false
}

// a comes before b in the published order of the feature's victim list under every reading (ties: false)
func c11Precedes(feature string, a, b *c11Pod) bool {
	if feature == string(features.BECPUEvict) {
		if a.Prio == nil || b.Prio == nil {
			return false
		}
		if *a.Prio != *b.Prio {
			return *a.Prio < *b.Prio
		}
		// usage / request ratio, bigger first (0 without batch-cpu request or without usage sample); compared exactly
		ua, ra := a.Metric*c11Unit, a.sumReq(apiext.BatchCPU)
		ub, rb := b.Metric*c11Unit, b.sumReq(apiext.BatchCPU)
		if ra <= 0 {
			ua, ra = 0, 1
		}
		if rb <= 0 {
			ub, rb = 0, 1
		}
		return ua*rb > ub*ra
	}
	if ea, eb := a.evictionPriority(), b.evictionPriority(); ea != eb {
		return ea < eb
	}
	if pa, pb := a.prio(), b.prio(); pa != pb {
		return pa < pb
	}
	sub := func(p *c11Pod) int64 {
		if feature == string(features.CPUEvict) {
			return p.Metric
		}
		_, v := p.cpuRequest()
		return v
	}
	return a.labelPriority() <= b.labelPriority() && sub(a) > sub(b)
}

func TestVerifC11CPURounds(t *testing.T) { c11RunRounds(t, "cpuRounds", false) }

// the same histories, with spec.terminationGracePeriodSeconds set on the pods (nil / 0 / small / large): what the evictor
// remembers about a victim must not depend on it
func TestVerifC11CPURoundsGrace(t *testing.T) { c11RunRounds(t, "cpuRoundsGrace", true) }

func c11RunRounds(t *testing.T, unit string, withGrace bool) {
	rec := vk.New(t, "C11", unit)
	savedFactory := metriccache.DefaultAggregateResultFactory
	feats := []featuregate.Feature{features.BECPUEvict, features.CPUAllocatableEvict, features.CPUEvict}
	savedGates := map[string]bool{}
	for _, f := range feats {
		savedGates[string(f)] = features.DefaultKoordletFeatureGate.Enabled(f)
	}
	defer func() {
		metriccache.DefaultAggregateResultFactory = savedFactory
		_ = features.DefaultMutableKoordletFeatureGate.SetFromMap(savedGates)
	}()
	deleted := metav1.NewTime(time.Unix(1700000000, 0))
	rapid.Check(t, func(t *rapid.T) {
		c := rec.Begin()
		defer c.End()
		s := c11GenScene(t)
		var history []string
		grace := map[int]int64{} // pod index -> terminationGracePeriodSeconds (absent: field unset)
		if withGrace {
			var gdesc []string
			for _, p := range s.pods {
				g := rapid.SampledFrom([]int64{-1, 0, 0, 30, 1, 0, 3600}).Draw(t, "terminationGracePeriodSeconds")
				if g >= 0 {
					grace[p.Idx] = g
					v := g
					p.pod.Spec.TerminationGracePeriodSeconds = &v
					gdesc = append(gdesc, fmt.Sprintf("%s:%d", p.Name, g))
				}
			}
			history = append(history, "spec.terminationGracePeriodSeconds: "+strings.Join(gdesc, " "))
		}
		// most cases: moderate, lasting cpu pressure, so that the first round evicts a pod or two and leaves candidates
		if rapid.IntRange(0, 3).Draw(t, "moderatePressure") > 0 {
			on := true
			s.cfg.Enable = &on
			th := int64(50)
			if s.cfg.CPUEvictThresholdPercent != nil && *s.cfg.CPUEvictThresholdPercent >= 10 && *s.cfg.CPUEvictThresholdPercent <= 90 {
				th = *s.cfg.CPUEvictThresholdPercent
			}
			s.cfg.CPUEvictThresholdPercent = &th
			lower := th - rapid.Int64Range(1, 4).Draw(t, "pressureLowerGap")
			s.cfg.CPUEvictLowerPercent = &lower
			used := float64(th+rapid.Int64Range(0, 4).Draw(t, "pressureOverThreshold")) / 8 // cores; one percent of the node is 1/8 core
			if s.met.nodeUse == nil {
				s.met.nodeUse = new(float64)
			}
			*s.met.nodeUse = used
			history = append(history, fmt.Sprintf("(overrides the thresholds above) enable=true cpuEvict=%d/lower %d, node cpu used=%v cores", th, lower, used))
		}
		gates := map[string]bool{}
		var on []featuregate.Feature
		for _, f := range feats {
			gates[string(f)] = rapid.IntRange(0, 9).Draw(t, "gate-"+string(f)) > 0
			if gates[string(f)] {
				on = append(on, f)
			}
		}
		if err := features.DefaultMutableKoordletFeatureGate.SetFromMap(gates); err != nil {
			t.Fatalf("cannot set feature gates: %v", err)
		}
		failBias := rapid.SampledFrom([]int{0, 1, 2}).Draw(t, "failBias")
		byName := map[string]*c11Pod{}
		nCalls := map[string]int{}
		for _, p := range s.pods {
			byName[p.Name] = p
			for i := 0; i < 4; i++ {
				p.outcomes = append(p.outcomes, rapid.IntRange(0, 3).Draw(t, "evictFails") >= failBias)
			}
		}
		// the real evictor in front of a fake API server whose eviction subresource fails by the generated pattern
		client := clientsetfake.NewSimpleClientset()
		client.PrependReactor("create", "pods", func(action clienttesting.Action) (bool, runtime.Object, error) {
			if action.GetSubresource() != "eviction" {
				return false, nil, nil
			}
			name := ""
			if ca, ok := action.(clienttesting.CreateAction); ok {
				if ev, ok := ca.GetObject().(*policyv1.Eviction); ok {
					name = ev.Name
				}
			}
			p := byName[name]
			if p == nil {
				return true, nil, fmt.Errorf("eviction of unknown pod %q", name)
			}
			ok := true
			if n := nCalls[name]; n < len(p.outcomes) {
				ok = p.outcomes[n]
			} else if len(p.outcomes) > 0 {
				ok = p.outcomes[len(p.outcomes)-1]
			}
			nCalls[name]++
			if !ok {
				return true, nil, fmt.Errorf("eviction refused (generated)")
			}
			return true, nil, nil
		})
		evictor := qosmanagerUtil.NewEvictor(client, c11NopRecorder{}, policyv1.SchemeGroupVersion.Version)
		stop := make(chan struct{})
		_ = evictor.Start(stop)
		defer close(stop)
		ex := &c11RealExec{inner: &qosmanagerUtil.DefaultEvictionExecutor{OnlyEvictByAPI: true, Evictor: evictor}, byKey: map[string]*c11Pod{}}
		for _, p := range s.pods {
			ex.byKey["ns/"+p.Name] = p
		}
		s.m.evictExecutor = ex
		si := s.m.statesInformer.(*c11SI)

		// credit in Quantity milli-units, as in the end-to-end unit
		lo := func(tk *c11E2ETask, p *c11Pod, r corev1.ResourceName) int64 {
			switch tk.feature {
			case string(features.BECPUEvict):
				if r == apiext.BatchCPU {
					return p.sumReq(apiext.BatchCPU) * 1000
				}
			case string(features.CPUAllocatableEvict):
				rn, v := p.cpuRequest()
				if rn == r && tk.classes[p.class()] {
					if r == corev1.ResourceCPU {
						return v
					}
					return v * 1000
				}
			case string(features.CPUEvict):
				if r == corev1.ResourceCPU && p.HasMetric {
					return p.Metric * c11Unit
				}
			}
			return 0
		}

		// the most any reading of the accounting can credit a victim with (BECPUEvict and CPUAllocatableEvict share a target type)
		hi := func(tk *c11E2ETask, p *c11Pod, r corev1.ResourceName) int64 {
			switch tk.feature {
			case string(features.BECPUEvict), string(features.CPUAllocatableEvict):
				var m int64
				if rn, v := p.cpuRequest(); rn == r {
					m = v * 1000
					if r == corev1.ResourceCPU {
						m = v
					}
				}
				if r == apiext.BatchCPU && p.sumReq(apiext.BatchCPU)*1000 > m {
					m = p.sumReq(apiext.BatchCPU) * 1000
				}
				return m
			case string(features.CPUEvict):
				if r == corev1.ResourceCPU && p.HasMetric {
					return p.Metric * c11Unit
				}
			}
			return 0
		}

		const (
			stPresent = iota
			stTerminating
			stGone
		)
		state := map[int]int{}
		evictedEarlier := map[int]bool{}
		describe := func() string { return s.describe(history...) }
		nRounds := rapid.IntRange(2, 3).Draw(t, "rounds")
		sawTerminating, sawStale, sawGone, sawPendingCoversNoEvict, sawEvictBeyondPending, sawShape, sawFail, sawRetry := false, false, false, false, false, false, false, false
		var deferred []func() bool
		sawZeroGracePending, sawGracePending := false, false
		sawFailedPodNotAccepted, sawUncoveredAtEnd, sawRetriedWhileUncovered := false, false, false
		for round := 1; round <= nRounds; round++ {
			if round > 1 {
				// what became of the earlier victims
				for _, p := range s.pods {
					if !evictedEarlier[p.Idx] || state[p.Idx] == stGone {
						continue
					}
					next := rapid.SampledFrom([]int{stTerminating, stTerminating, stTerminating, stGone, stPresent, stTerminating, stGone, stTerminating}).Draw(t, fmt.Sprintf("round%d-fate-%s", round, p.Name))
					if state[p.Idx] == stTerminating && next == stPresent {
						next = stTerminating
					}
					switch next {
					case stTerminating:
						if state[p.Idx] != stTerminating {
							cp := p.pod.DeepCopy()
							cp.DeletionTimestamp = &deleted
							grace := int64(30)
							cp.DeletionGracePeriodSeconds = &grace
							p.pod = cp
							for _, m := range si.pods {
								if m.Pod.Name == p.Name {
									m.Pod = cp
								}
							}
							history = append(history, fmt.Sprintf("before round %d: %s is terminating (deletionTimestamp set, still present and still counted)", round, p.Name))
						}
						sawTerminating = true
					case stPresent:
						history = append(history, fmt.Sprintf("before round %d: %s still present without deletionTimestamp", round, p.Name))
						sawStale = true
					case stGone:
						var keep []*statesinformer.PodMeta
						for _, m := range si.pods {
							if m.Pod.Name != p.Name {
								keep = append(keep, m)
							}
						}
						si.pods = keep
						if p.HasMetric && s.met.nodeUse != nil {
							*s.met.nodeUse -= float64(p.Metric) / 8
							if *s.met.nodeUse < 0 {
								*s.met.nodeUse = 0
							}
						}
						history = append(history, fmt.Sprintf("before round %d: %s is gone (node usage drops by %d/8 cores)", round, p.Name, p.Metric))
						sawGone = true
					}
					state[p.Idx] = next
				}
			}
			// the computed targets of this round (taken as given)
			var tasks []*c11E2ETask
			if s.cfg.Enable != nil && *s.cfg.Enable {
				for _, f := range on {
					task, err := s.m.buildEvictTask(f, si.GetNodeSLO(), s.node)
					if err != nil || task == nil {
						continue
					}
					et := &c11E2ETask{feature: string(f), target: map[corev1.ResourceName]int64{}, classes: map[string]bool{}}
					for r, q := range task.ToReleaseResource {
						et.target[r] = q.MilliValue()
						switch r {
						case apiext.BatchCPU:
							et.classes["koord-batch"] = true
						case apiext.MidCPU:
							et.classes["koord-mid"] = true
						}
					}
					tasks = append(tasks, et)
				}
			}
			taskOf := map[string]*c11E2ETask{}
			for _, tk := range tasks {
				taskOf[tk.feature] = tk
				var ks []string
				for r := range tk.target {
					ks = append(ks, fmt.Sprintf("%s:%d", r, tk.target[r]))
				}
				sort.Strings(ks)
				history = append(history, fmt.Sprintf("round %d: computed target of %s (1/1000 of the resource unit): {%s}", round, tk.feature, strings.Join(ks, " ")))
			}
			ex.calls = nil
			s.m.lastEvictTime = time.Time{} // the cooling time is over
			s.m.cpuEvict()
			var cdesc []string
			for _, cl := range ex.calls {
				if cl.Asked {
					cdesc = append(cdesc, fmt.Sprintf("IsPodEvicted(%s)=true", cl.Pod.Name))
				} else {
					cdesc = append(cdesc, fmt.Sprintf("Evict(%s by %s)=%v", cl.Pod.Name, cl.Feature, cl.OK))
				}
			}
			history = append(history, fmt.Sprintf("round %d calls: %s", round, strings.Join(cdesc, " ")))
			if len(ex.garbled) > 0 {
				c.Violation(t, "e2e:unknown-pod-or-reason", "executor got calls that name no generated pod / feature: %v%s", ex.garbled, describe())
				return
			}

			// pods evicted in an earlier round that are still around
			var pending []*c11Pod
			for _, p := range s.pods {
				if evictedEarlier[p.Idx] && state[p.Idx] != stGone {
					pending = append(pending, p)
					if g, ok := grace[p.Idx]; ok && len(tasks) > 0 {
						if g == 0 {
							sawZeroGracePending = true
						} else {
							sawGracePending = true
						}
					}
				}
			}
			// the shape this unit is about: a positive target, an earlier victim still present and allowed for the task,
			// and a fresh candidate allowed for the same task
			for _, tk := range tasks {
				pos := false
				for _, v := range tk.target {
					if v > 0 {
						pos = true
					}
				}
				hasPend, hasFresh := false, false
				for _, p := range pending {
					if c11Listable(s, tk.feature, p) {
						hasPend = true
					}
				}
				for _, p := range s.pods {
					if !evictedEarlier[p.Idx] && state[p.Idx] != stGone && c11Listable(s, tk.feature, p) {
						hasFresh = true
					}
				}
				if pos && hasPend && hasFresh {
					sawShape = true
				}
			}

			var victims []*c11Pod
			isVictim := map[int]bool{}
			covered := func(tk *c11E2ETask, extra []*c11Pod) bool {
				for r, v := range tk.target {
					if v <= 0 {
						continue
					}
					var have int64
					for _, x := range victims {
						have += lo(tk, x, r)
					}
					for _, x := range extra {
						have += lo(tk, x, r)
					}
					if have < v {
						return false
					}
				}
				return true
			}
			// the other direction of "stops as soon as the release of the victims covers the target": only pods whose
			// eviction was ACCEPTED are victims. `accepted` = successes of this round so far + earlier successes still present.
			var accepted []*c11Pod
			isAccepted := map[int]bool{}
			for _, q := range pending {
				accepted = append(accepted, q)
				isAccepted[q.Idx] = true
			}
			askedBy := map[string]map[int]bool{}
			// r is certainly still short for tk even when every accepted victim is credited with the most any reading allows
			shortFor := func(tk *c11E2ETask, r corev1.ResourceName) bool {
				v := tk.target[r]
				if v <= 0 {
					return false
				}
				for _, x := range accepted {
					v -= hi(tk, x, r)
				}
				return v > 0
			}
			// q certainly frees something tk is still short of
			helps := func(tk *c11E2ETask, q *c11Pod) (corev1.ResourceName, bool) {
				var rs []string
				for r := range tk.target {
					rs = append(rs, string(r))
				}
				sort.Strings(rs)
				for _, r := range rs {
					if shortFor(tk, corev1.ResourceName(r)) && lo(tk, q, corev1.ResourceName(r)) > 0 {
						return corev1.ResourceName(r), true
					}
				}
				return "", false
			}
			nEvict := 0
			for _, cl := range ex.calls {
				p := cl.Pod
				if cl.Asked {
					if !isVictim[p.Idx] {
						isVictim[p.Idx] = true
						victims = append(victims, p)
					}
					continue
				}
				nEvict++
				if evictedEarlier[p.Idx] {
					c.Violation(t, "e2e:pod-evicted-twice", "round %d: %s evicted %s, which was evicted successfully in an earlier round%s", round, cl.Feature, p.Name, describe())
					return
				}
				if nCalls[p.Name] > 1 {
					sawRetry = true
				}
				var why string
				switch cl.Feature {
				case string(features.BECPUEvict):
					if !p.isBE() {
						why = "it is not best-effort"
					}
				case string(features.CPUEvict), string(features.CPUAllocatableEvict):
					th := s.cfg.EvictEnabledPriorityThreshold
					if cl.Feature == string(features.CPUAllocatableEvict) {
						th = s.cfg.AllocatableEvictPriorityThreshold
					}
					switch {
					case th == nil:
						why = "no priority threshold is configured"
					case p.prio() > *th:
						why = fmt.Sprintf("its priority %d is above the threshold %d", p.prio(), *th)
					case !p.evictEnabled():
						why = "eviction is not enabled for it"
					case !p.active():
						why = "it is not active"
					}
				default:
					why = "unknown feature"
				}
				if why == "" && !p.allows(cl.Feature) {
					why = fmt.Sprintf("it opted out of this policy (annotation %q)", p.PolicyAnn.Value)
				}
				if why == "" && !gates[cl.Feature] {
					why = "the feature is switched off"
				}
				if why != "" {
					c.Violation(t, "e2e:ineligible-victim", "round %d: %s evicted %s although %s%s", round, cl.Feature, p.Name, why, describe())
					return
				}
				tk := taskOf[cl.Feature]
				if tk == nil {
					c.Violation(t, "e2e:evict-without-target", "round %d: %s evicted %s although it computed no release target%s", round, cl.Feature, p.Name, describe())
					return
				}
				if covered(tk, nil) {
					c.Violation(t, "e2e:after-target-met", "round %d: %s evicted %s although its target was already covered by the victims of this round so far%s", round, cl.Feature, p.Name, describe())
					return
				}
				// the best-effort comparison is only a total order when every pod of the list carries spec.priority
				orderDefined := true
				if cl.Feature == string(features.BECPUEvict) {
					for _, q := range s.pods {
						if state[q.Idx] != stGone && q.Prio == nil && c11Listable(s, cl.Feature, q) {
							orderDefined = false
						}
					}
				}
				var ahead, all []*c11Pod
				for _, q := range pending {
					if isVictim[q.Idx] || !c11Listable(s, cl.Feature, q) {
						continue
					}
					all = append(all, q)
					if orderDefined && c11Precedes(cl.Feature, q, p) {
						ahead = append(ahead, q)
					}
				}
				names := func(l []*c11Pod) []string {
					out := make([]string, len(l))
					for i, x := range l {
						out[i] = x.Name
					}
					return out
				}
				if len(ahead) > 0 && covered(tk, ahead) {
					c.Violation(t, "rounds:terminating-victim-ahead-in-order-not-credited",
						"round %d: %s evicted %s although %v, evicted in an earlier round, still present and ahead of %s in the published order, together with this round's victims %v already cover the target%s",
						round, cl.Feature, p.Name, names(ahead), p.Name, names(victims), describe())
					return
				}
				if len(all) > 0 && covered(tk, all) {
					rr, feat, name, an, vn := round, cl.Feature, p.Name, names(all), names(victims)
					deferred = append(deferred, func() bool {
						return c.Violation(t, "evict:pending-release-later-in-list-not-credited",
							"round %d: %s evicted %s although %v, evicted in an earlier round and still present (not ahead of %s in the order), together with this round's victims %v already cover the target%s",
							rr, feat, name, an, name, vn, describe())
					})
				}
				// published order: no eligible, not yet evicted pod that certainly still helps is passed over
				if orderDefined {
					for _, q := range s.pods {
						if q == p || state[q.Idx] == stGone || isAccepted[q.Idx] || askedBy[cl.Feature][q.Idx] || !c11Listable(s, cl.Feature, q) || !c11Precedes(cl.Feature, q, p) {
							continue
						}
						if r, ok := helps(tk, q); ok {
							c.Violation(t, "rounds:candidate-ahead-in-order-not-asked",
								"round %d: %s evicted %s without asking for %s first, which is ahead of it in the published order, has not been evicted (no accepted eviction) and frees %d of %s that is still short%s",
								round, cl.Feature, p.Name, q.Name, lo(tk, q, r), r, describe())
							return
						}
					}
				}
				if askedBy[cl.Feature] == nil {
					askedBy[cl.Feature] = map[int]bool{}
				}
				askedBy[cl.Feature][p.Idx] = true
				if cl.OK {
					if !isAccepted[p.Idx] {
						isAccepted[p.Idx] = true
						accepted = append(accepted, p)
					}
					if !isVictim[p.Idx] {
						isVictim[p.Idx] = true
						victims = append(victims, p)
					}
				} else {
					sawFail = true
				}
			}
			// end of the round: a task whose target the accepted victims do not cover must have asked for every eligible,
			// not yet evicted pod that certainly still helps (eviction may stop only when the target is covered)
			for _, tk := range tasks {
				for _, q := range s.pods {
					if state[q.Idx] == stGone || isAccepted[q.Idx] || askedBy[tk.feature][q.Idx] || !c11Listable(s, tk.feature, q) {
						continue
					}
					if r, ok := helps(tk, q); ok {
						if nCalls[q.Name] > 0 {
							sawFailedPodNotAccepted = true
						}
						c.Violation(t, "rounds:stopped-short-without-asking-candidate",
							"round %d: %s stopped although the pods whose eviction was accepted (%v) do not cover its target, and never asked for %s, which the policy allows, has not been evicted (%d failed eviction calls so far) and frees %d of %s that is still short%s",
							round, tk.feature, c11PodNames(accepted), q.Name, nCalls[q.Name], lo(tk, q, r), r, describe())
						return
					}
				}
				uncovered := false
				for r := range tk.target {
					if shortFor(tk, r) {
						uncovered = true
					}
				}
				if uncovered {
					sawUncoveredAtEnd = true
					for _, q := range s.pods {
						if nCalls[q.Name] > 1 && askedBy[tk.feature][q.Idx] && !evictedEarlier[q.Idx] {
							sawRetriedWhileUncovered = true
						}
					}
				}
			}
			if round > 1 && len(pending) > 0 {
				for _, tk := range tasks {
					pos := false
					for _, v := range tk.target {
						if v > 0 {
							pos = true
						}
					}
					if !pos {
						continue
					}
					var mine []*c11Pod
					for _, q := range pending {
						if c11Listable(s, tk.feature, q) {
							mine = append(mine, q)
						}
					}
					save := victims
					victims = nil
					if len(mine) > 0 && covered(tk, mine) && nEvict == 0 {
						sawPendingCoversNoEvict = true
					}
					if len(mine) > 0 && !covered(tk, mine) && nEvict > 0 {
						sawEvictBeyondPending = true
					}
					victims = save
				}
			}
			for _, cl := range ex.calls {
				if !cl.Asked && cl.OK {
					evictedEarlier[cl.Pod.Idx] = true
				}
			}
		}
		c.ClassIf(sawTerminating, "earlier-victim-terminating-in-later-round")
		c.ClassIf(sawStale, "earlier-victim-present-without-deletionTimestamp")
		c.ClassIf(sawGone, "earlier-victim-gone")
		c.ClassIf(sawShape, "later-round:target+pending-victim+fresh-candidate")
		c.ClassIf(sawPendingCoversNoEvict, "later-round:pending-release-covers-target,no-eviction")
		c.ClassIf(sawEvictBeyondPending, "later-round:pending-release-insufficient,more-evicted")
		c.ClassIf(sawFail, "eviction-call-failed")
		c.ClassIf(sawRetry, "pod-retried-after-failed-eviction")
		c.ClassIf(len(deferred) > 0, "evicted-although-pending-victims-later-in-order-cover-target")
		c.Class(fmt.Sprintf("rounds:%d", nRounds))
		c.ClassIf(sawUncoveredAtEnd, "round-ends-with-target-not-covered-by-accepted-victims")
		c.ClassIf(sawRetriedWhileUncovered, "round-ends-uncovered:pod-with-earlier-failed-eviction-asked-again")
		_ = sawFailedPodNotAccepted
		c.ClassIf(sawZeroGracePending, "later-round-with-target:earlier-victim-with-grace-period-0-still-present")
		c.ClassIf(sawGracePending, "later-round-with-target:earlier-victim-with-grace-period>0-still-present")
		if (!withGrace && sawShape && sawTerminating) || (withGrace && sawZeroGracePending) {
			c.NonTrivial(describe())
		}
		if c.WantSample() {
			c.Sample(map[string]any{"scene": strings.Split(strings.TrimSpace(describe()), "\n  ")})
		}
		for _, d := range deferred {
			if d() {
				return
			}
		}
	})
}

func c11PodNames(l []*c11Pod) []string {
	out := make([]string, len(l))
	for i, x := range l {
		out[i] = x.Name
	}
	return out
}
